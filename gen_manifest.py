#!/usr/bin/env python3
"""regenerates MANIFEST.json from contracts/units.py (PROPS, NOT_APPLICABLE)"""
import json, os, sys
V = os.path.dirname(os.path.abspath(__file__))
sys.path.insert(0, os.path.join(V, "contracts"))
import units as U

checks = []
for pid in sorted(U.PROPS):
    m = U.PROPS[pid]
    us = [u for u in U.all_units() if pid in u.props]
    nb = sum(1 for u in us if u.kind == "bounded")
    checks.append({
        "property_id": pid,
        "quick_cmd": "python3 /verif/vp.py check %s --tier quick" % pid,
        "thorough_cmd": "python3 /verif/vp.py check %s --tier thorough" % pid,
        "evidence_file": "/verif/evidence/%s.json" % pid,
        "replay_cmd_template": "python3 /verif/vp.py replay {path}",
        "engine": "cbmc-dfcc",
        "level_claimed": {"category": m["level"], "text": m["explanation"] + " Slice decided: " + m.get("slice", "") + ". Not reached: " + m.get("not_reached", "") + (" %d of %d units are bounded stand-ins and are counted separately, never as proved." % (nb, len(us)) if nb else ""), "design_ref": m.get("design_ref", "DESIGN.md section 4 " + pid)},
        "level_note": "Trusted: " + "; ".join(m.get("trusted_base", [])) + ". Assumed: " + "; ".join(m.get("assumptions", [])),
        "technique": m.get("technique", "contract-based deductive verification: CBMC code contracts (requires/ensures/assigns, loop invariants/decreases) enforced per function with goto-instrument --dfcc on the unmodified /repo/src"),
    })
man = {
    "version": 1,
    "setup_cmd": "python3 /verif/vp.py setup",
    "hooks": {"guard": "MMD6_VERIF", "enable": "none needed: /repo/src is compiled unmodified by goto-cc; contracts, loop contracts and stubs live in /verif/contracts (guard name reserved, unused)",
              "baseline_off_cmd": "cmake --build /repo/_build && ctest --test-dir /repo/_build -j8 --timeout 900",
              "source_commits": [], "add_only": True},
    "engines": [{"name": "cbmc-dfcc", "path": "/verif/vp.py", "serves_properties": sorted(U.PROPS), "kind_free_text": "goto-cc + goto-instrument --dfcc (function contracts, loop contracts from file) + cbmc 6.11 SAT back end; native clang ASan/UBSan replay of counterexamples"}],
    "checks": checks,
    "notes": "Exit codes: 0 all obligations discharged; 1 VIOLATION; 2 inconclusive (timeout / SPEC-STALE / VACUOUS / tool error; never reported as a violation). Known findings: /verif/known_findings.txt.",
    "not_applicable": [{"property_id": k, "reason": v} for k, v in sorted(U.NOT_APPLICABLE.items()) if k not in U.PROPS],
}
json.dump(man, open(os.path.join(V, "MANIFEST.json"), "w"), indent=1)
print("MANIFEST.json: %d checks, %d not_applicable" % (len(checks), len(man["not_applicable"])))
