/* C02 family 2 -- line-type closure of strip_line_tokens_from_block (mmd.c, real): "converts every
 * remaining LINE_* child into inline tokens or a nested block before export".
 * Shape (bounded): a block of concrete type BTYPE whose children are 1..2 LINE tokens; the line types are
 * SYMBOLIC members of the set T of line kinds the block grammar (parser.y: chunk / nested_chunk / tail and
 * the %fallback chains onto LINE_CONTINUATION) can leave inside a text-carrying block; every line holds
 * 0..2 inline children (optionally led by an indent / non-indent-space token).
 * Obligation: after the call NO child of the block has a LINE_* type the writers have no arm for
 * (the writers' arms: LINE_LIST_BULLETED, LINE_LIST_ENUMERATED, LINE_SETEXT_2, LINE_FENCE_BACKTICK_3..5),
 * every inline token that was inside a line is now a child of the block, in order, and the chain is
 * consistently linked.  ALL_LINE_TYPES is generated from the headers by defs.py on every run. */
#include "verif.h"
#include <stdio.h>
#include "d_string.h"
#include "libMultiMarkdown.h"
#include "token.h"
#include "mmd.h"
#include "parser.h"

static const unsigned short ALL_LINES[] = { ALL_LINE_TYPES };
static const unsigned short T_LINES[] = { LINE_PLAIN, LINE_CONTINUATION, LINE_INDENTED_TAB, LINE_INDENTED_SPACE, LINE_STOP_COMMENT, LINE_START_COMMENT, LINE_EMPTY,
	LINE_BLOCKQUOTE, LINE_LIST_BULLETED, LINE_LIST_ENUMERATED, LINE_DEF_ABBREVIATION, LINE_DEF_CITATION, LINE_DEF_FOOTNOTE, LINE_DEF_GLOSSARY, LINE_DEF_LINK,
	LINE_DEFINITION, LINE_ATX_1, LINE_ATX_2, LINE_ATX_3, LINE_ATX_4, LINE_ATX_5, LINE_ATX_6, LINE_SETEXT_1, LINE_SETEXT_2, LINE_META, LINE_TABLE, LINE_TABLE_SEPARATOR };
#define NT (sizeof(T_LINES) / sizeof(T_LINES[0]))
#define NALL (sizeof(ALL_LINES) / sizeof(ALL_LINES[0]))

static bool writer_has_arm(unsigned short t) {
	return t == LINE_LIST_BULLETED || t == LINE_LIST_ENUMERATED || t == LINE_SETEXT_2 || t == LINE_FENCE_BACKTICK_3 || t == LINE_FENCE_BACKTICK_4 || t == LINE_FENCE_BACKTICK_5;
}
static bool is_line_type(unsigned short t) {
	bool r = false;
	for (size_t i = 0; i < NALL; i++) { if (ALL_LINES[i] == t) { r = true; } }
	return r;
}
static token * mk(unsigned short type, size_t start, size_t len) {
	token * t = ALLOC(sizeof(token));
	t->type = type; t->start = start; t->len = len; t->next = NULL; t->prev = NULL; t->child = NULL; t->tail = t; t->mate = NULL;
	t->can_open = 1; t->can_close = 1; t->unmatched = 1; t->out_start = 0; t->out_len = 0;
	return t;
}
static void add_child(token * p, token * c) { if (!p->child) { p->child = c; } else { p->child->tail->next = c; c->prev = p->child->tail; } p->child->tail = c; }

/* one line of `ninl` inline tokens (TEXT_PLAIN, 1 byte each) optionally led by an indent-ish token */
static token * g_inl[4]; static unsigned g_ninl;
static token * mk_line(unsigned short type, size_t * pos, unsigned lead, unsigned ninl) {
	token * l = mk(type, *pos, 0);
	if (lead == 1) { add_child(l, mk(NON_INDENT_SPACE, *pos, 1)); (*pos)++; }
	if (lead == 2) { add_child(l, mk(INDENT_SPACE, *pos, 4)); (*pos) += 4; }
	if (lead == 3) { add_child(l, mk(INDENT_TAB, *pos, 1)); (*pos)++; }
	for (unsigned i = 0; i < 2; i++) { if (i < ninl) { token * x = mk(TEXT_PLAIN, *pos, 1); g_inl[g_ninl++] = x; add_child(l, x); (*pos)++; } }
	add_child(l, mk(TEXT_NL, *pos, 1)); (*pos)++;
	l->len = *pos - l->start;
	return l;
}

/* every shape is CONCRETE (loops with constant bounds): symbolic line types / shapes make CBMC run out of memory */
/* the harness's inline tokens are TEXT_PLAIN; in a BLOCK_DEFINITION the first one of a LINE_DEFINITION (the colon in real
 * input) is retyped MARKER_DEFLIST_COLON by the function -- still the same token, still present */
/* ghost: the inline tokens put into the lines, by identity (declared above) */
static bool is_inl(token * t) { bool r = false; for (unsigned i = 0; i < 4; i++) { if (i < g_ninl && g_inl[i] == t) { r = true; } } return r; }
static void one_case(mmd_engine * e, unsigned i1, unsigned lead1, unsigned n1, bool two, unsigned i2) {
	size_t pos = 0; g_ninl = 0;
	token * block = mk(BTYPE, 0, 0);
	token * l1 = mk_line(T_LINES[i1], &pos, lead1, n1);
	add_child(block, l1);
	if (two) { token * l2 = mk_line(T_LINES[i2], &pos, 0, 1); add_child(block, l2); }
	block->len = pos;
	unsigned inl_before = n1 + (two ? 1 : 0);
	strip_line_tokens_from_block(e, block);
	unsigned plain = 0; token * prev = NULL; bool linked = true; bool closed = true; bool inside = true;
	token * c = block->child;
	for (int k = 0; k < 10; k++) {
		if (c) {
			if (c->prev != prev) { linked = false; }
			if (is_line_type(c->type) && !writer_has_arm(c->type)) { closed = false; }
			if (c->start + c->len > pos || c->start > pos) { inside = false; }        /* pos: end of the last line = end of the block */
			if (is_inl(c)) { plain++; }
			if (c->child) { token * g = c->child; for (int j = 0; j < 5; j++) { if (g) { if (is_inl(g)) { plain++; } g = g->next; } } }
			prev = c; c = c->next;
		}
	}
	ASSERT(c == NULL, "result chain has the expected bounded length");
	ASSERT(closed, "postcondition C02: no child of the block keeps a LINE_* type that the writers have no arm for");
	ASSERT(linked, "postcondition: children of the block are consistently linked");
	ASSERT(inside, "postcondition C15: every child of the block (markers created by the pass included) ends inside the block it came from");
	ASSERT(plain == inl_before, "postcondition C02: every inline token that was inside a line is still in the block (nothing dropped)");
}

void h_closure(void) {
	mmd_engine * e = ALLOC(sizeof(mmd_engine));
	DString * d = ALLOC(sizeof(DString)); d->str = ALLOC(32); for (int i = 0; i < 31; i++) { d->str[i] = 'a'; } d->str[31] = 0; d->currentStringLength = 31; d->currentStringBufferSize = 32;
	e->dstr = d; e->extensions = 0;
	for (unsigned i1 = 0; i1 < NT; i1++) {
		for (unsigned lead1 = 0; lead1 <= 3; lead1++) {
			one_case(e, i1, lead1, 1, false, 0);
		}
		one_case(e, i1, 0, 0, false, 0);
		one_case(e, i1, 0, 2, true, 0);        /* followed by a LINE_PLAIN */
		one_case(e, 0, 0, 1, true, i1);        /* LINE_PLAIN followed by this kind */
	}
	REACH();
}
