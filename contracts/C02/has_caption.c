/* C02 -- table_has_caption (writer.c, the real function): the paragraph after a table is taken as the table's CAPTION -- and then
 * skipped by the tree walker (units c02_table_caption_*: skipped iff rendered as caption; what is rendered as caption is the content
 * of the FIRST bracket pair only) -- so the answer may be `true` only if the paragraph holds nothing but the caption:
 *   ensures  result == true  ==>  after the caption's bracket pair the paragraph holds only: an optional label bracket pair
 *            (directly, or after ONE separating token: the space of "[caption] [label]"), then an optional line ending
 *   (every other token -- e.g. the text of "[caption] and some more words" -- would be dropped from the rendering without a trace;
 *    the function sees token kinds only, so that the separating token is blank is the caller's side: NOT checked here -- a
 *    paragraph "[caption] words [label]" still loses "words": stated in DESIGN.md, finding 35)
 * Shape: BLOCK_TABLE . BLOCK_PARA( PAIR_BRACKET x1 x2 x3 ), 0..3 following tokens of symbolic kinds out of
 * { PAIR_BRACKET, TEXT_PLAIN, TEXT_NL, TEXT_LINEBREAK }. */
#include "verif.h"
#include "d_string.h"
#include "token.h"
#include "writer.h"
#include "parser.h"
bool table_has_caption(token * t);
static token * mk(unsigned short type, size_t start, size_t len) {
	token * t = ALLOC(sizeof(token));
	t->type = type; t->start = start; t->len = len; t->next = NULL; t->prev = NULL; t->child = NULL; t->tail = t; t->mate = NULL;
	return t;
}
void h_has_caption(void) {
	token * table = mk(BLOCK_TABLE, 0, 4);
	token * para = mk(BLOCK_PARA, 4, 12); table->next = para; para->prev = table; table->tail = para;
	token * br = mk(PAIR_BRACKET, 4, 3); para->child = br;
	IN(unsigned, n); ASSUME(n <= 3);
	unsigned short ty[3]; token * last = br;
	for (unsigned i = 0; i < 3; i++) {
		IN(unsigned char, k); ASSUME(k <= 3);
		ty[i] = k == 0 ? PAIR_BRACKET : k == 1 ? TEXT_PLAIN : k == 2 ? TEXT_NL : TEXT_LINEBREAK;
		if (i < n) { token * x = mk(ty[i], 7 + 2 * i, 2); last->next = x; x->prev = last; last = x; }
	}
	br->tail = last;
	bool r = table_has_caption(table);
	/* the shapes that are a caption and nothing else */
	#define NLK(x) ((x) == TEXT_NL || (x) == TEXT_LINEBREAK)
	#define SEP(x) ((x) == TEXT_PLAIN || NLK(x))      /* the ONE token allowed between caption and label: the blank of "[caption] [label]" or a line ending */
	bool only_caption =
	    n == 0
	 || (n == 1 && (ty[0] == PAIR_BRACKET || NLK(ty[0])))
	 || (n == 2 && ((ty[0] == PAIR_BRACKET && NLK(ty[1])) || (SEP(ty[0]) && ty[1] == PAIR_BRACKET)))
	 || (n == 3 && SEP(ty[0]) && ty[1] == PAIR_BRACKET && NLK(ty[2]));
	ASSERT(!r || only_caption, "C02: a paragraph is taken as a table caption only if it holds nothing but the caption (and its label): anything else would be dropped");
	REACH();
}
