/* C02 -- "nothing is silently dropped": the BLOCK_TABLE arm of the per-token writers (html.c, latex.c, opendocument-content.c: the real
 * switch function W run with t->type == BLOCK_TABLE a constant) tells the tree walker to SKIP the token after the table
 * (scratch->skip_token) because that paragraph was already rendered as the table's caption.  Contract of the arm:
 *   ensures  skip_token != 0  <=>  the caption paragraph's content was handed to the tree writer by this arm
 *            (and that happens exactly when table_has_caption says so)
 * so a paragraph is skipped only if its text has been emitted.  table_has_caption (writer.c) answers anything (contract stub);
 * the tree writer (same file, body removed) records which chain it was given. */
#include "verif.h"
#include <stdio.h>
#include "d_string.h"
#include "token.h"
#include "writer.h"
#include "parser.h"

void W(DString * out, const char * source, token * t, scratch_pad * scratch);
static token * g_caption_chain; static bool g_cap, g_cap_rendered; static unsigned g_asked;
bool table_has_caption(token * t) { g_asked++; return g_cap; }
void TREE(DString * out, const char * source, token * t, scratch_pad * scratch) { if (t != NULL && t == g_caption_chain) { g_cap_rendered = true; } }
static token * g_lab_tok; static unsigned g_lab_calls;
char * label_from_token(const char * source, token * t) { g_lab_tok = t; g_lab_calls++; char * r = malloc(2); r[0] = 'x'; r[1] = 0; return r; }
void read_table_column_alignments(const char * source, token * table, scratch_pad * scratch) {
	IN(unsigned char, n); ASSUME(n <= 2); scratch->table_column_count = n;
	for (int i = 0; i < 2; i++) { char c; scratch->table_alignment[i] = c; }
}
#ifdef EXPECT_ID
/* C10: a captioned table always carries the id its automatic cross-reference (process_table_to_link, registered whatever the
 * extensions are) points to */
static bool g_id_printed;
void d_string_append_printf(DString * d, const char * fmt, ...) { if (fmt[0] == ' ' && fmt[1] == 'i' && fmt[2] == 'd' && fmt[3] == '=') { g_id_printed = true; } }
#endif
static token * mk(unsigned short type, size_t start, size_t len) {
	token * t = ALLOC(sizeof(token));
	t->type = type; t->start = start; t->len = len; t->next = NULL; t->prev = NULL; t->child = NULL; t->tail = t; t->mate = NULL;
	t->can_open = 0; t->can_close = 0; t->unmatched = 1; t->out_start = 0; t->out_len = 0;
	return t;
}
void h_table(void) {
	char * source = ALLOC(16); source[15] = 0;
	token * table = mk(BLOCK_TABLE, 0, 4);
	token * para = mk(BLOCK_PARA, 4, 8); table->next = para; para->prev = table; table->tail = para;
	token * br = mk(PAIR_BRACKET, 4, 3); para->child = br;
	token * open = mk(BRACKET_LEFT, 4, 1), * txt = mk(TEXT_PLAIN, 5, 1), * close = mk(BRACKET_RIGHT, 6, 1);
	br->child = open; open->next = txt; txt->prev = open; txt->next = close; close->prev = txt; open->tail = close; open->mate = close; close->mate = open;
	/* the caption paragraph: [caption]   |   [caption][label] (adjacent)   |   [caption] [label] (table_has_caption accepts the space) */
	IN(unsigned char, shape); ASSUME(shape <= 2); token * br2 = NULL;
	if (shape == 1) { br2 = mk(PAIR_BRACKET, 7, 3); br->next = br2; br2->prev = br; br->tail = br2; }
	if (shape == 2) { token * sp = mk(TEXT_PLAIN, 7, 1); br2 = mk(PAIR_BRACKET, 8, 3); br->next = sp; sp->prev = br; sp->next = br2; br2->prev = sp; br->tail = br2; }
	/* (C10) the ONE rule by which a captioned table's label is chosen -- shared with process_table_to_link (unit c10_table_link_label),
	 * which registers the cross-reference target: the bracket pair DIRECTLY after the caption if there is one, else the caption */
	token * expect_lab = (shape == 1) ? br2 : br;
	g_caption_chain = open;
	scratch_pad * scratch = ALLOC(sizeof(scratch_pad));
	scratch->padded = 2; scratch->recurse_depth = 1; scratch->skip_token = 0; { IN(unsigned long, ext); scratch->extensions = ext; }
	{ IN(bool, cap); g_cap = cap ? true : false; } g_cap_rendered = false; g_asked = 0;
	DString * out = ALLOC(sizeof(DString)); out->str = ALLOC(8); out->str[0] = 0; out->currentStringLength = 0; out->currentStringBufferSize = 8;
#ifdef EXPECT_ID
	g_id_printed = false;
#endif
	W(out, source, table, scratch);
#ifdef EXPECT_ID
	ASSERT(!g_cap || g_id_printed, "C10: a captioned table is given its id for every setting of the extensions (the cross-reference to it is registered unconditionally)");
#endif
	ASSERT(g_lab_calls == 0 || g_lab_tok == expect_lab, "C10: the table's id / label is made from the same token process_table_to_link registers the cross-reference for (adjacent [label], else the caption)");
	ASSERT((scratch->skip_token != 0 ? 1 : 0) == (g_cap_rendered ? 1 : 0), "C02: the token after a table is skipped if and only if this arm rendered it as the table's caption");
	ASSERT((g_cap_rendered ? 1 : 0) == (g_cap ? 1 : 0), "C02: the caption is rendered exactly when table_has_caption says there is one");
	ASSERT(scratch->skip_token == 0 || scratch->skip_token == 1, "exactly one token is skipped");
	REACH();
}
