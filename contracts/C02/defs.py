# ---------------------------------------------------------------- C02 complete rendering (dispatch totality)
# Units are GENERATED from the headers of the tree under check: a token type added to
# libMultiMarkdown.h / parser.h becomes a new case of every writer's dispatch unit automatically.
import os as _os, re as _re

_C02_REPO = _os.environ.get("VERIF_REPO", "/repo")


def _c02_token_types(repo=_C02_REPO):
    """[(name, value)] of every #define of parser.h and every member of enum token_types"""
    out = []
    try:
        for m in _re.finditer(r"^#define\s+(\w+)\s+(\d+)\s*$", open(_os.path.join(repo, "src/parser.h")).read(), _re.M):
            out.append((m.group(1), int(m.group(2))))
        txt = open(_os.path.join(repo, "src/libMultiMarkdown.h")).read()
        body = _re.search(r"enum\s+token_types\s*\{(.*?)\};", txt, _re.S).group(1)
    except Exception:
        return []
    body = _re.sub(r"//[^\n]*", "", body)
    body = _re.sub(r"/\*.*?\*/", "", body, flags=_re.S)
    v = -1
    for item in body.split(","):
        item = item.strip()
        m = _re.fullmatch(r"(\w+)(?:\s*=\s*(\d+))?", item) if item else None
        if not m:
            continue
        v = int(m.group(2)) if m.group(2) else v + 1
        out.append((m.group(1), v))
    return out


def _c02_produced(names, repo=_C02_REPO):
    """token types that occur in a PRODUCING position somewhere in the sources: returned by the lexer,
    assigned to a `type` field, passed to token_new/token_new_parent/token_prune_graft, or registered as a
    pair type WITH PAIRING_PRUNE_MATCH (only pruned pairs become tokens: token_pairs.c should_prune).
    A name inside an arithmetic producer (`MARKER_SETEXT_1 + l->type - LINE_SETEXT_1`) stands for its
    whole numbered family (MARKER_SETEXT_*, MARKER_H*, LINE_ATX_*)."""
    names = set(names)
    prod = set()

    def add_expr(expr):
        found = [n for n in _re.findall(r"\b[A-Z][A-Z0-9_]+\b", expr) if n in names]
        arith = bool(_re.search(r"[+\-]", expr))
        for n in found:
            prod.add(n)
            if arith:
                stem = _re.sub(r"_?\d+$", "", n)
                prod.update(x for x in names if _re.sub(r"_?\d+$", "", x) == stem and x != stem)

    src = _os.path.join(repo, "src")
    for f in ("lexer.re", "parser.y", "mmd.c", "token_pairs.c", "token.c", "writer.c", "transclude.c", "html.c", "latex.c",
              "beamer.c", "memoir.c", "opendocument-content.c", "opendocument.c", "opml.c", "itmz.c", "textbundle.c", "epub.c"):
        p = _os.path.join(src, f)
        if not _os.path.exists(p):
            continue
        txt = open(p, errors="replace").read()
        if f.endswith(".re"):
            for m in _re.finditer(r"\breturn\s+([A-Z][A-Z0-9_]+)\s*;", txt):
                if m.group(1) in names:
                    prod.add(m.group(1))
            continue
        txt = _re.sub(r"/\*.*?\*/", "", txt, flags=_re.S)
        txt = _re.sub(r"//[^\n]*", "", txt)
        for m in _re.finditer(r"\btype\s*=(?!=)([^;]*);", txt):
            add_expr(m.group(1))
        for m in _re.finditer(r"\b(?:token_new|token_new_parent|token_prune_graft)\s*\(([^;]*)\)\s*;", txt):
            add_expr(m.group(1))
        for m in _re.finditer(r"\btoken_pair_engine_add_pairing\s*\(([^;]*)\)\s*;", txt):
            args = [a.strip() for a in m.group(1).split(",")]
            if len(args) >= 5 and "PAIRING_PRUNE_MATCH" in args[4] and args[3] in names:
                prod.add(args[3])
    prod.add("DOC_START_TOKEN")     # the root: token_new(0, ...) in mmd_tokenize_string
    return prod


# Types that ARE produced but never handed to a per-token writer switch.  HAND-LISTED (assumption of
# every dispatch unit; the reason is given per entry; not machine-checked -- family 2 of DESIGN.md C02,
# the closure of strip_line_tokens_from_block, is not built).
_C02_TRANSIENT = {
    "BLOCK_DEF_ABBREVIATION": "retyped BLOCK_EMPTY by process_definition_block (writer.c) for every definition_stack entry before export",
    "BLOCK_DEF_CITATION": "same", "BLOCK_DEF_FOOTNOTE": "same", "BLOCK_DEF_GLOSSARY": "same", "BLOCK_DEF_LINK": "same",
    "TEXT_NL_SP": "lexer-only code: mmd_tokenize_string creates a TEXT_NL token for it",
    "TEXT_LINEBREAK_SP": "lexer-only code: mmd_tokenize_string creates a TEXT_LINEBREAK token for it",
    "CODE_FENCE": "only below BLOCK_CODE_FENCED, whose arm hands its children to the *_raw sub-writer",
    "CODE_FENCE_LINE": "only below BLOCK_CODE_FENCED, whose arm hands its children to the *_raw sub-writer",
}
_C02_LINE_REASON = ("LINE_* (parser.h): line tokens are dissolved by strip_line_tokens_from_block (children moved into the block, line freed) "
                    "or sit below BLOCK_HR/BLOCK_TOC/BLOCK_HTML/BLOCK_CODE_*/BLOCK_META whose arms print the source span or use the *_raw "
                    "sub-writer; LINE_TABLE_SEPARATOR below BLOCK_TABLE_HEADER is retyped TEXT_EMPTY by read_table_column_alignments")

# Genuine gaps (a writer lacks an arm for a type of E): a (writer, type) listed here is checked by its own unit in
# tier thorough (expected to fail) so that the quick check stays green while the finding is open.
# History: the first run found that the ODF writer had no arm for an UNMATCHED '[^', '[?' or '![' opener
# (BRACKET_FOOTNOTE_LEFT/GLOSSARY_LEFT/IMAGE_LEFT): `printf 'a [^foo b\n' | multimarkdown -t fodt` printed
# "Unknown token type: 139" on stderr and rendered "a foo b" (html: "a [^foo b").  Fixed in /repo since; the
# three types are ordinary members of E again.
_C02_GAPS = {}

_C02_WRITERS = [
    # (short name, switch function, repo files, functions that keep their body)
    ("html", "mmd_export_token_html", ["html.c"], ["mmd_export_token_html"]),
    ("latex", "mmd_export_token_latex", ["latex.c"], ["mmd_export_token_latex"]),
    ("beamer", "mmd_export_token_beamer", ["beamer.c", "latex.c"], ["mmd_export_token_beamer", "mmd_export_token_latex"]),
    ("memoir", "mmd_export_token_memoir", ["memoir.c", "latex.c"], ["mmd_export_token_memoir", "mmd_export_token_latex"]),
    ("opendocument", "mmd_export_token_opendocument", ["opendocument-content.c"], ["mmd_export_token_opendocument"]),
    ("opml", "mmd_export_token_opml", ["opml.c"], ["mmd_export_token_opml"]),
    ("itmz", "mmd_export_token_itmz", ["itmz.c"], ["mmd_export_token_itmz"]),
]

_c02_all = _c02_token_types()
_c02_names = [n for n, _ in _c02_all]
_c02_prod = _c02_produced(_c02_names)
_c02_never = [n for n in _c02_names if n not in _c02_prod]
_c02_line = [n for n in _c02_names if n.startswith("LINE_")]
_C02_E = [n for n in _c02_names if n in _c02_prod and n not in _C02_TRANSIENT and not n.startswith("LINE_")]

_C02_ASSUME = [
    "exportable set E = every member of enum token_types / parser.h that has a producer in the sources (computed by regex each run: lexer returns, "
    "`type =` assignments, token_new*/token_prune_graft arguments, pruned pair types) minus the hand-listed transient types: "
    + "; ".join("%s (%s)" % kv for kv in sorted(_C02_TRANSIENT.items())) + "; " + _C02_LINE_REASON,
    "types without any producer in the sources (computed, excluded from E): " + (", ".join(_c02_never) or "none"),
    "callees of the switch function are nondet-returning bodies (goto-instrument --generate-function-body): they do not write scratch->recurse_depth "
    "(the only writers are the tree functions, restored by their C07 contracts) and do not call exit()",
    "configuration -DI18N_DISABLED (repo's own switch in i18n.h; LC() strings only), token lengths <= 2 and <= 2 table columns inside the arms (loops unwound 4x with unwinding assertions)",
]


def _c02_pre(keep):
    keepre = "|".join(k + "$" for k in keep)
    return ["--remove-function-body-regex", "^(?!%s|h_dispatch$|exit$|fprintf$|fresh_shape$|verif_.*$|__CPROVER.*$).*" % keepre,
            "--generate-function-body", "^(?!__CPROVER_|malloc$|free$|verif_).*$",
            "--generate-function-body-options", "nondet-return"]


_C02_TREEFN = {"html": "mmd_export_token_tree_html", "latex": "mmd_export_token_tree_latex", "opendocument": "mmd_export_token_tree_opendocument"}


def _c02_unit(name, short, fn, files, keep, types, tier, note=None):
    _tree = _C02_TREEFN.get(short)
    U(name, (["C02", "C07"] if _tree else ["C02"]), "h_dispatch", ["C02/dispatch.c"], files, lib=(), kind="finite", tier=tier,
      drop_bodies=([_tree] if _tree else []),
      defines=["-DI18N_DISABLED=1", "-DC02_WRITER=" + fn, "-DC02_TLIST(X)=" + " ".join("X(%s)" % t for t in types)] + (["-DC02_TREE=" + _tree] if _tree else []),
      pre_instrument=_c02_pre(keep + ([_tree] if _tree else [])), checks=["--no-standard-checks"],
      cbmc_flags=["--object-bits", "14", "--unwind", "4", "--unwinding-assertions"],
      functions=keep, min_obligations=3 * len(types), timeout=600, cost=len(types) + (200 if short == "beamer" else 0),
      bounds={"cases (token types, each with a constant t->type)": len(types), "tree": "one token + 3 leaf children"},
      callees={"every callee of the switch function": "body removed, nondet return value (goto-instrument --generate-function-body)",
               "exit / fprintf": "observers in C02/dispatch.c"},
      assumptions=_C02_ASSUME + ([note] if note else []))


_C02_CHUNK = 40
for _short, _fn, _files, _keep in _C02_WRITERS:
    _gaps = _C02_GAPS.get(_short, [])
    _types = [t for t in _C02_E if t not in _gaps]
    if _short in ("opml", "itmz"):
        _chunks = [_types]          # two-arm switches with an empty default: one unit
    else:
        _chunks = [_types[i:i + _C02_CHUNK] for i in range(0, len(_types), _C02_CHUNK)]
    for _k, _ch in enumerate(_chunks):
        if _ch:
            _c02_unit("c02_dispatch_%s_%d" % (_short, _k), _short, _fn, _files, _keep, _ch, "quick")
    for _t in _gaps:
        if _t in _C02_E:
            # EXPECTED TO FAIL on the current tree: genuine defect, see _C02_GAPS above
            _c02_unit("c02_dispatch_%s_gap_%s" % (_short, _t), _short, _fn, _files, _keep, [_t], "thorough",
                      note="this unit fails on the current tree: genuine gap of the ODF writer (unmatched opener dropped with 'Unknown token type' on stderr)")

PROPS["C02"] = {
    "level": "proof",
    "explanation": "Dispatch totality of the per-token writer switches, exhaustive over the finite type enum on one-token trees: for every writer "
                   "(html, latex, beamer, memoir, opendocument, opml, itmz) and every exportable token type T (computed from libMultiMarkdown.h/parser.h "
                   "of the tree under check) the real switch function is run with t->type == T: exit() is unreachable, the 'Unknown token type' escape "
                   "is not taken, scratch->recurse_depth is restored.  %d exportable types x 7 writers.  Family 2 (bounded, c02_closure_*): the real "
                   "strip_line_tokens_from_block, for every text-carrying block type and every line kind the grammar can leave in such a block (enumerated "
                   "concretely, 27 kinds x 7 shapes per block type), leaves no LINE_* child the writers have no arm for, drops no inline token and keeps the "
                   "child chain consistently linked.  Family 2b (c02_closure_deflist): the real strip_line_tokens_from_deflist leaves only empty-text, term and definition children "
                   "for every LINE_* kind of the headers (1..3 children)." % len(_C02_E),
    "slice": "mmd_export_token_html/latex/beamer/memoir/opendocument/opml/itmz (the switch statements; arms' callees havocked); strip_line_tokens_from_block, strip_line_tokens_from_deflist (line-type closure, bounded shapes)",
    "not_reached": "that the lemon automaton accepts every sequence of line kinds (%parse_failure unreachable): parser.c is generated table-driven code (a bounded acceptance unit over 1 or 2 line tokens of every kind, C02/parser_accepts.c, did not finish in 600 / 900 s and is not registered); "
                   "the line kinds a block can contain (set T of the closure units) and the writers' LINE_* arms are transcribed from parser.y / the writers by hand; "
                   "the sub-writers (*_raw, *_math, *_tt) have silent default arms and are not covered; memory safety of the arms is not claimed here",
    "trusted_base": ["cbmc/goto-cc/goto-instrument 6.11.0 (symbolic execution with constant t->type, MiniSat2)", "regex extraction of the type enum and of producers in C02/defs.py"],
    "assumptions": _C02_ASSUME,
}

# ---------------------------------------------------------------- family 2: line-type closure of strip_line_tokens_from_block
import re as _re2
_hdr = open(os.path.join(os.environ.get("VERIF_REPO", "/repo"), "src", "libMultiMarkdown.h")).read() + open(os.path.join(os.environ.get("VERIF_REPO", "/repo"), "src", "parser.h")).read()
_ALL_LINES = sorted(set(_re2.findall(r"\bLINE_[A-Z0-9_]+\b", _hdr)))
_CLOSURE_BLOCKS = ["BLOCK_PARA", "BLOCK_BLOCKQUOTE", "BLOCK_LIST_ITEM", "BLOCK_LIST_ITEM_TIGHT", "BLOCK_DEF_CITATION", "BLOCK_DEF_FOOTNOTE", "BLOCK_DEF_GLOSSARY",
                   "BLOCK_DEF_LINK", "BLOCK_DEF_ABBREVIATION", "BLOCK_DEFINITION", "BLOCK_TERM", "BLOCK_H1", "BLOCK_H4", "BLOCK_SETEXT_1", "BLOCK_SETEXT_2", "BLOCK_HTML", "BLOCK_CODE_FENCED"]
for _b in _CLOSURE_BLOCKS:
    U("c02_closure_" + _b[6:].lower(), ["C02", "C15"], "h_closure", ["C02/closure.c"], ["mmd.c", "token.c", "char.c"] + (["writer.c"] if _b == "BLOCK_DEFINITION" else []), plain=True, lib=(), kind="bounded",
      tier=("quick" if _b in ("BLOCK_PARA", "BLOCK_BLOCKQUOTE", "BLOCK_LIST_ITEM", "BLOCK_DEF_CITATION", "BLOCK_DEFINITION", "BLOCK_H1", "BLOCK_SETEXT_2") else "thorough"),
      defines=["-DDISABLE_OBJECT_POOL", "-DBTYPE=" + _b, "-DALL_LINE_TYPES=" + ",".join(_ALL_LINES)],
      bounds={"lines": "1..2", "inline tokens per line": "0..2 (+ optional indent token)", "line types": "every member of T, enumerated concretely (27 x 7 shapes)", "unwind": 45},
      cbmc_flags=["--unwind", "45", "--unwinding-assertions", "--object-bits", "12"], timeout=600, cost=40,
      functions=["strip_line_tokens_from_block"], callees={"token_*": "body (DISABLE_OBJECT_POOL)", "strip_leading_whitespace/parse_table_row_into_cells": "body"},
      native=None, min_obligations=30,
      assumptions=[NOFAIL, "T (line kinds a text-carrying block can contain) is transcribed from parser.y: chunk/nested_chunk/tail rules plus the %fallback chains onto LINE_CONTINUATION",
                   "the writers' LINE_* arms (LINE_LIST_BULLETED, LINE_LIST_ENUMERATED, LINE_SETEXT_2, LINE_FENCE_BACKTICK_3..5) are hand-listed from html.c/latex.c/opendocument-content.c"])

U("c02_closure_deflist", ["C02"], "h_deflist", ["C02/deflist.c"], ["mmd.c"], plain=True, lib=(), kind="bounded", drop_bodies=["strip_line_tokens_from_block"],
  defines=["-DALL_LINE_TYPES=" + ",".join(_ALL_LINES)],
  bounds={"children of the definition list": "1..3", "child kinds": "every LINE_* type of the headers + BLOCK_TERM + BLOCK_DEFINITION, enumerated concretely"},
  cbmc_flags=["--unwind", "%d" % (len(_ALL_LINES) + 4), "--unwinding-assertions", "--object-bits", "12"], timeout=600, cost=30,
  functions=["strip_line_tokens_from_deflist"], callees={"strip_line_tokens_from_block": "contract stub (its closure: c02_closure_definition)"}, native=None, min_obligations=10,
  assumptions=[NOFAIL])


# ---- the BLOCK_TABLE arm: the following paragraph is skipped iff it was rendered as the caption
for _s, _fn, _tree, _file in (("html", "mmd_export_token_html", "mmd_export_token_tree_html", "html.c"), ("latex", "mmd_export_token_latex", "mmd_export_token_tree_latex", "latex.c"),
                              ("opendocument", "mmd_export_token_opendocument", "mmd_export_token_tree_opendocument", "opendocument-content.c")):
    U("c02_table_caption_" + _s, ["C02", "C10"], "h_table", ["C02/table_caption.c"], [_file], plain=True, lib=(), kind="bounded", drop_bodies=[_tree],
      defines=["-DI18N_DISABLED=1", "-DW=" + _fn, "-DTREE=" + _tree] + (["-DEXPECT_ID"] if _s == "html" else []),
      pre_instrument=["--remove-function-body-regex", "^(?!%s$|%s$|h_table$|mk$|table_has_caption$|label_from_token$|read_table_column_alignments$|d_string_append_printf$|verif_.*$|__CPROVER.*$).*" % (_fn, _tree),
                      "--generate-function-body", "^(?!__CPROVER_|malloc$|free$|verif_).*$", "--generate-function-body-options", "nondet-return"],
      cbmc_flags=["--object-bits", "12", "--unwind", "5", "--unwinding-assertions"], checks=["--no-standard-checks"],
      bounds={"token type": "BLOCK_TABLE (constant)", "following paragraph": "[caption], [caption][label] or [caption] [label]", "columns<=": 2},
      functions=[_fn + " (arm BLOCK_TABLE)"],
      callees={"table_has_caption": "contract stub: any answer", _tree: "contract stub recording the chain it is given", "read_table_column_alignments, label_from_token": "contract stubs", "every other callee": "body removed, nondet return value"},
      min_obligations=3, timeout=300, cost=10, assumptions=[NOFAIL, "configuration -DI18N_DISABLED", "memory safety of the arm is not claimed by this unit (standard checks off: callees are havocked)"])

# (a bounded acceptance unit of the lemon block grammar, C02/parser_accepts.c -- real mmd_parse_token_chain + parser.c over 1 or 2 line tokens of
#  every kind -- did not finish: 1 line 600 s, 2 lines 900 s; not registered)

# ---- definition blocks are always retagged before export
U("c02_definition_block_retagged", ["C02", "C01"], "h_defblock", ["C02/defblock.c"], ["writer.c", "char.c"], plain=True, lib=("lib/libc_models.c",), kind="finite",
  drop_bodies=["footnote_new", "definition_extract", "clean_string_from_range"],
  defines=["-DI18N_DISABLED=1"], cbmc_flags=["--unwind", "8", "--unwinding-assertions", "--object-bits", "12"],
  bounds={"definition kinds": "all five", "label": "directly under the block or inside a BLOCK_PARA, with or without a following token"},
  functions=["process_definition_block", "footnote_free"], callees={"footnote_new, definition_extract, clean_string_from_range, strip_leading_whitespace, stack_push": "contract stubs (any answer)", "memmove/strlen": "byte-loop models", "char_is_whitespace": "body"},
  min_obligations=5, timeout=300, cost=8, assumptions=[NOFAIL])

# ---- table_has_caption answers true only for a paragraph that holds nothing but the caption (finding 35: "[Cap] more text" lost its text; fixed in /repo 615b0d3)
U("c02_table_has_caption_only_caption", ["C02"], "h_has_caption", ["C02/has_caption.c"], ["writer.c"], plain=True, lib=(), kind="finite",
  defines=["-DI18N_DISABLED=1"],
  pre_instrument=["--remove-function-body-regex", "^(?!table_has_caption$|h_has_caption$|mk$|verif_.*$|__CPROVER.*$).*"],
  cbmc_flags=["--unwind", "5", "--unwinding-assertions"], bounds={"paragraph": "caption bracket followed by 0..3 tokens out of {PAIR_BRACKET, TEXT_PLAIN, TEXT_NL, TEXT_LINEBREAK}"},
  functions=["table_has_caption"], callees={}, min_obligations=3, timeout=120, cost=3, assumptions=[NOFAIL])
