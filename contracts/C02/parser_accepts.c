/* C02 -- "every input yields a complete rendering": the block grammar ACCEPTS every sequence of line kinds (bounded).  The real
 * mmd_parse_token_chain (mmd.c) drives the real lemon parser (parser.c: generated tables and reduce actions, real token primitives)
 * over a chain of NL line tokens whose kinds are constants on every path (all kinds of parser.h, enumerated), then signals the end
 * of input.  Observers: lemon's %syntax_error / %parse_failure hooks print "Parser ..." to stderr -- the fprintf stub asserts they
 * are never reached; afterwards the chain's children are the parse result and every line token is still reachable in the tree
 * (nothing dropped).  The semantic callees of the reduce actions that re-enter the parser or rewrite blocks (recursive_parse_*,
 * strip_line_tokens_from_block, is_para_html; stack_push on the engine's reference stacks) are contract stubs: C07 / family 2. */
#include "verif.h"
#include <stdio.h>
#include "d_string.h"
#include "libMultiMarkdown.h"
#include "token.h"
#include "mmd.h"
#include "parser.h"
#include "stack.h"
#ifndef NL
#define NL 2
#endif
static const unsigned short KINDS[] = { ALL_LINE_TYPES };
#define NK (sizeof(KINDS) / sizeof(KINDS[0]))
static unsigned g_k[NL];

int fprintf(FILE * stream, const char * format, ...) {
	bool parser_msg = format[0] == 'P' && format[1] == 'a' && format[2] == 'r' && format[3] == 's' && format[4] == 'e' && format[5] == 'r';
	ASSERT(!parser_msg, "C02: the block grammar accepts the sequence of line kinds (no syntax error, no parse failure)");
	return 0;
}
void recursive_parse_list_item(mmd_engine * e, token * block) { }
void recursive_parse_indent(mmd_engine * e, token * block) { }
void recursive_parse_blockquote(mmd_engine * e, token * block) { }
void strip_line_tokens_from_block(mmd_engine * e, token * block) { }
void is_para_html(mmd_engine * e, token * block) { bool h; if (h) { block->type = BLOCK_HTML; } }
void stack_push(stack * s, void * element) { }

static token * g_line[NL];
static bool reaches(token * t, token * target, int depth) {
	for (int guard = 0; t != NULL && guard < 8; guard++, t = t->next) {
		if (t == target) { return true; }
		if (depth < 6 && t->child && reaches(t->child, target, depth + 1)) { return true; }
	}
	return false;
}
void h_parse_accepts(void) {
	mmd_engine * e = ALLOC(sizeof(mmd_engine));
	e->recurse_depth = 0; e->root = NULL; e->header_stack = NULL; e->definition_stack = NULL; e->table_stack = NULL; e->metadata_stack = NULL;
	{ IN(unsigned long, ext); e->extensions = ext; }
	token * chain = token_new(0, 0, 0);
	size_t pos = 0;
	for (unsigned j = 0; j < NL; j++) {
		IN(unsigned, pick); ASSUME(pick < NK);
		g_line[j] = NULL;
		for (unsigned i = 0; i < NK; i++) { if (pick == i) { g_line[j] = token_new(KINDS[i], pos, 2); } }
		ASSUME(g_line[j] != NULL);
		token_append_child(g_line[j], token_new(TEXT_PLAIN, pos, 1)); token_append_child(g_line[j], token_new(TEXT_NL, pos + 1, 1));
		token_append_child(chain, g_line[j]);
		pos += 2;
	}
	chain->len = pos;
	mmd_parse_token_chain(e, chain);
	IN(unsigned, which); ASSUME(which < NL);
	ASSERT(chain->child != NULL, "C02: a parse result is attached");
	ASSERT(reaches(chain->child, g_line[which], 0), "C02: every line token is still in the tree after parsing (nothing dropped)");
	REACH();
}
