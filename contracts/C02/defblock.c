/* C02 -- process_definition_block (writer.c, the real function): the writers have NO arm for the five BLOCK_DEF_* types -- they rely on
 * this pre-pass retagging every definition block, whatever its content looks like:
 *   ensures  block->type == BLOCK_EMPTY for every definition kind, whether or not the definition could be extracted
 * (a malformed link definition such as "[ref[]: http://..." fails extraction; left as BLOCK_DEF_LINK it would reach the writers'
 * default arm: "Unknown token type", and html.c ends the process).
 *   ensures  (C01) the footnote pushed on the engine's stack can be released by the real footnote_free: no block is freed twice  The extraction helpers (footnote_new, definition_extract,
 * clean_string_from_range, strip_leading_whitespace) are contract stubs answering anything. */
#include "verif.h"
#include <stdio.h>
#include "d_string.h"
#include "token.h"
#include "writer.h"
#include "mmd.h"
void process_definition_block(mmd_engine * e, token * block);
footnote * footnote_new(const char * source, token * label, token * content, bool lowercase) {
	bool none; if (none) { return NULL; }
	footnote * f = malloc(sizeof(footnote)); bool has; f->free_para = false; f->count = -1; f->clean_text = NULL; f->label_text = NULL; f->content = NULL;
	if (has) { f->clean_text = malloc(3); char a; f->clean_text[0] = a; f->clean_text[1] = 'x'; f->clean_text[2] = 0; }
	f->label_text = malloc(2); f->label_text[0] = 0;
	return f;
}
bool definition_extract(mmd_engine * e, token ** remainder) { bool r; return r; }
char * clean_string_from_range(const char * source, size_t start, size_t len, bool lowercase) { return NULL; }
void strip_leading_whitespace(token * chain, const char * source) { }
static footnote * g_pushed; static int g_npush;
void stack_push(stack * s, void * element) { g_pushed = element; g_npush++; }
void footnote_free(footnote * f);
int fprintf(FILE * stream, const char * format, ...) { return 0; }
static token * mk(unsigned short type) {
	token * t = ALLOC(sizeof(token));
	t->type = type; t->start = 0; t->len = 1; t->next = NULL; t->prev = NULL; t->child = NULL; t->tail = t; t->mate = NULL;
	return t;
}
void h_defblock(void) {
	mmd_engine * e = ALLOC(sizeof(mmd_engine));
	DString * d = ALLOC(sizeof(DString)); d->str = ALLOC(8); d->str[7] = 0; d->currentStringLength = 7; d->currentStringBufferSize = 8; e->dstr = d;
	e->abbreviation_stack = NULL; e->citation_stack = NULL; e->footnote_stack = NULL; e->glossary_stack = NULL;
	IN(unsigned char, which); IN(bool, in_para); IN(bool, has_next);
	unsigned short bt = which == 0 ? BLOCK_DEF_ABBREVIATION : which == 1 ? BLOCK_DEF_CITATION : which == 2 ? BLOCK_DEF_FOOTNOTE : which == 3 ? BLOCK_DEF_GLOSSARY : BLOCK_DEF_LINK;
	token * block = mk(bt);
	token * label = mk(PAIR_BRACKET);
	if (has_next) { label->next = mk(COLON); label->next->prev = label; }
	if (in_para) { token * p = mk(BLOCK_PARA); p->child = label; block->child = p; } else { block->child = label; }
	process_definition_block(e, block);
	ASSERT(block->type == BLOCK_EMPTY, "C02: a definition block is retagged BLOCK_EMPTY by the pre-pass, extracted or not (the writers have no arm for BLOCK_DEF_*)");
	/* (C01) ownership of what was pushed on the engine's stack: the engine releases every stacked footnote with footnote_free (the
	 * real function, run here), which frees clean_text and label_text separately -- they must be distinct blocks, each freed once */
	if (bt != BLOCK_DEF_LINK) {
		ASSERT(g_npush == 1, "C02: the definition is pushed on its stack exactly once");
		if (g_pushed) {
			ASSERT(g_pushed->clean_text == NULL || g_pushed->clean_text != g_pushed->label_text, "C01: clean_text and label_text of a stacked definition are distinct heap blocks (footnote_free frees both)");
			footnote_free(g_pushed);
		}
	}
	REACH();
}
