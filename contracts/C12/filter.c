/* C12 -- the leftmost-longest filter behind the CriticMarkup tokenizer: match_set_filter_leftmost_longest (aho-corasick.c, the real
 * function with the real match_excise), on match lists as ac_trie_search produces them for the CriticMarkup pattern set:
 *   requires  <= NM matches after the header; lengths 2 or 3 (the patterns' lengths); listed in order of END position, and for one
 *             end position the longer match first (the search walks the failure links from the longest suffix down); no duplicates
 *   ensures   the list that remains is the leftmost-longest selection: scanning the candidates by (start ascending, longer first),
 *             a candidate is kept iff it starts at or after the end of the last kept one -- compared entry by entry (ghost index)
 *             with a reference selection computed in the harness; list links consistent. */
#include "verif.h"
#include "aho-corasick.h"
#ifndef NM
#define NM 3
#endif
void match_set_filter_leftmost_longest(match * header);

void h_filter(void) {
	IN(unsigned, n); ASSUME(n >= 1 && n <= NM);
	size_t st[NM], ln[NM];
	match * header = ALLOC(sizeof(match)); header->start = 0; header->len = 0; header->match_type = 0; header->prev = NULL; header->next = NULL;
	match * last = header;
	for (unsigned i = 0; i < NM; i++) {
		if (i < n) {
			IN(size_t, s); IN(size_t, l); IN(unsigned short, ty);
			ASSUME(s <= 12 && (l == 2 || l == 3) && ty != 0);
			if (i > 0) {
				size_t pe = st[i - 1] + ln[i - 1], e = s + l;
				ASSUME(e > pe || (e == pe && l < ln[i - 1]));             /* order of the search: by end, longer first */
			}
			st[i] = s; ln[i] = l;
			match * m = ALLOC(sizeof(match)); m->start = s; m->len = l; m->match_type = ty; m->prev = last; m->next = NULL; last->next = m; last = m;
		}
	}
	/* reference selection over the candidates */
	bool keep[NM]; size_t end = 0; bool first = true;
	for (unsigned i = 0; i < NM; i++) { keep[i] = false; }
	for (unsigned round = 0; round < NM; round++) {
		/* next candidate in (start asc, len desc) order that starts at or after `end` and is not yet decided: pick the best */
		int best = -1;
		for (unsigned i = 0; i < NM; i++) {
			if (i < n && !keep[i] && (first || st[i] >= end)) {
				if (best < 0 || st[i] < st[best] || (st[i] == st[best] && ln[i] > ln[best])) { best = (int)i; }
			}
		}
		if (best >= 0) { keep[best] = true; end = st[best] + ln[best]; first = false; }
	}
	match_set_filter_leftmost_longest(header);
	/* compare: the k-th remaining match is the k-th kept candidate in start order */
	IN(unsigned, k); ASSUME(k < NM);
	size_t ks = 0, kl = 0; unsigned seen = 0; bool have = false; size_t lastpick = 0; bool anyp = false;
	for (unsigned round = 0; round < NM; round++) {
		int best = -1;
		for (unsigned i = 0; i < NM; i++) { if (i < n && keep[i] && (!anyp || st[i] > lastpick)) { if (best < 0 || st[i] < st[best]) { best = (int)i; } } }
		if (best >= 0) { if (seen == k) { ks = st[best]; kl = ln[best]; have = true; } seen++; lastpick = st[best]; anyp = true; }
	}
	match * w = header->next; unsigned cnt = 0;
	for (unsigned j = 0; j < NM; j++) { if (j < k && w) { w = w->next; } }
	for (match * c = header->next; c && cnt <= NM; c = c->next) { cnt++; ASSERT(c->prev != NULL && c->prev->next == c, "list links consistent"); }
	ASSERT(cnt == seen, "C12: the filter keeps exactly the leftmost-longest, non-overlapping matches (count)");
	ASSERT(!have || (w != NULL && w->start == ks && w->len == kl), "C12: the k-th remaining match is the k-th match of the leftmost-longest selection");
	REACH();
}
