/* C12 -- the CriticMarkup tokenizer END TO END over short sources: the real mmd_critic_tokenize_string (critic_markup.c) with the real
 * Aho-Corasick trie construction, search and leftmost-longest filter (aho-corasick.c) and the real token primitives, against the
 * reference tokenisation of the property ("markers are recognised leftmost-longest, escapes \{ \} \+ \- \~ \> \= are plain text,
 * everything else is plain text"): for a ghost position p, the token that covers p has the type, start and length the reference
 * gives.  Source bytes range over the marker alphabet plus one ordinary letter (any other byte behaves like the letter: the trie
 * has no edge for it).  Bounded: sources of exactly SN bytes. */
#include "verif.h"
#include "d_string.h"
#include "libMultiMarkdown.h"
#include "token.h"
#include "critic_markup.h"
#ifndef SN
#define SN 3
#endif
token * mmd_critic_tokenize_string(const char * source, size_t start, size_t len);

static const struct { const char * s; unsigned short t; } PAT[] = {
	{"{++", CM_ADD_OPEN}, {"++}", CM_ADD_CLOSE}, {"{--", CM_DEL_OPEN}, {"--}", CM_DEL_CLOSE}, {"{~~", CM_SUB_OPEN}, {"~~}", CM_SUB_CLOSE},
	{"{==", CM_HI_OPEN}, {"==}", CM_HI_CLOSE}, {"{>>", CM_COM_OPEN}, {"<<}", CM_COM_CLOSE}, {"~>", CM_SUB_DIV},
	{"\\{", CM_PLAIN_TEXT}, {"\\}", CM_PLAIN_TEXT}, {"\\+", CM_PLAIN_TEXT}, {"\\-", CM_PLAIN_TEXT}, {"\\~", CM_PLAIN_TEXT}, {"\\>", CM_PLAIN_TEXT}, {"\\=", CM_PLAIN_TEXT} };
#define NPAT (sizeof(PAT) / sizeof(PAT[0]))
/* longest pattern starting at position i (0 if none) */
static size_t match_at(const char * s, size_t i, unsigned short * type) {
	size_t best = 0;
	for (size_t k = 0; k < NPAT; k++) {
		size_t l = PAT[k].s[2] ? 3 : 2; bool ok = i + l <= SN;
		for (size_t j = 0; j < 3; j++) { if (ok && j < l && s[i + j] != PAT[k].s[j]) { ok = false; } }
		if (ok && l > best) { best = l; *type = PAT[k].t; }
	}
	return best;
}
void h_search(void) {
	static const char ALPHA[] = "{}+-~>=<\\a";
	char * source = ALLOC(SN + 1);
	for (size_t i = 0; i < SN; i++) { unsigned char k; ASSUME(k < sizeof(ALPHA) - 1); source[i] = ALPHA[k]; }
	source[SN] = 0;
	token * root = mmd_critic_tokenize_string(source, 0, SN);
	/* reference: scan left to right; a marker match starts a token of that kind; stretches between matches are plain text */
	unsigned short rt[SN]; size_t rs[SN], rl[SN]; size_t nr = 0, i = 0, plain = 0; bool any = false;
	while (i < SN) {
		unsigned short ty = 0; size_t l = match_at(source, i, &ty);
		if (l) { any = true; if (i > plain) { rt[nr] = CM_PLAIN_TEXT; rs[nr] = plain; rl[nr] = i - plain; nr++; } rt[nr] = ty; rs[nr] = i; rl[nr] = l; nr++; i += l; plain = i; }
		else { i++; }
	}
	if (any && plain < SN) { rt[nr] = CM_PLAIN_TEXT; rs[nr] = plain; rl[nr] = SN - plain; nr++; }
	if (!any) {
		ASSERT(root == NULL || root->child == NULL, "no marker in the text: no tokens");
	} else {
		ASSERT(root != NULL, "markers found: a token list is returned");
		IN(size_t, k); ASSUME(k < nr);                       /* ghost index: every token of the reference */
		token * w = root->child;
		for (size_t j = 0; j < SN; j++) { if (j < k && w) { w = w->next; } }
		ASSERT(w != NULL && w->type == rt[k] && w->start == rs[k] && w->len == rl[k], "C12: the k-th token has the kind, start and length of the leftmost-longest reference tokenisation");
		size_t cnt = 0; for (token * c = root->child; c && cnt <= SN; c = c->next) { cnt++; }
		ASSERT(cnt == nr, "C12: as many tokens as the reference");
	}
	REACH();
}
