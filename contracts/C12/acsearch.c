/* C12 -- the Aho-Corasick search behind the CriticMarkup tokenizer: ac_trie_search (aho-corasick.c, the real function) on a REAL
 * automaton built by the real trie_new / trie_insert / ac_trie_prepare from a small pattern set chosen so that the search has to
 * follow failure links more than once in a row ({"{+", "+}", "++}"}: from the state of "{+" the byte '{' fails to the state of "+",
 * which has no edge for it either, and only then to the root) -- the situation of a mark that directly follows another marker.
 *   ensures  the matches returned are exactly the occurrences of the patterns in the text, in order of their end position, the
 *            longer one first when two end at the same place (the order the leftmost-longest filter relies on) -- compared entry by
 *            entry (ghost index) with a naive reference search
 * Bounded: texts of exactly TN bytes over the alphabet { + } and one letter.  (The full CriticMarkup automaton -- 19 patterns, ~45
 * states of 2 KiB each -- did not get through CBMC; this unit has 6 states.) */
#include "verif.h"
#include "aho-corasick.h"
#ifndef TN
#define TN 4
#endif
static const char * const PAT[] = { "{+", "+}", "++}" };
static const size_t PLEN[] = { 2, 2, 3 };
#define NP 3
void h_acsearch(void) {
	trie * a = trie_new(8);            /* 8 states of 2 KiB (trie_new(0) would clear 256 states = 528 KiB, beyond what CBMC digests); 6 are used */
	for (int i = 0; i < NP; i++) { trie_insert(a, PAT[i], (unsigned short)(i + 1)); }
	ac_trie_prepare(a);
	static const char ALPHA[] = "{+}a";
	char * text = ALLOC(TN + 1);
	for (size_t i = 0; i < TN; i++) { unsigned char k; ASSUME(k < 4); text[i] = ALPHA[k]; }
	text[TN] = 0;
	match * m = ac_trie_search(a, text, 0, TN);
	/* reference: every occurrence, by end position, longer first */
	size_t es[2 * TN], el[2 * TN]; unsigned short et[2 * TN]; size_t ne = 0;
	for (size_t end = 1; end <= TN; end++) {
		for (int p = NP - 1; p >= 0; p--) {           /* PAT is ordered by length ascending: walk it backwards */
			size_t l = PLEN[p];
			if (l <= end) {
				bool ok = true;
				for (size_t j = 0; j < 3; j++) { if (j < l && text[end - l + j] != PAT[p][j]) { ok = false; } }
				if (ok) { es[ne] = end - l; el[ne] = l; et[ne] = (unsigned short)(p + 1); ne++; }
			}
		}
	}
	size_t cnt = 0;
	if (m) { for (match * w = m->next; w && cnt <= 2 * TN; w = w->next) { cnt++; } }
	ASSERT(cnt == ne, "C12: the search reports every occurrence of a pattern and nothing else (count)");
	IN(size_t, k); ASSUME(k < 2 * TN);
	if (k < ne && m) {
		match * w = m->next;
		for (size_t j = 0; j < 2 * TN; j++) { if (j < k && w) { w = w->next; } }
		ASSERT(w != NULL && w->start == es[k] && w->len == el[k] && w->match_type == et[k], "C12: the k-th match is the k-th occurrence in end-position order (longer first)");
	}
	REACH();
}
