/* C12 -- the ERASE LAYER of critic_markup.c: accept_token_tree / accept_token / accept_token_tree_sub and
 * the reject twins (the REAL functions), on WELL-FORMED CriticMarkup token trees of the exact shape
 * mmd_critic_tokenize_string + token_pairs_match_pairs_inside_token(PAIRING_PRUNE_MATCH) produce:
 *   root(type 0) -> chain of CM_PLAIN_TEXT / marker / CM_x_PAIR tokens, contiguous, prev/next linked;
 *   a pair token spans opener..closer, its child chain is opener, content..., closer (opener->prev == NULL,
 *   closer->next == NULL, child->tail == closer), child->mate == closer, closer->mate == child, pair->mate == NULL;
 *   unmatched markers stay in the chain with mate == NULL; CM_SUB_DIV never has a mate.
 * (The tokenizer -- Aho-Corasick -- and the pair matcher are out of CBMC's reach, DESIGN section 2; that they produce
 * this shape is ASSUMED here and stated in the unit's assumptions.)
 * The DString is the ghost sink preloaded with the source; text bytes are symbolic (any non-NUL byte); the
 * reference result is computed by spec code below on the same shape; obligation: after accept (reject) the string
 * equals the reference byte for byte.  Entry call is what mmd_critic_markup_accept_range does after parsing:
 * accept_token_tree(d, root->child->tail).                                                              */
#include "verif.h"
#include "d_string.h"
#include "token.h"
#include "critic_markup.h"

void accept_token_tree(DString * d, token * t);
void reject_token_tree(DString * d, token * t);

#ifndef TB
#define TB 2            /* bytes per text run (0..TB) */
#endif
#define SRC_MAX 40

static char g_src[SRC_MAX]; static size_t g_n;       /* the annotated source being built */
static char g_exp[SRC_MAX]; static size_t g_en;      /* reference result */
static size_t g_k;
static bool g_accept;

static token * mk(unsigned short type, size_t start, size_t len) {
	token * t = ALLOC(sizeof(token));
	t->type = type; t->start = start; t->len = len;
	t->next = NULL; t->prev = NULL; t->child = NULL; t->tail = t; t->mate = NULL;
	t->can_open = 1; t->can_close = 1; t->unmatched = 1; t->out_start = 0; t->out_len = 0;
	return t;
}
static void chain(token * parent, token * t) {       /* token_append_child's effect */
	if (parent->child == NULL) { parent->child = t; t->prev = NULL; }
	else { parent->child->tail->next = t; t->prev = parent->child->tail; }
	parent->child->tail = t;
}
/* append the 3-byte marker of a pair kind (k: 0 ADD 1 DEL 2 SUB 3 HI 4 COM) */
static const char OPEN_CH[5] = { '+', '-', '~', '=', '>' };
static const char CLOSE_CH[5] = { '+', '-', '~', '=', '<' };
static const unsigned short OPEN_TY[5] = { CM_ADD_OPEN, CM_DEL_OPEN, CM_SUB_OPEN, CM_HI_OPEN, CM_COM_OPEN };
static const unsigned short CLOSE_TY[5] = { CM_ADD_CLOSE, CM_DEL_CLOSE, CM_SUB_CLOSE, CM_HI_CLOSE, CM_COM_CLOSE };
static const unsigned short PAIR_TY[5] = { CM_ADD_PAIR, CM_DEL_PAIR, CM_SUB_PAIR, CM_HI_PAIR, CM_COM_PAIR };
static token * put_open(int k) { size_t s = g_n; g_src[g_n++] = '{'; g_src[g_n++] = OPEN_CH[k]; g_src[g_n++] = OPEN_CH[k]; return mk(OPEN_TY[k], s, 3); }
static token * put_close(int k) { size_t s = g_n; g_src[g_n++] = CLOSE_CH[k]; g_src[g_n++] = CLOSE_CH[k]; g_src[g_n++] = '}'; return mk(CLOSE_TY[k], s, 3); }
static token * put_div(void) { size_t s = g_n; g_src[g_n++] = '~'; g_src[g_n++] = '>'; return mk(CM_SUB_DIV, s, 2); }
/* a text run of 0..TB symbolic bytes; keep => it also belongs to the reference result; returns NULL for the empty run */
static token * put_text(size_t len, const char * bytes, bool keep) {
	size_t s = g_n;
	for (size_t i = 0; i < TB; i++) { if (i < len) { g_src[g_n++] = bytes[i]; if (keep) { g_exp[g_en++] = bytes[i]; } } }
	return len ? mk(CM_PLAIN_TEXT, s, len) : NULL;
}
static void keep_span(size_t from, size_t to) { for (size_t i = from; i < to; i++) { g_exp[g_en++] = g_src[i]; } }
/* turn opener..closer (already chained under `tmp`) into the pair token, as token_prune_graft leaves it */
static token * mk_pair(int k, token * tmp) {
	token * op = tmp->child; token * cl = tmp->child->tail;
	token * p = mk(PAIR_TY[k], op->start, cl->start + cl->len - op->start);
	p->child = op; op->tail = cl; op->mate = cl; cl->mate = op; p->can_open = 0; p->can_close = 0;
	return p;
}
/* what ACCEPT / REJECT keeps of a pair's payload, per the CriticMarkup definition */
#define KEEPS(k) (g_accept ? ((k) == 0 || (k) == 3) : ((k) == 1 || (k) == 3))

static DString * run(token * root) {
	g_src[g_n] = 0;
	DString * d = d_string_new(g_src);
	if (root->child) {
		if (g_accept) { accept_token_tree(d, root->child->tail); } else { reject_token_tree(d, root->child->tail); }
	}
	return d;
}
/* text-run LENGTHS are concrete per unit (-DTL0..-DTL3): with symbolic lengths the token chain shape and every offset
 * become symbolic and CBMC does not finish (measured: > 14 GB / 600 s); the run BYTES stay symbolic */
#ifdef TL0
#define TL_DECL size_t tl[4] = { TL0, TL1, TL2, TL3 };
#else
#define TL_DECL IN_ARR(size_t, tl, 4);
#endif
#define POST_edit (d->currentStringLength == g_en && (g_k >= g_en || d->str[g_k] == g_exp[g_k]) && d->str[d->currentStringLength] == 0)
#define SETUP \
	g_n = 0; g_en = 0; { IN(bool, acc); g_accept = acc; } { IN(size_t, k); g_k = k; } \
	IN_ARR(char, tx, 4 * TB); TL_DECL \
	for (size_t i = 0; i < 4 * TB; i++) { ASSUME(tx[i] != 0); } for (size_t i = 0; i < 4; i++) { ASSUME(tl[i] <= TB); } \
	token * root = mk(0, 0, 0); token * t;

/* family 1: text . PAIR(kind: ADD DEL HI COM; one text run inside) . text */
void h_single(void) {
	SETUP
	IN(int, k); ASSUME(k == 0 || k == 1 || k == 3 || k == 4);
	if ((t = put_text(tl[0], &tx[0], true))) { chain(root, t); }
	token * tmp = mk(0, 0, 0);
	chain(tmp, put_open(k));
	if ((t = put_text(tl[1], &tx[TB], KEEPS(k)))) { chain(tmp, t); }
	chain(tmp, put_close(k));
	chain(root, mk_pair(k, tmp));
	if ((t = put_text(tl[2], &tx[2 * TB], true))) { chain(root, t); }
	DString * d = run(root);
	ASSERT(POST_edit, "postcondition accept/reject yields exactly the edited text (single ADD/DEL/HI/COM pair)");
	REACH();
}

/* family 2: text . {~~ old ~> new ~~} . text */
void h_sub(void) {
	SETUP
	if ((t = put_text(tl[0], &tx[0], true))) { chain(root, t); }
	token * tmp = mk(0, 0, 0);
	chain(tmp, put_open(2));
	if ((t = put_text(tl[1], &tx[TB], !g_accept))) { chain(tmp, t); }
	chain(tmp, put_div());
	if ((t = put_text(tl[2], &tx[2 * TB], g_accept))) { chain(tmp, t); }
	chain(tmp, put_close(2));
	chain(root, mk_pair(2, tmp));
	if ((t = put_text(tl[3], &tx[3 * TB], true))) { chain(root, t); }
	DString * d = run(root);
	ASSERT(POST_edit, "postcondition accept keeps the new text, reject keeps the old text (substitution)");
	REACH();
}

/* family 3: text . UNMATCHED marker (opener or closer of any kind, mate == NULL) . text : left untouched */
void h_unmatched(void) {
	SETUP
	IN(int, k); ASSUME(k >= 0 && k <= 4); IN(bool, closer);
	if ((t = put_text(tl[0], &tx[0], false))) { chain(root, t); }
	chain(root, closer ? put_close(k) : put_open(k));
	if ((t = put_text(tl[1], &tx[TB], false))) { chain(root, t); }
	keep_span(0, g_n);
	DString * d = run(root);
	ASSERT(POST_edit, "postcondition unmatched markers are left untouched");
	REACH();
}

/* family 3b: a stray ~> outside any substitution (DESIGN section 9 item 9) */
void h_stray_div(void) {
	SETUP
	if ((t = put_text(tl[0], &tx[0], false))) { chain(root, t); }
	chain(root, put_div());
	if ((t = put_text(tl[1], &tx[TB], false))) { chain(root, t); }
	keep_span(0, g_n);
	DString * d = run(root);
	ASSERT(POST_edit, "postcondition unmatched markers are left untouched (stray ~>)");
	REACH();
}

/* family 4 (depth 2): text . OUTER{ text . INNER{ text } . text } ; OUTER in ADD DEL HI, INNER in ADD DEL HI COM */
void h_nested(void) {
	SETUP
	IN(int, ko); ASSUME(ko == 0 || ko == 1 || ko == 3);
	IN(int, ki); ASSUME(ki == 0 || ki == 1 || ki == 3 || ki == 4);
	if ((t = put_text(tl[0], &tx[0], true))) { chain(root, t); }
	token * to = mk(0, 0, 0);
	chain(to, put_open(ko));
	if ((t = put_text(tl[1], &tx[TB], KEEPS(ko)))) { chain(to, t); }
	token * ti = mk(0, 0, 0);
	chain(ti, put_open(ki));
	if ((t = put_text(tl[2], &tx[2 * TB], KEEPS(ko) && KEEPS(ki)))) { chain(ti, t); }
	chain(ti, put_close(ki));
	chain(to, mk_pair(ki, ti));
	if ((t = put_text(tl[3], &tx[3 * TB], KEEPS(ko)))) { chain(to, t); }
	chain(to, put_close(ko));
	chain(root, mk_pair(ko, to));
	DString * d = run(root);
	ASSERT(POST_edit, "postcondition accept/reject yields exactly the edited text (pair nested in ADD/DEL/HI)");
	REACH();
}
