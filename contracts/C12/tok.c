/* C12 (2) -- post-processing of mmd_critic_tokenize_string (critic_markup.c, real) with the Aho-Corasick
 * search by contract (aho-corasick.c is out of CBMC's reach): the search is asked about EXACTLY the range
 * the caller gave (source, start, len) and returns an ordered, non-overlapping list of <= 2 matches inside
 * it (or none).  Obligations: every match becomes a token with the same type and span, in order; the gaps
 * become CM_PLAIN_TEXT tokens; the children of the root are contiguous and cover exactly [start, start+len)
 * (so accept/reject, which erase by token span, see every byte of the range once). */
#include "verif.h"
#include <stdio.h>
#include "d_string.h"
#include "token.h"
#include "aho-corasick.h"
#include "critic_markup.h"

token * mmd_critic_tokenize_string(const char * source, size_t start, size_t len);   /* not declared in critic_markup.h */
const char * g_src; size_t g_start, g_len;           /* ghost: what the search must be asked about */
match * g_list;                                      /* ghost: the match list the search returns (head is a dummy, as in aho-corasick.c) */
int g_searches;

trie * trie_new(size_t startingSize) { return (trie *)ALLOC(8); }
bool trie_insert(trie * a, const char * key, unsigned short match_type) { return true; }
void ac_trie_prepare(trie * a) { }
void trie_free(trie * a) { free(a); }
void match_free(match * m) { }
match * ac_trie_leftmost_longest_search(trie * a, const char * source, size_t start, size_t len) {
	g_searches++;
	ASSERT(source == g_src && start == g_start && len == g_len, "precondition of the search: asked about exactly the caller's range (source, start, len)");
	return g_list;
}

static match * mk_match(size_t start, size_t len, unsigned short type) {
	match * m = ALLOC(sizeof(match)); m->start = start; m->len = len; m->match_type = type; m->next = NULL; m->prev = NULL; return m;
}

void h_tokenize(void) {
	IN(size_t, start); IN(size_t, len); ASSUME(start <= 8 && len <= 8);
	char * source = ALLOC(17); source[16] = 0;
	g_src = source; g_start = start; g_len = len; g_searches = 0;
	IN(unsigned, nm); ASSUME(nm <= 2);
	IN(size_t, s1); IN(size_t, l1); IN(size_t, s2); IN(size_t, l2); IN(unsigned short, t1); IN(unsigned short, t2);
	g_list = NULL;
	if (nm >= 1) {
		/* contract of the search: matches lie inside the range, in order, not overlapping, non-empty */
		ASSUME(l1 >= 1 && s1 >= start && l1 <= len && s1 - start <= len - l1);
		match * head = mk_match(0, 0, 0); match * m1 = mk_match(s1, l1, t1); head->next = m1; m1->prev = head; g_list = head;
		if (nm == 2) {
			ASSUME(l2 >= 1 && s2 >= s1 + l1 && l2 <= len && s2 - start <= len - l2);
			match * m2 = mk_match(s2, l2, t2); m1->next = m2; m2->prev = m1;
		}
	}
	token * root = mmd_critic_tokenize_string(source, start, len);
	ASSERT(g_searches == 1, "the range is searched exactly once");
	if (nm == 0) {
		ASSERT(root == NULL, "no matches: no token tree");
	} else {
		ASSERT(root != NULL, "matches: a token tree");
		/* walk: children contiguous from start to start+len; matches appear with their own span and type */
		size_t pos = start; unsigned seen = 0; bool ok = true; token * c = root->child; token * prev = NULL;
		for (int k = 0; k < 6; k++) {
			if (c) {
				if (c->start != pos || c->prev != prev) { ok = false; }
				if (seen == 0 && c->start == s1 && c->type == t1 && c->len == l1 && !(c->start > pos)) { seen = 1; }
				else if (seen == 1 && nm == 2 && c->start == s2 && c->type == t2 && c->len == l2) { seen = 2; }
				else if (c->type != CM_PLAIN_TEXT) { ok = false; }
				pos = c->start + c->len; prev = c; c = c->next;
			}
		}
		ASSERT(c == NULL, "bounded result chain");
		ASSERT(ok, "postcondition C12: tokens are contiguous, in order, starting at the range start; non-match tokens are CM_PLAIN_TEXT");
		ASSERT(seen == nm, "postcondition C12: every match became a token with its own type and span");
		ASSERT(pos == start + len, "postcondition C12: the tokens cover exactly [start, start+len)");
	}
	REACH();
}
