/* C12 / C01 -- trie construction behind the CriticMarkup tokenizer and the abbreviation / glossary search: trie_insert /
 * trie_node_insert (aho-corasick.c, the real functions) on a trie whose node array is FULL (size == capacity == 2), so that inserting
 * a key has to GROW the array while the recursion still holds an index into it.
 * realloc is used BY CONTRACT (stub): it returns a block of exactly the size requested (zero-filled here; the old contents are
 * not needed for the obligations below) and the old block is gone.
 *   ensures  every access stays inside the block realloc returned (CBMC's pointer / bounds checks on the real code: the new
 *            node is written at index size, which must lie inside capacity * sizeof(trie_node) bytes ACTUALLY requested)
 *   ensures  the array was asked to hold at least `capacity` nodes (ghost: last requested size), size <= capacity afterwards,
 *            and one node was added per key byte
 * Bounded: keys of exactly KL symbolic non-NUL bytes (KL = 1..3). */
#include "verif.h"
#include "aho-corasick.h"
#ifndef KL
#define KL 3
#endif
static size_t g_req; static unsigned g_reallocs;
void * realloc(void * p, size_t size) { g_req = size; g_reallocs++; free(p); return calloc(1, size); }
void h_trie_insert(void) {
	trie * a = ALLOC(sizeof(trie));
	a->node = calloc(2, sizeof(trie_node)); a->size = 2; a->capacity = 2; g_req = 2 * sizeof(trie_node);
	a->node[0].child['x'] = 1; a->node[1].c = 'x';                 /* root -> "x": the array is full */
	unsigned char key[KL + 1];
	for (int i = 0; i < KL; i++) { unsigned char c; ASSUME(c != 0 && c != 'x'); key[i] = c; }
	key[KL] = 0;
	IN(unsigned short, mt); ASSUME(mt != 0);
	bool ok = trie_insert(a, (const char *)key, mt);
	ASSERT(ok, "C12: a non-empty key is inserted");
	ASSERT(g_reallocs >= 1, "the full array had to grow");
	ASSERT(a->size == 2 + KL, "C12: one new node per byte of a key that shares no prefix");
	ASSERT(a->size <= a->capacity, "C01: size <= capacity after growing");
	ASSERT(a->capacity <= g_req / sizeof(trie_node), "C01: the node array was (re)allocated for at least `capacity` nodes (the capacity recorded is the capacity obtained)");
	REACH();
}
