/* C12 / C01 -- trie construction behind the CriticMarkup tokenizer and the abbreviation/glossary search: trie_insert /
 * trie_node_insert (aho-corasick.c, the real functions) on a real trie made by trie_new(2), so that inserting a key of KL >= 2
 * bytes has to GROW the node array (capacity 2 -> 4 [-> 8]) while the recursion still holds an index into it.
 *   ensures  every access stays inside the (re)allocated node array (--pointer-check/--bounds-check on the real code),
 *            size <= capacity afterwards, size == 1 + number of new nodes,
 *            the key's path from the root exists, its last node carries match_type and len == KL, every node on the path
 *            carries its byte in .c, and a second key sharing the first byte reuses the first node
 * Bounded: keys of exactly KL symbolic non-NUL bytes (KL = 2, 3), second key of 2 bytes; the array starts with 2 nodes. */
#include "verif.h"
#include "aho-corasick.h"
#ifndef KL
#define KL 3
#endif
void h_trie_insert(void) {
	trie * a = trie_new(2);
	ASSUME(a != NULL);
	ASSERT(a->size == 1 && a->capacity == 2, "trie_new(2): one root node, capacity 2");
	unsigned char key[KL + 1], key2[3];
	for (int i = 0; i < KL; i++) { unsigned char c; ASSUME(c != 0); key[i] = c; }
	key[KL] = 0;
	IN(unsigned short, mt); ASSUME(mt != 0);
	bool ok = trie_insert(a, (const char *)key, mt);
	ASSERT(ok, "C12: a non-empty key is inserted");
	ASSERT(a->size == 1 + KL, "C12: one new node per byte of a key that shares no prefix");
	ASSERT(a->size <= a->capacity, "C01: the node array holds at least size nodes after growing");
	size_t s = 0;
	for (int i = 0; i < KL; i++) {
		size_t nx = a->node[s].child[key[i]];
		ASSERT(nx != 0 && nx < a->size, "C12: the key's path exists inside the node array");
		ASSERT((unsigned char)a->node[nx].c == key[i], "C12: every node on the path carries its byte");
		s = nx;
	}
	ASSERT(a->node[s].match_type == mt && a->node[s].len == KL, "C12: the last node of the path carries the match type and the key length");
	/* second key: same first byte, different second byte -> one more node, the first is shared */
	key2[0] = key[0]; { unsigned char c; ASSUME(c != 0 && c != key[1]); key2[1] = c; } key2[2] = 0;
	IN(unsigned short, mt2); ASSUME(mt2 != 0);
	size_t before = a->size;
	ok = trie_insert(a, (const char *)key2, mt2);
	ASSERT(ok && a->size == before + 1 && a->size <= a->capacity, "C12/C01: a key sharing one byte adds exactly one node, inside the array");
	size_t f = a->node[0].child[key2[0]];
	size_t g = a->node[f].child[key2[1]];
	ASSERT(g == before && a->node[g].match_type == mt2 && a->node[g].len == 2, "C12: the second key ends in the new node");
	ASSERT(a->node[s].match_type == mt && a->node[s].len == KL, "C12: the first key's end node is unchanged by the second insertion");
	trie_free(a);
	REACH();
}
