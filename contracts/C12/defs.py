# ---------------------------------------------------------------- C12 CriticMarkup accept / reject (erase layer)
_C12_SHAPE = "token tree has the shape produced by mmd_critic_tokenize_string + token_pairs_match_pairs_inside_token(PRUNE_MATCH): contiguous chain, pair token with children opener..closer, mates set, unmatched markers with mate==NULL (ASSUMED: Aho-Corasick tokenizer and pair matcher are out of CBMC's reach, DESIGN.md section 2)"
_C12_FN = ["accept_token_tree", "accept_token", "accept_token_tree_sub", "reject_token_tree", "reject_token", "reject_token_tree_sub"]
_C12_UNW = "accept_token_tree.0:7,reject_token_tree.0:7,accept_token_tree_sub.0:7,accept_token_tree_sub.1:7,reject_token_tree_sub.0:7,reject_token_tree_sub.1:7"


def _c12(_h, _nm, _tier, _shape, _tl, extra=()):
    U(_nm, ["C12", "C01"], _h, ["C12/cm.c"], ["critic_markup.c"], plain=True, lib=("lib/ds_sink.c",),
      defines=["-DTB=2", "-DSINK_CAP=40"] + ["-DTL%d=%d" % (i, v) for i, v in enumerate(_tl)] + list(extra), kind="bounded", tier=_tier,
      bounds={"shape": _shape, "text run lengths": list(_tl), "text bytes": "symbolic non-NUL", "accept/reject": "both (symbolic)", "unwind": 42},
      cbmc_flags=["--unwind", "42", "--unwindset", _C12_UNW, "--depth", "100000"],
      functions=_C12_FN, callees={"d_string_erase/d_string_new": "ghost sink (DString by specification, C19)"},
      native=None, min_obligations=20, timeout=600, cost=30, assumptions=[NOFAIL, _C12_SHAPE])


import itertools as _it
for _tl in _it.product((0, 2), repeat=3):
    _c12("h_single", "c12_single_%d%d%d" % _tl, "quick", "text . PAIR(ADD|DEL|HI|COM around one text run) . text", _tl + (0,))
for _tl in _it.product((0, 1), repeat=4):
    _c12("h_sub", "c12_sub_%d%d%d%d" % _tl, "quick", "text . {~~ old ~> new ~~} . text", _tl)
for _tl in _it.product((0, 1), repeat=2):
    _c12("h_unmatched", "c12_unmatched_%d%d" % _tl, "quick", "text . unmatched opener|closer of any of the 5 kinds . text", _tl + (0, 0))
    _c12("h_stray_div", "c12_stray_div_%d%d" % _tl, "quick", "text . stray ~> . text", _tl + (0, 0))
for _tl in ((1, 1, 1, 1), (0, 1, 1, 0), (1, 0, 1, 1), (1, 1, 0, 1), (0, 0, 1, 0), (0, 0, 0, 0)):
    _c12("h_nested", "c12_nested_%d%d%d%d" % _tl, "quick", "text . OUTER(ADD|DEL|HI){ text INNER(ADD|DEL|HI|COM){text} text }", _tl)

PROPS["C12"] = {
    "level": "other",
    "explanation": "The ERASE LAYER of critic_markup.c (accept_token_tree/accept_token/accept_token_tree_sub and the reject twins, the real functions) is checked on well-formed CriticMarkup token trees built by the harness in exactly the shape the tokenizer + pair matcher produce: after accept (reject) the string equals, byte for byte, the reference result computed by spec code on the same shape (ghost index), for both modes, all five mark kinds, marks nested in ADD/DEL/HI, unmatched markers (left untouched) and a stray '~>'.  Bounded: one unit per concrete vector of text-run lengths, text bytes symbolic; DString is the ghost sink (C19).",
    "slice": "accept_token_tree, accept_token, accept_token_tree_sub, reject_token_tree, reject_token, reject_token_tree_sub; trie_insert / trie_node_insert (growth of the node array, realloc by contract); match_set_filter_leftmost_longest; mmd_critic_tokenize_string post-processing",
    "not_reached": "the Aho-Corasick trie construction and search inside mmd_critic_tokenize_string (an end-to-end unit over the real trie did not finish for 2-byte sources in 700 s; the leftmost-longest FILTER and the tokenizer's post-processing are under contract) and the pair matcher on CM tokens (assumed by the shape), critic_parse_substring, idempotence (second pass), the writers' PAIR_CRITIC_* arms and the CLI -a/-r",
    "trusted_base": ["cbmc/goto-cc 6.11.0 (MiniSat2)", "lib/ds_sink.c as the DString specification"],
    "assumptions": [NOFAIL, _C12_SHAPE],
}

# ---- (2) tokenizer post-processing, Aho-Corasick search by contract
U("c12_tokenize_post", ["C12", "C15"], "h_tokenize", ["C12/tok.c"], ["critic_markup.c", "token.c", "char.c"], plain=True, lib=(), kind="bounded",
  defines=["-DDISABLE_OBJECT_POOL"], bounds={"matches<=": 2, "start,len<=": 8, "unwind": 8}, cbmc_flags=["--unwind", "8", "--unwinding-assertions"],
  functions=["mmd_critic_tokenize_string"], callees={"ac_trie_leftmost_longest_search/trie_*": "contract stubs (Aho-Corasick assumed): ordered non-overlapping matches inside the requested range", "token_new/token_append_child": "body"},
  native=None, min_obligations=20, assumptions=[NOFAIL, "Aho-Corasick search returns ordered, non-overlapping, non-empty matches inside [start, start+len) (assumed)"])

# (an end-to-end unit of the tokenizer with the real trie construction + search, C12/search.c, did not finish for 2-byte sources in 700 s
#  nor for 3-byte sources in 900 s: not registered)
# ---- the leftmost-longest filter on match lists in search order
U("c12_filter_leftmost_longest", ["C12"], "h_filter", ["C12/filter.c"], ["aho-corasick.c"], plain=True, lib=(), kind="bounded",
  defines=["-DNM=3"], bounds={"matches<=": 3, "match lengths": "2 or 3 (the pattern set)", "positions<=": 12, "unwind": 8},
  cbmc_flags=["--unwind", "8", "--unwinding-assertions", "--object-bits", "10"],
  functions=["match_set_filter_leftmost_longest", "match_excise"], callees={"free": "CBMC built-in"}, native=None, min_obligations=20, timeout=300, cost=20,
  assumptions=[NOFAIL, "input lists are in the order ac_trie_search appends them: by end position, longer first for one end (read from ac_trie_search)"])

# (a unit of ac_trie_search over a real 6-state automaton built by trie_new(8)/trie_insert/ac_trie_prepare, C12/acsearch.c, did not finish in 600 s --
#  each state carries a 256-entry transition array; not registered)

# ---- trie construction: the node array grows while the recursion holds an index into it
for _kl in (1, 2):
    U("c12_trie_insert_grows_K%d" % _kl, ["C12", "C01"], "h_trie_insert", ["C12/trie_insert.c"], ["aho-corasick.c"], plain=True, lib=(), kind="bounded", tier=("quick" if _kl == 1 else "thorough"),
      defines=["-DKL=%d" % _kl], bounds={"key bytes": _kl, "initial size = capacity": 2, "unwind": 6},
      cbmc_flags=["--unwind", "6", "--unwinding-assertions"],
      functions=["trie_insert", "trie_node_insert"], callees={"realloc": "contract stub: a block of exactly the requested size, old block released", "memset/calloc/free": "CBMC built-in"}, native=None, min_obligations=20, timeout=600, cost=60,
      assumptions=[NOFAIL, "the array starts full with 2 nodes instead of 256 so that growth happens within a short key; the growth code is the same"])
