# ---------------------------------------------------------------- C12 CriticMarkup accept / reject (erase layer)
_C12_SHAPE = "token tree has the shape produced by mmd_critic_tokenize_string + token_pairs_match_pairs_inside_token(PRUNE_MATCH): contiguous chain, pair token with children opener..closer, mates set, unmatched markers with mate==NULL (ASSUMED: Aho-Corasick tokenizer and pair matcher are out of CBMC's reach)"
_C12_FN = ["accept_token_tree", "accept_token", "accept_token_tree_sub", "reject_token_tree", "reject_token", "reject_token_tree_sub"]
for _h, _nm, _tier, _shape in (("h_single", "c12_single_pair", "quick", "text . PAIR(ADD|DEL|HI|COM around one text run) . text"),
                                ("h_sub", "c12_substitution", "quick", "text . {~~ old ~> new ~~} . text"),
                                ("h_unmatched", "c12_unmatched", "quick", "text . unmatched opener|closer of any of the 5 kinds . text"),
                                ("h_nested", "c12_nested", "quick", "text . OUTER(ADD|DEL|HI){ text INNER(ADD|DEL|HI|COM){text} text }"),
                                # FAILS on the unchanged tree: genuine defect (DESIGN 9 item 9): accept_token/reject_token erase a CM_SUB_DIV that is not inside a substitution
                                ("h_stray_div", "c12_stray_div", "thorough", "text . stray ~> . text")):
    U(_nm, ["C12", "C01"], _h, ["C12/cm.c"], ["critic_markup.c"], plain=True, lib=("lib/ds_sink.c",),
      defines=["-DTB=2", "-DSINK_CAP=24"], kind="bounded", tier=_tier,
      bounds={"shape": _shape, "text run bytes": "0..2 each, symbolic non-NUL", "accept/reject": "both (symbolic)", "unwind": 25},
      cbmc_flags=["--unwind", "25", "--unwindset", "accept_token_tree.0:7,reject_token_tree.0:7,accept_token_tree_sub.0:7,accept_token_tree_sub.1:7,reject_token_tree_sub.0:7,reject_token_tree_sub.1:7,accept_token_tree:2,reject_token_tree:2,accept_token:3,reject_token:3,accept_token_tree_sub:2,reject_token_tree_sub:2", "--unwinding-assertions"], functions=_C12_FN,
      callees={"d_string_erase/d_string_new": "ghost sink (DString by specification, C19)"},
      native={"repo": ["critic_markup.c", "d_string.c"], "ldflags": ["-Wl,--unresolved-symbols=ignore-all"]}, small=["-DVERIF_SMALL=1"],
      min_obligations=20, timeout=600, cost=30, assumptions=[NOFAIL, _C12_SHAPE])

PROPS["C12"] = {
    "level": "other",
    "explanation": "TODO",
    "slice": "TODO", "not_reached": "TODO",
    "trusted_base": ["cbmc/goto-cc 6.11.0 (MiniSat2)", "lib/ds_sink.c"],
    "assumptions": [NOFAIL, _C12_SHAPE],
}
