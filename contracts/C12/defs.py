# C12 (CriticMarkup accept/reject, erase layer): NOT REGISTERED.  The draft spec C12/cm.c (token-tree shape families single pair /
# substitution / unmatched marker / stray ~> / nested, ghost-sink DString, reference result by spec code) and the draft unit table
# defs.py.draft exist, but every unit ran out of 14 GB / 600 s in CBMC 6.11 (symbolic text-run lengths make the token chain and all
# offsets symbolic; recursion accept_token <-> accept_token_tree has to be bounded with --unwindset).  Next step: concrete run
# lengths per unit (one unit per length vector) so that the chain shape is constant under symbolic execution.
