PROPS["C01"] = {
    "level": "proof",
    "explanation": "Memory-safety obligations (pointer dereference, bounds, pointer arithmetic, conversions, signed overflow, libc preconditions) that CBMC generates for every function under contract in this framework, plus units that exist only for safety.",
    "slice": "see functions_under_contract",
    "not_reached": "re2c scanners/lexers, lemon parsers, miniz, uthash beyond one-entry tables with concrete keys, argtable; writer switch bodies beyond the per-token-type units",
    "trusted_base": ["cbmc/goto-cc/goto-instrument 6.11.0", "lib/libc_stubs.c"],
    "assumptions": [LIBC_ASSUME, NOFAIL],
}


# ---- fixed-size scratch arrays
U("c01_table_alignments", ["C01"], "h_table_align", ["C01/table.c"], ["writer.c"], plain=True, lib=(), kind="bounded",
  bounds={"separator cells<=": 52, "unwind": 110}, cbmc_flags=["--unwind", "110", "--unwinding-assertions"],
  functions=["read_table_column_alignments"], callees={"scan_alignment_string": "assumed contract (re2c scanner): returns any value"},
  native={"repo": "ALL", "ldflags": ["-lm"]},
  timeout=600, cost=40, assumptions=["scan_alignment_string (re2c generated) reads only its NUL-terminated argument and returns any value"])

U("c01_attr_new", ["C01"], "h_attr_new", ["C01/attr.c"], ["writer.c"], plain=True, lib=("lib/libc_models.c",), kind="bounded",
  bounds={"value length<=": 5, "unwind": 8}, cbmc_flags=["--unwind", "8", "--unwinding-assertions"],
  functions=["attr_new", "my_strdup (file-local)"], callees={"strlen/strcpy": "byte-loop models"}, native={"repo": "ALL", "exclude": ["writer.c"], "ldflags": ["-lm"]},
  assumptions=[NOFAIL])
U("c01_my_strndup", ["C01"], "h_strndup", ["C01/attr.c"], ["writer.c"], plain=True, lib=("lib/libc_models.c",), kind="bounded",
  bounds={"source length<=": 5, "unwind": 8}, cbmc_flags=["--unwind", "8", "--unwinding-assertions"],
  functions=["my_strndup (file-local)"], callees={"memcpy": "byte-loop model"}, native={"repo": "ALL", "exclude": ["writer.c"], "ldflags": ["-lm"]},
  assumptions=[NOFAIL])

_AMBI_TYPES = ["STAR", "UL", "BACKTICK", "QUOTE_SINGLE", "QUOTE_DOUBLE", "DASH_N", "MATH_DOLLAR_SINGLE", "MATH_DOLLAR_DOUBLE", "SUPERSCRIPT", "SUBSCRIPT", "CRITIC_SUB_DIV"]
for _n, _tier in ((4, "quick"), (6, "thorough")):
  for _ty in _AMBI_TYPES:
    if _ty in ("SUPERSCRIPT", "SUBSCRIPT"):
        continue   # registered below with smaller bounds (tokens_prune/token_new paths are expensive)
    U("c01_ambi_%s_N%d" % (_ty, _n), ["C01"], "h_ambi", ["C01/ambi.c"], ["mmd.c", "token.c", "char.c"], plain=True, lib=(), kind="bounded", tier=_tier,
      defines=["-DDISABLE_OBJECT_POOL", "-DNSRC=%d" % _n, "-DTOKTYPE=" + _ty], bounds={"source bytes<=": _n, "tokens<=": 2, "unwind": _n + 3},
      cbmc_flags=["--unwind", str(_n + 3), "--unwinding-assertions"], timeout=600, cost=30,
      functions=["mmd_assign_ambidextrous_tokens_in_block"], callees={"char_is_*": "body (real table)", "token_new/tokens_prune": "body (DISABLE_OBJECT_POOL)"},
      native={"repo": "ALL", "ldflags": ["-lm"]}, assumptions=[NOFAIL, "tokens lie inside the NUL-terminated source (lexer contract, assumed)"])
for _n, _tier in ((5, "quick"), (7, "thorough")):
  for _ty in ("SUPERSCRIPT", "SUBSCRIPT"):
    U("c01_ambi_%s_N%d" % (_ty, _n), ["C01"], "h_ambi", ["C01/ambi.c"], ["mmd.c", "token.c", "char.c"], plain=True, lib=(), kind="bounded", tier=_tier,
      defines=["-DDISABLE_OBJECT_POOL", "-DNSRC=%d" % _n, "-DTOKTYPE=" + _ty, "-DNO_NEXT"], bounds={"source bytes<=": _n, "tokens<=": 1, "unwind": _n + 3},
      cbmc_flags=["--unwind", str(_n + 3), "--unwinding-assertions"], timeout=900, cost=60,
      functions=["mmd_assign_ambidextrous_tokens_in_block"], callees={"char_is_*": "body (real table)", "token_new/tokens_prune": "body (DISABLE_OBJECT_POOL)"},
      native={"repo": "ALL", "ldflags": ["-lm"]}, assumptions=[NOFAIL, "tokens lie inside the NUL-terminated source (lexer contract, assumed)"])

# token_pair_engine_add_pairing itself: symbolic indices into the 230x230 table do not get through the SAT solver
# (DFCC and plain both > 5 min); its safety rests on the requires "types < kMaxTokenTypes" = the C15 enum obligations.
U("c01_pair_engine_new", ["C01"], "h_engine_new", ["C01/pairs.c"], ["token_pairs.c"], plain=True, lib=(), kind="finite",
  cbmc_flags=["--unwind", "3", "--unwinding-assertions", "--memory-leak-check"], functions=["token_pair_engine_new", "token_pair_engine_free"],
  native={"repo": ["token_pairs.c", "token.c", "stack.c", "object_pool.c", "char.c"]}, callees={"memcpy": "CBMC built-in"}, assumptions=[NOFAIL])

# ---- ownership: parse_brackets hands back a link to be freed only if it was built on the fly
U("c01_parse_brackets_ownership", ["C01"], "h_parse_brackets", ["C01/brackets.c"], ["writer.c"], enforce="parse_brackets",
  replace=["explicit_link", "extract_link_from_stack", "text_inside_pair"], lib=(), cbmc_flags=["--unwind", "5"],
  kind="bounded", bounds={"bracket children": 3, "following token": "none | PAIR_PAREN | PAIR_BRACKET | any type"},
  functions=["parse_brackets"], callees={"explicit_link": "contract (returns NULL or a caller-owned link)", "extract_link_from_stack": "contract (returns NULL or an engine-owned link)", "text_inside_pair": "contract (returns a fresh string)"},
  min_obligations=20, assumptions=["explicit_link returns NULL or a link the caller owns; extract_link_from_stack returns NULL or a link owned by the scratch pad/engine (writer.c ownership comments)"])

# ---- raw-source arm of BLOCK_CODE_FENCED in the five writers (memory safety of the spans copied from the source)
for _s, _fn, _files in (("html", "mmd_export_token_html", ["html.c"]), ("latex", "mmd_export_token_latex", ["latex.c"]), ("beamer", "mmd_export_token_beamer", ["beamer.c"]),
                        ("memoir", "mmd_export_token_memoir", ["memoir.c"]), ("opendocument", "mmd_export_token_opendocument", ["opendocument-content.c"])):
    U("c01_fenced_raw_" + _s, ["C01"], "h_fenced", ["C01/fenced.c"], _files, plain=True, lib=(), kind="bounded",
      defines=["-DI18N_DISABLED=1", "-DC01_WRITER=" + _fn],
      pre_instrument=["--remove-function-body-regex", "^(?!%s$|h_fenced$|mk$|get_fence_language_specifier$|raw_filter_text_matches$|d_string_append_c_array$|verif_.*$|__CPROVER.*$).*" % _fn,
                      "--generate-function-body", "^(?!__CPROVER_|malloc$|free$|verif_).*$", "--generate-function-body-options", "nondet-return"],
      cbmc_flags=["--object-bits", "12", "--unwind", "9", "--unwinding-assertions"],
      bounds={"lines in the block<=": 3, "source bytes<=": 32, "token type": "BLOCK_CODE_FENCED (constant)", "line types": "opening fence kinds x any x any"},
      functions=[_fn + " (arm BLOCK_CODE_FENCED)"],
      callees={"get_fence_language_specifier": "contract stub: NULL or a fresh string with any content", "raw_filter_text_matches": "any answer",
               "d_string_append_c_array": "contract stub asserting that the range lies inside the source", "every other callee": "body removed, nondet return value"},
      min_obligations=20, timeout=300, cost=15, assumptions=[NOFAIL, "configuration -DI18N_DISABLED"])

U("c01_store_asset_key", ["C01", "C09"], "h_store_asset", ["C01/store_asset.c"], ["writer.c"], plain=True, lib=("lib/libc_models.c",), kind="bounded",
  defines=["-DI18N_DISABLED=1"], cbmc_flags=["--unwind", "70", "--unwinding-assertions", "--object-bits", "12"], bounds={"url": "one concrete URL, stored twice", "unwind": 70},
  functions=["store_asset", "extract_asset", "asset_new", "my_strdup (writer.c)"], callees={"uthash macros": "real code", "uuid_new": "stub (fresh string)", "strlen/strcpy": "byte-loop models"},
  min_obligations=10, timeout=300, cost=10, assumptions=[NOFAIL])

# ---- dimension helpers of the writers (static functions): memory safety for short values, tolower domain, high bytes unchanged
for _s, _file, _fn, _extra in (("latex", "latex.c", "__CPROVER_file_local_latex_c_correct_dimension_units", []),
                               ("odf", "opendocument-content.c", "__CPROVER_file_local_opendocument_content_c_correct_dimension_units", []),
                               ("html", "html.c", "__CPROVER_file_local_html_c_strip_dimension_units", ["-DDIM_STRIPS"])):
    U("c01_dimension_units_" + _s, ["C01", "C16"], "h_dim", ["C01/dimension.c"], [_file], plain=True, lib=("lib/libc_models.c",), kind="bounded",
      defines=["-DI18N_DISABLED=1", "-DDIM_FN=" + _fn, "-DDN=3"] + _extra, cbmc_flags=["--unwind", "8", "--unwinding-assertions", "--object-bits", "10"],
      bounds={"value length<=": 3, "bytes": "full domain", "unwind": 8}, functions=[_fn.split("_c_")[-1] + " (static, " + _file + ")", "my_strdup (static)"],
      callees={"tolower": "contract stub: C locale mapping, requires an argument in its domain", "strlen/strcpy/strstr/strcat": "byte-loop models / CBMC built-in"},
      min_obligations=10, timeout=300, cost=5, assumptions=[NOFAIL])

# ---- get_fence_language_specifier: both scans by loop contract, source of symbolic size; the copied range is the
# ---- call-site precondition of my_strndup
_GK = "g_src[g_k]"
_FENCE_LOOPS = {"get_fence_language_specifier": [
    {"loop_id": 0, "vars": ["fence", "source", "start", "len"],
     "invariants": "source == g_src && len == 0 && g_end <= start && start <= g_z && (!(g_end <= g_k && g_k < start) || " + _GK + " == ' ' || " + _GK + " == '\\t')",
     "assigns": "start", "decreases": "g_z - start"},
    {"loop_id": 1, "vars": ["fence", "source", "start", "len"],
     "invariants": "source == g_src && start <= g_z && len <= g_z - start && (!(start <= g_k && g_k < start + len) || !(" + _GK + " == ' ' || " + _GK + " == '\\t' || " + _GK + " == '\\n' || " + _GK + " == '\\r' || " + _GK + " == 0))",
     "assigns": "len", "decreases": "g_z - start - len"},
]}
U("c01_fence_language", ["C01", "C16"], "h_fence_lang", ["C01/fence_lang.c"], ["writer.c"], enforce="get_fence_language_specifier", loops=_FENCE_LOOPS,
  replace=["char_is_whitespace", "char_is_whitespace_or_line_ending", "__CPROVER_file_local_writer_c_my_strndup"], lib=(), small=["-DSRC_SMALL", "-DSRC_MAX=6"], min_obligations=20,
  native=None,
  callees={"char_is_whitespace/char_is_whitespace_or_line_ending": "contracts (proved for all 256 bytes: unit char_classes)",
           "my_strndup": "contract: its precondition states exactly which range may be copied (body: bounded unit c01_my_strndup)"},
  assumptions=["source shorter than 2^40 bytes, NUL-terminated (every caller passes the engine's DString text)", "the fence token's span lies inside the source (C15)"])
