PROPS["C01"] = {
    "level": "proof",
    "explanation": "Memory-safety obligations (pointer dereference, bounds, pointer arithmetic, conversions, signed overflow, libc preconditions) that CBMC generates for every function under contract in this framework, plus units that exist only for safety.",
    "slice": "see functions_under_contract",
    "not_reached": "re2c scanners/lexers, lemon parsers, miniz, uthash, argtable; writer switch bodies beyond the per-token-type units",
    "trusted_base": ["cbmc/goto-cc/goto-instrument 6.11.0", "lib/libc_stubs.c"],
    "assumptions": [LIBC_ASSUME, NOFAIL],
}

