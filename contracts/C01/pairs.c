/* C01 -- fixed-size tables of the pairing engine (token_pairs.h: kMaxTokenTypes).
 * token_pair_engine_add_pairing indexes five tables by token type; contract: every type argument is
 * below kMaxTokenTypes (at the call sites the arguments are enumerators of token_types / the CriticMarkup
 * enum, and "kMaxTokenTypes > every enumerator" is the C15 enum obligation), the five table entries are
 * set, nothing else is written. */
#include "verif.h"
#include "stack.h"
#include "token.h"
#include "token_pairs.h"

#define PRE_add_pairing (open_type < kMaxTokenTypes && close_type < kMaxTokenTypes && pair_type < kMaxTokenTypes)
#define POST_add_pairing (e->can_open_pair[open_type] == 1 && e->can_close_pair[close_type] == 1 && e->pair_type[open_type][close_type] == pair_type \
	&& (!(options & PAIRING_ALLOW_EMPTY) || e->empty_allowed[pair_type]) && (!(options & PAIRING_MATCH_LENGTH) || e->match_len[pair_type]) \
	&& (!(options & PAIRING_PRUNE_MATCH) || e->should_prune[pair_type]))
CONTRACT(void, token_pair_engine_add_pairing, (token_pair_engine * e, unsigned short open_type, unsigned short close_type, unsigned short pair_type, int options),
	PRE_add_pairing, POST_add_pairing,
	__CPROVER_assigns(e->can_open_pair[open_type], e->can_close_pair[close_type], e->pair_type[open_type][close_type], e->empty_allowed[pair_type], e->match_len[pair_type], e->should_prune[pair_type]))

void h_add_pairing(void) {
	token_pair_engine * e = ALLOC(sizeof(token_pair_engine));
	IN(unsigned short, open_type); IN(unsigned short, close_type); IN(unsigned short, pair_type); IN(int, options);
	CALLV(token_pair_engine_add_pairing(e, open_type, close_type, pair_type, options), PRE_add_pairing, POST_add_pairing)
	REACH();
}

#ifdef VERIF_PLAIN
void h_engine_new(void) {
	token_pair_engine * e = token_pair_engine_new();
	IN(unsigned short, i); IN(unsigned short, j); ASSUME(i < kMaxTokenTypes && j < kMaxTokenTypes);
	ASSERT(e != NULL && e->can_open_pair[i] == 0 && e->can_close_pair[i] == 0 && e->pair_type[i][j] == 0 && e->empty_allowed[i] == 0 && e->match_len[i] == 0 && e->should_prune[i] == 0,
		"postcondition token_pair_engine_new: every table entry is zero (ghost indices)");
	token_pair_engine_free(e);
	REACH();
}
#endif
