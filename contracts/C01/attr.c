/* C01 -- attribute parsing helpers of writer.c.  attr_new(key, value): the property's quantifier names
 * "empty attribute values"; value is any NUL-terminated string of length 0..VALB (full byte domain).
 * Postconditions: no invalid access (CBMC's own obligations), the stored value is a fresh copy equal to
 * the input with one leading and one trailing double quote stripped.  my_strndup (file-local): copies
 * min(n, strlen) bytes, never reads past the NUL or n. */
#include "verif.h"
#include <stdio.h>
#include "d_string.h"
#include "libMultiMarkdown.h"
#include "token.h"
#include "writer.h"

attr * attr_new(char * key, char * value);   /* not declared in writer.h */
#ifndef VALB
#define VALB 5
#endif
#ifdef VERIF_NATIVE
#include "writer.c"
#define __CPROVER_file_local_writer_c_my_strndup my_strndup
#else
char * __CPROVER_file_local_writer_c_my_strndup(const char * source, size_t n);
#endif

void h_attr_new(void) {
	IN(size_t, n); ASSUME(n <= VALB);
	IN_ARR(char, vb, VALB);
	char * value = ALLOC(n + 1);
	char orig[VALB + 1];
	for (size_t i = 0; i < VALB; i++) { if (i < n) { ASSUME(vb[i] != 0); value[i] = vb[i]; } orig[i] = i < n ? vb[i] : 0; }
	value[n] = 0; orig[VALB] = 0;
	char * key = ALLOC(2); key[0] = 'k'; key[1] = 0;
	attr * a = attr_new(key, value);
	ASSERT(a != NULL && a->key == key && a->next == NULL && a->value != NULL, "postcondition attr_new: node filled in");
	/* expected: strip one leading quote, then one trailing quote if anything is left */
	size_t s0 = (n > 0 && orig[0] == '"') ? 1 : 0;
	size_t e0 = n;
	if (e0 > s0 && orig[e0 - 1] == '"') { e0--; }
	IN(size_t, k);
	ASSERT(k >= e0 - s0 || a->value[k] == orig[s0 + k], "postcondition attr_new: stored value is the input without its surrounding quotes (ghost index)");
	ASSERT(a->value[e0 - s0] == 0, "postcondition attr_new: stored value has the expected length");
	REACH();
}

void h_strndup(void) {
	IN(size_t, sl); IN(size_t, n); ASSUME(sl <= VALB);
	IN_ARR(char, vb, VALB);
	IN(bool, terminated);
	/* source: sl bytes, optionally followed by a NUL; when not terminated, n must not exceed sl */
	char * source = ALLOC(sl + (terminated ? 1 : 0));
	for (size_t i = 0; i < VALB; i++) { if (i < sl) { ASSUME(vb[i] != 0); source[i] = vb[i]; } }
	if (terminated) { source[sl] = 0; } else { ASSUME(n <= sl); }
	char * r = __CPROVER_file_local_writer_c_my_strndup(source, n);
	size_t m = n < sl ? n : sl;
	ASSERT(r != NULL && r[m] == 0, "postcondition my_strndup: result has length min(n, strlen)");
	IN(size_t, k);
	ASSERT(k >= m || r[k] == source[k], "postcondition my_strndup: bytes copied (ghost index)");
	REACH();
}
