/* C01 / C16 -- the dimension helpers of the writers (static: latex.c correct_dimension_units, opendocument-content.c
 * correct_dimension_units, html.c strip_dimension_units; the real functions, reached through --export-file-local-symbols) on an
 * attribute value of <= DN bytes, full byte domain:
 *   memory safety (every access inside the copy it works on -- in particular for values shorter than the 2-byte unit suffix),
 *   the case mapper is only given values it is defined for (C11 7.4p1: EOF or an unsigned char value),
 *   and a byte >= 0x80 of the value comes back unchanged at the same position (C16: no byte of a multi-byte character is altered). */
#include "verif.h"
#ifndef DN
#define DN 3
#endif
char * DIM_FN(char * original);
int tolower(int c) {
	ASSERT(c == -1 || (c >= 0 && c <= 255), "tolower argument is EOF or representable as unsigned char (C11 7.4p1)");
	return (c >= 'A' && c <= 'Z') ? c + ('a' - 'A') : c;
}
void h_dim(void) {
	IN_ARR(char, v, DN + 1); IN(size_t, n); ASSUME(n <= DN);
	for (size_t i = 0; i < DN + 1; i++) { if (i < n) { ASSUME(v[i] != 0); } }
	v[n] = 0;
	char * val = ALLOC(n + 1);
	for (size_t i = 0; i < DN + 1; i++) { if (i <= n) { val[i] = v[i]; } }
	char * r = DIM_FN(val);
	ASSERT(r != NULL, "a result is returned");
	IN(size_t, k); ASSUME(k < n);
#ifndef DIM_STRIPS
	ASSERT(((unsigned char)v[k] < 0x80) || r[k] == v[k], "C16: a byte >= 0x80 of the value is passed through unchanged");
#endif
	REACH();
}
