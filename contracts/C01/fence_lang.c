/* C01 (also C16) -- get_fence_language_specifier (/repo/src/writer.c, unmodified): the info string of a fenced
 * code block ("```perl"), read by every tree writer.  Source of SYMBOLIC size (up to 2^40 bytes, full byte domain),
 * any fence span inside it; both scanning loops by contract, no unwinding.  Decided for every input:
 *  - memory safety of both scans (they rely on the terminating NUL: NUL is not whitespace and is a line ending);
 *  - WHAT is copied, stated as the precondition of my_strndup (checked at the real call site; ghost index g_k =
 *    universally quantified position): the range handed to my_strndup starts at the first non-blank byte after the
 *    fence marker, every byte in it is outside {space, TAB, LF, CR, NUL}, it is non-empty and it ends exactly where
 *    the first such byte follows -- so no byte >= 0x80 is ever split off a multi-byte sequence (C16) and nothing
 *    past the end of the line is read into the language (C01);
 *  - the result is NULL exactly when my_strndup was not called.
 * char_is_whitespace / char_is_whitespace_or_line_ending by contract (proved for all 256 bytes: unit char_classes);
 * my_strndup by contract (its body: bounded unit c01_my_strndup).                                              */
#include "verif.h"
#include "token.h"

#ifndef SRC_MAX
#define SRC_MAX (1UL << 40)
#endif

char * get_fence_language_specifier(token * fence, const char * source);

const char * g_src;   /* ghost: the source string */
size_t g_z;           /* ghost: index of its terminating NUL (last byte of the object) */
size_t g_end;         /* ghost: end of the fence marker token */
size_t g_k;           /* ghost: an arbitrary source index */
int g_called;         /* ghost: my_strndup was called */

#define IS_WS(c) ((c) == ' ' || (c) == '\t')
#define IS_WS_LE(c) (IS_WS(c) || (c) == '\n' || (c) == '\r' || (c) == '\0')
#define OFFS(p) ((size_t)((unsigned long)(p) - (unsigned long)g_src))

#ifndef VERIF_NATIVE
int char_is_whitespace__contract(char c) __CPROVER_ensures((__CPROVER_return_value != 0) == IS_WS(c)) __CPROVER_assigns();
int char_is_whitespace_or_line_ending__contract(char c) __CPROVER_ensures((__CPROVER_return_value != 0) == IS_WS_LE(c)) __CPROVER_assigns();

/* the call-site obligation: exactly the language word */
#define PRE_strndup (__CPROVER_same_object(source, g_src) && OFFS(source) >= g_end && n > 0 && n <= g_z && OFFS(source) <= g_z - n \
	&& (!(g_end <= g_k && g_k < OFFS(source)) || IS_WS(g_src[g_k])) \
	&& (!(OFFS(source) <= g_k && g_k < OFFS(source) + n) || !IS_WS_LE(g_src[g_k])) \
	&& IS_WS_LE(g_src[OFFS(source) + n]) && g_called == 0)
char * fl_writer_c_my_strndup__contract(const char * source, size_t n)
__CPROVER_requires(PRE_strndup)
__CPROVER_ensures(__CPROVER_is_fresh(__CPROVER_return_value, n + 1) && g_called == 1)
__CPROVER_assigns(g_called);
#endif

#define PRE_fence (source == g_src && g_z < SRC_MAX && g_src[g_z] == 0 && g_called == 0 \
	&& (fence == NULL || (fence->start <= g_z && fence->len <= g_z - fence->start && g_end == fence->start + fence->len)))
#define POST_fence ((RET != NULL) == (g_called != 0) && (fence != NULL || RET == NULL))
CONTRACT(char *, get_fence_language_specifier, (token * fence, const char * source), PRE_fence, POST_fence, __CPROVER_assigns(g_called))

void h_fence_lang(void) {
	IN(size_t, n);
	ASSUME(n < SRC_MAX);
	char * src = ALLOC(n + 1);        /* contents: unconstrained bytes */
#ifdef SRC_SMALL
	{ IN_ARR(unsigned char, fill, SRC_MAX); for (size_t i = 0; i < SRC_MAX; i++) { if (i < n) { src[i] = (char)fill[i]; } } }
#endif
	src[n] = 0;
	g_src = src; g_z = n; g_called = 0;
	{ IN(size_t, k); g_k = k; }
	IN(bool, have_fence); IN(size_t, start); IN(size_t, len);
	token * tk = ALLOC(sizeof(token));
	tk->type = 0; tk->start = start; tk->len = len; tk->next = NULL; tk->prev = NULL; tk->child = NULL; tk->mate = NULL; tk->tail = tk;
	ASSUME(start <= n && len <= n - start);
	g_end = start + len;
	token * fence = have_fence ? tk : NULL;
	const char * source = src;
	CALLR(char *, get_fence_language_specifier(fence, source), PRE_fence, POST_fence)
	REACH();
}
