/* C01 -- ownership of links in parse_brackets (writer.c, real): "engine owns notes/links/meta, scratch
 * pad owns ... shallow link copies".  The writers free the link parse_brackets hands back exactly when
 * *free_link is set.  Contract: *free_link is set ONLY for the link built on the fly by explicit_link
 * (caller-owned); a link found in the scratch pad's table (engine-owned, extract_link_from_stack) is
 * handed back with *free_link == false -- otherwise the writer's link_free would be a double free / use
 * after free when the engine is reset.  Callees by contract (ghost pointers prepared by the harness). */
#include "verif.h"
#include <stdio.h>
#include "d_string.h"
#include "libMultiMarkdown.h"
#include "token.h"
#include "writer.h"

link * g_explicit; bool g_explicit_null;       /* what explicit_link returns */
link * g_owned; bool g_owned_null;             /* what extract_link_from_stack returns (engine-owned) */
char * g_text1; char * g_text2; int g_text_calls;

link * explicit_link(scratch_pad * scratch, token * bracket, token * paren, const char * source);
link * extract_link_from_stack(scratch_pad * scratch, const char * target);
char * text_inside_pair(const char * source, token * pair);
void parse_brackets(const char * source, scratch_pad * scratch, token * bracket, link ** final_link, short * skip_token, bool * free_link);

#ifndef VERIF_NATIVE
link * explicit_link__contract(scratch_pad * scratch, token * bracket, token * paren, const char * source)
	__CPROVER_requires(1) __CPROVER_ensures(__CPROVER_return_value == (g_explicit_null ? (link *)0 : g_explicit)) __CPROVER_assigns();
link * extract_link_from_stack__contract(scratch_pad * scratch, const char * target)
	__CPROVER_requires(1) __CPROVER_ensures(__CPROVER_return_value == (g_owned_null ? (link *)0 : g_owned)) __CPROVER_assigns();
char * text_inside_pair__contract(const char * source, token * pair)
	__CPROVER_requires(g_text_calls < 2)
	__CPROVER_ensures(g_text_calls == __CPROVER_old(g_text_calls) + 1 && __CPROVER_return_value == (__CPROVER_old(g_text_calls) == 0 ? g_text1 : g_text2))
	__CPROVER_assigns(g_text_calls);
#endif

#define PRE_parse_brackets (bracket != NULL && final_link != NULL && skip_token != NULL && free_link != NULL)
#define POST_parse_brackets ((*free_link ? (*final_link == g_explicit && !g_explicit_null) : (*final_link == NULL || *final_link == g_owned)))
CONTRACT(void, parse_brackets, (const char * source, scratch_pad * scratch, token * bracket, link ** final_link, short * skip_token, bool * free_link),
	PRE_parse_brackets, POST_parse_brackets,
	__CPROVER_assigns(*final_link, *skip_token, *free_link, g_text_calls, bracket->child->type, bracket->child->mate->type) __CPROVER_frees(g_text1, g_text2))

static token * mk(unsigned short type) {
	token * t = ALLOC(sizeof(token));
	t->type = type; t->start = 0; t->len = 1; t->next = NULL; t->prev = NULL; t->child = NULL; t->tail = t; t->mate = NULL;
	t->can_open = 1; t->can_close = 1; t->unmatched = 1; t->out_start = 0; t->out_len = 0;
	return t;
}

void h_parse_brackets(void) {
	char * source = ALLOC(8); source[7] = 0;
	scratch_pad * scratch = ALLOC(sizeof(scratch_pad));
	token * bracket = mk(PAIR_BRACKET);
	token * op = mk(BRACKET_LEFT); token * mid = mk(TEXT_PLAIN); token * cl = mk(BRACKET_RIGHT);
	{ IN(unsigned short, midtype); mid->type = midtype; }
	bracket->child = op; op->next = mid; mid->prev = op; mid->next = cl; cl->prev = mid; op->tail = cl; op->mate = cl; cl->mate = op;
	IN(unsigned char, nextkind);
	if (nextkind % 4 == 1) { bracket->next = mk(PAIR_PAREN); } else if (nextkind % 4 == 2) { bracket->next = mk(PAIR_BRACKET); } else if (nextkind % 4 == 3) { IN(unsigned short, nt); bracket->next = mk(nt); }
	g_explicit = ALLOC(sizeof(link)); g_owned = ALLOC(sizeof(link));
	{ IN(bool, en); g_explicit_null = en; } { IN(bool, on); g_owned_null = on; }
	g_text1 = ALLOC(2); g_text2 = ALLOC(2); { IN(char, c0); g_text1[0] = c0; g_text1[1] = 0; g_text2[0] = 'x'; g_text2[1] = 0; }
	g_text_calls = 0;
	link * fl = NULL; short sk = 0; bool fr = false;
	link ** final_link = &fl; short * skip_token = &sk; bool * free_link = &fr;
	CALLV(parse_brackets(source, scratch, bracket, final_link, skip_token, free_link), PRE_parse_brackets, POST_parse_brackets)
	REACH();
}
