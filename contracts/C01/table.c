/* C01 -- fixed-size scratch array table_alignment[kMaxTableColumns] (writer.h) filled by
 * read_table_column_alignments (writer.c) from the separator row of a table.  The property's
 * quantifier names ">48 table columns" explicitly.  Bounded shape: separator row with up to KCELLS
 * cells, KCELLS > kMaxTableColumns so the overflow case is inside the bound.  scan_alignment_string
 * (re2c, scanners.c) is out of CBMC's reach: assumed contract "returns any int, reads only its argument". */
#include "verif.h"
#include <stdio.h>
#include "d_string.h"
#include "libMultiMarkdown.h"
#include "token.h"
#include "writer.h"

#ifndef KCELLS
#define KCELLS 52
#endif

#ifndef VERIF_NATIVE
int g_align;
size_t scan_alignment_string(const char * c) { int r; return (size_t)r; }
#endif

static token * mk_tok(unsigned short type, size_t start, size_t len) {
	token * t = ALLOC(sizeof(token));
	t->type = type; t->start = start; t->len = len; t->next = NULL; t->prev = NULL; t->child = NULL; t->tail = t; t->mate = NULL;
	t->can_open = 0; t->can_close = 0; t->unmatched = 0; t->out_start = 0; t->out_len = 0;
	return t;
}

void h_table_align(void) {
	IN(size_t, ncells); ASSUME(ncells <= KCELLS);
	IN(bool, other_tokens);
	/* source: contents irrelevant (the scanner is a stub); NUL terminated */
	size_t srclen = 4 * KCELLS + 2;
	char * source = ALLOC(srclen);
	source[srclen - 1] = 0;
	/* table -> section -> rows: header row, separator row; separator row's children: cells (+ optional PIPE tokens) */
	token * table = mk_tok(BLOCK_TABLE, 0, srclen - 1);
	token * section = mk_tok(BLOCK_TABLE_HEADER, 0, srclen - 1);
	token * row1 = mk_tok(TABLE_ROW, 0, 1);
	token * sep = mk_tok(TABLE_ROW, 0, srclen - 1);
	table->child = section; section->child = row1; row1->next = sep; sep->prev = row1; row1->tail = sep;
	token * prev = NULL;
	for (size_t i = 0; i < KCELLS; i++) {
		if (i < ncells) {
			token * c = mk_tok(TABLE_CELL, 4 * i + 1, 3);
			if (prev) { prev->next = c; c->prev = prev; } else { sep->child = c; }
			prev = c;
			if (other_tokens) { token * p = mk_tok(TABLE_DIVIDER, 4 * i + 4, 1); prev->next = p; p->prev = prev; prev = p; }
		}
	}
	scratch_pad * scratch = ALLOC(sizeof(scratch_pad));
	read_table_column_alignments(source, table, scratch);
	ASSERT(scratch->table_column_count >= 0 && scratch->table_column_count <= kMaxTableColumns - 1, "postcondition: column count fits the alignment array (terminator included)");
	ASSERT(scratch->table_alignment[scratch->table_column_count] == 0, "postcondition: alignment string is NUL terminated inside the array");
	ASSERT(ncells > kMaxTableColumns - 1 || scratch->table_column_count == (short)ncells, "postcondition: every separator cell up to the supported maximum is counted");
	REACH();
}
