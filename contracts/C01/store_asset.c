/* C01 -- store_asset (writer.c, the real function with the real uthash HASH_FIND_STR / HASH_ADD_KEYPTR and the real asset_new):
 * the asset table owns its keys.  After store_asset(scratch, url) on an empty table the table holds one asset whose hash key POINTER
 * is the asset's own copy of the URL (a->url), not the caller's buffer -- the caller's string (a temporary link's url) is freed
 * right after an inline image is written, and every later lookup would compare against freed memory.  A second store of the same
 * URL adds nothing.  Concrete URL (uthash runs concretely). */
#include "verif.h"
#include "d_string.h"
#include "token.h"
#include "writer.h"
#include "mmd.h"
#include "uthash.h"
char * uuid_new(void) { char * r = malloc(37); r[36] = 0; return r; }
void h_store_asset(void) {
	scratch_pad * scratch = ALLOC(sizeof(scratch_pad));
	scratch->asset_hash = NULL;
	char * url = ALLOC(6); url[0] = '.'; url[1] = '/'; url[2] = 'a'; url[3] = '.'; url[4] = 'p'; url[5] = 0;      /* "./a.p": a relative URL as written in the source */
	store_asset(scratch, url);
	asset * a = scratch->asset_hash;
	ASSERT(a != NULL && a->hh.next == NULL, "one asset stored");
	ASSERT(a->url != url, "C01: the asset keeps its own copy of the URL");
	ASSERT(a->hh.key == (void *)a->url && !__CPROVER_same_object(a->hh.key, url), "C01: the hash key of an asset points into the asset's own copy of the URL, not into the caller's buffer");
	{ asset * found = NULL; HASH_FIND_STR(scratch->asset_hash, url, found);
	  ASSERT(found == a, "C09: the table is keyed by the URL exactly as written: a lookup with the raw URL (as textbundle.c does when it rewrites the text) finds the stored asset"); }
	store_asset(scratch, url);
	ASSERT(scratch->asset_hash == a && a->hh.next == NULL, "storing the same URL again adds nothing");
	REACH();
}
