/* C01 -- look-behind / look-ahead on the source in mmd_assign_ambidextrous_tokens_in_block (mmd.c):
 * "guarded by offset==0 and NUL checks".  Bounded: source of NSRC symbolic bytes + NUL (full byte
 * domain, earlier NULs excluded: the source is a C string), a block with one inline token of every
 * ambidextrous type at every position (start, len symbolic, inside the string), optionally followed by
 * a second token.  Obligations: CBMC's pointer/bounds checks on every str[offset +- k] access in the
 * real function; postcondition: the token span stays inside the source. */
#include "verif.h"
#include <stdio.h>
#include "d_string.h"
#include "libMultiMarkdown.h"
#include "token.h"
#include "mmd.h"

#ifndef NSRC
#define NSRC 5
#endif

void mmd_assign_ambidextrous_tokens_in_block(mmd_engine * e, token * block, size_t start_offset);

static token * mk_tok(unsigned short type, size_t start, size_t len) {
	token * t = ALLOC(sizeof(token));
	t->type = type; t->start = start; t->len = len; t->next = NULL; t->prev = NULL; t->child = NULL; t->tail = t; t->mate = NULL;
	t->can_open = 1; t->can_close = 1; t->unmatched = 1; t->out_start = 0; t->out_len = 0;
	return t;
}

void h_ambi(void) {
	IN(size_t, n); ASSUME(n <= NSRC);
	IN_ARR(char, sb, NSRC);
	char * str = ALLOC(n + 1);
	for (size_t i = 0; i < NSRC; i++) { if (i < n) { ASSUME(sb[i] != 0); str[i] = sb[i]; } }
	str[n] = 0;
	mmd_engine * e = ALLOC(sizeof(mmd_engine));
	DString * d = ALLOC(sizeof(DString)); d->str = str; d->currentStringLength = n; d->currentStringBufferSize = n + 1;
	e->dstr = d;
	IN(unsigned long, ext); e->extensions = ext;
	IN(size_t, start); IN(size_t, len);
	ASSUME(len >= 1 && len <= 3 && start <= n && len <= n - start);
	/* one unit per CONCRETE token type (-DTOKTYPE=...): a symbolic type makes symex walk every arm (>15 min) */
	/* the lexer only produces a CRITIC_SUB_DIV token for the two bytes "~>" */
	ASSUME(TOKTYPE != CRITIC_SUB_DIV || len == 2);
	token * block = mk_tok(BLOCK_PARA, 0, n);
	token * t = mk_tok(TOKTYPE, start, len);
	block->child = t;
#ifdef NO_NEXT
	bool has_next = false;
#else
	IN(bool, has_next);
#endif
	if (has_next) {
		IN(size_t, nlen); ASSUME(nlen <= n - (start + len));
		IN(bool, plain);
		token * t2 = mk_tok(plain ? TEXT_PLAIN : TEXT_PERIOD, start + len, nlen);
		t->next = t2; t2->prev = t; t->tail = t2;
	}
	mmd_assign_ambidextrous_tokens_in_block(e, block, 0);
	ASSERT(block->child == t && t->start + t->len <= n, "postcondition: the token still lies inside the source");
	ASSERT(t->next == NULL || t->next->start + t->next->len <= n, "postcondition: the following token still lies inside the source");
	REACH();
}
