/* C01 -- the raw-source arm of BLOCK_CODE_FENCED in the five per-token writers (html.c, latex.c, beamer.c, memoir.c,
 * opendocument-content.c: the real, unmodified switch function W, run with t->type == BLOCK_CODE_FENCED a constant so that
 * symbolic execution walks exactly this arm).
 *
 * requires  t is a fenced code block as strip_line_tokens_from_block leaves it: a chain of 1..3 line tokens, the first one
 *           the opening fence (CODE_FENCE_LINE or LINE_FENCE_BACKTICK_START_*, with the fence marker as its child), the others
 *           of ANY line type; spans consecutive and inside the source; t->child->tail is the last line
 * ensures   every pointer the arm dereferences is valid, and the byte range it hands to d_string_append_c_array lies inside
 *           the source (the raw `{=format}` block is copied straight from the source)
 *
 * The language specifier is by contract: get_fence_language_specifier returns NULL or a fresh NUL-terminated string with ANY
 * content (so both the "{=" raw arm and the ordinary <pre><code class=..> arm run), raw_filter_text_matches answers anything.
 * Every other callee has its body removed and returns nondeterministically (they receive no pointers computed in this arm,
 * except mmd_export_token_tree_*_raw(t->child->next), which accepts NULL).
 * Bounded: <= 3 lines, source <= SRC bytes.  Found with it (known_findings.txt): a raw fence that is the last line of the document
 * ("plain\n```{=html}" -- one line token, no content, no closing fence) made all five writers read t->child->next->start through NULL
 * (SIGSEGV in the CLI). */
#include "verif.h"
#include <stdio.h>
#include "d_string.h"
#include "token.h"
#include "writer.h"
#include "parser.h"

#ifndef C01_WRITER
#define C01_WRITER mmd_export_token_html
#endif
#define W C01_WRITER
void W(DString * out, const char * source, token * t, scratch_pad * scratch);
#ifndef SRC
#define SRC 32
#endif

static const char * g_source; static size_t g_srclen;

char * get_fence_language_specifier(token * fence, const char * source) {
	bool none; if (none) { return NULL; }
	char * s = malloc(8);
	for (int i = 0; i < 7; i++) { char c; s[i] = c; }
	s[7] = 0;
	return s;
}
bool raw_filter_text_matches(char * pattern, short format) { bool r; return r; }
void d_string_append_c_array(DString * baseString, const char * appendedChars, size_t bytes) {
	/* print_const("...") also comes through here with a string literal: only ranges taken from the source are the subject */
	if (__CPROVER_same_object(appendedChars, g_source)) {
		ASSERT(bytes != (size_t) -1, "a source range is appended with an explicit length");
		size_t off = (size_t)appendedChars - (size_t)g_source;
		ASSERT(off <= g_srclen && bytes <= g_srclen - off, "the copied range lies inside the source (start <= length, start + bytes <= length)");
	} else {
		ASSERT(__CPROVER_r_ok(appendedChars, bytes == (size_t) -1 ? 1 : bytes), "appended bytes are readable");
	}
}

static token * mk(unsigned short type, size_t start, size_t len) {
	token * t = ALLOC(sizeof(token));
	t->type = type; t->start = start; t->len = len; t->next = NULL; t->prev = NULL; t->child = NULL; t->tail = t; t->mate = NULL;
	t->can_open = 0; t->can_close = 0; t->unmatched = 1; t->out_start = 0; t->out_len = 0;
	return t;
}

void h_fenced(void) {
	IN(size_t, srclen); ASSUME(srclen >= 1 && srclen <= SRC);
	char * source = ALLOC(srclen + 1); source[srclen] = 0;
	g_source = source; g_srclen = srclen;
	IN(size_t, b0); IN(size_t, l1); IN(size_t, l2); IN(size_t, l3); IN(size_t, fl); IN(unsigned, n);
	IN(unsigned short, ty1); IN(unsigned short, ty2); IN(unsigned short, ty3);
	ASSUME(n >= 1 && n <= 3);
	ASSUME(b0 <= srclen && l1 >= 1 && l1 <= srclen - b0 && fl >= 1 && fl <= l1);
	ASSUME(ty1 == CODE_FENCE_LINE || ty1 == LINE_FENCE_BACKTICK_START_3 || ty1 == LINE_FENCE_BACKTICK_START_4 || ty1 == LINE_FENCE_BACKTICK_START_5);
	token * a = mk(ty1, b0, l1);
	a->child = mk(CODE_FENCE, b0, fl);
	size_t end = b0 + l1;
	token * last = a;
	if (n >= 2) { ASSUME(l2 >= 1 && l2 <= srclen - end); token * b = mk(ty2, end, l2); last->next = b; b->prev = last; last = b; end += l2; }
	if (n >= 3) { ASSUME(l3 >= 1 && l3 <= srclen - end); token * c = mk(ty3, end, l3); last->next = c; c->prev = last; last = c; end += l3; }
	a->tail = last;
	token * t = mk(BLOCK_CODE_FENCED, b0, end - b0);
	t->child = a;
	scratch_pad * scratch = ALLOC(sizeof(scratch_pad));
	scratch->padded = 2; scratch->recurse_depth = 1; scratch->skip_token = 0;
	DString * out = ALLOC(sizeof(DString)); out->str = ALLOC(8); out->str[0] = 0; out->currentStringLength = 0; out->currentStringBufferSize = 8;
	W(out, source, t, scratch);
	REACH();
}
