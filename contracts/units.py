"""Unit registry: every proof / bounded unit of the framework.

A unit = (real function in /repo/src, contract in a spec file here, configuration).
See DESIGN.md section 1.2 for the pipeline each unit goes through.
"""
import os


class Unit:
    def __init__(self, name, props, entry, spec, repo, enforce=None, replace=(), loops=None, rec=False,
                 kind="proof", tier="quick", bounds=None, defines=(), lib=("lib/libc_stubs.c",),
                 cbmc_flags=(), checks=None, pre_instrument=(), post_instrument=(), timeout=300,
                 min_obligations=5, small=(), native=None, functions=None, callees=None,
                 assumptions=(), nobody_ok=(), malloc_may_fail=False, cost=10, contracts=None, plain=False, replace_contracts=None, drop_bodies=(), repo_variants=()):
        self.plain = plain
        self.name, self.props, self.entry = name, list(props), entry
        self.spec, self.repo, self.enforce = list(spec), list(repo), enforce
        self.replace, self.loops, self.rec = list(replace), loops, rec
        self.kind, self.tier, self.bounds = kind, tier, dict(bounds or {})
        self.defines, self.lib = list(defines), list(lib)
        self.cbmc_flags, self.checks = list(cbmc_flags), checks
        self.pre_instrument, self.post_instrument = list(pre_instrument), list(post_instrument)
        self.timeout, self.min_obligations = timeout, min_obligations
        self.small, self.native = list(small), native
        self.functions = list(functions) if functions else ([enforce] if enforce else [])
        self.callees = dict(callees or {})
        self.assumptions, self.nobody_ok = list(assumptions), list(nobody_ok)
        self.malloc_may_fail, self.cost = malloc_may_fail, cost
        self.contracts = dict(contracts or {})
        # contract used where a call to fn is REPLACED, when it differs from the one ENFORCED on fn (same function, two contracts)
        self.replace_contracts = dict(replace_contracts or {})
        # callees defined in the unit's own repo files whose bodies are removed so that a contract stub in the spec TU is linked instead
        self.drop_bodies = list(drop_bodies)
        # [(repo file, [extra -D...])]: additional compilations of a repo file under renaming defines
        self.repo_variants = [(f, list(x)) for f, x in repo_variants]

    def contract_name(self, fn):
        return self.contracts.get(fn, fn.replace("__CPROVER_file_local_", "fl_") + "__contract")


LIBC_ASSUME = "libc byte movers (strlen/memmove/memcpy/strncpy/strncat) are contract stubs restating the C standard (lib/libc_stubs.c); content not tracked in size-generic units"
NOFAIL = "malloc/realloc never fail (--no-malloc-may-fail): allocation failure is outside the property's quantifier"

PROPS = {}
NOT_APPLICABLE = {}
_UNITS = []


def U(*a, **k):
    u = Unit(*a, **k)
    _UNITS.append(u)
    return u


def all_units():
    return list(_UNITS)




def _load_defs():
    """every contracts/<dir>/defs.py registers its units and PROPS entry; they are exec'd in this
    module's namespace (U, PROPS, NOT_APPLICABLE, LIBC_ASSUME, NOFAIL are in scope)"""
    here = os.path.dirname(os.path.abspath(__file__))
    for d in sorted(os.listdir(here)):
        p = os.path.join(here, d, "defs.py")
        if os.path.exists(p):
            exec(compile(open(p).read(), p, "exec"), globals())


NOT_APPLICABLE.update({
    "C03": "the oracle is a reference Markdown renderer and the subject is the composition lexer->parser->pairing->writer; no function contract within CBMC's reach expresses it (DESIGN.md 4/C03)",
    "C17": "function contracts constrain one call in one thread; DFCC has no interleaving semantics (DESIGN.md 4/C17)",
})
_load_defs()


def _apply_quick_excludes():
    """contracts/quick_exclude.txt: lines "<PID> <unit>": the unit stays in <PID>'s thorough tier but is left
    out of its QUICK tier (used for expensive units that serve a second property, mainly C01, so that the
    quick check of that property stays within its time budget; the unit still runs in the quick tier of its
    primary property)."""
    here = os.path.dirname(os.path.abspath(__file__))
    p = os.path.join(here, "quick_exclude.txt")
    if not os.path.exists(p):
        return
    ex = {}
    for line in open(p):
        line = line.split("#")[0].split()
        if len(line) == 2:
            ex.setdefault(line[1], set()).add(line[0])
    for u in _UNITS:
        u.not_quick_for = ex.get(u.name, set())


_apply_quick_excludes()
for _p in ["C%02d" % i for i in range(1, 21)]:
    if _p not in PROPS:
        NOT_APPLICABLE.setdefault(_p, "units for this property are not built yet in this revision of /verif (planned in DESIGN.md section 4); not claimed until they are")
