"""Unit registry: every proof / bounded unit of the framework.

A unit = (real function in /repo/src, contract in a spec file here, configuration).
See DESIGN.md section 1.2 for the pipeline each unit goes through.
"""
import os


class Unit:
    def __init__(self, name, props, entry, spec, repo, enforce=None, replace=(), loops=None, rec=False,
                 kind="proof", tier="quick", bounds=None, defines=(), lib=("lib/libc_stubs.c",),
                 cbmc_flags=(), checks=None, pre_instrument=(), post_instrument=(), timeout=300,
                 min_obligations=5, small=(), native=None, functions=None, callees=None,
                 assumptions=(), nobody_ok=(), malloc_may_fail=False, cost=10, contracts=None, plain=False):
        self.plain = plain
        self.name, self.props, self.entry = name, list(props), entry
        self.spec, self.repo, self.enforce = list(spec), list(repo), enforce
        self.replace, self.loops, self.rec = list(replace), loops, rec
        self.kind, self.tier, self.bounds = kind, tier, dict(bounds or {})
        self.defines, self.lib = list(defines), list(lib)
        self.cbmc_flags, self.checks = list(cbmc_flags), checks
        self.pre_instrument, self.post_instrument = list(pre_instrument), list(post_instrument)
        self.timeout, self.min_obligations = timeout, min_obligations
        self.small, self.native = list(small), native
        self.functions = list(functions) if functions else ([enforce] if enforce else [])
        self.callees = dict(callees or {})
        self.assumptions, self.nobody_ok = list(assumptions), list(nobody_ok)
        self.malloc_may_fail, self.cost = malloc_may_fail, cost
        self.contracts = dict(contracts or {})

    def contract_name(self, fn):
        return self.contracts.get(fn, fn.replace("__CPROVER_file_local_", "fl_") + "__contract")


LIBC_ASSUME = "libc byte movers (strlen/memmove/memcpy/strncpy/strncat) are contract stubs restating the C standard (lib/libc_stubs.c); content not tracked in size-generic units"
NOFAIL = "malloc/realloc never fail (--no-malloc-may-fail): allocation failure is outside the property's quantifier"

PROPS = {}
_UNITS = []


def U(*a, **k):
    u = Unit(*a, **k)
    _UNITS.append(u)
    return u


def all_units():
    return list(_UNITS)


# ---------------------------------------------------------------- C19 DString
PROPS["C19"] = {
    "level": "proof",
    "explanation": "Every public DString operation of /repo/src/d_string.c is verified against its contract (DS_WF representation invariant + ideal-string length model, lib/ds_spec.h) by goto-instrument --dfcc contract enforcement: Unit A for all capacities up to 2^40 and all size_t positions/lengths (byte movers as contract stubs), Unit B for byte content at small capacities (bounded, reported separately).",
    "slice": "d_string_new/free/append/append_c/append_c_array/append_printf/prepend/insert/insert_c/insert_c_array/insert_printf/erase/copy_substring/replace_text_in_range + file-local ensureStringBufferCanHold",
    "not_reached": "formatting done by libc vsnprintf; sequences of operations follow by induction from the per-operation contracts (DS_WF is both pre- and postcondition), stated not machine-checked",
    "trusted_base": ["cbmc/goto-cc/goto-instrument 6.11.0 (DFCC instrumentation, MiniSat2)", "lib/libc_stubs.c contract stubs for libc", "x86-64 LP64 machine model, size_t arithmetic modular as in C"],
    "assumptions": [LIBC_ASSUME, NOFAIL, "DString capacity <= 2^40 and argument strings shorter than 2^40 in Unit A"],
}

_DS_SMALL = ["-DCAP_MAX=24", "-DSTR_MAX=8"]
_ENSURE = "__CPROVER_file_local_d_string_c_ensureStringBufferCanHold"
# inductive contract of the growth loop in ensureStringBufferCanHold (the only loop on these paths)
_ENSURE_LOOP = {_ENSURE: [{
    "loop_id": 0, "vars": ["newBufferSize", "newBufferSizeNeeded", "baseString"],
    "invariants": "newBufferSize >= 1 && newBufferSize >= baseString->currentStringBufferSize && newBufferSize <= 2 * newBufferSizeNeeded + 104857600ul",
    "assigns": "newBufferSize",
    "decreases": "(newBufferSizeNeeded > newBufferSize ? newBufferSizeNeeded - newBufferSize : 0ul)"}]}
_GROWS = {"d_string_append", "d_string_append_c", "d_string_append_c_array", "d_string_prepend", "d_string_insert", "d_string_insert_c", "d_string_insert_c_array"}
_DS_NATIVE = {"repo": ["d_string.c"]}
for fn, h in [("d_string_erase", "h_erase"), ("d_string_append", "h_append"), ("d_string_append_c", "h_append_c"),
              ("d_string_append_c_array", "h_append_c_array"), ("d_string_prepend", "h_prepend"),
              ("d_string_insert", "h_insert"), ("d_string_insert_c", "h_insert_c"),
              ("d_string_insert_c_array", "h_insert_c_array"), ("d_string_copy_substring", "h_copy_substring")]:
    U("ds_A_" + fn[9:], ["C19", "C01"], h, ["C19/ds_A.c"], ["d_string.c"], enforce=fn, loops=(_ENSURE_LOOP if fn in _GROWS else None),
      small=_DS_SMALL, native=_DS_NATIVE, min_obligations=20,
      callees={"ensureStringBufferCanHold": "body", "strlen/memmove/memcpy/strncpy/strncat": "contract stub", "realloc/malloc": "CBMC built-in"},
      nobody_ok=["fprintf", "exit"],
      assumptions=[LIBC_ASSUME, NOFAIL])

# Unit B: byte content, bounded capacity (real CBMC libc models, loops unwound)
for fn, h in [("d_string_erase", "h_erase"), ("d_string_append", "h_append"), ("d_string_append_c", "h_append_c"),
              ("d_string_append_c_array", "h_append_c_array"), ("d_string_prepend", "h_prepend"),
              ("d_string_insert", "h_insert"), ("d_string_insert_c", "h_insert_c"),
              ("d_string_insert_c_array", "h_insert_c_array"), ("d_string_copy_substring", "h_copy_substring")]:
    for capb, tier in (((3, "quick"), (5, "thorough")) if fn == "d_string_insert_c_array" else ((4, "quick"), (7, "thorough"))):
        U("ds_B%d_%s" % (capb, fn[9:]), ["C19"], h, ["C19/ds_A.c"], ["d_string.c"], plain=True, functions=[fn], lib=("lib/libc_models.c",),
          defines=["-DUNIT_B", "-DCAPB=%d" % capb, "-DSTRB=%d" % (capb // 2)], kind="bounded", tier=tier,
          bounds={"capacity<=": capb, "argument string length<": capb // 2, "unwind": capb + 2},
          cbmc_flags=["--unwind", str(capb + 2), "--unwinding-assertions"],
          native=_DS_NATIVE, min_obligations=20, nobody_ok=["fprintf", "exit"], timeout=600, cost=30,
          callees={"ensureStringBufferCanHold": "body", "libc": "byte-loop reference models lib/libc_models.c (unwound)"},
          assumptions=[NOFAIL])

# ---------------------------------------------------------------- stack (shared)
_ST_NATIVE = {"repo": ["stack.c"]}
U("stack_push", ["C18", "C01"], "h_push", ["C18/stack.c"], ["stack.c"], enforce="stack_push", lib=(),
  contracts={"stack_push": "stack_push__contract_frame"}, native=_ST_NATIVE, small=["-DSTACK_CAP_MAX=8"],
  callees={"realloc": "CBMC built-in"}, assumptions=[NOFAIL, "stacks hold fewer than 2^29 entries (capacity is an int that doubles)"])
for _f in ("pop", "peek", "peek_index"):
    U("stack_" + _f, ["C18", "C01"], "h_" + _f, ["C18/stack.c"], ["stack.c"], enforce="stack_" + _f, lib=(),
      native=_ST_NATIVE, small=["-DSTACK_CAP_MAX=8"], callees={"stack_peek": "body"})

# ---------------------------------------------------------------- C18 pool
U("pool_allocate_object", ["C18", "C01"], "h_alloc", ["C18/pool.c"], ["object_pool.c", "stack.c"], enforce="pool_allocate_object", lib=(),
  functions=["pool_allocate_object", "pool_add_slab"], callees={"pool_add_slab": "body", "stack_push": "body", "malloc/realloc": "CBMC built-in"},
  native={"repo": ["object_pool.c", "stack.c"]}, small=["-DSTACK_CAP_MAX=4"], assumptions=[NOFAIL], min_obligations=50)
U("pool_drain_K3", ["C18", "C01"], "h_drain", ["C18/pool.c"], ["object_pool.c", "stack.c"], plain=True, lib=(), kind="bounded",
  bounds={"slabs<=": 3, "unwind": 5}, cbmc_flags=["--unwind", "5", "--unwinding-assertions", "--memory-leak-check"],
  functions=["pool_drain"], callees={"stack_pop": "body", "free": "CBMC built-in"}, native={"repo": ["object_pool.c", "stack.c"]})
U("pool_new_free", ["C18", "C01"], "h_new_free", ["C18/pool.c"], ["object_pool.c", "stack.c"], plain=True, lib=(), kind="bounded",
  bounds={"objects allocated<=": 3, "unwind": 5}, cbmc_flags=["--unwind", "5", "--unwinding-assertions", "--memory-leak-check"],
  functions=["pool_new", "pool_free", "pool_add_slab", "stack_new", "stack_free"], callees={"all": "body"}, native={"repo": ["object_pool.c", "stack.c"]}, assumptions=[NOFAIL])
_TP_NATIVE = {"repo": ["object_pool.c", "stack.c", "char.c"]}
U("token_pool_init", ["C18"], "h_tp_init", ["C18/token_pool.c"], ["object_pool.c", "stack.c", "char.c"], enforce="token_pool_init", lib=(),
  callees={"pool_new": "body", "pool_add_slab": "body", "stack_new/stack_push": "body"}, native=_TP_NATIVE, small=["-DSTACK_CAP_MAX=4"], assumptions=[NOFAIL, "token.c is verified as textually included in the spec TU (its statics are not linkable)"])
U("token_pool_drain", ["C18"], "h_tp_drain", ["C18/token_pool.c"], ["object_pool.c", "stack.c", "char.c"], enforce="token_pool_drain", replace=["pool_drain"], lib=(),
  callees={"pool_drain": "contract (proved bounded in pool_drain_K3)"}, native=_TP_NATIVE, small=["-DSTACK_CAP_MAX=4"])
U("token_pool_free", ["C18"], "h_tp_free", ["C18/token_pool.c"], ["object_pool.c", "stack.c", "char.c"], enforce="token_pool_free", replace=["pool_free"], lib=(),
  callees={"pool_free": "contract (havoc nothing; proved in pool_new_free)"}, nobody_ok=["fprintf"], native=_TP_NATIVE, small=["-DSTACK_CAP_MAX=4"])
for _hl, _tier in ((4, "thorough"),):
  U("token_pool_history%d" % _hl, ["C18"], "h_history", ["C18/token_pool.c"], ["object_pool.c", "stack.c", "char.c"], plain=True, lib=(), kind="bounded", tier=_tier,
  defines=["-DHLEN=%d" % _hl], bounds={"history length<=": _hl, "unwind": _hl + 2}, cbmc_flags=["--unwind", str(_hl + 2), "--unwinding-assertions", "--memory-leak-check"], timeout=900, cost=60,
  functions=["token_pool_init", "token_pool_drain", "token_pool_free", "token_new", "pool_allocate_object", "pool_drain", "pool_free", "pool_new"],
  callees={"all": "body"}, nobody_ok=["fprintf"], native=_TP_NATIVE, assumptions=[NOFAIL])

PROPS["C01"] = {
    "level": "proof",
    "explanation": "Memory-safety obligations (pointer dereference, bounds, pointer arithmetic, conversions, signed overflow, libc preconditions) that CBMC generates for every function under contract in this framework, plus units that exist only for safety.",
    "slice": "see functions_under_contract",
    "not_reached": "re2c scanners/lexers, lemon parsers, miniz, uthash, argtable; writer switch bodies beyond the per-token-type units",
    "trusted_base": ["cbmc/goto-cc/goto-instrument 6.11.0", "lib/libc_stubs.c"],
    "assumptions": [LIBC_ASSUME, NOFAIL],
}

PROPS["C18"] = {
    "level": "proof",
    "explanation": "Every pool and stack operation (object_pool.c, stack.c) and the token_pool_init/drain/free protocol functions (token.c) are verified against contracts over POOL_WF / ST_WF for all slab positions, all stack sizes and all counter values; bounded histories of the protocol are a separate bounded unit.",
    "slice": "stack_push/pop/peek/peek_index, pool_add_slab, pool_allocate_object, pool_drain, pool_new, pool_free, token_pool_init/drain/free",
    "not_reached": "conversions running between init and drain (the property's 'results unchanged') are covered only through the allocator contract: a token handed out stays valid until the outermost drain",
    "trusted_base": ["cbmc/goto-cc/goto-instrument 6.11.0", "CBMC built-in malloc/realloc/free model"],
    "assumptions": ["fewer than 2^29 slabs / stack entries", "fewer than 32767 nested token_pool_init calls (short counter)"],
}

NOT_APPLICABLE = {
    "C03": "the oracle is a reference Markdown renderer and the subject is the composition lexer->parser->pairing->writer; no function contract within CBMC's reach expresses it (DESIGN.md 4/C03)",
    "C17": "function contracts constrain one call in one thread; DFCC has no interleaving semantics (DESIGN.md 4/C17)",
}
for _p in ["C02", "C04", "C05", "C06", "C07", "C08", "C09", "C10", "C11", "C12", "C13", "C14", "C15", "C16", "C20"]:
    NOT_APPLICABLE.setdefault(_p, "units for this property are not built yet in this revision of /verif (planned in DESIGN.md section 4); not claimed until they are")
