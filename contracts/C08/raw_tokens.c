/* C08 (and C04 item 4) -- the OpenDocument raw / math exporters (with -DRAW_HTML: the HTML raw exporter, whose
 * output is also EPUB's XHTML) on a ONE-TOKEN tree, and the OpenDocument link / image attribute construction.
 * Real, unmodified /repo/src/opendocument-content.c (html.c); output into the ghost sink.
 *
 * A token's source text is what the lexer matched.  For the delimiter tokens the property names the
 * lexeme is a fixed literal of lexer.re (assumption: the re2c scanner is outside CBMC's reach; the
 * literals below are transcribed from lexer.re lines 114-141/196-199).                                   */
#include "markup_spec.h"
#include "libMultiMarkdown.h"
#include "token.h"
#include "opendocument-content.h"
#include "html.h"
#ifdef RAW_HTML
#define RAW_FN mmd_export_token_html_raw
#define MATH_FN mmd_export_token_html_raw     /* html.c has no per-token math exporter */
#define RAWNAME "html raw"
void mmd_export_link_html(DString * out, const char * source, token * text, link * link, scratch_pad * scratch);
void mmd_export_image_html(DString * out, const char * source, token * text, link * link, scratch_pad * scratch, bool is_figure);
#define LINK_FN mmd_export_link_html
#define IMAGE_FN mmd_export_image_html
#define A_HREF "href"
#define A_TITLE "title"
#define A_SRC "src"
#define LNAME "html"
#else
#define LINK_FN mmd_export_link_opendocument
#define IMAGE_FN mmd_export_image_opendocument
#define A_HREF "xlink:href"
#define A_TITLE "office:name"
#define A_SRC "xlink:href"
#define LNAME "odf"
#define RAW_FN mmd_export_token_opendocument_raw
#define MATH_FN mmd_export_token_opendocument_math
#define RAWNAME "odf raw/math"
#endif

#define PRE_sink(d) ((d) != NULL && (d)->currentStringLength == 0)
#define POST_sink(d) ((d)->str != NULL && (d)->currentStringLength < (d)->currentStringBufferSize && (d)->str[(d)->currentStringLength] == 0)

#define LEX_MAX 4
typedef struct { unsigned short type; const char * lexeme; int len; } lex_entry;
/* group 0: delimiter tokens containing < > & " that the raw exporter must escape (property C08) */
/* group 1: CriticMarkup comment close "<<}" (contains <)                                          */
/* group 2: tokens containing > but no < or & (C04: reserved character unescaped; still well-formed) */
static const lex_entry LEX[] = {
	{ ANGLE_LEFT, "<", 1 }, { ANGLE_RIGHT, ">", 1 }, { HTML_COMMENT_START, "<!--", 4 }, { HTML_COMMENT_STOP, "-->", 3 },
	{ AMPERSAND, "&", 1 }, { QUOTE_DOUBLE, "\"", 1 },
	{ CRITIC_COM_CLOSE, "<<}", 3 },
	{ CRITIC_COM_OPEN, "{>>", 3 }, { CRITIC_SUB_DIV, "~>", 2 }, { BRACKET_ABBREVIATION_LEFT, "[>", 2 },
};
#define G0_LO 0
#define G0_HI 5
#define G1_LO 6
#define G1_HI 6
#define G2_LO 7
#define G2_HI 9
#define G3_LO 9      /* "[>" alone */
#define G3_HI 9

#define SRC_N (LEX_MAX + 3)
/* one token of type LEX[w].type whose source text is LEX[w].lexeme, at offset start of a small source buffer
 * whose other bytes are arbitrary; no siblings, no children */
#define FOR_TOKENS(lo, hi) \
	IN(size_t, start); IN_ARR(char, fill, SRC_N); IN(bool, math); \
	ASSUME(start <= 2); \
	scratch_pad * scratch = ALLOC(sizeof(scratch_pad)); \
	scratch->skip_token = 0; \
	/* the token type is CONCRETE in every iteration (a symbolic type would make every arm of the switch, loops included, reachable for symex) */ \
	for (int w = (lo); w <= (hi); w++) { \
		char source[SRC_N]; \
		for (int i_ = 0; i_ < SRC_N; i_++) { source[i_] = fill[i_]; } \
		for (int i_ = 0; i_ < LEX_MAX; i_++) { if (i_ < LEX[w].len) { source[start + i_] = LEX[w].lexeme[i_]; } } \
		source[SRC_N - 1] = 0; \
		token * t = ALLOC(sizeof(token)); \
		t->type = LEX[w].type; t->start = start; t->len = (size_t)LEX[w].len; \
		t->next = NULL; t->prev = NULL; t->child = NULL; t->tail = NULL; t->mate = NULL; \
		t->can_open = 0; t->can_close = 0; t->unmatched = 0; t->out_start = 0; t->out_len = 0; \
		DString * out = d_string_new("");
#define END_TOKENS }

#define RUN_TOKEN() \
	if (math) { CALLV(MATH_FN(out, source, t, scratch), PRE_sink(out), POST_sink(out)) } \
	else { CALLV(RAW_FN(out, source, t, scratch), PRE_sink(out), POST_sink(out)) } \
	xml_scan r = SINK_SCAN_XML(out);

#define POST_tok_wf        (XML_TEXT_WF(r) && !r.bad_char && r.nelem == 0)
#define POST_tok_safe      XML_TEXT_SAFE(r, 0)
#define POST_tok_verbatim  same_text(LEX[w].lexeme, (size_t)LEX[w].len, r.dec, r.ndec, false)

void h_tok_delims(void) {
	FOR_TOKENS(G0_LO, G0_HI)
	RUN_TOKEN()
	ASSERT(POST_tok_wf, "C08 " RAWNAME " delimiter token (ANGLE_*, HTML_COMMENT_*, AMPERSAND, QUOTE_DOUBLE): output is well-formed character data, opens no markup");
	ASSERT(POST_tok_safe, "C04 " RAWNAME " delimiter token: & < > \" only escaped");
	ASSERT(POST_tok_verbatim, "C04 " RAWNAME " delimiter token: verbatim region reproduces the source characters after undoing the escaping");
	END_TOKENS
	REACH();
}

/* thorough tier: FAILS on the unchanged tree (genuine defect, see defs.py) */
void h_tok_critic_close(void) {
	FOR_TOKENS(G1_LO, G1_HI)
	RUN_TOKEN()
	ASSERT(POST_tok_wf, "C08 " RAWNAME " CRITIC_COM_CLOSE token: output is well-formed character data, opens no markup");
	ASSERT(POST_tok_verbatim, "C04 " RAWNAME " CRITIC_COM_CLOSE token: verbatim region reproduces the source characters after undoing the escaping");
	END_TOKENS
	REACH();
}

/* thorough tier: FAILS on the unchanged tree for C04 only (raw > is well-formed XML) */
void h_tok_gt(void) {
	FOR_TOKENS(G2_LO, G2_HI)
	RUN_TOKEN()
	ASSERT(POST_tok_wf, "C08 " RAWNAME " token containing > (CRITIC_COM_OPEN, CRITIC_SUB_DIV, BRACKET_ABBREVIATION_LEFT): output is well-formed character data");
	ASSERT(POST_tok_verbatim, "C04 " RAWNAME " token containing >: verbatim region reproduces the source characters after undoing the escaping");
	ASSERT(POST_tok_safe, "C04 " RAWNAME " token containing >: & < > \" only escaped");
	END_TOKENS
	REACH();
}

void h_tok_all(void) {
	FOR_TOKENS(G0_LO, G3_LO - 1)
	RUN_TOKEN()
	ASSERT(POST_tok_wf, "C08 " RAWNAME " delimiter token (ANGLE_*, HTML_COMMENT_*, CRITIC_COM_*, CRITIC_SUB_DIV, AMPERSAND, QUOTE_DOUBLE): output is well-formed character data, opens no markup");
	ASSERT(POST_tok_safe, "C04 " RAWNAME " delimiter token: & < > \" only escaped");
	ASSERT(POST_tok_verbatim, "C04 " RAWNAME " delimiter token: verbatim region reproduces the source characters after undoing the escaping");
	END_TOKENS
	REACH();
}

/* thorough tier: FAILS on the unchanged tree for C04 only, in both raw exporters (raw > is well-formed XML) */
void h_tok_abbr(void) {
	FOR_TOKENS(G3_LO, G3_HI)
	RUN_TOKEN()
	ASSERT(POST_tok_wf, "C08 " RAWNAME " BRACKET_ABBREVIATION_LEFT token: output is well-formed character data");
	ASSERT(POST_tok_verbatim, "C04 " RAWNAME " BRACKET_ABBREVIATION_LEFT token: verbatim region reproduces the source characters after undoing the escaping");
	ASSERT(POST_tok_safe, "C04 " RAWNAME " BRACKET_ABBREVIATION_LEFT token: & < > \" only escaped");
	END_TOKENS
	REACH();
}

/* ESCAPED_CHARACTER: backslash + ANY byte (lexer.re: "\\" followed by a punctuation character; taken as any
 * byte here), printed as backslash + escaped byte */
void h_tok_escaped(void) {
	IN(size_t, start); IN_ARR(char, source, SRC_N); IN(bool, math);
	ASSUME(start <= 2);
	source[start] = '\\';
	source[SRC_N - 1] = 0;
	char c = source[start + 1];
	token * t = ALLOC(sizeof(token));
	t->type = ESCAPED_CHARACTER; t->start = start; t->len = 2;
	t->next = NULL; t->prev = NULL; t->child = NULL; t->tail = NULL; t->mate = NULL;
	scratch_pad * scratch = ALLOC(sizeof(scratch_pad));
	scratch->skip_token = 0;
	DString * out = d_string_new("");
	RUN_TOKEN()
	ASSERT(IS_CTRL(c) || (XML_TEXT_WF(r) && !r.bad_char && r.nelem == 0), "C08 " RAWNAME " ESCAPED_CHARACTER token (non-control byte): output is well-formed character data, opens no markup");
	ASSERT(XML_TEXT_SAFE(r, WS_ELEMS(c, false)), "C04 " RAWNAME " ESCAPED_CHARACTER token: & < > \" only escaped");
	ASSERT(c == 0 || (r.ndec == 2 && r.dec[0] == '\\' && r.dec[1] == UC(c)), "C04 " RAWNAME " ESCAPED_CHARACTER token: verbatim region reproduces backslash and character");
	REACH();
}

/* ================================================================== link / image attribute construction */
#ifndef ATTR_N
#define ATTR_N 2
#endif
/* a C string of exactly L non-NUL symbolic bytes (full byte domain) */
#define MK_STR_L(name, L) \
	IN_ARR(char, name, ATTR_N + 1); \
	for (int i_ = 0; i_ < ATTR_N + 1; i_++) { if (i_ < (L)) { ASSUME(name[i_] != 0); } else { name[i_] = 0; } }
static bool str_no_ctrl(const char * s) {
	for (int i = 0; i < ATTR_N; i++) {
		if (s[i] == 0) {
			return true;
		}
		if (IS_CTRL(s[i])) {
			return false;
		}
	}
	return true;
}
static bool attr_is(const markup_scan * m, const char * s) {
	int L = 0;
	for (int i = 0; i < ATTR_N; i++) { if (s[i] != 0 && L == i) { L = i + 1; } }
	if (m->ndec != L) {
		return false;
	}
	for (int i = 0; i < ATTR_N; i++) {
		if (i < L && m->dec[i] != UC(s[i])) {
			return false;
		}
	}
	return true;
}
#define MK_LINK() \
	link * lnk = ALLOC(sizeof(link)); \
	lnk->label = NULL; lnk->label_text = NULL; lnk->clean_text = NULL; lnk->attributes = NULL; lnk->flags = 0; \
	scratch_pad * scratch = ALLOC(sizeof(scratch_pad)); \
	scratch->store_assets = 0; scratch->remember_assets = 0; scratch->skip_token = 0; scratch->padded = 0; \
	{ IN(unsigned long, extensions); scratch->extensions = extensions; } \
	DString * out = d_string_new("");

/* <text:a xlink:type="simple" xlink:href="URL" [office:name="TITLE"]></text:a> */
#ifndef URL_L
#define URL_L 2
#endif
#ifndef TITLE_L
#define TITLE_L 0
#endif
void h_link(void) {
	MK_STR_L(url, URL_L)
	MK_STR_L(title, TITLE_L)
	IN(bool, has_title);
	MK_LINK()
	lnk->url = url; lnk->title = has_title ? title : NULL;
	CALLV(LINK_FN(out, "", NULL, lnk, scratch), PRE_sink(out), POST_sink(out))
	bool ctrl_free = str_no_ctrl(url) && str_no_ctrl(title);
	markup_scan m = xml_markup_run(out->str, out->currentStringLength, ms_hash(A_HREF));
	ASSERT(!ctrl_free || (m.wf && !m.bad_char), "C08 " LNAME " link (control-free url/title): the element is well-formed XML");
	ASSERT(!ctrl_free || attr_is(&m, url), "C08 " LNAME " link: the value of the href attribute decodes back to the url");
#if TITLE_L > 0
	markup_scan m2 = xml_markup_run(out->str, out->currentStringLength, ms_hash(A_TITLE));
	ASSERT(!ctrl_free || !has_title || attr_is(&m2, title), "C08 " LNAME " link: the value of the title attribute decodes back to the title");
#endif
	REACH();
}

/* the draw:frame / draw:image construction (about 420 bytes of markup around the url).
 * Decomposition (scanning 420 bytes whose positions depend on symbolic data is out of reach):
 *   (a) FRAME: the call with url = "" gives the frame F; it is concrete, the markup scanner checks that it is
 *       well-formed and reports the offset P of the (empty) value of xlink:href;
 *   (b) the call with the symbolic url gives S; S must be F with a segment of K bytes inserted at P
 *       (bytes before P and after P+K equal F's);
 *   (c) the inserted segment is attribute-safe (no element, no ", & only as reference) and decodes to the url.
 * (a)+(b)+(c) => S is well-formed and the url stays inside its attribute (an attribute value that is replaced
 * by another attribute-safe value leaves a well-formed document well-formed: XML 1.0 production [10]). */
#define SEG_MAX (6 * ATTR_N)
void h_image(void) {
	MK_STR_L(url, URL_L)
	MK_LINK()
	lnk->url = ""; lnk->title = NULL;
	CALLV(mmd_export_image_opendocument(out, "", NULL, lnk, scratch, false), PRE_sink(out), POST_sink(out))
	markup_scan m = xml_markup_run(out->str, out->currentStringLength, ms_hash("xlink:href"));
	ASSERT(m.wf && !m.bad_char && m.want_pos >= 0 && m.ndec == 0, "C08 odf image (a): the draw:frame markup around an empty url is well-formed XML with an xlink:href attribute");
	size_t P = (size_t)m.want_pos, FL = out->currentStringLength;
	DString * frame = out;
	out = d_string_new("");
	lnk->url = url;
	CALLV(mmd_export_image_opendocument(out, "", NULL, lnk, scratch, false), PRE_sink(out), POST_sink(out))
	bool ctrl_free = str_no_ctrl(url);
	size_t SL = out->currentStringLength;
	ASSERT(SL >= FL + URL_L && SL - FL <= SEG_MAX, "C08 odf image (b): the url adds between URL_L and 6*URL_L bytes");
	size_t K = (SL >= FL && SL - FL <= SEG_MAX) ? SL - FL : 0;
	bool same = true;
	for (size_t j = 0; j < SINK_CAP; j++) {
		if (j < P && out->str[j] != frame->str[j]) { same = false; }
		if (j >= P && j < FL && j + K < SINK_CAP && out->str[j + K] != frame->str[j]) { same = false; }
	}
	ASSERT(same, "C08 odf image (b): the markup around the url does not depend on the url");
	char seg[SEG_MAX + 1];
	for (size_t j = 0; j < SEG_MAX + 1; j++) { seg[j] = (j < K && P + j < SINK_CAP) ? out->str[P + j] : 0; }
	xml_scan r = xml_scan_run(seg, K);
	ASSERT(!ctrl_free || (XML_ATTR_WF(r) && !r.bad_char), "C08 odf image (c): the url cannot break out of xlink:href=\"...\" (no element, no raw \", & only as a reference)");
	ASSERT(!ctrl_free || same_text(url, URL_L, r.dec, r.ndec, false), "C08 odf image (c): the value of xlink:href decodes back to the url");
	REACH();
}

/* <img src="URL" [title="TITLE"] /> : short enough to be scanned as a whole by the markup reference scanner */
void h_image_full(void) {
	MK_STR_L(url, URL_L)
	MK_STR_L(title, TITLE_L)
	MK_LINK()
	lnk->url = url; lnk->title = TITLE_L > 0 ? title : NULL;
	CALLV(IMAGE_FN(out, "", NULL, lnk, scratch, false), PRE_sink(out), POST_sink(out))
	bool ctrl_free = str_no_ctrl(url) && str_no_ctrl(title);
	markup_scan m = xml_markup_run(out->str, out->currentStringLength, ms_hash(A_SRC));
	ASSERT(!ctrl_free || (m.wf && !m.bad_char), "C08 " LNAME " image (control-free url/title): the element is well-formed XML (XHTML member of an EPUB)");
	ASSERT(!ctrl_free || attr_is(&m, url), "C08 " LNAME " image: the value of the src attribute decodes back to the url");
#if TITLE_L > 0
	markup_scan m2 = xml_markup_run(out->str, out->currentStringLength, ms_hash(A_TITLE));
	ASSERT(!ctrl_free || attr_is(&m2, title), "C08 " LNAME " image: the value of the title attribute decodes back to the title");
#endif
	REACH();
}
