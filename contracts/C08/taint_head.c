/* C08 / C20 -- mmd_start_complete_html (html.c, the real function: the <head> of a complete HTML / EPUB document):
 *  (C08) a metadata value reaches the markup only through the escaper -- same contract as C08/taint.c; the two keys whose values are
 *        raw HTML by documented design (htmlheader, xhtmlheader) are not part of the units;
 *  (C20) the wrapper does not draw from the obfuscation generator: every call of the escaper is made with obfuscate == false and
 *        ran_num_next is not called (the body's e-mail obfuscation must not depend on the metadata).
 *  (C11) a key that is not one of the documented control keys is carried into the head (-DHEAD_EXPECT_EMIT units).
 * One metadata record per unit (-DHEAD_KEY: a concrete key, so uthash and the strcmp chain run concretely); value of any content. */
#include "verif.h"
#include <stdio.h>
#include <stdarg.h>
#include "d_string.h"
#include "token.h"
#include "writer.h"
#include "mmd.h"
#include "uthash.h"
#include "html.h"

static char * g_val; static DString * g_out;
static bool tainted(const char * p) { return p != NULL && g_val != NULL && __CPROVER_same_object(p, g_val); }
static void raw(DString * d, const char * p) { if (d == g_out) { ASSERT(!tainted(p), "C08: a metadata value is written into the document head only through the escaper"); } }
void d_string_append(DString * d, const char * s) { raw(d, s); }
void d_string_append_c_array(DString * d, const char * s, size_t n) { raw(d, s); }
void d_string_append_c(DString * d, char c) { }
void d_string_append_printf(DString * d, const char * fmt, ...) {
	va_list ap; va_start(ap, fmt);
	for (int i = 0; i < 60 && fmt[i]; i++) {
		if (fmt[i] == '%') {
			i++;
			if (fmt[i] == 's') { const char * p = va_arg(ap, const char *); raw(d, p); }
			else if (fmt[i] == 'd' || fmt[i] == 'c') { (void)va_arg(ap, int); }
			else if (fmt[i] == 0) { break; }
		}
	}
	va_end(ap);
}
static bool g_val_emitted;
void mmd_print_string_html(DString * out, const char * str, bool obfuscate, bool line_breaks) { if (str == g_val) { g_val_emitted = true; } ASSERT(!obfuscate, "C20: the document wrapper does not obfuscate (it must not draw from the generator the body's e-mail obfuscation uses)"); }
void mmd_print_char_html(DString * out, char c, bool obfuscate, bool line_breaks) { ASSERT(!obfuscate, "C20: the document wrapper does not obfuscate"); }
long ran_num_next(void) { ASSERT(0, "C20: the document wrapper does not draw from the obfuscation generator"); return 0; }
asset * extract_asset(scratch_pad * scratch, char * url) { asset * a = malloc(sizeof(asset)); a->asset_path = malloc(2); a->asset_path[0] = 'u'; a->asset_path[1] = 0; return a; }
void store_asset(scratch_pad * scratch_pad, char * url) { }

void h_head(void) {
	scratch_pad * scratch = ALLOC(sizeof(scratch_pad));
	scratch->meta_hash = NULL; { IN(short, lang); scratch->language = lang; IN(bool, sa); scratch->store_assets = sa; IN(bool, ra); scratch->remember_assets = ra; IN(unsigned long, ext); scratch->extensions = ext; }
	static const char key[] = HEAD_KEY;
	meta * m = ALLOC(sizeof(meta));
	m->key = ALLOC(sizeof(key)); for (size_t j = 0; j < sizeof(key); j++) { m->key[j] = key[j]; }
	char * v = ALLOC(3); char a, b; v[0] = a; v[1] = b; v[2] = 0; m->value = v; g_val = v;
	HASH_ADD_KEYPTR(hh, scratch->meta_hash, m->key, sizeof(key) - 1, m);
	DString * out = ALLOC(sizeof(DString)); out->str = ALLOC(8); out->str[0] = 0; out->currentStringLength = 0; out->currentStringBufferSize = 8; g_out = out;
	char * source = ALLOC(4); source[3] = 0;
	g_val_emitted = false;
	mmd_start_complete_html(out, source, scratch);
#ifdef HEAD_EXPECT_EMIT
	ASSERT(g_val_emitted, "C11: a metadata key that is not one of the documented control keys is carried into the complete document (its value is emitted, through the escaper)");
#endif
	REACH();
}
