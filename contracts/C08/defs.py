# ---------------------------------------------------------------- C08 XML outputs well-formed
PROPS["C08"] = {
    "level": "proof",
    "explanation": "The escape-on-output helpers every XML writer uses for text and attribute values (mmd_print_source_opml/_itmz, mmd_print_char_opendocument, mmd_print_char_html as used by html.c/epub.c) are run unmodified on ALL 256 bytes x flags into the ghost sink and judged by an XML 1.0 reference scanner (C04/esc_spec.h): output is well-formed character data, and in the form used inside attribute values contains no element, no raw \" and & only as a reference (OPML/ITMZ additionally no literal TAB/LF/CR).  The string printers are proved to pass every byte through the escaper once, in order, for strings of any length.  The OpenDocument raw/math exporters on one-token trees and the link/image attribute construction (url/title <= 2 symbolic bytes, markup reference scanner C08/markup_spec.h) are bounded units, reported separately.  Structural units: taint_{html,odf}_{link,image} and taint_epub_package_* (source-derived strings -- URL, title, attribute values, alt text, metadata values -- are written into the markup only through the escaper; raw DString primitives by contract with precondition 'not tainted'; the EPUB unit runs HASH_FIND_STR on a real one-entry uthash table) and str_calls_* (the string printers call nothing but the per-character escaper).",
    "slice": "mmd_print_source_opml, mmd_print_source_itmz, mmd_print_char_opendocument, mmd_print_string_opendocument, mmd_print_char_html, mmd_print_string_html (proof); mmd_export_token_opendocument_raw/_math, mmd_export_link_opendocument, mmd_export_image_opendocument (bounded)",
    "not_reached": "well-formedness of a complete document (balanced elements over an unbounded token tree); EPUB nav printer and the element structure of the package document (epub.c) beyond 'metadata values only through mmd_print_string_html'; zip packaging",
    "trusted_base": ["cbmc/goto-cc/goto-instrument 6.11.0 (MiniSat2)", "lib/ds_sink.c: the DString specification as executable ghost code (C19)", "C04/esc_spec.h, C08/markup_spec.h reference scanners for XML 1.0 character data / markup fragments"],
    "assumptions": ["source text is free of C0 control characters other than those named per unit (the property's quantifier)", "delimiter tokens carry the literal lexemes of lexer.re (re2c scanner outside CBMC's reach)"],
}

_SINK8 = "d_string_* calls go to the ghost sink lib/ds_sink.c (DString specification; refinement proved under C19)"
_LEXEMES = "token source text = the literal lexeme of lexer.re for its type (assumed)"
_ODF = "opendocument-content.c"
_NAT8 = {"repo": [_ODF, "d_string.c"], "ldflags": ["/repo/_build/libMultiMarkdown.a", "-Wl,--allow-multiple-definition", "-lm"]}


def _odf_unit(name, entry, fns, cap, props=("C08", "C04"), tier="quick", bounds=None, defines=(), assumptions=(), cost=10, timeout=300, nobody_ok=(), flags=()):
    U(name, list(props), entry, ["C08/raw_tokens.c"], [_ODF], plain=True, lib=("lib/ds_sink.c",), functions=fns,
      defines=["-DSINK_CAP=%d" % cap] + list(defines), kind="bounded", bounds=bounds, tier=tier,
      cbmc_flags=["--unwind", str(cap + 2), "--unwinding-assertions"] + list(flags), native=_NAT8,
      callees={"d_string_*": "ghost sink (specification)", "mmd_print_char_opendocument/_string_": "body"},
      assumptions=[_SINK8] + list(assumptions), min_obligations=8, cost=cost, timeout=timeout, nobody_ok=list(nobody_ok))


_TOKFNS = ["mmd_export_token_opendocument_raw", "mmd_export_token_opendocument_math"]
_ONE = {"tokens in tree": 1, "siblings/children": 0}
# the token types the property names + AMPERSAND / QUOTE_DOUBLE: escaped by the raw exporter
_odf_unit("odf_tok_delims", "h_tok_delims", _TOKFNS, 24, bounds=_ONE, assumptions=[_LEXEMES])
_odf_unit("odf_tok_escaped", "h_tok_escaped", _TOKFNS + ["mmd_print_char_opendocument"], 24, bounds=dict(_ONE, **{"symbolic source bytes": 1}))
# the HTML raw exporter (code spans / blocks of the HTML and EPUB XHTML output) on the same delimiter tokens
U("html_raw_tok_all", ["C08", "C04"], "h_tok_all", ["C08/raw_tokens.c"], ["html.c"], plain=True, lib=("lib/ds_sink.c",), functions=["mmd_export_token_html_raw"],
  defines=["-DSINK_CAP=24", "-DRAW_HTML"], kind="bounded", bounds=_ONE, cbmc_flags=["--unwind", "26", "--unwinding-assertions"],
  native={"repo": ["html.c", "d_string.c"], "ldflags": _NAT8["ldflags"]}, callees={"d_string_*": "ghost sink (specification)"},
  assumptions=[_SINK8, _LEXEMES], min_obligations=8, cost=30)
# html.c link / image construction (html output = EPUB's XHTML content member)
def _html_unit(name, entry, fns, cap, tier="quick", bounds=None, defines=(), cost=20, timeout=300, nobody_ok=()):
    U(name, ["C08"], entry, ["C08/raw_tokens.c"], ["html.c"], plain=True, lib=("lib/ds_sink.c",), functions=fns,
      defines=["-DSINK_CAP=%d" % cap, "-DRAW_HTML"] + list(defines), kind="bounded", tier=tier, bounds=bounds,
      cbmc_flags=["--unwind", str(cap + 2), "--unwinding-assertions"], native={"repo": ["html.c", "d_string.c"], "ldflags": _NAT8["ldflags"]},
      callees={"d_string_*": "ghost sink (specification)", "mmd_print_string_html/_char_": "body", "ran_num_next": "not reached (obfuscate=false)"},
      assumptions=[_SINK8], min_obligations=8, cost=cost, timeout=timeout, nobody_ok=list(nobody_ok))
for _ul in (1, 2):
    _html_unit("html_link_u%d" % _ul, "h_link", ["mmd_export_link_html", "mmd_print_string_html", "mmd_print_char_html"], 32 + 6 * _ul,
               bounds={"url bytes": _ul, "title bytes": 0, "attributes": 0, "link text tokens": 0}, defines=["-DURL_L=%d" % _ul, "-DTITLE_L=0"])
# FAILS on the unchanged tree (thorough tier): mmd_export_image_html prints link->url and link->title with "%s" (no escaper):
#   printf '![a](http://b.c/x"y&z.png "ti<tle")\n' | multimarkdown   ->   <img src="http://b.c/x"y&z.png" alt="a" title="ti<tle" />
# not well-formed as the XHTML content member of an EPUB (and broken HTML)
_html_unit("html_image_u1_t1", "h_image_full", ["mmd_export_image_html"], 48, tier="quick",
           bounds={"url bytes": 1, "title bytes": 1, "attributes": 0, "alt tokens": 0}, defines=["-DURL_L=1", "-DTITLE_L=1"], nobody_ok=["strcmp"])

# FAILS on the unchanged tree (C04 only; thorough tier): "[>" (BRACKET_ABBREVIATION_LEFT) inside a code span is printed with a raw '>' by
# mmd_export_token_html_raw (default arm).  Well-formed, but C04's "> only in escaped form" does not hold.  printf 'a `x [> y` b\n' | multimarkdown
U("html_raw_tok_abbr", ["C04"], "h_tok_abbr", ["C08/raw_tokens.c"], ["html.c"], plain=True, lib=("lib/ds_sink.c",), functions=["mmd_export_token_html_raw"],
  defines=["-DSINK_CAP=24", "-DRAW_HTML"], kind="bounded", tier="quick", bounds=_ONE, cbmc_flags=["--unwind", "26", "--unwinding-assertions"],
  native={"repo": ["html.c", "d_string.c"], "ldflags": _NAT8["ldflags"]}, callees={"d_string_*": "ghost sink (specification)"},
  assumptions=[_SINK8, _LEXEMES], min_obligations=8)
# link / image: attribute construction, url / title of <= 2 symbolic bytes (full byte domain)
for _ul, _tl, _cap in ((1, 0, 68), (2, 0, 80), (1, 1, 96)):
    _odf_unit("odf_link_u%d_t%d" % (_ul, _tl), "h_link", ["mmd_export_link_opendocument", "mmd_print_string_opendocument", "mmd_print_char_opendocument"], _cap,
              props=("C08",), bounds={"url bytes": _ul, "title bytes": _tl, "link text tokens": 0}, defines=["-DURL_L=%d" % _ul, "-DTITLE_L=%d" % _tl],
              tier=("thorough" if _tl else "quick"), cost=40 + 100 * _tl, timeout=600)

# ---- units that FAILED on the pinned tree: genuine defects of /repo, since repaired (fixed: lines in /verif/known_findings.txt); now quick tier ----
# 1. CRITIC_COM_CLOSE "<<}" inside a code span / code block is printed raw by mmd_export_token_opendocument_raw (default arm:
#    print_token) -> "<<" inside <text:span>: not well-formed.  Real binary: printf 'a `x <<} y` b\n' | multimarkdown -t fodt
_odf_unit("odf_tok_critic_close", "h_tok_critic_close", _TOKFNS, 24, tier="quick", bounds=_ONE, assumptions=[_LEXEMES])
# 2. tokens containing '>' ("{>>", "~>", "[>") are printed raw in verbatim regions: well-formed, but C04's "> only escaped" fails
_odf_unit("odf_tok_gt", "h_tok_gt", _TOKFNS, 24, props=("C04",), tier="quick", bounds=_ONE, assumptions=[_LEXEMES])
# 3. mmd_export_image_opendocument prints link->url with "%s" (no escaper) into xlink:href="...": a '"', '<' or '&' in an image URL
#    breaks the attribute.  Real binary: printf '![a](http://b.c/x"y&z.png)\n' | multimarkdown -t fodt
for _ul in (1,):
    _odf_unit("odf_image_u%d" % _ul, "h_image", ["mmd_export_image_opendocument"], 512, props=("C08",), tier="quick",
              bounds={"url bytes": _ul, "attributes": 0, "caption tokens": 0}, defines=["-DURL_L=%d" % _ul], cost=60, timeout=600, nobody_ok=["strcmp"], flags=["--unwindset", "xml_scan_run.1:15"])
# 4. TAB through mmd_print_char_opendocument(.., line_breaks=false) inside an attribute value (link title with a TAB):
#    "<text:tab/>" inside office:name="..." is not well-formed.  Real binary: printf '[a](http://b.c "t\tx")\n' | multimarkdown -t fodt
# RETIRED (false alarm, not a finding): C08 quantifies over sources "without control characters"; TAB (0x09) is a control
# character, so "<text:tab/> inside an attribute value" is outside the property.  Not registered.


# ---- taint units: source text reaches an attribute only through the escaper (content-free; raw output primitives by contract)
for _nm, _fn, _file, _ps, _psd, _tree, _dim, _img in (
        ("html_link", "mmd_export_link_html", "html.c", "mmd_print_string_html", "mmd_print_string_html(DString * out, const char * str, bool obfuscate, bool line_breaks) { }", "mmd_export_token_tree_html", "__CPROVER_file_local_html_c_strip_dimension_units", False),
        ("html_image", "mmd_export_image_html", "html.c", "mmd_print_string_html", "mmd_print_string_html(DString * out, const char * str, bool obfuscate, bool line_breaks) { }", "mmd_export_token_tree_html", "__CPROVER_file_local_html_c_strip_dimension_units", True),
        ("odf_link", "mmd_export_link_opendocument", "opendocument-content.c", "mmd_print_string_opendocument", "mmd_print_string_opendocument(DString * out, const char * str, bool line_breaks) { }", "mmd_export_token_tree_opendocument", "__CPROVER_file_local_opendocument_content_c_correct_dimension_units", False),
        ("odf_image", "mmd_export_image_opendocument", "opendocument-content.c", "mmd_print_string_opendocument", "mmd_print_string_opendocument(DString * out, const char * str, bool line_breaks) { }", "mmd_export_token_tree_opendocument", "__CPROVER_file_local_opendocument_content_c_correct_dimension_units", True)):
    U("taint_" + _nm, ["C08", "C04"], "h_taint", ["C08/taint.c"], [_file], plain=True, lib=(), kind="bounded",
      drop_bodies=[_ps, _tree, _dim],
      defines=["-DI18N_DISABLED=1", "-DTAINT_FN=" + _fn, "-DTAINT_PRINT_STRING=" + _psd, "-DTAINT_TREE=" + _tree, "-DTAINT_DIM=" + _dim] + (["-DTAINT_IMAGE"] if _img else []),
      cbmc_flags=["--unwind", "8", "--unwindset", "d_string_append_printf.0:64", "--unwinding-assertions", "--object-bits", "12"],
      bounds={"attributes<=": 2, "attribute keys": "width / height / other", "string contents": "any (2 bytes each; the obligation does not depend on content)", "unwind": 8},
      functions=[_fn],
      callees={"d_string_append, d_string_append_c_array, d_string_append_printf(%s), print_token_tree_raw": "contract stubs: requires the text is not source-derived (tainted)",
               _ps + ", " + _tree + ", label_from_token": "sanitisers: accept anything (their escaping contract: C04 units)",
               _dim.split("_c_")[-1]: "contract stub: fresh string, tainted iff the argument is", "store_asset/extract_asset": "contract stubs (asset path is a generated name)"},
      min_obligations=10, timeout=300, cost=10,
      assumptions=[NOFAIL, "attribute keys are identifiers (parse_attributes / scanners out of reach), hence not tainted", "configuration -DI18N_DISABLED"])

for _k, _kn in enumerate(["uuid", "title", "author", "language", "date"]):
    U("taint_epub_package_" + _kn, ["C08", "C09"], "h_taint_epub", ["C08/taint_epub.c"], ["epub.c"], plain=True, lib=(), kind="bounded",
      defines=["-DI18N_DISABLED=1", "-DTAINT_KEY=%d" % _k], cbmc_flags=["--unwind", "40", "--unwindset", "d_string_append_printf.0:92", "--unwinding-assertions", "--object-bits", "12"],
      bounds={"metadata": "the one key '%s' present" % _kn, "value": "any (2 bytes; the obligation does not depend on content)"},
      functions=["epub_package_document"],
      callees={"d_string_append*": "contract stubs: requires the text is not a metadata value", "mmd_print_string_html": "sanitiser (C04)", "HASH_FIND_STR (uthash)": "real macro code over a real one-entry table built with HASH_ADD_KEYPTR",
               "uuid_new, time, localtime": "stubs"},
      min_obligations=10, timeout=300, cost=30, assumptions=[NOFAIL, "configuration -DI18N_DISABLED"])

for _kn in ("language", "title", "css", "author", "xyz", "latexauthor", "htmlauthor", "mmdnote"):
    _emit = _kn in ("title", "author", "xyz", "latexauthor", "htmlauthor", "mmdnote")
    U("taint_html_head_" + _kn, (["C08", "C20", "C11"] if _emit else ["C08", "C20"]), "h_head", ["C08/taint_head.c"], ["html.c"], plain=True, lib=(), kind="bounded",
      drop_bodies=["mmd_print_string_html", "mmd_print_char_html"],
      defines=["-DI18N_DISABLED=1", '-DHEAD_KEY="%s"' % _kn] + (["-DHEAD_EXPECT_EMIT"] if _emit else []), cbmc_flags=["--unwind", "40", "--unwindset", "d_string_append_printf.0:62", "--unwinding-assertions", "--object-bits", "12"],
      bounds={"metadata": "the one key '%s'" % _kn, "value": "any (2 bytes; the obligations do not depend on content)"},
      functions=["mmd_start_complete_html"],
      callees={"d_string_append*": "contract stubs: requires the text is not the metadata value", "mmd_print_string_html / mmd_print_char_html": "contract stubs: sanitiser, requires obfuscate == false",
               "ran_num_next": "contract stub with precondition false", "HASH_FIND_STR / hash iteration (uthash)": "real macro code over a real one-entry table"},
      min_obligations=10, timeout=300, cost=10, assumptions=[NOFAIL, "htmlheader / xhtmlheader values are raw HTML by documented design and are not covered", "configuration -DI18N_DISABLED"])
