/* C08 -- epub_package_document (epub.c, the real function): metadata values taken from the source (uuid, title, author, language,
 * date) reach the OPF package document only through the escaper.  Same contract as C08/taint.c: the raw DString primitives have the
 * precondition "not tainted" when the destination is the output.  The metadata hash is a real uthash table built by the harness
 * with the real HASH_ADD_KEYPTR (concrete key, so uthash executes concretely); one unit per key (-DTAINT_KEY=0..4): several entries at once did not finish in 600 s. */
#include "verif.h"
#include <stdio.h>
#include <stdarg.h>
#include <time.h>
#include "d_string.h"
#include "token.h"
#include "writer.h"
#include "mmd.h"
#include "uthash.h"
#include "epub.h"

static char * g_val[5]; static DString * g_out;
static bool tainted(const char * p) {
	if (p == NULL) { return false; }
	for (int i = 0; i < 5; i++) { if (g_val[i] && __CPROVER_same_object(p, g_val[i])) { return true; } }
	return false;
}
static void raw(DString * d, const char * p) {
	if (g_out == NULL) { g_out = d; }            /* the first DString the function creates is its output */
	if (d == g_out) { ASSERT(!tainted(p), "a metadata value is written into the package document only through the escaper"); }
}
DString * d_string_new(const char * s) { DString * d = malloc(sizeof(DString)); d->str = malloc(4); d->str[0] = 0; d->currentStringLength = 0; d->currentStringBufferSize = 4; if (g_out == NULL) { g_out = d; } return d; }
char * d_string_free(DString * d, bool freeCharacterData) { char * r = d->str; if (freeCharacterData) { free(d->str); r = NULL; } free(d); return r; }
void d_string_append(DString * d, const char * s) { raw(d, s); }
void d_string_append_c_array(DString * d, const char * s, size_t n) { raw(d, s); }
void d_string_append_c(DString * d, char c) { }
void d_string_append_printf(DString * d, const char * fmt, ...) {
	va_list ap; va_start(ap, fmt);
	for (int i = 0; i < 90 && fmt[i]; i++) {
		if (fmt[i] == '%') {
			i++;
			if (fmt[i] >= '0' && fmt[i] <= '9') { i++; }
			if (fmt[i] >= '0' && fmt[i] <= '9') { i++; }
			if (fmt[i] == 's') { const char * p = va_arg(ap, const char *); raw(d, p); }
			else if (fmt[i] == 'd' || fmt[i] == 'c') { (void)va_arg(ap, int); }
			else if (fmt[i] == 0) { break; }
		}
	}
	va_end(ap);
}
void mmd_print_string_html(DString * out, const char * str, bool obfuscate, bool line_breaks) { }      /* the escaper accepts anything (C04) */
char * uuid_new(void) { char * r = malloc(2); r[0] = 'u'; r[1] = 0; return r; }
time_t time(time_t * t) { time_t r; return r; }
static struct tm g_tm;
struct tm * localtime(const time_t * t) { return &g_tm; }

void h_taint_epub(void) {
	scratch_pad * scratch = ALLOC(sizeof(scratch_pad));
	scratch->meta_hash = NULL; { IN(short, lang); scratch->language = lang; }
	static const char * keys[5] = {"uuid", "title", "author", "language", "date"};
	for (int i = 0; i < 5; i++) {
		g_val[i] = NULL;
		if (i == TAINT_KEY) {
			meta * m = ALLOC(sizeof(meta));
			m->key = ALLOC(9); for (int j = 0; j < 9; j++) { m->key[j] = keys[i][j]; if (!keys[i][j]) { break; } }
			char * v = ALLOC(3); char a, b; v[0] = a; v[1] = b; v[2] = 0; m->value = v; g_val[i] = v;
			HASH_ADD_KEYPTR(hh, scratch->meta_hash, m->key, strlen(m->key), m);
		}
	}
	g_out = NULL;
	char * r = epub_package_document(scratch);
	REACH();
}
