/* C08 / C04 -- "text taken from the source reaches an XML attribute only through the escaper"
 * (html.c mmd_export_link_html / mmd_export_image_html, opendocument-content.c mmd_export_link_opendocument /
 * mmd_export_image_opendocument: the real functions).
 *
 * The byte-level contract of the escapers (every byte of the argument is replaced by its escaped form: C04 units esc_char_*,
 * str_loop_*) makes an attribute value well-formed IF the value is handed to the escaper.  What these units decide is the other
 * half, for every string of the link the function can see: the URL, the title, every attribute value, strings derived from them
 * by strip_dimension_units / correct_dimension_units, and the source buffer itself are TAINTED; the raw output primitives
 *   d_string_append, d_string_append_c_array, d_string_append_printf("%s"), print_token_raw / print_token_tree_raw
 * are contract stubs whose precondition is "the text is not tainted".  The sanitising callees -- mmd_print_string_*,
 * mmd_print_char_*, the escaping tree writer mmd_export_token_tree_*, label_from_token (produces an identifier) -- accept
 * anything.  Content-free apart from attribute keys ("width", "height", other), so the obligation holds for every string.
 * Attribute KEYS are not tainted: parse_attributes only accepts identifiers as keys (assumption, scanners out of reach).
 * Bounded: <= 2 attributes. */
#include "verif.h"
#include <stdio.h>
#include <stdarg.h>
#include "d_string.h"
#include "token.h"
#include "writer.h"
#include "mmd.h"

static const char * g_source; static char * g_url, * g_title, * g_val[2], * g_copy[4]; static int g_ncopy;
static bool tainted(const char * p) {
	if (p == NULL) { return false; }
	if (__CPROVER_same_object(p, g_source) || __CPROVER_same_object(p, g_url) || __CPROVER_same_object(p, g_title)) { return true; }
	if (__CPROVER_same_object(p, g_val[0]) || __CPROVER_same_object(p, g_val[1])) { return true; }
	for (int i = 0; i < 4; i++) { if (i < g_ncopy && __CPROVER_same_object(p, g_copy[i])) { return true; } }
	return false;
}

/* ---- raw output primitives: writing into the OUTPUT requires untainted text; writing into any other (scratch) DString taints that string */
static DString * g_out;
static void raw(DString * d, const char * p, const char * what) {
	if (d == g_out) { ASSERT(!tainted(p), "text taken from the source (URL, title, attribute value, alt text) is written into the markup only through the escaper"); }
	else if (tainted(p) && g_ncopy < 4) { g_copy[g_ncopy++] = d->str; }
}
DString * d_string_new(const char * s) { DString * d = malloc(sizeof(DString)); d->str = malloc(4); d->str[0] = 0; d->currentStringLength = 0; d->currentStringBufferSize = 4; raw(d, s, "d_string_new"); return d; }
char * d_string_free(DString * d, bool freeCharacterData) { char * r = d->str; if (freeCharacterData) { free(d->str); r = NULL; } free(d); return r; }
void d_string_append(DString * d, const char * s) { raw(d, s, "d_string_append / print()"); }
void d_string_append_c_array(DString * d, const char * s, size_t n) { raw(d, s, "d_string_append_c_array / print_const()"); }
void d_string_append_c(DString * d, char c) { }
void d_string_erase(DString * d, size_t pos, size_t len) { }
void d_string_append_printf(DString * d, const char * fmt, ...) {
	va_list ap; va_start(ap, fmt);
	for (int i = 0; i < 60 && fmt[i]; i++) {
		if (fmt[i] == '%') {
			i++;
			if (fmt[i] == 's') { const char * p = va_arg(ap, const char *); raw(d, p, "d_string_append_printf(\"%s\")"); }
			else if (fmt[i] == 'd' || fmt[i] == 'c') { (void)va_arg(ap, int); }
			else if (fmt[i] == '%' || fmt[i] == 0) { if (fmt[i] == 0) { break; } }
		}
	}
	va_end(ap);
}
void print_token_tree_raw(DString * out, const char * source, token * t) { raw(out, source, "print_token_tree_raw (raw copy of the source span)"); }
void print_token_raw(DString * out, const char * source, token * t) { raw(out, source, "print_token_raw (raw copy of the source span)"); }

/* ---- sanitisers and neutral callees */
void TAINT_PRINT_STRING;      /* declared by the writer's header; body removed from the repo object: the escaper accepts anything */
void TAINT_TREE(DString * out, const char * source, token * t, scratch_pad * scratch) { }
char * label_from_token(const char * source, token * t) { char * r = malloc(2); r[0] = 'x'; r[1] = 0; return r; }
void store_asset(scratch_pad * scratch_pad, char * url) { }
asset * extract_asset(scratch_pad * scratch, char * url) { asset * a = malloc(sizeof(asset)); a->asset_path = malloc(2); a->asset_path[0] = 'u'; a->asset_path[1] = 0; return a; }
/* strip_dimension_units / correct_dimension_units (static in the writer): a fresh string derived from the argument -> tainted */
char * TAINT_DIM(char * original) {
	char * r = malloc(3); char c; r[0] = c; r[1] = c; r[2] = 0;
	if (tainted(original) && g_ncopy < 4) { g_copy[g_ncopy++] = r; }
	return r;
}

static char * str3(void) { char * s = ALLOC(3); char a, b; s[0] = a; s[1] = b; s[2] = 0; return s; }
static attr * mk_attr(int k) {
	attr * a = ALLOC(sizeof(attr));
	IN(unsigned char, which);
	a->key = ALLOC(8);
	const char * nm = which == 0 ? "width" : (which == 1 ? "height" : "class");
	for (int i = 0; i < 8; i++) { a->key[i] = i < 7 && nm[i] ? nm[i] : 0; if (!nm[i]) { break; } }
	a->value = str3(); g_val[k] = a->value; a->next = NULL;
	return a;
}

void h_taint(void) {
	char * source = ALLOC(8); source[7] = 0; g_source = source;
	link * l = ALLOC(sizeof(link));
	IN(bool, has_url); IN(bool, has_title); IN(unsigned char, nattr); IN(bool, has_label);
	g_url = str3(); g_title = str3(); g_ncopy = 0; g_val[0] = NULL; g_val[1] = NULL;
	l->url = has_url ? g_url : NULL; l->title = has_title ? g_title : NULL; l->label = NULL; l->attributes = NULL; l->clean_text = NULL; l->label_text = NULL;
	ASSUME(nattr <= 2);
	if (nattr >= 1) { l->attributes = mk_attr(0); }
	if (nattr >= 2) { l->attributes->next = mk_attr(1); }
	token * text = ALLOC(sizeof(token)); token * c1 = ALLOC(sizeof(token)); token * c2 = ALLOC(sizeof(token));
	text->type = PAIR_BRACKET; text->start = 0; text->len = 5; text->child = c1; text->next = NULL; text->prev = NULL; text->mate = NULL; text->tail = text;
	c1->type = BRACKET_LEFT; c1->start = 0; c1->len = 1; c1->next = c2; c1->prev = NULL; c1->child = NULL; c1->mate = NULL; c1->tail = c2;
	c2->type = TEXT_PLAIN; c2->start = 1; c2->len = 3; c2->next = NULL; c2->prev = c1; c2->child = NULL; c2->mate = NULL; c2->tail = c2;
	if (has_label) { l->label = c2; }
	scratch_pad * scratch = ALLOC(sizeof(scratch_pad));
	{ IN(bool, sa); IN(bool, ra); IN(unsigned long, ext); scratch->store_assets = sa; scratch->remember_assets = ra; scratch->extensions = ext; }
	scratch->padded = 0; scratch->close_para = 1;
	DString * out = ALLOC(sizeof(DString)); out->str = ALLOC(8); out->str[0] = 0; out->currentStringLength = 5; out->currentStringBufferSize = 8; g_out = out;
#ifdef TAINT_IMAGE
	IN(bool, fig);
	TAINT_FN(out, source, text, l, scratch, fig);
#else
	TAINT_FN(out, source, text, l, scratch);
#endif
	REACH();
}
