/* markup_spec.h -- C08: a reference scanner for a FRAGMENT of XML markup (XML 1.0 productions [39]-[44],
 * [10], [66]-[68]): character data with references, start tags with double- or single-quoted attribute
 * values, empty-element tags, end tags whose names match the open element.  Spec code: it knows XML, not
 * what the writers print.  "Document text, URLs, titles ... can never break out of the element or
 * attribute they are placed in" = the fragment is well-formed, has the intended number of elements and
 * attributes, and the chosen attribute's value decodes back to the string that was put there.          */
#ifndef MARKUP_SPEC_H
#define MARKUP_SPEC_H
#include "C04/esc_spec.h"

#define MK_DEPTH 6
typedef struct {
	bool wf;         /* the fragment is well-formed and every element opened is closed, names matching */
	bool bad_char;   /* illegal XML character (literal or referenced) */
	uint8_t nstart;  /* start tags + empty-element tags */
	uint8_t nattr;   /* attributes, over all tags */
	uint8_t ndec;    /* decoded characters of the value(s) of the attribute named `want` */
	int16_t dec[XD_MAX];
	long want_pos;   /* offset of the first byte of the (first) value of the attribute named `want`; -1: none */
} markup_scan;

enum { MS_TEXT, MS_LT, MS_STAG, MS_TAGWS, MS_ANAME, MS_AEQ, MS_AVAL, MS_AFTERVAL, MS_SLASH, MS_ETAG0, MS_ETAG, MS_ETAGWS,
       MS_AMP, MS_NAME, MS_HASH, MS_DEC, MS_HEX0, MS_HEX
     };

static inline bool ms_ws(int ch) {
	return ch == ' ' || ch == '\t' || ch == '\n' || ch == '\r';
}

static inline uint16_t ms_hash(const char * name) {
	uint16_t h = 5381u;
	for (int i = 0; i < 24 && name[i] != 0; i++) {
		h = (uint16_t)((h << 5) + h + UC(name[i]));
	}
	return h;
}

/* want: ms_hash() of the attribute name whose decoded value is to be collected */
static inline markup_scan xml_markup_run(const char * s, size_t n, uint16_t want) {
	markup_scan r;
	r.wf = true;
	r.bad_char = false;
	r.nstart = r.nattr = r.ndec = 0;
	r.want_pos = -1;
	for (int k = 0; k < XD_MAX; k++) {
		r.dec[k] = -1;
	}
	/* narrow types on purpose: every guarded assignment costs its width in SAT variables */
	uint8_t st = MS_TEXT, ret = MS_TEXT, depth = 0, nlen = 0, nd = 0, quote = '"';
	uint16_t hash = 0, ahash = 0;
	uint16_t open[MK_DEPTH];
	for (int k = 0; k < MK_DEPTH; k++) {
		open[k] = 0;
	}
	unsigned val = 0;
	char nm[4] = {0, 0, 0, 0};
	for (size_t i = 0; i < n; i++) {
		uint8_t ch = (uint8_t)s[i];
		int16_t emit = -2;       /* a decoded character produced by this step (-1: not a single byte) */
		/* character classes, computed once per step */
		bool c_ns = xs_name_start(ch), c_nc = xs_name_char(ch), c_ws = ms_ws(ch);
		switch (st) {
			case MS_TEXT:
				if (ch == '&') { ret = MS_TEXT; st = MS_AMP; }
				else if (ch == '<') { st = MS_LT; }
				else if (ch < 0x20 && !c_ws) { r.bad_char = true; }
				break;
			case MS_LT:
				if (ch == '/') { st = MS_ETAG0; }
				else if (c_ns) { hash = (uint16_t)(177573u + (unsigned)ch); st = MS_STAG; }
				else { r.wf = false; st = MS_TEXT; }
				break;
			case MS_STAG:
				if (c_nc) { hash = (uint16_t)((hash << 5) + hash + ch); }
				else if (c_ws) { st = MS_TAGWS; }
				else if (ch == '/') { st = MS_SLASH; }
				else if (ch == '>') {
					r.nstart++;
					if (depth < MK_DEPTH) { open[depth] = hash; depth++; } else { r.wf = false; }
					st = MS_TEXT;
				} else { r.wf = false; st = MS_TEXT; }
				break;
			case MS_TAGWS:
				if (c_ws) { }
				else if (c_ns) { ahash = (uint16_t)(177573u + (unsigned)ch); st = MS_ANAME; }
				else if (ch == '/') { st = MS_SLASH; }
				else if (ch == '>') {
					r.nstart++;
					if (depth < MK_DEPTH) { open[depth] = hash; depth++; } else { r.wf = false; }
					st = MS_TEXT;
				} else { r.wf = false; st = MS_TEXT; }
				break;
			case MS_ANAME:
				if (c_nc) { ahash = (uint16_t)((ahash << 5) + ahash + ch); }
				else if (ch == '=') { st = MS_AEQ; }
				else { r.wf = false; st = MS_TEXT; }
				break;
			case MS_AEQ:
				if (ch == '"' || ch == '\'') { quote = (uint8_t)ch; st = MS_AVAL; if (ahash == want && r.want_pos < 0) { r.want_pos = (long)i + 1; } }
				else { r.wf = false; st = MS_TEXT; }
				break;
			case MS_AVAL:
				if (ch == quote) { r.nattr++; st = MS_AFTERVAL; }
				else if (ch == '<') { r.wf = false; st = MS_TEXT; }
				else if (ch == '&') { ret = MS_AVAL; st = MS_AMP; }
				else {
					if (ch < 0x20 && !c_ws) { r.bad_char = true; }
					emit = (int16_t)ch;
				}
				break;
			case MS_AFTERVAL:
				if (c_ws) { st = MS_TAGWS; }
				else if (ch == '/') { st = MS_SLASH; }
				else if (ch == '>') {
					r.nstart++;
					if (depth < MK_DEPTH) { open[depth] = hash; depth++; } else { r.wf = false; }
					st = MS_TEXT;
				} else { r.wf = false; st = MS_TEXT; }
				break;
			case MS_SLASH:
				if (ch == '>') { r.nstart++; } else { r.wf = false; }
				st = MS_TEXT;
				break;
			case MS_ETAG0:
				if (c_ns) { hash = (uint16_t)(177573u + (unsigned)ch); st = MS_ETAG; }
				else { r.wf = false; st = MS_TEXT; }
				break;
			case MS_ETAG:
			case MS_ETAGWS:
				if (st == MS_ETAG && c_nc) { hash = (uint16_t)((hash << 5) + hash + ch); }
				else if (c_ws) { st = MS_ETAGWS; }
				else if (ch == '>') {
					if (depth > 0 && open[depth - 1] == hash) { depth--; } else { r.wf = false; }
					st = MS_TEXT;
				} else { r.wf = false; st = MS_TEXT; }
				break;
			case MS_AMP:
				if (ch == '#') { st = MS_HASH; }
				else if (c_ns) { nm[0] = (char)ch; nlen = 1; st = MS_NAME; }
				else { r.wf = false; st = ret; }
				break;
			case MS_NAME:
				if (ch == ';') {
					int v = xs_entity(nm, nlen);
					if (v < 0) { r.wf = false; }
					emit = (int16_t)v; st = ret;
				} else if (c_nc && nlen < 4) { nm[nlen] = (char)ch; nlen++; }
				else { r.wf = false; st = ret; }
				break;
			case MS_HASH:
				if (ch == 'x') { st = MS_HEX0; }
				else if (ch >= '0' && ch <= '9') { val = (unsigned)(ch - '0'); nd = 1; st = MS_DEC; }
				else { r.wf = false; st = ret; }
				break;
			case MS_DEC:
				if (ch == ';') {
					if (!(val == 9 || val == 10 || val == 13 || (val >= 0x20 && val <= 0x10FFFF))) { r.bad_char = true; }
					emit = val < 0x80 ? (int16_t)val : -1; st = ret;
				} else if (ch >= '0' && ch <= '9' && nd < 7) { val = (val << 3) + (val << 1) + (unsigned)(ch - '0'); nd++; }
				else { r.wf = false; st = ret; }
				break;
			default: { /* MS_HEX0, MS_HEX */
				int d = (ch >= '0' && ch <= '9') ? ch - '0' : (ch >= 'a' && ch <= 'f') ? ch - 'a' + 10 : (ch >= 'A' && ch <= 'F') ? ch - 'A' + 10 : -1;
				if (st == MS_HEX && ch == ';') {
					if (!(val == 9 || val == 10 || val == 13 || (val >= 0x20 && val <= 0x10FFFF))) { r.bad_char = true; }
					emit = val < 0x80 ? (int16_t)val : -1; st = ret;
				} else if (d >= 0 && (st == MS_HEX0 || nd < 6)) {
					if (st == MS_HEX0) { val = 0; nd = 0; }
					val = (val << 4) + (unsigned)d; nd++; st = MS_HEX;
				} else { r.wf = false; st = ret; }
				break;
			}
		}
		/* a decoded character of an attribute value: keep it if it belongs to the wanted attribute */
		if (emit != -2 && st == MS_AVAL && ahash == want) {
			if (r.ndec < XD_MAX) { r.dec[r.ndec] = emit; }
			r.ndec++;
		}
	}
	if (st != MS_TEXT || depth != 0) {
		r.wf = false;
	}
	return r;
}

#endif
