/* C04 / C08 -- the per-format character escapers, FULL domain (all 256 bytes x all flag values), and the
 * string printers on bounded strings.  The functions called are the real, unmodified ones in
 * /repo/src/{html,latex,opendocument-content,opml,itmz}.c; their output goes into the ghost sink
 * (lib/ds_sink.c = the DString specification, property C19) and is judged by the reference decoders of
 * esc_spec.h.  Harness-encoded contracts (plain CBMC): the only loops are those of the sink and of the
 * decoders, all bounded by the sink capacity (unwinding assertions prove the bound).                   */
#include "esc_spec.h"

/* the functions under contract (none of them is declared in a repo header except the two noted) */
void mmd_print_char_html(DString * out, char c, bool obfuscate, bool line_breaks);
void mmd_print_string_html(DString * out, const char * str, bool obfuscate, bool line_breaks);      /* html.h */
void mmd_print_char_latex(DString * out, char c);
void mmd_print_string_latex(DString * out, const char * str);
void mmd_print_char_opendocument(DString * out, char c, bool line_breaks);                           /* opendocument-content.h */
void mmd_print_string_opendocument(DString * out, const char * str, bool line_breaks);
void mmd_print_source_opml(DString * out, const char * source, size_t start, size_t len);
void mmd_print_source_itmz(DString * out, const char * source, size_t start, size_t len);

/* ---- assumed callee: ran_num_next() of rng.c, by contract "returns any long" ---- */
long g_rnd[RND_N];
unsigned g_rnd_i;
long ran_num_next(void) {
	long v = g_rnd[g_rnd_i % RND_N];
	g_rnd_i++;
	return v;
}
#define DRAW_RND() { IN_ARR(long, rnd, RND_N); for (int i_ = 0; i_ < RND_N; i_++) { g_rnd[i_] = rnd[i_]; } g_rnd_i = 0; }

/* the sink after the call is a C string */
#define PRE_sink(d) ((d) != NULL && (d)->currentStringLength == 0)
#define POST_sink(d) ((d)->str != NULL && (d)->currentStringLength < (d)->currentStringBufferSize && (d)->str[(d)->currentStringLength] == 0)

/* ================================================================== one character */
/* HTML.  obfuscate: e-mail obfuscation (either numeric reference form); line_breaks: LF/CR become <br/>. */
#define POST_html_text_safe      XML_TEXT_SAFE(r, WS_ELEMS(c, line_breaks))
#define POST_html_decodes_to_c   DECODES_TO(r, c, line_breaks)
#define POST_html_high_byte      HIGH_BYTE_UNCHANGED(out, c)
#define POST_html_attr_wf        (line_breaks || XML_ATTR_WF(r))
#define POST_html_xml_char       (IS_CTRL(c) || (XML_TEXT_WF(r) && !r.bad_char))
void h_char_html(void) {
	DRAW_RND()
	IN(char, c); IN(bool, obfuscate); IN(bool, line_breaks);
	DString * out = d_string_new("");
	CALLV(mmd_print_char_html(out, c, obfuscate, line_breaks), PRE_sink(out), POST_sink(out))
	xml_scan r = SINK_SCAN_XML(out);
	ASSERT(POST_html_text_safe, "C04 html char: & < > \" from text appear only escaped; markup only for white space (one empty element)");
	ASSERT(POST_html_decodes_to_c, "C04 html char: undoing the escaping gives back the character");
	ASSERT(POST_html_high_byte, "C16 html char: a byte >= 0x80 is passed through unchanged");
	ASSERT(POST_html_attr_wf, "C08 html char (line_breaks off, the form used inside attribute values): cannot break out of a double-quoted attribute");
	ASSERT(POST_html_xml_char, "C08 html char: for a non-control character the output is well-formed XML character data");
	REACH();
}

/* LaTeX. */
#define POST_latex_no_bare_reserved  (t.ok && !t.bare)
#define POST_latex_decodes_to_c      DECODES_TO(t, c, true)
void h_char_latex(void) {
	IN(char, c);
	DString * out = d_string_new("");
	CALLV(mmd_print_char_latex(out, c), PRE_sink(out), POST_sink(out))
	tex_scan t = SINK_SCAN_TEX(out);
	ASSERT(POST_latex_no_bare_reserved, "C04 latex char: \\ { } $ % & # _ ^ ~ never bare; the output tokenises (commands delimited, groups and math closed)");
	ASSERT(POST_latex_decodes_to_c, "C04 latex char: undoing the escaping gives back the character");
	ASSERT(HIGH_BYTE_UNCHANGED(out, c), "C16 latex char: a byte >= 0x80 is passed through unchanged");
	REACH();
}

/* OpenDocument. */
#define POST_odf_text_safe      XML_TEXT_SAFE(r, WS_ELEMS(c, line_breaks))
#define POST_odf_decodes_to_c   DECODES_TO(r, c, line_breaks)
#define POST_odf_attr_wf        (line_breaks || IS_CTRL(c) || XML_ATTR_WF(r))
#define POST_odf_xml_char       (IS_CTRL(c) || (XML_TEXT_WF(r) && !r.bad_char))
void h_char_odf(void) {
	IN(char, c); IN(bool, line_breaks);
	DString * out = d_string_new("");
	CALLV(mmd_print_char_opendocument(out, c, line_breaks), PRE_sink(out), POST_sink(out))
	xml_scan r = SINK_SCAN_XML(out);
	ASSERT(POST_odf_text_safe, "C04 odf char: & < > \" from text appear only escaped; markup only for white space (one empty element)");
	ASSERT(POST_odf_decodes_to_c, "C04 odf char: undoing the escaping gives back the character");
	ASSERT(HIGH_BYTE_UNCHANGED(out, c), "C16 odf char: a byte >= 0x80 is passed through unchanged");
	ASSERT(POST_odf_attr_wf, "C08 odf char (line_breaks off, non-control character): cannot break out of a double-quoted attribute");
	ASSERT(POST_odf_xml_char, "C08 odf char: for a non-control character the output is well-formed XML character data");
	REACH();
}
/* C08, the same clause WITHOUT the restriction to non-control characters: TAB is white space that occurs
 * in real documents; mmd_print_string_opendocument(out, link->title / link->url, false) places the
 * result inside xlink:href="..." / office:name="...".  (thorough tier: fails on the unchanged tree.) */
void h_char_odf_attr_tab(void) {
	IN(char, c);
	ASSUME(c == '\t');
	DString * out = d_string_new("");
	CALLV(mmd_print_char_opendocument(out, c, false), PRE_sink(out), POST_sink(out))
	xml_scan r = SINK_SCAN_XML(out);
	ASSERT(XML_ATTR_WF(r), "C08 odf char TAB with line_breaks off (form used for link url/title attributes): cannot break out of a double-quoted attribute");
	REACH();
}

/* OPML / iThoughts: one character through the source printer (len == 1), any offset in a small buffer.
 * Both formats store document text in double-quoted attribute values (text="...", _note="...") and in
 * <title> element content. */
#ifndef SRCN
#define SRCN 4
#endif
#define POST_src_text_safe     XML_TEXT_SAFE(r, 0)
#define POST_src_attr_lossless XML_ATTR_LOSSLESS(r)
#define POST_src_decodes_to_c  DECODES_TO(r, c, false)
#define POST_src_xml_char      (IS_CTRL(c) || !r.bad_char)
#define H_CHAR_SRC(name, fn, what) \
void name(void) { \
	IN_ARR(char, source, SRCN); IN(size_t, start); \
	ASSUME(start < SRCN); \
	char c = source[start]; \
	DString * out = d_string_new(""); \
	CALLV(fn(out, source, start, 1), PRE_sink(out), POST_sink(out)) \
	xml_scan r = SINK_SCAN_XML(out); \
	ASSERT(POST_src_text_safe, "C04 " what " char: & < > \" from text appear only escaped, no markup"); \
	ASSERT(POST_src_attr_lossless, "C08 " what " char: cannot break out of a double-quoted attribute; no literal TAB/LF/CR that attribute normalisation would turn into a space"); \
	ASSERT(POST_src_decodes_to_c, "C04 " what " char: undoing the escaping gives back the character"); \
	ASSERT(HIGH_BYTE_UNCHANGED(out, c), "C16 " what " char: a byte >= 0x80 is passed through unchanged"); \
	ASSERT(POST_src_xml_char, "C08 " what " char: a non-control character never yields an illegal XML character"); \
	REACH(); \
}
H_CHAR_SRC(h_char_opml, mmd_print_source_opml, "opml")
H_CHAR_SRC(h_char_itmz, mmd_print_source_itmz, "itmz")

/* ================================================================== strings, BOUNDED (<= STRN bytes, full byte domain) */
#ifndef STRN
#define STRN 3
#endif
#define MK_CSTR(s, m) \
	IN_ARR(char, s, STRN + 1); IN(size_t, m); \
	ASSUME(m <= STRN); \
	for (size_t i_ = 0; i_ < STRN + 1; i_++) { if (i_ < m) { ASSUME(s[i_] != 0); } } \
	s[m] = 0;
static bool no_ctrl(const char * s, size_t m) {
	for (size_t i = 0; i < STRN + 1; i++) {
		if (i < m && IS_CTRL(s[i])) {
			return false;
		}
	}
	return true;
}
static int count_ws(const char * s, size_t m, bool line_breaks) {
	int k = 0;
	for (size_t i = 0; i < STRN + 1; i++) {
		if (i < m) {
			k += WS_ELEMS(s[i], line_breaks);
		}
	}
	return k;
}

void h_str_html(void) {
	DRAW_RND()
	MK_CSTR(str, m)
	IN(bool, obfuscate); IN(bool, line_breaks);
	DString * out = d_string_new("");
	CALLV(mmd_print_string_html(out, str, obfuscate, line_breaks), PRE_sink(out), POST_sink(out))
	xml_scan r = SINK_SCAN_XML(out);
	ASSERT(XML_TEXT_SAFE(r, count_ws(str, m, line_breaks)), "C04 html string: & < > \" from text appear only escaped; markup only for white space");
	ASSERT(same_text(str, m, r.dec, r.ndec, line_breaks), "C04 html string: undoing the escaping gives back the text, in order, nothing lost or repeated");
	ASSERT(line_breaks || XML_ATTR_WF(r), "C08 html string (line_breaks off: href/title/src/alt/content attributes, EPUB metadata): cannot break out of a double-quoted attribute");
	ASSERT(!no_ctrl(str, m) || !r.bad_char, "C08 html string: control-free text yields no illegal XML character");
	REACH();
}

void h_str_latex(void) {
	MK_CSTR(str, m)
	DString * out = d_string_new("");
	CALLV(mmd_print_string_latex(out, str), PRE_sink(out), POST_sink(out))
	tex_scan t = SINK_SCAN_TEX(out);
	ASSERT(t.ok && !t.bare, "C04 latex string: \\ { } $ % & # _ ^ ~ never bare; the output tokenises");
	ASSERT(same_text(str, m, t.dec, t.ndec, true), "C04 latex string: undoing the escaping gives back the text, in order, nothing lost or repeated");
	REACH();
}

void h_str_odf(void) {
	MK_CSTR(str, m)
	IN(bool, line_breaks);
	DString * out = d_string_new("");
	CALLV(mmd_print_string_opendocument(out, str, line_breaks), PRE_sink(out), POST_sink(out))
	xml_scan r = SINK_SCAN_XML(out);
	ASSERT(XML_TEXT_SAFE(r, count_ws(str, m, line_breaks)), "C04 odf string: & < > \" from text appear only escaped; markup only for white space");
	ASSERT(same_text(str, m, r.dec, r.ndec, line_breaks), "C04 odf string: undoing the escaping gives back the text, in order, nothing lost or repeated");
	ASSERT(line_breaks || !no_ctrl(str, m) || XML_ATTR_WF(r), "C08 odf string (line_breaks off, control-free: xlink:href / office:name attributes): cannot break out of a double-quoted attribute");
	ASSERT(!no_ctrl(str, m) || !r.bad_char, "C08 odf string: control-free text yields no illegal XML character");
	REACH();
}

#define H_STR_SRC(name, fn, what) \
void name(void) { \
	IN_ARR(char, source, STRN + 2); IN(size_t, start); IN(size_t, len); \
	ASSUME(start <= 1 && len <= STRN); \
	DString * out = d_string_new(""); \
	CALLV(fn(out, source, start, len), PRE_sink(out), POST_sink(out)) \
	xml_scan r = SINK_SCAN_XML(out); \
	bool has_nul = false; \
	for (size_t i_ = 0; i_ < STRN; i_++) { if (i_ < len && source[start + i_] == 0) { has_nul = true; } } \
	ASSERT(XML_TEXT_SAFE(r, 0), "C04 " what " string: & < > \" from text appear only escaped, no markup"); \
	ASSERT(XML_ATTR_LOSSLESS(r), "C08 " what " string: cannot break out of a double-quoted attribute; no literal TAB/LF/CR"); \
	ASSERT(has_nul || same_text(source + start, len, r.dec, r.ndec, false), "C04 " what " string: undoing the escaping gives back the text, in order, nothing lost or repeated"); \
	REACH(); \
}
H_STR_SRC(h_str_opml, mmd_print_source_opml, "opml")
H_STR_SRC(h_str_itmz, mmd_print_source_itmz, "itmz")
