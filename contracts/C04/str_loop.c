/* C04 item 2 -- the string printers, strings of ANY length (symbolic, up to 2^40): "every input byte is
 * emitted through the character escaper exactly once, in order".
 *
 * DFCC: the character escaper is used BY CONTRACT (its own proof: units esc_char_*).  Its contract carries
 * the ghost counter g_cnt: the REQUIRES clause -- checked at every call site inside the real loop -- says
 * "the byte passed is the next input byte g_src[g_cnt], it is not NUL, and out/flags are the caller's";
 * the ENSURES clause advances the counter.  The loop contract ties the loop's cursor to the counter.
 * Postcondition of the printer: the counter stands on a NUL.  Together: bytes 0..g_cnt-1 were each
 * escaped once, in order, none of them is NUL, byte g_cnt is NUL, i.e. g_cnt == strlen(str).            */
#include "verif.h"
#include "d_string.h"

#ifndef STR_MAX
#define STR_MAX (1UL << 40)
#endif

const char * g_src;   /* ghost: the input string */
size_t g_n;           /* ghost: index of a NUL of g_src (the allocation's last byte) */
size_t g_cnt;         /* ghost: number of bytes handed to the character escaper so far */
DString * g_out;      /* ghost: the caller's output string */
bool g_obf, g_lb;     /* ghost: the caller's flags */

void mmd_print_char_html(DString * out, char c, bool obfuscate, bool line_breaks);
void mmd_print_string_html(DString * out, const char * str, bool obfuscate, bool line_breaks);
void mmd_print_char_latex(DString * out, char c);
void mmd_print_string_latex(DString * out, const char * str);
void mmd_print_label_latex(DString * out, const char * str);
void mmd_print_char_opendocument(DString * out, char c, bool line_breaks);
void mmd_print_string_opendocument(DString * out, const char * str, bool line_breaks);

#define NEXT_BYTE(c) ((c) != 0 && g_cnt < g_n && (c) == g_src[g_cnt])
#define ADVANCED (g_cnt == OLD(g_cnt) + 1)

#ifndef VERIF_NATIVE
void mmd_print_char_html__contract(DString * out, char c, bool obfuscate, bool line_breaks)
__CPROVER_requires(out == g_out && obfuscate == g_obf && line_breaks == g_lb && NEXT_BYTE(c))
__CPROVER_ensures(ADVANCED)
__CPROVER_assigns(g_cnt);

void mmd_print_char_latex__contract(DString * out, char c)
__CPROVER_requires(out == g_out && NEXT_BYTE(c))
__CPROVER_ensures(ADVANCED)
__CPROVER_assigns(g_cnt);

void mmd_print_char_opendocument__contract(DString * out, char c, bool line_breaks)
__CPROVER_requires(out == g_out && line_breaks == g_lb && NEXT_BYTE(c))
__CPROVER_ensures(ADVANCED)
__CPROVER_assigns(g_cnt);

/* label printer: '_' is copied verbatim (labels are \label{} / \ref{} arguments), everything else goes
 * through the escaper; the direct append is counted the same way */
void d_string_append_c__contract(DString * baseString, char appendedCharacter)
__CPROVER_requires(baseString == g_out && appendedCharacter == '_' && NEXT_BYTE(appendedCharacter))
__CPROVER_ensures(ADVANCED)
__CPROVER_assigns(g_cnt);
#endif

#define PRE_str(str, out) (g_cnt == 0 && g_n < STR_MAX && out == g_out && (str == NULL || (str == g_src && g_src[g_n] == 0)))
#define POST_str(str) (str == NULL ? g_cnt == 0 : (g_cnt <= g_n && g_src[g_cnt] == 0))

#define PRE_string_html (PRE_str(str, out) && obfuscate == g_obf && line_breaks == g_lb)
CONTRACT(void, mmd_print_string_html, (DString * out, const char * str, bool obfuscate, bool line_breaks), PRE_string_html, POST_str(str), __CPROVER_assigns(g_cnt))
#define PRE_string_latex PRE_str(str, out)
CONTRACT(void, mmd_print_string_latex, (DString * out, const char * str), PRE_string_latex, POST_str(str), __CPROVER_assigns(g_cnt))
CONTRACT(void, mmd_print_label_latex, (DString * out, const char * str), PRE_string_latex, POST_str(str), __CPROVER_assigns(g_cnt))
#define PRE_string_odf (PRE_str(str, out) && line_breaks == g_lb)
CONTRACT(void, mmd_print_string_opendocument, (DString * out, const char * str, bool line_breaks), PRE_string_odf, POST_str(str), __CPROVER_assigns(g_cnt))

#define MK_INPUT() \
	IN(size_t, n); IN(bool, isnull); \
	ASSUME(n < STR_MAX); \
	char * s = ALLOC(n + 1); s[n] = 0; \
	g_src = s; g_n = n; g_cnt = 0; \
	DString * out = ALLOC(sizeof(DString)); g_out = out; \
	const char * str = isnull ? NULL : s;

void h_loop_html(void) {
	MK_INPUT()
	IN(bool, obfuscate); IN(bool, line_breaks);
	g_obf = obfuscate; g_lb = line_breaks;
	CALLV(mmd_print_string_html(out, str, obfuscate, line_breaks), PRE_string_html, POST_str(str))
	REACH();
}

void h_loop_latex(void) {
	MK_INPUT()
	CALLV(mmd_print_string_latex(out, str), PRE_string_latex, POST_str(str))
	REACH();
}

void h_loop_label_latex(void) {
	MK_INPUT()
	CALLV(mmd_print_label_latex(out, str), PRE_string_latex, POST_str(str))
	REACH();
}

void h_loop_odf(void) {
	MK_INPUT()
	IN(bool, line_breaks);
	g_lb = line_breaks;
	CALLV(mmd_print_string_opendocument(out, str, line_breaks), PRE_string_odf, POST_str(str))
	REACH();
}
