# ---------------------------------------------------------------- C04 escaping per target (shared with C08)
PROPS["C04"] = {
    "level": "proof",
    "explanation": "(thorough tier additionally runs the slower bounded string units; the units that failed on the pinned tree -- genuine defects, since repaired, see known_findings.txt -- are in the quick tier.)  Each per-format character escaper (mmd_print_char_html/_latex/_opendocument, one iteration of mmd_print_source_opml/_itmz) is run, unmodified, on ALL 256 bytes x all flag values with its output captured in the ghost sink (the DString specification, C19) and judged by reference decoders written from the property text (esc_spec.h): XML character data with & < > \" only in escaped form and decoding back to the input character; LaTeX text in which \\ { } $ % & # _ ^ ~ never occur bare and which decodes back to the input character.  The string printers are proved to feed every input byte to the character escaper exactly once, in order (loop contracts, strings of any length); for OPML/iThoughts the decoder is evaluated on every append of the real loop body (any length).  Bounded end-to-end string units (<= 2/3 symbolic bytes), the leaf-token arms of the three tree writers (one-token trees, concrete type, lexemes from lexer.re) and the raw exporters are reported separately as bounded.  Call-trace units (str_calls_*, bounded to 5 bytes, independent of the loop structure) state that the string printers pass every byte, in order, to the per-character escaper and call no raw output primitive; taint units (shared with C08) state that source-derived strings reach link/image attributes only through the escaper.",
    "slice": "mmd_print_char_html, mmd_print_char_latex, mmd_print_char_opendocument (per character: proof); mmd_print_source_opml, mmd_print_source_itmz (per character and any length: proof); mmd_print_string_html/_latex/_opendocument, mmd_print_label_latex (iteration, any length: proof; content end to end: bounded); leaf arms of mmd_export_token_html/_latex/_opendocument and mmd_export_token_html_raw/_opendocument_raw/_math on one-token trees (bounded)",
    "not_reached": "'all visible text, none lost or repeated, in source order' and 'every element opened is closed' over a whole token tree (recursive traversal of an unbounded tree through the 2000-line switches of the writers); the lexer's assignment of reserved characters to their own token types (re2c, outside CBMC's reach)",
    "trusted_base": ["cbmc/goto-cc/goto-instrument 6.11.0 (MiniSat2)", "lib/ds_sink.c: the DString specification as executable ghost code (refined by d_string.c: property C19)", "C04/esc_spec.h reference decoders (XML 1.0 character data; TeX tokeniser + symbol-command table)"],
    "assumptions": ["ran_num_next() (rng.c) is a stub returning any long (assumed contract)", "the output DString is empty before the call (the escapers only append; appending is C19's contract)"],
}

_RND = "ran_num_next() (rng.c) is a stub returning any long (assumed contract): both obfuscation forms are covered"
_SINK = "d_string_* calls go to the ghost sink lib/ds_sink.c (DString specification; refinement proved under C19)"
_NAT_LD = ["/repo/_build/libMultiMarkdown.a", "-Wl,--allow-multiple-definition", "-lm"]


def _esc_unit(name, entry, repo_file, fns, cap, props=("C04", "C08"), kind="proof", bounds=None, tier="quick", defines=(), assumptions=(), cost=10, timeout=300, spec="C04/esc.c", extra_repo=(), flags=()):
    U(name, list(props), entry, [spec], [repo_file] + list(extra_repo), plain=True, lib=("lib/ds_sink.c",), functions=fns,
      defines=["-DSINK_CAP=%d" % cap] + list(defines), kind=kind, bounds=bounds, tier=tier,
      cbmc_flags=["--unwind", str(cap + 2), "--unwinding-assertions"] + list(flags),
      native={"repo": [repo_file, "d_string.c"] + list(extra_repo), "ldflags": _NAT_LD},
      callees={"d_string_append/_c/_c_array/_printf": "ghost sink (specification)", "ran_num_next": "stub: any long"},
      assumptions=[_SINK] + list(assumptions), min_obligations=8, cost=cost, timeout=timeout)


# 1. one character, FULL domain (256 bytes x flags): proofs
_UNUM = ["--unwindset", "sink_unum.0:4,sink_unum.1:4"]   # digits of a 7-bit value: 3 decimal / 2 hex (unwinding assertions prove the bound); each digit is a 64-bit division
_esc_unit("esc_char_html", "h_char_html", "html.c", ["mmd_print_char_html"], 16, props=("C04", "C08", "C16"), assumptions=[_RND], flags=_UNUM)
_esc_unit("esc_char_latex", "h_char_latex", "latex.c", ["mmd_print_char_latex"], 24, props=("C04", "C16"))
_esc_unit("esc_char_odf", "h_char_odf", "opendocument-content.c", ["mmd_print_char_opendocument"], 24, props=("C04", "C08", "C16"))
_esc_unit("esc_char_opml", "h_char_opml", "opml.c", ["mmd_print_source_opml"], 16, props=("C04", "C08", "C16"))
_esc_unit("esc_char_itmz", "h_char_itmz", "itmz.c", ["mmd_print_source_itmz"], 16, props=("C04", "C08", "C16"))

# 2c. whole strings end to end through the real escaper and the sink, BOUNDED (<= 2 / <= 3 symbolic bytes, full byte
#     domain).  Thorough tier only (3-11 min each): the quick tier decides strings by 2a/2b (any length) + the per-character proofs.
for _n, _tier in ((2, "thorough"), (3, "thorough")):
    _B = {"string length<=": _n}
    _D = ["-DSTRN=%d" % _n]
    _esc_unit("esc_str%d_html" % _n, "h_str_html", "html.c", ["mmd_print_string_html", "mmd_print_char_html"], 8 * _n, kind="bounded", bounds=_B, tier=_tier, defines=_D, assumptions=[_RND], cost=40 * _n, timeout=900, flags=_UNUM)
    if _n == 2:   # (3 bytes: beyond 15 min for the two formats with long escape sequences)
      _esc_unit("esc_str%d_latex" % _n, "h_str_latex", "latex.c", ["mmd_print_string_latex", "mmd_print_char_latex"], 18 * _n + 2, props=("C04",), kind="bounded", bounds=_B, tier=_tier, defines=_D, cost=30 * _n, timeout=900)
      _esc_unit("esc_str%d_odf" % _n, "h_str_odf", "opendocument-content.c", ["mmd_print_string_opendocument", "mmd_print_char_opendocument"], 20 * _n + 2, kind="bounded", bounds=_B, tier=_tier, defines=_D, cost=30 * _n, timeout=900)
    _esc_unit("esc_str%d_opml" % _n, "h_str_opml", "opml.c", ["mmd_print_source_opml"], 8 * _n, kind="bounded", bounds=_B, tier=("quick" if _n == 2 else "thorough"), defines=_D, cost=20 * _n, timeout=900)
    _esc_unit("esc_str%d_itmz" % _n, "h_str_itmz", "itmz.c", ["mmd_print_source_itmz"], 8 * _n, kind="bounded", bounds=_B, tier=("quick" if _n == 2 else "thorough"), defines=_D, cost=20 * _n, timeout=900)

# 2a. the string printers for strings of ANY length (DFCC, loop contracts on the unmodified loops):
#     every input byte goes through the character escaper exactly once, in order (ghost counter in the
#     escaper's contract; see C04/str_loop.c)
def _loop(fn, cursor="str"):
    return {fn: [{"loop_id": 0, "vars": [cursor],
                  "invariants": "g_cnt <= g_n && %s == g_src + g_cnt" % cursor,
                  "assigns": "%s, g_cnt" % cursor,
                  "decreases": "g_n - g_cnt"}]}
for _name, _entry, _file, _fn, _callee in (
        ("str_loop_html", "h_loop_html", "html.c", "mmd_print_string_html", ["mmd_print_char_html"]),
        ("str_loop_latex", "h_loop_latex", "latex.c", "mmd_print_string_latex", ["mmd_print_char_latex"]),
        ("str_loop_label_latex", "h_loop_label_latex", "latex.c", "mmd_print_label_latex", ["mmd_print_char_latex", "d_string_append_c"]),
        ("str_loop_odf", "h_loop_odf", "opendocument-content.c", "mmd_print_string_opendocument", ["mmd_print_char_opendocument"])):
    U(_name, (["C04"] if "latex" in _name else ["C04", "C08"]), _entry, ["C04/str_loop.c"], [_file], enforce=_fn, replace=_callee, loops=_loop(_fn), lib=(),
      small=["-DSTR_MAX=8"], callees={c: "contract with ghost counter (own proof: esc_char_*)" for c in _callee},
      assumptions=["input strings shorter than 2^40 bytes"], min_obligations=5)

# 2b. OPML / iThoughts source printer on a range of ANY length: each byte printed once, in order, by one
#     append whose bytes pass the XML reference decoder (decoder evaluated in the REQUIRES clause of the
#     d_string_append_c / _c_array contracts, at every call site of the real loop body)
for _name, _entry, _file, _fn in (("src_loop_opml", "h_src_opml", "opml.c", "mmd_print_source_opml"),
                                  ("src_loop_itmz", "h_src_itmz", "itmz.c", "mmd_print_source_itmz")):
    U(_name, ["C04", "C08"], _entry, ["C04/src_loop.c"], [_file], enforce=_fn, replace=["d_string_append_c", "d_string_append_c_array"], lib=(),
      loops={_fn: [{"loop_id": 0, "vars": ["c"], "invariants": "g_cnt <= g_len && c == g_src + g_start + g_cnt",
                    "assigns": "c, g_cnt", "decreases": "g_len - g_cnt"}]},
      cbmc_flags=["--unwind", "10", "--unwinding-assertions", "--object-bits", "12"], small=["-DSTR_MAX=8"],
      callees={"d_string_append_c/_c_array": "contract: appended bytes must pass the XML decoder for the current input byte; ghost counter"},
      assumptions=["source ranges shorter than 2^40 bytes"], min_obligations=5, cost=80)

# 3. leaf-token arms of the tree writers (DESIGN C04 item 3), BOUNDED: one-token tree, concrete token type per call,
#    lexeme <= 2 bytes; lexeme sets transcribed from lexer.re (assumed)
_LEX = "token source text is what lexer.re can put into a token of that type: fixed literals for the single-lexeme types, B(TEXT_PLAIN) = bytes that begin no lexer rule (assumed: the re2c scanner is outside CBMC's reach)"
for _w, _wn, _file, _fn in ((1, "html", "html.c", "mmd_export_token_html"), (2, "latex", "latex.c", "mmd_export_token_latex"),
                            (3, "odf", "opendocument-content.c", "mmd_export_token_opendocument")):
    for _g in ("reserved", "punct", "text_plain", "escaped"):
        _esc_unit("leaf_%s_%s" % (_wn, _g), "h_leaf_" + _g, _file, [_fn], 32, props=("C04",), kind="bounded",
                  bounds={"tokens in tree": 1, "lexeme bytes<=": 2, "token type": "concrete per call"},
                  defines=["-DW=%d" % _w], assumptions=[_LEX, _RND] + (["TEXT_PLAIN bytes are not C0 control characters / DEL (the property quantifies over printable text)"] if _g == "text_plain" else []),
                  spec="C04/leaf.c", cost=15)

# 4. verbatim regions, LaTeX code spans (mmd_export_token_latex_tt), one-token trees.  (HTML / OpenDocument raw exporters: C08/defs.py.)
_esc_unit("latex_tt_delims", "h_tt_delims", "latex.c", ["mmd_export_token_latex_tt"], 32, props=("C04",), kind="bounded",
          bounds={"tokens in tree": 1, "token type": "concrete per call"}, defines=["-DW=2"], assumptions=[_LEX], spec="C04/leaf.c", cost=15, flags=["--object-bits", "10"])
# FAILS on the unchanged tree (genuine defect; thorough tier): CRITIC_SUB_DIV "~>", CRITIC_SUB_OPEN "{~~", CRITIC_SUB_CLOSE "~~}" inside a code span are
# printed with a bare '~' (an active character in TeX: non-breaking space), so the tilde is lost from the text.
#   printf 'a `x ~> y` b\n' | multimarkdown -t latex   ->   a \texttt{x ~> y} b
_esc_unit("latex_tt_tilde", "h_tt_tilde", "latex.c", ["mmd_export_token_latex_tt"], 72, props=("C04",), kind="bounded", tier="quick",
          bounds={"tokens in tree": 1, "token type": "concrete per call"}, defines=["-DW=2"], assumptions=[_LEX], spec="C04/leaf.c")

# 2d. call-trace contract of the string printers (bounded length, robust against loop restructuring)
for _s, _file, _fn, _ch, _def, _props in (("html", "html.c", "mmd_print_string_html", "mmd_print_char_html", "-DSC_HTML", ["C04", "C08"]),
                                          ("latex", "latex.c", "mmd_print_string_latex", "mmd_print_char_latex", "-DSC_LATEX", ["C04"]),
                                          ("odf", "opendocument-content.c", "mmd_print_string_opendocument", "mmd_print_char_opendocument", "-DSC_ODF", ["C04", "C08"])):
    U("str_calls_" + _s, _props, "h_str_calls", ["C04/str_calls.c"], [_file], plain=True, lib=(), kind="bounded", drop_bodies=[_ch],
      defines=["-DI18N_DISABLED=1", _def], cbmc_flags=["--unwind", "8", "--unwindset", "ctype_init.0:258", "--unwinding-assertions", "--object-bits", "10"],
      bounds={"string length<=": 5, "bytes": "full domain", "unwind": 8}, functions=[_fn],
      callees={_ch: "contract stub recording the call trace (its own contract: esc_char_*)", "d_string_*": "contract stubs with precondition false (not called by the string printer)"},
      min_obligations=8, timeout=300, cost=5, assumptions=["configuration -DI18N_DISABLED"])

# 5. beamer sectioning groups: representation invariant between the outline stack and the groups open in the output
U("beamer_outline_groups", ["C04"], "h_outline", ["C04/outline_beamer.c"], ["beamer.c", "stack.c"], plain=True, lib=(), kind="bounded", drop_bodies=["stack_push"],
  defines=["-DI18N_DISABLED=1"], cbmc_flags=["--unwind", "26", "--unwinding-assertions", "--object-bits", "12"],
  bounds={"headings on the outline stack<=": 2, "heading kinds, current heading, base header level": "symbolic", "unwind": 26},
  functions=["mmd_outline_add_beamer"], callees={"d_string_append*": "contract stubs classifying the literal printed (ghost group counters)", "pad": "no-op stub", "stack_push": "contract stub (C18)", "stack_peek/pop/new": "body"},
  min_obligations=10, timeout=300, cost=10, assumptions=[NOFAIL])
