/* C04 / C08 -- the string printers hand EVERY byte of the string, in order, to the per-character escaper, and write nothing else
 * (html.c mmd_print_string_html, latex.c mmd_print_string_latex, opendocument-content.c mmd_print_string_opendocument: the real
 * functions).  Call-trace contract, robust against a restructured loop (the DFCC loop-contract units str_loop_* prove the same for
 * strings of any length on the loop as it stands, and become inconclusive when the loop structure changes):
 *   - the per-character escaper (same file; body removed, contract stub) is called exactly strlen(str) times and its k-th call
 *     receives str[k] (ghost index) and the flags unchanged;
 *   - the raw DString primitives are never called by the string printer (precondition "false" in this context).
 * Bounded: strings of <= 5 bytes (full byte domain). */
#include "verif.h"
#include "d_string.h"

#ifndef STRMAX
#define STRMAX 5
#endif
static const char * g_str; static size_t g_calls, g_k; static char g_kth; static bool g_flag_ok;
static bool g_ob, g_lb;

#if defined(SC_HTML)
void mmd_print_string_html(DString * out, const char * str, bool obfuscate, bool line_breaks);
void mmd_print_char_html(DString * out, char c, bool obfuscate, bool line_breaks) { if (g_calls == g_k) { g_kth = c; } if (obfuscate != g_ob || line_breaks != g_lb) { g_flag_ok = false; } g_calls++; }
#define CALL mmd_print_string_html(out, str, g_ob, g_lb)
#elif defined(SC_LATEX)
void mmd_print_string_latex(DString * out, const char * str);
void mmd_print_char_latex(DString * out, char c) { if (g_calls == g_k) { g_kth = c; } g_calls++; }
#define CALL mmd_print_string_latex(out, str)
#else
void mmd_print_string_opendocument(DString * out, const char * str, bool line_breaks);
void mmd_print_char_opendocument(DString * out, char c, bool line_breaks) { if (g_calls == g_k) { g_kth = c; } if (line_breaks != g_lb) { g_flag_ok = false; } g_calls++; }
#define CALL mmd_print_string_opendocument(out, str, g_lb)
#endif

/* glibc's <ctype.h> macros index a table through __ctype_b_loc(): a model, so that a string printer that classifies characters
 * (isalnum ...) is judged on its obligations and not on a missing libc body */
#include <ctype.h>
static unsigned short g_ctab[384]; static const unsigned short * g_ctabp;
const unsigned short ** __ctype_b_loc(void) { return &g_ctabp; }
static void ctype_init(void) {
	for (int c = 0; c < 256; c++) {
		unsigned short f = 0;
		if (c >= '0' && c <= '9') { f |= _ISdigit | _ISalnum | _ISxdigit | _ISgraph | _ISprint; }
		else if ((c >= 'a' && c <= 'z') || (c >= 'A' && c <= 'Z')) { f |= _ISalpha | _ISalnum | _ISgraph | _ISprint | (c >= 'a' ? _ISlower : _ISupper); }
		else if (c == ' ') { f |= _ISspace | _ISprint | _ISblank; }
		else if (c >= 9 && c <= 13) { f |= _ISspace | (c == 9 ? _ISblank : 0) | _IScntrl; }
		else if (c > 32 && c < 127) { f |= _ISpunct | _ISgraph | _ISprint; }
		else if (c < 32 || c == 127) { f |= _IScntrl; }
		g_ctab[128 + c] = f;
	}
	g_ctabp = g_ctab + 128;
}

#define NORAW ASSERT(0, "the string printer writes to the output only through the per-character escaper")
void d_string_append(DString * d, const char * s) { NORAW; }
void d_string_append_c(DString * d, char c) { NORAW; }
void d_string_append_c_array(DString * d, const char * s, size_t n) { NORAW; }
void d_string_append_printf(DString * d, const char * fmt, ...) { NORAW; }

void h_str_calls(void) {
	ctype_init();
	IN(size_t, n); ASSUME(n <= STRMAX);
	char * str = ALLOC(STRMAX + 1);
	for (size_t i = 0; i < STRMAX; i++) { if (i < n) { char c; ASSUME(c != 0); str[i] = c; } }
	str[n] = 0; g_str = str;
	{ IN(bool, ob); IN(bool, lb); g_ob = ob; g_lb = lb; } { IN(size_t, k); g_k = k; } g_calls = 0; g_flag_ok = true; g_kth = 0;
	DString * out = ALLOC(sizeof(DString)); out->str = ALLOC(8); out->str[0] = 0; out->currentStringLength = 0; out->currentStringBufferSize = 8;
	CALL;
	ASSERT(g_calls == n, "the escaper is called once per byte of the string");
	ASSERT(g_k >= n || g_kth == str[g_k], "the k-th call of the escaper receives the k-th byte (ghost index: every byte, in order)");
	ASSERT(g_flag_ok, "the flags are passed through unchanged");
	REACH();
}
