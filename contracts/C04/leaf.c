/* C04 item 3 -- leaf-token arms of the three tree writers on a ONE-TOKEN tree (BOUNDED: one token, no
 * siblings / children / mate, lexeme <= 2 bytes).  Escaping is split between the lexer and the writers:
 * the lexer gives every target-reserved character its own token type and the writers print TEXT_PLAIN raw.
 * So the unit takes, per token type T, the bytes the lexer can put into a T token (B(T), transcribed from
 * /repo/src/lexer.re -- ASSUMED: the re2c scanner is outside CBMC's reach) and checks that the real,
 * unmodified mmd_export_token_{html,latex,opendocument} arm for that concrete type produces output that
 * is target-safe and decodes back to the lexeme (reference decoders of esc_spec.h).
 * The token type is concrete in every call (a symbolic type through the 2000-line switch is out of reach);
 * scratch->extensions / language / quotes_lang are symbolic.                                            */
#include "esc_spec.h"
#include "libMultiMarkdown.h"
#include "token.h"
#include "writer.h"

void mmd_export_token_html(DString * out, const char * source, token * t, scratch_pad * scratch);
void mmd_export_token_latex(DString * out, const char * source, token * t, scratch_pad * scratch);
void mmd_export_token_opendocument(DString * out, const char * source, token * t, scratch_pad * scratch);

long g_rnd[RND_N];
unsigned g_rnd_i;
long ran_num_next(void) {
	long v = g_rnd[g_rnd_i % RND_N];
	g_rnd_i++;
	return v;
}

#if W == 1
#define EXPORT mmd_export_token_html
#define WNAME "html"
#elif W == 2
#define EXPORT mmd_export_token_latex
#define WNAME "latex"
#else
#define EXPORT mmd_export_token_opendocument
#define WNAME "odf"
#endif

#define PRE_sink(d) ((d) != NULL && (d)->currentStringLength == 0)
#define POST_sink(d) ((d)->str != NULL && (d)->currentStringLength < (d)->currentStringBufferSize && (d)->str[(d)->currentStringLength] == 0)

/* (inputs are drawn in the harness itself so that the native replay finds them in the trace) */
#define MK_SCRATCH() \
	scratch_pad * scratch = ALLOC(sizeof(scratch_pad)); \
	IN(unsigned long, extensions); IN(short, language); IN(short, quotes_lang); \
	scratch->extensions = extensions; scratch->language = language; scratch->quotes_lang = quotes_lang; \
	scratch->skip_token = 0; scratch->padded = 0; scratch->recurse_depth = 0;
static token * mk_token(unsigned short type, size_t start, size_t len) {
	token * t = ALLOC(sizeof(token));
	t->type = type; t->start = start; t->len = len;
	t->next = NULL; t->prev = NULL; t->child = NULL; t->tail = NULL; t->mate = NULL;
	t->can_open = 0; t->can_close = 0; t->unmatched = 1; t->out_start = 0; t->out_len = 0;
	return t;
}

/* the target's verdict on the sink: safe, and (decode) decodes to lex[0..n) */
static bool target_ok(DString * out, const char * lex, size_t n, bool decode) {
#if W == 2
	tex_scan r = SINK_SCAN_TEX(out);
	return r.ok && !r.bare && (!decode || same_text(lex, n, r.dec, r.ndec, false));
#else
	xml_scan r = SINK_SCAN_XML(out);
	return XML_TEXT_SAFE(r, 0) && !r.bad_char && (!decode || same_text(lex, n, r.dec, r.ndec, false));
#endif
}

/* a token type whose lexeme is a fixed literal of lexer.re and that stands for itself in running text */
#define LEAF(TYPE, LEXEME) LEAF_(TYPE, LEXEME, true, "reserved characters only escaped, decodes back to the lexeme")
/* ... or that the target renders typographically (LaTeX: an unmatched " becomes the ligature ''): only target-safe */
#define LEAF_SAFE(TYPE, LEXEME) LEAF_(TYPE, LEXEME, false, "reserved characters only escaped")
#define LEAF_(TYPE, LEXEME, DECODE, WHAT) { \
	char source[4] = { 'x', 0, 0, 0 }; \
	const char lex[] = LEXEME; \
	for (size_t i_ = 0; i_ < sizeof(lex) - 1; i_++) { source[1 + i_] = lex[i_]; } \
	token * t = mk_token(TYPE, 1, sizeof(lex) - 1); \
	DString * out = d_string_new(""); \
	CALLV(EXPORT_CUR(out, source, t, scratch), PRE_sink(out), POST_sink(out)) \
	ASSERT(target_ok(out, lex, sizeof(lex) - 1, DECODE), "C04 " WNAME_CUR " leaf token " #TYPE " (lexeme " #LEXEME "): " WHAT); \
}

#define EXPORT_CUR EXPORT
#define WNAME_CUR WNAME
/* the reserved characters of the three targets, each its own token type (lexer.re) */
void h_leaf_reserved(void) {
	MK_SCRATCH()
	LEAF(AMPERSAND, "&")
	LEAF(ANGLE_LEFT, "<")
	LEAF(ANGLE_RIGHT, ">")
#if W == 2
	LEAF_SAFE(QUOTE_DOUBLE, "\"")     /* unmatched: LaTeX output is the closing-quote ligature, not a reserved character */
#else
	LEAF(QUOTE_DOUBLE, "\"")          /* unmatched (mate == NULL): a plain quotation mark */
#endif
	LEAF(TEXT_BACKSLASH, "\\")
	LEAF(TEXT_BRACE_LEFT, "{")
	LEAF(TEXT_BRACE_RIGHT, "}")
	LEAF(MATH_DOLLAR_SINGLE, "$")      /* unmatched */
	LEAF(TEXT_PERCENT, "%")
	LEAF(TEXT_HASH, "#")
	LEAF(UL, "_")
	LEAF(SUPERSCRIPT, "^")             /* unmatched, no child */
	LEAF(SUBSCRIPT, "~")
	LEAF(SLASH, "/")
	LEAF(PIPE, "|")
	REACH();
}

/* punctuation tokens that are not reserved anywhere: must come out unchanged (modulo the decoder) */
void h_leaf_punct(void) {
	MK_SCRATCH()
	LEAF(COLON, ":")
	LEAF(EQUAL, "=")
	LEAF(PLUS, "+")
	LEAF(STAR, "*")
	LEAF(PAREN_LEFT, "(")
	LEAF(PAREN_RIGHT, ")")
	LEAF(TEXT_PERIOD, ".")
	REACH();
}

/* B(TEXT_PLAIN): bytes that begin no lexer rule (lexer.re: "Skip over anything else"): everything except
 * NUL TAB LF CR and ! " # $ % & ' ( ) * + - . / : < = > [ \ ] ^ _ ` { | } ~ ; bytes >= 0x80 included
 * (0xA0 occurs in TEXT_PLAIN when it is not part of an indent / line-break sequence) */
static bool in_text_plain(char c) {
	int u = UC(c);
	if (u == 0 || u == '\t' || u == '\n' || u == '\r') {
		return false;
	}
	if (u == '!' || u == '"' || u == '#' || u == '$' || u == '%' || u == '&' || u == '\'' || u == '(' || u == ')' || u == '*' || u == '+'
			|| u == '-' || u == '.' || u == '/' || u == ':' || u == '<' || u == '=' || u == '>' || u == '[' || u == '\\' || u == ']'
			|| u == '^' || u == '_' || u == '`' || u == '{' || u == '|' || u == '}' || u == '~') {
		return false;
	}
	return true;
}
void h_leaf_text_plain(void) {
	MK_SCRATCH()
	IN_ARR(char, source, 4);
	IN(size_t, start); IN(size_t, len);
	ASSUME(start <= 1 && len >= 1 && len <= 2);
	ASSUME(in_text_plain(source[start]) && (len < 2 || in_text_plain(source[start + 1])));
	ASSUME(!IS_CTRL(source[start]) && (len < 2 || !IS_CTRL(source[start + 1])));
	source[3] = 0;
	token * t = mk_token(TEXT_PLAIN, start, len);
	DString * out = d_string_new("");
	CALLV(EXPORT(out, source, t, scratch), PRE_sink(out), POST_sink(out))
	ASSERT(target_ok(out, source + start, len, true), "C04 " WNAME " leaf token TEXT_PLAIN (<= 2 bytes of B(TEXT_PLAIN)): output is target-safe and decodes back to the source bytes");
	ASSERT(out->currentStringLength == len && out->str[0] == source[start] && (len < 2 || out->str[1] == source[start + 1]), "C16 " WNAME " leaf token TEXT_PLAIN: bytes (incl. >= 0x80) are passed through unchanged");
	REACH();
}

/* ESCAPED_CHARACTER: "\\" + one character (lexer.re: a punctuation character; taken here as ANY non-control byte
 * except the space, which stands for a non-breaking space): stands for that character */
void h_leaf_escaped(void) {
	MK_SCRATCH()
	IN_ARR(char, source, 4);
	IN(size_t, start);
	ASSUME(start <= 1);
	source[start] = '\\';
	char c = source[start + 1];
	ASSUME(!IS_CTRL(c) && c != ' ');
	source[3] = 0;
	token * t = mk_token(ESCAPED_CHARACTER, start, 2);
	DString * out = d_string_new("");
	CALLV(EXPORT(out, source, t, scratch), PRE_sink(out), POST_sink(out))
	ASSERT(target_ok(out, &source[start + 1], 1, true), "C04 " WNAME " leaf token ESCAPED_CHARACTER: the escaped character is printed target-safe and decodes back to itself");
	REACH();
}

#if W == 2
/* ================================================================== C04 item 4: LaTeX code spans (\texttt{...}) */
void mmd_export_token_latex_tt(DString * out, const char * source, token * t, scratch_pad * scratch);
#undef EXPORT_CUR
#undef WNAME_CUR
#define EXPORT_CUR mmd_export_token_latex_tt
#define WNAME_CUR "latex tt (code span)"
void h_tt_delims(void) {
	MK_SCRATCH()
	LEAF(AMPERSAND, "&")
	LEAF(ANGLE_LEFT, "<")
	LEAF(ANGLE_RIGHT, ">")
	LEAF(CRITIC_ADD_OPEN, "{++")
	LEAF(CRITIC_ADD_CLOSE, "++}")
	LEAF(CRITIC_COM_OPEN, "{>>")
	LEAF(CRITIC_COM_CLOSE, "<<}")
	LEAF(CRITIC_DEL_OPEN, "{--")
	LEAF(CRITIC_DEL_CLOSE, "--}")
	LEAF(CRITIC_HI_OPEN, "{==")
	LEAF(CRITIC_HI_CLOSE, "==}")
	LEAF(TEXT_HASH, "#")
	LEAF(HASH1, "# ")          /* the lexer's HASHn tokens include the blanks that follow the hashes */
	LEAF(HASH2, "## ")
	LEAF(HASH3, "###")
	LEAF(MATH_DOLLAR_SINGLE, "$")
	LEAF(SLASH, "/")
	LEAF(TEXT_BACKSLASH, "\\")
	LEAF(BRACE_DOUBLE_LEFT, "{{")
	LEAF(BRACE_DOUBLE_RIGHT, "}}")
	LEAF(SUBSCRIPT, "~")
	LEAF(SUPERSCRIPT, "^")
	LEAF(TEXT_BRACE_LEFT, "{")
	LEAF(TEXT_BRACE_RIGHT, "}")
	LEAF(TEXT_PERCENT, "%")
	LEAF(UL, "_")
	REACH();
}
/* thorough tier: FAILS on the unchanged tree (genuine defect, see defs.py): the CriticMarkup substitution
 * delimiters are printed with a bare ~ (TeX: active character, a non-breaking space) */
void h_tt_tilde(void) {
	MK_SCRATCH()
	LEAF(CRITIC_SUB_DIV, "~>")
	LEAF(CRITIC_SUB_OPEN, "{~~")
	LEAF(CRITIC_SUB_CLOSE, "~~}")
	REACH();
}
#endif
