/* C04 -- mmd_outline_add_beamer (beamer.c, the real function): the sectioning groups it opens are closed again, so the LaTeX it
 * emits tokenises ("groups and math closed", the C04 obligation of the TeX side).  Representation invariant between the outline stack
 * and the output, as a contract:
 *   INV   every heading on the outline stack has (adjusted) level 3 or 4; the number of level-3 entries equals the number of
 *         \begin{frame} not yet closed by \end{frame}, the number of level-4 entries equals the number of "\mode<article>{" groups
 *         not yet closed by "}"
 *   requires INV   ensures INV, and for current == NULL (end of the document) the stack is empty and nothing is left open
 * The output is observed through contract stubs of the DString primitives that classify the literal being printed.
 * Bounded: <= 2 headings on the stack; heading kinds, current heading and base header level symbolic. */
#include "verif.h"
#include "d_string.h"
#include "token.h"
#include "writer.h"        /* before stack.h: see C10/toc.c */
#include "stack.h"

void mmd_outline_add_beamer(DString * out, token * current, scratch_pad * scratch);
static int g_frames, g_braces;       /* ghost: groups open in the output */
static bool lit_is(const char * s, const char * lit) { for (int i = 0; i < 24; i++) { if (lit[i] == 0) { return true; } if (s[i] != lit[i]) { return false; } } return true; }
void d_string_append_c_array(DString * d, const char * s, size_t n) {
	if (lit_is(s, "\\begin{frame}")) { g_frames++; }
	else if (lit_is(s, "\\end{frame}")) { g_frames--; }
	else if (lit_is(s, "\\mode<article>{")) { g_braces++; }
	else if (s[0] == '}') { g_braces--; }
}
void d_string_append(DString * d, const char * s) { d_string_append_c_array(d, s, 0); }
void d_string_append_c(DString * d, char c) { }
void pad(DString * d, short num, scratch_pad * scratch) { }
/* stack_push by contract (C18): no growth needed here */
void stack_push(stack * s, void * element) { ASSERT(s->size < (size_t)s->capacity, "ghost: no growth needed in this unit"); s->element[s->size++] = element; }

static short level_of(token * t, short base) {
	short l = t->type == BLOCK_SETEXT_1 ? 1 : (t->type == BLOCK_SETEXT_2 ? 2 : (short)(1 + t->type - BLOCK_H1));
	return l + base - 1;
}
static bool inv(scratch_pad * sp) {
	int f = 0, b = 0; bool ok = true;
	for (size_t i = 0; i < 4; i++) {
		if (i < sp->outline_stack->size) {
			short l = level_of(sp->outline_stack->element[i], sp->base_header_level);
			if (l == 3) { f++; } else if (l == 4) { b++; } else { ok = false; }
		}
	}
	return ok && f == g_frames && b == g_braces;
}
static token * heading(void) {
	token * t = ALLOC(sizeof(token)); IN(unsigned short, ty);
	ASSUME((ty >= BLOCK_H1 && ty <= BLOCK_H6) || ty == BLOCK_SETEXT_1 || ty == BLOCK_SETEXT_2);
	t->type = ty; t->next = NULL; t->prev = NULL; t->child = NULL; t->start = 0; t->len = 1; return t;
}
void h_outline(void) {
	scratch_pad * sp = ALLOC(sizeof(scratch_pad));
	sp->outline_stack = stack_new(0);
	{ IN(short, base); ASSUME(base >= 1 && base <= 6); sp->base_header_level = base; }
	IN(unsigned, n); ASSUME(n <= 2);
	for (unsigned i = 0; i < 2; i++) { if (i < n) { stack_push(sp->outline_stack, heading()); } }
	{ IN(int, f); IN(int, b); ASSUME(f >= 0 && f <= 2 && b >= 0 && b <= 2); g_frames = f; g_braces = b; }
	ASSUME(inv(sp));
	IN(bool, at_end);
	token * current = at_end ? NULL : heading();
	DString * out = ALLOC(sizeof(DString)); out->str = ALLOC(8); out->str[0] = 0; out->currentStringLength = 0; out->currentStringBufferSize = 8;
	mmd_outline_add_beamer(out, current, sp);
	ASSERT(inv(sp), "C04 beamer outline: every heading on the outline stack stands for exactly one open frame / one open brace group, and nothing else is open");
	ASSERT(current != NULL || (sp->outline_stack->size == 0 && g_frames == 0 && g_braces == 0), "C04 beamer outline: at the end of the document every group is closed");
	REACH();
}
