/* esc_spec.h -- specification side of properties C04 / C08 / (C16): reference DECODERS for the target
 * formats, written as executable spec code over the bytes a writer put into the DString.
 *
 * Nothing here restates what the writers print; the predicates are the property text:
 *   C04  "every character that is reserved in the target format (& < > " in HTML/XML; \ { } $ % & # _ ^ ~
 *         in LaTeX) appears only in its escaped form when it came from document text ... reproduce their
 *         source characters exactly after undoing the target's escaping"
 *   C08  "parse as well-formed XML.  Document text, URLs, titles ... can never break out of the element
 *         or attribute they are placed in"
 *   C16  a byte >= 0x80 (part of a multi-byte character) is passed through unchanged.
 * The XML side knows XML 1.0 (the five predefined entities, decimal/hex character references, the
 * empty-element tag <Name/>, the Char production); the LaTeX side knows TeX's tokeniser (control word,
 * control symbol, group, $math$) and a table of symbol commands.
 */
#ifndef ESC_SPEC_H
#define ESC_SPEC_H
#include "verif.h"
#include "d_string.h"

#ifndef XD_MAX
#define XD_MAX 8                 /* decoded characters kept (the count goes on) */
#endif
#define UC(c) ((int)(unsigned char)(c))
#define IS_LB(c) ((c) == '\n' || (c) == '\r')
#define IS_CTRL(c) (UC(c) < 0x20 || UC(c) == 0x7f)   /* C0 controls and DEL: outside C08's quantifier */

/* ------------------------------------------------------------------ XML 1.0 character data */
typedef struct {
	bool wf;        /* every & begins a complete reference to a declared entity / legal number, every <
	                   begins a complete empty-element tag <Name/>, nothing is left open at the end */
	bool raw_gt, raw_quot, raw_apos; /* a literal > " ' occurs in character data */
	bool raw_ws;    /* a literal TAB, LF or CR occurs (attribute-value normalisation turns it into a space) */
	bool bad_char;  /* a literal control character other than TAB/LF/CR, or a reference to a number that
	                   is not an XML Char (#x9 | #xA | #xD | >= #x20) */
	uint8_t nelem;  /* empty-element tags seen */
	uint8_t ndec;   /* decoded characters */
	int16_t dec[XD_MAX];/* decoded characters as bytes 0..255; -1: not a single byte (reference >= 0x80) */
	/* (narrow types on purpose: every guarded assignment costs its width in SAT variables) */
} xml_scan;

static inline bool xs_name_start(int ch) {
	return (ch >= 'a' && ch <= 'z') || (ch >= 'A' && ch <= 'Z') || ch == '_' || ch == ':';
}
static inline bool xs_name_char(int ch) {
	return xs_name_start(ch) || (ch >= '0' && ch <= '9') || ch == '-' || ch == '.';
}
/* the entities declared in every XML document (XML 1.0 section 4.6) */
static inline int xs_entity(const char * nm, int n) {
	if (n == 3 && nm[0] == 'a' && nm[1] == 'm' && nm[2] == 'p') { return '&'; }
	if (n == 2 && nm[0] == 'l' && nm[1] == 't') { return '<'; }
	if (n == 2 && nm[0] == 'g' && nm[1] == 't') { return '>'; }
	if (n == 4 && nm[0] == 'q' && nm[1] == 'u' && nm[2] == 'o' && nm[3] == 't') { return '"'; }
	if (n == 4 && nm[0] == 'a' && nm[1] == 'p' && nm[2] == 'o' && nm[3] == 's') { return '\''; }
	return -1;
}
static inline void xs_emit(xml_scan * r, int v) {
	if (r->ndec < XD_MAX) {
		r->dec[r->ndec] = (v >= 0 && v < 0x80) ? (int16_t)v : -1;
	}
	r->ndec++;
}
/* (no multiplications in the scanners: a product with a symbolic operand costs a full multiplier in the SAT encoding) */
static inline void xs_emit_ref(xml_scan * r, unsigned v) {
	if (!(v == 9 || v == 10 || v == 13 || (v >= 0x20 && v <= 0x10FFFF && !(v >= 0xD800 && v <= 0xDFFF) && v != 0xFFFE && v != 0xFFFF))) {
		r->bad_char = true;
	}
	xs_emit(r, v < 0x80 ? (int)v : -1);
}

enum { XS_TEXT, XS_AMP, XS_NAME, XS_HASH, XS_DEC, XS_HEX0, XS_HEX, XS_LT, XS_TAG, XS_TAGEND };

/* scan s[0..n) as the content of an element or of an attribute value */
static inline xml_scan xml_scan_run(const char * s, size_t n) {
	xml_scan r;
	r.wf = true;
	r.raw_gt = r.raw_quot = r.raw_apos = r.raw_ws = r.bad_char = false;
	r.nelem = 0;
	r.ndec = 0;
	for (int k = 0; k < XD_MAX; k++) {
		r.dec[k] = -1;
	}
	uint8_t st = XS_TEXT, nlen = 0, nd = 0;
	unsigned val = 0;
	char nm[4] = {0, 0, 0, 0};
	for (size_t i = 0; i < n; i++) {
		int ch = UC(s[i]);
		switch (st) {
			case XS_TEXT:
				if (ch == '&') {
					st = XS_AMP;
				} else if (ch == '<') {
					st = XS_LT;
				} else {
					if (ch == '>') { r.raw_gt = true; }
					if (ch == '"') { r.raw_quot = true; }
					if (ch == '\'') { r.raw_apos = true; }
					if (ch == '\t' || ch == '\n' || ch == '\r') { r.raw_ws = true; }
					else if (ch < 0x20) { r.bad_char = true; }
					/* a byte >= 0x80 is part of a multi-byte character: itself */
					if (r.ndec < XD_MAX) { r.dec[r.ndec] = (int16_t)ch; }
					r.ndec++;
				}
				break;
			case XS_AMP:
				if (ch == '#') {
					st = XS_HASH;
				} else if (xs_name_start(ch)) {
					nm[0] = (char)ch; nlen = 1; st = XS_NAME;
				} else {
					r.wf = false; st = XS_TEXT;
				}
				break;
			case XS_NAME:
				if (ch == ';') {
					int v = xs_entity(nm, nlen);
					if (v < 0) { r.wf = false; }
					xs_emit(&r, v);
					st = XS_TEXT;
				} else if (xs_name_char(ch) && nlen < 4) {
					nm[nlen] = (char)ch; nlen++;
				} else {
					r.wf = false; st = XS_TEXT;
				}
				break;
			case XS_HASH:
				if (ch == 'x') {
					st = XS_HEX0;
				} else if (ch >= '0' && ch <= '9') {
					val = (unsigned)(ch - '0'); nd = 1; st = XS_DEC;
				} else {
					r.wf = false; st = XS_TEXT;
				}
				break;
			case XS_DEC:
				if (ch == ';') {
					xs_emit_ref(&r, val); st = XS_TEXT;
				} else if (ch >= '0' && ch <= '9' && nd < 7) {
					val = (val << 3) + (val << 1) + (unsigned)(ch - '0'); nd++;
				} else {
					r.wf = false; st = XS_TEXT;
				}
				break;
			case XS_HEX0:
			case XS_HEX: {
				int d = (ch >= '0' && ch <= '9') ? ch - '0' : (ch >= 'a' && ch <= 'f') ? ch - 'a' + 10 : (ch >= 'A' && ch <= 'F') ? ch - 'A' + 10 : -1;
				if (st == XS_HEX && ch == ';') {
					xs_emit_ref(&r, val); st = XS_TEXT;
				} else if (d >= 0 && (st == XS_HEX0 || nd < 6)) {
					if (st == XS_HEX0) { val = 0; nd = 0; }
					val = (val << 4) + (unsigned)d; nd++; st = XS_HEX;
				} else {
					r.wf = false; st = XS_TEXT;
				}
				break;
			}
			case XS_LT:
				if (xs_name_start(ch)) { st = XS_TAG; } else { r.wf = false; st = XS_TEXT; }
				break;
			case XS_TAG:
				if (ch == '/') { st = XS_TAGEND; } else if (!xs_name_char(ch)) { r.wf = false; st = XS_TEXT; }
				break;
			default: /* XS_TAGEND */
				if (ch == '>') { r.nelem++; } else { r.wf = false; }
				st = XS_TEXT;
				break;
		}
	}
	if (st != XS_TEXT) {
		r.wf = false;
	}
	return r;
}

/* ------------------------------------------------------------------ LaTeX text */
typedef struct {
	bool ok;        /* tokenises completely: every \ begins a control sequence the decoder knows, control
	                   words are delimited, groups balance, math is closed */
	bool bare;      /* one of \ { } $ % & # _ ^ ~ occurs where TeX gives it its special meaning although it
	                   is neither an escape, a group delimiter of a command argument, nor a math shift */
	uint8_t ndec;
	int16_t dec[XD_MAX];
} tex_scan;

static inline bool tx_letter(int ch) {
	return (ch >= 'a' && ch <= 'z') || (ch >= 'A' && ch <= 'Z');
}
static inline bool tx_weq(const char * w, int n, const char * lit, int ln) {
	if (n != ln) {
		return false;
	}
	for (int i = 0; i < ln; i++) {
		if (w[i] != lit[i]) {
			return false;
		}
	}
	return true;
}
#define TX_IS(lit) tx_weq(w, n, lit, (int)sizeof(lit) - 1)
#define TX_NONE (-1)
#define TX_MATHARG (-2)
#define TX_UNKNOWN (-3)
/* symbol commands (LaTeX2e kernel / textcomp): the character a control word stands for */
static inline int tx_word(const char * w, int n, bool in_math) {
	if (in_math) {
		if (TX_IS("sim")) { return '~'; }
		if (TX_IS("backslash")) { return '\\'; }
		return TX_UNKNOWN;
	}
	if (TX_IS("textbackslash")) { return '\\'; }
	if (TX_IS("textasciitilde")) { return '~'; }
	if (TX_IS("textasciicircum")) { return '^'; }
	if (TX_IS("textless")) { return '<'; }
	if (TX_IS("textgreater")) { return '>'; }
	if (TX_IS("textbar")) { return '|'; }
	if (TX_IS("slash")) { return '/'; }
	if (TX_IS("textunderscore")) { return '_'; }
	if (TX_IS("textdollar")) { return '$'; }
	if (TX_IS("ensuremath")) { return TX_MATHARG; }
	return TX_UNKNOWN;
}
#define TX_WMAX 16
enum { TS_TEXT, TS_BS, TS_CW };

static inline void tx_emit(tex_scan * r, int v) {
	if (r->ndec < XD_MAX) {
		r->dec[r->ndec] = (int16_t)v;
	}
	r->ndec++;
}

static inline tex_scan tex_scan_run(const char * s, size_t n) {
	tex_scan r;
	r.ok = true;
	r.bare = false;
	r.ndec = 0;
	for (int k = 0; k < XD_MAX; k++) {
		r.dec[k] = -1;
	}
	uint8_t st = TS_TEXT, depth = 0, mgroup = 0, wl = 0;
	bool math = false;       /* inside $...$ */
	bool may_open = false;   /* the previous token was a control sequence: a { here delimits/opens its argument */
	bool must_open = false;  /* ... and that control sequence needs an argument */
	bool math_arg = false;   /* ... and the argument is typeset in math mode */
	char w[TX_WMAX];
	for (int k = 0; k < TX_WMAX; k++) {
		w[k] = 0;
	}
	for (size_t i = 0; i < n; i++) {
		int ch = UC(s[i]);
		if (st == TS_CW) {
			if (tx_letter(ch)) {
				if (wl < TX_WMAX) { w[wl] = (char)ch; wl++; } else { r.ok = false; }
				continue;
			}
			int v = tx_word(w, wl, math || mgroup > 0);
			if (v == TX_UNKNOWN) { r.ok = false; }
			else if (v == TX_MATHARG) { must_open = true; math_arg = true; }
			else { tx_emit(&r, v); }
			may_open = true;
			st = TS_TEXT;
			/* ch itself is looked at as text below */
		}
		if (st == TS_BS) {
			if (tx_letter(ch)) {
				w[0] = (char)ch; wl = 1; st = TS_CW;
				continue;
			}
			if (ch == '#' || ch == '$' || ch == '%' || ch == '&' || ch == '_' || ch == '{' || ch == '}') {
				tx_emit(&r, ch);                  /* \# \$ \% \& \_ \{ \} */
			} else if (ch == '\\') {
				tx_emit(&r, '\n');                /* \\ ends the line */
			} else if (ch == '^' || ch == '~') {
				tx_emit(&r, ch);                  /* accent over an empty argument: the bare glyph; the argument must follow */
				may_open = true; must_open = true;
			} else {
				r.ok = false;
			}
			st = TS_TEXT;
			continue;
		}
		/* TS_TEXT */
		bool mo = may_open, mu = must_open, ma = math_arg;
		may_open = false; must_open = false; math_arg = false;
		if (mu && ch != '{') {
			r.ok = false;
		}
		if (ch == '\\') {
			st = TS_BS;
		} else if (ch == '{') {
			if (mo) {
				depth++;
				if (ma) { mgroup = depth; }
			} else {
				r.bare = true;
			}
		} else if (ch == '}') {
			if (depth > 0) {
				if (mgroup == depth) { mgroup = 0; }
				depth--;
			} else {
				r.bare = true;
			}
		} else if (ch == '$') {
			math = !math;
		} else if (ch == '%' || ch == '&' || ch == '#' || ch == '_' || ch == '^' || ch == '~') {
			r.bare = true;
		} else {
			tx_emit(&r, ch);
		}
	}
	if (st != TS_TEXT || depth != 0 || math || must_open) {
		r.ok = false;
	}
	return r;
}

/* ------------------------------------------------------------------ shared clauses */
/* "the sink decodes to exactly the character c": one decoded character equal to c; a NUL produces
 * nothing (a C string cannot carry it) or a reference to 0.
 * Stated exception (documented line-break form): a line break (LF/CR) is rendered as the target's
 * line-break construct, which decodes to one or more line-break characters. */
static inline bool dec_all_lb(const int16_t * dec, int ndec) {
	if (ndec < 1 || ndec > XD_MAX) {
		return false;
	}
	for (int k = 0; k < XD_MAX; k++) {
		if (k < ndec && !(dec[k] == '\n' || dec[k] == '\r')) {
			return false;
		}
	}
	return true;
}
#define DEC_ALL_LB(r) dec_all_lb((r).dec, (r).ndec)
#define DECODES_TO(r, c, lb_form) (((r).ndec == 1 && (r).dec[0] == UC(c)) || ((c) == 0 && (r).ndec == 0) || ((lb_form) && IS_LB(c) && DEC_ALL_LB(r)))
/* string level: the decoded text equals the input bytes in[0..m), in order, none lost or repeated.
 * With the line-break form in use, each maximal run of line-break characters is compared as one line
 * break (the target's construct may decode to more than one). */
static inline bool same_text(const char * in, size_t m, const int16_t * dec, int ndec, bool lb_form) {
	if (ndec > XD_MAX) {
		return false;
	}
	size_t i = 0;
	int k = 0;
	bool inrun = false;
	for (int step = 0; step < 2 * XD_MAX + 2; step++) {
		bool il = i < m && IS_LB(in[i]);
		bool dl = k < ndec && IS_LB(dec[k]);
		if (inrun && lb_form) {
			if (il) { i++; continue; }
			if (dl) { k++; continue; }
			inrun = false;
		}
		if (i >= m || k >= ndec) {
			return i >= m && k >= ndec;
		}
		if (dec[k] != UC(in[i])) {
			if (!(lb_form && il && dl)) {
				return false;
			}
		}
		inrun = il && dl;
		i++;
		k++;
	}
	return false;
}
/* C16: a byte of a multi-byte character goes through unchanged */
#define HIGH_BYTE_UNCHANGED(d, c) (UC(c) < 0x80 || ((d)->currentStringLength == 1 && (d)->str[0] == (c)))
/* white-space characters may be rendered by ONE empty element of the target vocabulary (<br/>,
 * <text:line-break/>, <text:tab/>): TAB always, LF/CR when the caller asked for line breaks; no other
 * character may produce markup */
#define WS_ELEMS(c, line_breaks) ((((c) == '\t') || ((line_breaks) && IS_LB(c))) ? 1 : 0)

#define SINK_SCAN_XML(d) xml_scan_run((d)->str, (d)->currentStringLength)
#define SINK_SCAN_TEX(d) tex_scan_run((d)->str, (d)->currentStringLength)

/* C04 in element content: reserved characters & < > " only escaped */
#define XML_TEXT_SAFE(r, nel) ((r).wf && !(r).raw_gt && !(r).raw_quot && (r).nelem <= (nel))
/* C08 in element content: well-formed (raw > and " are legal there) */
#define XML_TEXT_WF(r) ((r).wf)
/* C08 inside a double-quoted attribute value: no element, no ", & only as reference */
#define XML_ATTR_WF(r) ((r).wf && (r).nelem == 0 && !(r).raw_quot)
/* C04/C14 inside an attribute value: additionally no literal TAB/LF/CR (they would be normalised to a space) */
#define XML_ATTR_LOSSLESS(r) (XML_ATTR_WF(r) && !(r).raw_ws)

/* ------------------------------------------------------------------ assumed callee: the obfuscation PRNG */
/* ran_num_next() (rng.c) by contract: returns ANY long.  The harness draws the values. */
#define RND_N 4
extern long g_rnd[RND_N];
extern unsigned g_rnd_i;

#endif
