/* C04/C08 -- mmd_print_source_opml / mmd_print_source_itmz on a source range of ANY length (symbolic,
 * up to 2^40) at any offset: every byte of source[start .. start+len) is printed exactly once, in order,
 * by ONE append whose bytes -- judged by the XML reference decoder of esc_spec.h -- are text- and
 * attribute-safe and decode back to that byte.
 *
 * DFCC: d_string_append_c / d_string_append_c_array are used BY CONTRACT.  The contract's REQUIRES clause
 * (checked at every call site inside the real loop, for an arbitrary iteration) runs the decoder on the
 * bytes being appended and compares with the current input byte g_src[g_start + g_cnt]; the ENSURES clause
 * advances the ghost counter; the loop contract ties the real cursor to the counter.                    */
#include "esc_spec.h"

#ifndef STR_MAX
#define STR_MAX (1UL << 40)
#endif

const char * g_src;   /* ghost: the source buffer */
size_t g_start, g_len;/* ghost: the range to print */
size_t g_cnt;         /* ghost: number of bytes of the range printed so far */
DString * g_out;
long g_rnd[RND_N];
unsigned g_rnd_i;

void mmd_print_source_opml(DString * out, const char * source, size_t start, size_t len);
void mmd_print_source_itmz(DString * out, const char * source, size_t start, size_t len);

/* the appended bytes p[0..n) are the escaped form of the byte cur: safe as element content (C04) and
 * inside a double-quoted attribute without literal TAB/LF/CR (C08, C14), and decode back to cur */
static bool piece_ok(const char * p, size_t n, char cur) {
	if (p == NULL || n > 8) {
		return false;
	}
	xml_scan r = xml_scan_run(p, n);
	return XML_TEXT_SAFE(r, 0) && XML_ATTR_LOSSLESS(r) && r.ndec == 1 && r.dec[0] == UC(cur) && (UC(cur) < 0x80 || (n == 1 && p[0] == cur));
}
/* a single byte appended as it is (d_string_append_c ignores NUL: nothing is printed for it) */
static bool piece1_ok(char ch, char cur) {
	char b[1] = { ch };
	return ch == cur && (ch == 0 || piece_ok(b, 1, cur));
}

#define IN_RANGE (g_cnt < g_len)
#define CUR (g_src[g_start + g_cnt])
#define ADVANCED (g_cnt == OLD(g_cnt) + 1)

#ifndef VERIF_NATIVE
void d_string_append_c__contract(DString * baseString, char appendedCharacter)
__CPROVER_requires(baseString == g_out && IN_RANGE && piece1_ok(appendedCharacter, CUR))
__CPROVER_ensures(ADVANCED)
__CPROVER_assigns(g_cnt);

void d_string_append_c_array__contract(DString * baseString, const char * appendedChars, size_t bytes)
__CPROVER_requires(baseString == g_out && IN_RANGE && piece_ok(appendedChars, bytes, CUR))
__CPROVER_ensures(ADVANCED)
__CPROVER_assigns(g_cnt);
#endif

#define PRE_source (g_cnt == 0 && out == g_out && source == g_src && start == g_start && len == g_len && len < STR_MAX && start < STR_MAX)
#define POST_source (g_cnt == g_len)
CONTRACT(void, mmd_print_source_opml, (DString * out, const char * source, size_t start, size_t len), PRE_source, POST_source, __CPROVER_assigns(g_cnt))
CONTRACT(void, mmd_print_source_itmz, (DString * out, const char * source, size_t start, size_t len), PRE_source, POST_source, __CPROVER_assigns(g_cnt))

#define MK_SOURCE() \
	IN(size_t, start); IN(size_t, len); \
	ASSUME(start < STR_MAX && len < STR_MAX); \
	char * source = ALLOC(start + len + 1); \
	g_src = source; g_start = start; g_len = len; g_cnt = 0; \
	DString * out = ALLOC(sizeof(DString)); g_out = out;

void h_src_opml(void) {
	MK_SOURCE()
	CALLV(mmd_print_source_opml(out, source, start, len), PRE_source, POST_source)
	REACH();
}

void h_src_itmz(void) {
	MK_SOURCE()
	CALLV(mmd_print_source_itmz(out, source, start, len), PRE_source, POST_source)
	REACH();
}
