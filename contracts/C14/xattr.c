/* C14/C01 -- xml_extract_named_attribute (xml.c): the importer's attribute lookup ("text", "_note").
 *
 * Function under test: the REAL xml_extract_named_attribute with the REAL my_strndup.
 * Callee by contract: xml_extract_attribute.  It drives four re2c scanners whose goto-loops CBMC's
 * symex cannot unwind to a fixpoint (every backward `goto yyNN` is a "loop" whose counter grows with
 * each merged path: unwinding assertions fail at every bound), so it is replaced by the stub below,
 * which restates its behaviour as seen by the caller: it frees *attr / *value, and on the k-th call
 * hands back fresh C strings holding the k-th attribute name (re2c class [a-zA-Z_:][a-zA-Z0-9_:.-]*,
 * never empty) and value (NULL when the attribute has none), and *attr == NULL when the tag has no
 * further attribute.  The harness ALSO builds the tag text  n1="v1" n2="v2"  in `source`, so the native
 * replay (stub compiled out, real scanners) sees exactly the attribute list the stub describes.
 *
 * Contract (from the property: "attribute extraction" must hand the importer the stored text):
 *   result is the value of the FIRST attribute whose name equals `name` ignoring ASCII case, as a
 *   fresh C string; NULL if there is none (or it has no value).  C01: no invalid access inside.    */
#include "verif.h"
#include "d_string.h"
#include "xml.h"

#ifndef KATTR
#define KATTR 2       /* attributes in the tag */
#endif
#ifndef ANB
#define ANB 3         /* bytes per attribute name (1..ANB) */
#endif
#ifndef VNB
#define VNB 1         /* bytes per value (0..VNB) */
#endif
#ifndef NAMEB
#define NAMEB 4       /* bytes of the requested name (0..NAMEB) */
#endif

static size_t g_nattr;                 /* ghost: the tag's attribute list */
static char g_an[KATTR][ANB + 1];
static char g_av[KATTR][VNB + 1];
static bool g_hasv[KATTR];
static size_t g_calls;                 /* ghost: calls of xml_extract_attribute so far */

#define LOWER(ch) (((ch) >= 'A' && (ch) <= 'Z') ? (char)((ch) + ('a' - 'A')) : (ch))
#define NAME_START(ch) (((ch) >= 'a' && (ch) <= 'z') || ((ch) >= 'A' && (ch) <= 'Z') || (ch) == '_' || (ch) == ':')
#define NAME_CHAR(ch) (NAME_START(ch) || ((ch) >= '0' && (ch) <= '9') || (ch) == '.' || (ch) == '-')

static size_t slen(const char * s) { size_t i = 0; while (s[i] != 0) { i++; } return i; }

#ifndef VERIF_NATIVE
static char * sdup(const char * s) {
	size_t n = slen(s);
	char * r = malloc(n + 1);
	for (size_t i = 0; i <= n; i++) { r[i] = s[i]; }
	return r;
}
/* contract stub of xml_extract_attribute (assumed; see header) */
size_t xml_extract_attribute(const char * source, size_t start, char ** attr, char ** value) {
	size_t advance;    /* nondet: the caller only adds it to its cursor */
	if (*attr) { free(*attr); *attr = NULL; }
	if (*value) { free(*value); *value = NULL; }
	if (g_calls < g_nattr) {
		*attr = sdup(g_an[g_calls]);
		if (g_hasv[g_calls]) { *value = sdup(g_av[g_calls]); }
	}
	g_calls++;
	return advance;
}
#endif

/* spec: index of the first attribute matching `name` case-insensitively, or KATTR */
static size_t spec_match(const char * name) {
	for (size_t k = 0; k < KATTR; k++) {
		if (k < g_nattr) {
			size_t i = 0;
			while (i < ANB && name[i] != 0 && LOWER(g_an[k][i]) == LOWER(name[i])) { i++; }
			if (LOWER(g_an[k][i]) == LOWER(name[i]) && name[i] == 0) { return k; }
		}
	}
	return KATTR;
}
static bool str_eq(const char * a, const char * b) {
	size_t i = 0;
	while (i < VNB && a[i] != 0 && a[i] == b[i]) { i++; }
	return a[i] == b[i];
}

#define PRE_xattr (name[nn] == 0 && source[slen_src] == 0)
#define POST_xattr ((g_m < KATTR && g_hasv[g_m]) ? (RET != NULL && str_eq(g_av[g_m], RET)) : RET == NULL)

void h_xattr(void) {
	IN(size_t, nattr); ASSUME(nattr <= KATTR); g_nattr = nattr; g_calls = 0;
	IN_ARR(char, an, KATTR * (ANB + 1)); IN_ARR(char, av, KATTR * (VNB + 1)); IN_ARR(bool, hasv, KATTR);
	IN_ARR(size_t, anlen, KATTR); IN_ARR(size_t, avlen, KATTR);
	IN(size_t, nn); ASSUME(nn <= NAMEB);
	char * source = ALLOC(KATTR * (ANB + VNB + 4) + 1);
	size_t slen_src = 0;
	for (size_t k = 0; k < KATTR; k++) {
		ASSUME(anlen[k] >= 1 && anlen[k] <= ANB && avlen[k] <= VNB);
#ifdef LONG_ATTRS   /* restricted domain: every attribute name of the tag has at least strlen(name)-1 bytes */
		ASSUME(k >= nattr || anlen[k] + 1 >= nn);
#endif
		for (size_t i = 0; i <= ANB; i++) {
			char ch = an[k * (ANB + 1) + i];
			if (i < anlen[k]) { ASSUME(i == 0 ? NAME_START(ch) : NAME_CHAR(ch)); } else { ch = 0; }
			g_an[k][i] = ch;
			if (k < nattr && ch != 0) { source[slen_src++] = ch; }
		}
		g_hasv[k] = hasv[k];
		if (k < nattr && hasv[k]) { source[slen_src++] = '='; source[slen_src++] = '"'; }
		for (size_t i = 0; i <= VNB; i++) {
			char ch = av[k * (VNB + 1) + i];
			if (i < avlen[k]) { ASSUME(ch != 0 && ch != '"'); } else { ch = 0; }
			g_av[k][i] = ch;
			if (k < nattr && hasv[k] && ch != 0) { source[slen_src++] = ch; }
		}
		if (k < nattr && hasv[k]) { source[slen_src++] = '"'; }
		if (k < nattr) { source[slen_src++] = ' '; }
	}
	source[slen_src] = 0;
	char * name = ALLOC(nn + 1);
	IN_ARR(char, nfill, NAMEB);
	for (size_t i = 0; i < NAMEB; i++) { if (i < nn) { ASSUME(nfill[i] != 0); name[i] = nfill[i]; } }
	name[nn] = 0;
	size_t g_m = spec_match(name);
	CALLR(char *, xml_extract_named_attribute(source, 0, name), PRE_xattr, POST_xattr)
#ifndef VERIF_NATIVE
	ASSERT(g_calls >= 1 && g_calls <= g_nattr + 1, "the contract stub of xml_extract_attribute was the callee; called at most once per attribute plus once");
#endif
	REACH();
}
