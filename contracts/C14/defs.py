# ---------------------------------------------------------------- C14 outline export / import
_C14_SINK = ("lib/ds_sink.c",)
_C14_LD = ["-Wl,--unresolved-symbols=ignore-all"]   # opml.c/itmz.c reference the whole writer; only the escaper is called
for _fmt, _file, _fn in (("opml", "opml.c", "mmd_print_source_opml"), ("itmz", "itmz.c", "mmd_print_source_itmz")):
    for _nb, _tier, _to in ((2, "quick", 300), (3, "thorough", 1800)):
        U("c14_roundtrip_%s_N%d" % (_fmt, _nb), ["C14", "C01"], "h_roundtrip", ["C14/esc.c"], [_file, "xml.c"], plain=True, lib=_C14_SINK,
          defines=["-DNB=%d" % _nb, "-DESCAPER=%s" % _fn, "-DSINK_CAP=%d" % (6 * _nb + 2)], kind="bounded", tier=_tier,
          bounds={"source bytes<=": _nb, "byte domain": "1..255 (NUL terminates the source)", "unwind": 6 * _nb + 3},
          cbmc_flags=["--unwind", str(6 * _nb + 3), "--unwinding-assertions"], timeout=_to, cost=20 * _nb,
          functions=[_fn, "print_xml_as_text"],
          callees={"d_string_append_c/_c_array/d_string_new": "ghost sink lib/ds_sink.c (DString by specification, C19)", "strncmp": "CBMC built-in model (unwound)"},
          native={"repo": [_file, "xml.c", "d_string.c"], "ldflags": _C14_LD}, min_obligations=20,
          assumptions=[NOFAIL, "source bytes are non-NUL (the exporter reads a NUL-terminated C string; d_string_append_c drops NUL)",
                       "DString used through its specification (ghost sink), refinement by d_string.c is C19"])
U("c14_unescape_safe", ["C14", "C01"], "h_unescape_safe", ["C14/esc.c"], ["xml.c"], plain=True, lib=_C14_SINK,
  defines=["-DBUF=7", "-DSINK_CAP=8"], kind="bounded", bounds={"object bytes": 7, "unwind": 9},
  cbmc_flags=["--unwind", "9", "--unwinding-assertions"], functions=["print_xml_as_text"],
  callees={"d_string_append_c": "ghost sink", "strncmp": "CBMC built-in model (unwound)"},
  native={"repo": ["xml.c", "d_string.c"]}, min_obligations=20,
  assumptions=[NOFAIL, "a NUL sits at an index >= start+len inside the source object (call sites pass NUL-terminated attribute values with len <= strlen)"])


_XA_STUB = "xml_extract_attribute is a contract stub (C14/xattr.c): frees *attr/*value, returns the tag's attributes one per call as fresh C strings, then *attr==NULL; its re2c scanners are out of CBMC's reach"
for _nm, _tier, _defs, _cm in (
        # FAILS on the unchanged tree: genuine defect (DESIGN 9 item 5): the lower-casing loop of lower_attr runs to strlen(name), past the
        # strlen(attr)+1 bytes allocated, whenever an attribute name is >= 2 bytes shorter than the requested name (e.g. id= vs "text").
        ("c14_xattr", "quick", [], "all attribute lists"),   # failed on the pinned tree (genuine defect, repaired: known_findings.txt)
        ("c14_xattr_long", "quick", ["-DLONG_ATTRS"], "attribute names no more than 1 byte shorter than the requested name")):
    U(_nm, ["C14", "C01"], "h_xattr", ["C14/xattr.c", "C14/xml_tu.c"], [], plain=True, lib=("lib/libc_models.c",),
      defines=["-DKATTR=2", "-DANB=3", "-DVNB=1", "-DNAMEB=4"] + _defs, kind="bounded", tier=_tier,
      bounds={"attributes in the tag<=": 2, "attribute name bytes": "1..3", "value bytes<=": 1, "requested name bytes<=": 4, "unwind": 10, "domain": _cm},
      cbmc_flags=["--unwind", "10", "--unwinding-assertions"], functions=["xml_extract_named_attribute"],
      callees={"xml_extract_attribute": "contract stub (assumed)", "my_strndup": "body", "strlen/memcpy": "byte-loop models lib/libc_models.c", "strcmp/tolower/malloc/free": "CBMC built-in"},
      native={"repo": ["xml.c", "d_string.c"]}, small=["-DVERIF_SMALL=1"], min_obligations=20, assumptions=[NOFAIL, _XA_STUB])

_PS_STUB = "mmd_print_source_opml is a recording stub in these units (contract: appends the escaped form of source[start,start+len)); the escaper itself is verified by c14_roundtrip_*"
for _nm, _h, _fn, _b in (("c14_outline_add", "h_outline_add", "mmd_outline_add_opml", {"open items on the outline stack<=": 2, "shape": "t [mid] current | t [rest] end-of-document", "offsets": "all size_t, source <= 2^40"}),
                         ("c14_header_span", "h_header", "mmd_export_header_opml", {"children of the heading": "1..3, any types", "offsets": "all size_t, source <= 2^40"})):
    U(_nm, ["C14", "C01"], _h, ["C14/outline.c", "C14/opml_tu.c"], ["stack.c"], plain=True, lib=_C14_SINK,
      defines=["-DSINK_CAP=40"], kind="bounded", bounds=dict(_b, unwind=40),
      cbmc_flags=["--unwind", "40", "--unwinding-assertions"], functions=[_fn],
      callees={"mmd_print_source_opml": "recording stub (contract)", "stack_push/pop/peek/new": "body (stack.c)", "d_string_*": "ghost sink"},
      native={"repo": ["opml.c", "xml.c", "stack.c", "d_string.c"], "ldflags": _C14_LD, "defines": ["-DSB=6"]}, small=["-DSB=6"], min_obligations=30, timeout=600, cost=20,
      assumptions=[NOFAIL, _PS_STUB, "block/child tokens are contiguous siblings inside their parent (C15 tree well-formedness)", "base_header_level in 1..6"])

PROPS["C14"] = {
    "level": "other",
    "explanation": "Escape/unescape are exact inverses: the REAL mmd_print_source_opml (and mmd_print_source_itmz) followed by the REAL print_xml_as_text reproduces every sub-span of every source of <= 2 bytes (thorough: 3) over bytes 1..255, byte for byte, and the escaped form contains no raw XML-reserved/whitespace-control byte (bounded; escape is per byte and unescape looks ahead <= 5 bytes, extension to all lengths is by induction, stated not checked). Span arithmetic, for ALL size_t offsets: mmd_outline_add_opml exports exactly the source between the end of the open heading (start of the block for the Preamble item) and the start of the next heading / end of document as the note, closes exactly the items of level >= the new one and pushes the new heading; mmd_export_header_opml exports exactly the span from the first non-marker child to the end of the last non-marker/newline/indent child as the title. Import side: print_xml_as_text is memory-safe on every 7-byte object whose span is followed by a NUL; xml_extract_named_attribute returns the value of the first attribute matching case-insensitively when no attribute name is more than 1 byte shorter than the requested name.",
    "slice": "mmd_print_source_opml, mmd_print_source_itmz, print_xml_as_text, mmd_outline_add_opml, mmd_export_header_opml, mmd_export_metadata_opml / mmd_export_metadata_itmz (every entry, whole key and value, table order; bounded tables), xml_extract_named_attribute (+my_strndup); mmd_engine_convert_opml_to_text / mmd_engine_convert_itmz_to_text (converted text returned, engine holds the outline again)",
    "not_reached": "OPML/ITMZ lexer+parser (re2c/lemon) and parse_opml_token_chain (nesting -> heading level); render equality after re-import; xml_extract_attribute and the four xml_scan_* re2c scanners (CBMC's unwinding of their goto-loops never converges: contract stub); itmz outline functions (same code shape as opml, not registered); xml_extract_named_attribute on the full domain FAILS (unit c14_xattr, thorough: genuine heap overflow, see report)",
    "trusted_base": ["cbmc/goto-cc 6.11.0 (MiniSat2)", "lib/ds_sink.c (DString specification as ghost code; refinement proved under C19)", "CBMC built-in strncmp/strcmp/tolower models, lib/libc_models.c byte loops"],
    "assumptions": [NOFAIL, _PS_STUB, _XA_STUB, "source bytes non-NUL", "block/child tokens contiguous inside their parent (C15)"],
}

U("c14_preamble_start", ["C14"], "h_preamble", ["C14/preamble.c"], ["opml.c"], plain=True, lib=(), kind="bounded",
  defines=["-DI18N_DISABLED=1"], cbmc_flags=["--unwind", "6", "--unwinding-assertions", "--object-bits", "10"],
  bounds={"leading blocks": "0..3 (types symbolic)", "unwind": 6}, functions=["mmd_check_preamble_opml"],
  callees={"stack_push": "contract stub recording the pushed block", "d_string_append*": "no-op stubs"}, min_obligations=5, timeout=200, cost=3, assumptions=[NOFAIL])

# ---- outline -> text on an engine: the converted text is returned and the engine holds the original outline again
for _nm, _d in (("opml", []), ("itmz", ["-DITMZ"])):
    U("c14_%s_to_text_restores_engine" % _nm, ["C14", "C05"], "h_to_text", ["C14/to_text.c"], ["mmd.c", "d_string.c"], plain=True, lib=(), kind="bounded",
      defines=["-DSN=3", "-DCN=2"] + _d, cbmc_flags=["--unwind", "8", "--unwinding-assertions"], bounds={"outline text<=": 3, "converted text<=": 2, "unwind": 8},
      pre_instrument=["--remove-function-body-regex", "^(?!mmd_engine_convert_opml_to_text$|mmd_engine_convert_itmz_to_text$|mmd_convert_opml_string$|mmd_convert_itmz_string$|importer$|d_string_.*$|ensureStringBufferCanHold$|h_to_text$|verif_.*$|__CPROVER.*$).*"],
      functions=["mmd_engine_convert_%s_to_text" % _nm, "d_string_new", "d_string_append_c_array"],
      callees={"mmd_convert_%s_string" % _nm: "contract stub: asked for (0, length); frees the engine's buffer and installs the converted text and its length"},
      min_obligations=10, timeout=300, cost=10, assumptions=[NOFAIL])
U("c14_metadata_opml_K2", ["C14", "C11"], "h_meta_opml", ["C14/meta_opml.c", "C14/opml_tu.c"], [], plain=True, lib=(), kind="bounded",
  bounds={"metadata entries<=": 2, "key/value length<=": 2, "unwind": 50}, cbmc_flags=["--unwind", "50", "--unwinding-assertions"], functions=["mmd_export_metadata_opml"],
  callees={"mmd_print_source_opml": "recording stub (contract; the escaper: c14_roundtrip_*)", "d_string_append / d_string_append_c_array": "recording stubs (DString: C19)", "strlen": "CBMC built-in"},
  native=None, min_obligations=10, timeout=300, cost=10, assumptions=[_PS_STUB])
U("c14_metadata_itmz_K2", ["C14", "C11"], "h_meta_itmz", ["C14/meta_itmz.c", "C14/itmz_tu.c"], [], plain=True, lib=(), kind="bounded",
  bounds={"metadata entries<=": 2, "key/value length<=": 2, "unwind": 50}, cbmc_flags=["--unwind", "50", "--unwinding-assertions"], functions=["mmd_export_metadata_itmz"],
  callees={"mmd_print_source_itmz": "recording stub (contract; the escaper: c14_roundtrip_itmz)", "print_uuid_itmz": "recording stub (uuid_new: trusted base)", "d_string_append / d_string_append_c_array": "recording stubs (DString: C19)", "strlen": "CBMC built-in"},
  native=None, min_obligations=10, timeout=300, cost=10, assumptions=[_PS_STUB.replace("opml", "itmz")])
