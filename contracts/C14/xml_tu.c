/* the real, unmodified /repo/src/xml.c as its own translation unit.  Linked AFTER xattr.c so that
 * goto-cc keeps xattr.c's contract stub of xml_extract_attribute (first definition wins at link time;
 * the harness asserts that the stub really was the callee).  For the native replay the driver compiles
 * /repo/src/xml.c itself (native repo list) and the stub is compiled out: the real
 * xml_extract_attribute and its re2c scanners run. */
#ifndef VERIF_NATIVE
#include "xml.c"
#endif
