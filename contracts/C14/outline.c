/* C14 -- "the source text between one heading and the next is stored verbatim as that item's note, so
 * no body character is lost" and "every heading becomes an outline item carrying its title".
 *
 * SPAN ARITHMETIC of the REAL mmd_outline_add_opml and mmd_export_header_opml (opml.c).  Both hand a
 * span (start,len) of the source to mmd_print_source_opml; that escaper is verified separately for every
 * span (units c14_roundtrip_*), so here it is a RECORDING STUB (by contract: "writes the escaped form of
 * source[start,start+len)") and the obligations are on the span: which bytes of the source become the
 * note / the title.  All offsets are symbolic size_t (source up to 2^40 bytes; no byte of it is read).
 * Natively (replay) the stub is compiled out, the real escaper runs, and the note is observed by decoding
 * the output with the real print_xml_as_text.
 *
 * h_outline_add: closing the open outline item `t` (top of the outline stack, opml_item_closed == 0)
 *   when the next heading -- or the end of the document (DOC_START_TOKEN) -- `current` arrives.  Shape:
 *   contiguous sibling blocks  t=[ts,te)  [mid=[te,cs)]  current=[cs,ce)  inside root=[0,n); t is any
 *   heading type or a non-heading block (the "Preamble" item); the stack holds 0..1 further open items
 *   below t.  Note span must be [S,E): S = end of the heading block (start of the block for Preamble),
 *   E = start of the next heading (end of document).  Output besides the note must be exactly
 *   ">  + one </outline>\n per closed level + <outline (if a heading follows).
 * h_header: heading with 1..3 contiguous children of arbitrary types: title span runs from the first
 *   child that is not an ATX marker to the end of the last child that is not marker/newline/indent.  */
#include "verif.h"
#include "opml.h"
#include "stack.h"

void print_xml_as_text(DString * out, const char * source, size_t start, size_t len);
void mmd_outline_add_opml(DString * out, const char * source, token * current, scratch_pad * scratch);
void mmd_export_header_opml(DString * out, const char * source, token * t, scratch_pad * scratch);

#ifndef SB
#define SB (1UL << 40)      /* source bytes */
#endif

static size_t g_ps_calls, g_ps_start, g_ps_len, g_ps_at;
static const char * g_ps_source;
#ifndef VERIF_NATIVE
/* recording stub of the escaper (contract: appends escape(source[start,start+len)) -- here: appends nothing, records the span) */
void mmd_print_source_opml(DString * out, const char * source, size_t start, size_t len) {
	g_ps_calls++; g_ps_start = start; g_ps_len = len; g_ps_source = source; g_ps_at = out->currentStringLength;
}
#endif

static token * mk_tok(unsigned short type, size_t start, size_t len) {
	token * t = ALLOC(sizeof(token));
	t->type = type; t->start = start; t->len = len;
	t->next = NULL; t->prev = NULL; t->child = NULL; t->tail = NULL; t->mate = NULL;
	t->can_open = 0; t->can_close = 0; t->unmatched = 0; t->out_start = 0; t->out_len = 0;
	return t;
}
static char * mk_source(size_t n) {
	char * s = ALLOC(n + 1);
#ifdef VERIF_NATIVE
	IN_ARR(char, fill, SB);
	for (size_t i = 0; i < n; i++) { ASSUME(fill[i] != 0); s[i] = fill[i]; }
	s[n] = 0;
#endif
	return s;
}
#define IS_ATX(ty) ((ty) >= BLOCK_H1 && (ty) <= BLOCK_H6)
#define IS_SETEXT(ty) ((ty) == BLOCK_SETEXT_1 || (ty) == BLOCK_SETEXT_2)
#define IS_HEADING(ty) (IS_ATX(ty) || IS_SETEXT(ty))
/* outline level of a block as documented: ATX n -> n, Setext 1/2, anything else sorts below every heading */
#define LEVEL(ty) (IS_ATX(ty) ? 1 + (ty) - BLOCK_H1 : ((ty) == BLOCK_SETEXT_1 ? 1 : ((ty) == BLOCK_SETEXT_2 ? 2 : 100)))

static size_t g_k;     /* ghost index */

/* the span handed to the escaper is [S,E) of `source`, written at output offset `at`; natively: decode and compare */
static void check_span(DString * out, const char * source, size_t S, size_t E, size_t at, size_t * after) {
#ifndef VERIF_NATIVE
	ASSERT(g_ps_calls == 1 && g_ps_source == source, "exactly one span of the source is exported");
	ASSERT(g_ps_start == S, "exported span starts where the property says");
	ASSERT(g_ps_len == E - S, "exported span ends where the property says: no byte skipped or duplicated");
	ASSERT(g_ps_at == at, "span written at the expected output position");
	*after = at;
#else
	size_t q = at;
	while (q < out->currentStringLength && out->str[q] != '"') { q++; }
	DString * back = d_string_new("");
	print_xml_as_text(back, out->str, at, q - at);
	ASSERT(back->currentStringLength == E - S, "exported span ends where the property says: no byte skipped or duplicated");
	for (size_t i = 0; i < E - S; i++) { ASSERT(back->str[i] == source[S + i], "exported span starts where the property says"); }
	*after = q;
#endif
}

void h_outline_add(void) {
	IN(size_t, n); ASSUME(n <= SB);
	char * source = mk_source(n);
	IN(size_t, ts); IN(size_t, te); IN(size_t, cs); IN(size_t, ce);
	IN(unsigned short, t_type); IN(unsigned short, cur_type); IN(unsigned short, below_type); IN(bool, has_below); IN(bool, at_end);
	IN(short, base);
	{ IN(size_t, k); g_k = k; }
	/* well-formed block chain (C15): contiguous siblings inside the root */
	ASSUME(ts <= te && te <= cs && cs <= ce && ce <= n);
	ASSUME(base >= 1 && base <= 6);
	ASSUME(t_type != DOC_START_TOKEN && IS_HEADING(below_type));
	token * root = mk_tok(DOC_START_TOKEN, 0, n);
	token * t = mk_tok(t_type, ts, te - ts);
	token * current;
	if (at_end) {
		current = root;                 /* "finish out document": t is the last block or is followed by non-heading blocks up to n */
		if (te < n) { t->next = mk_tok(BLOCK_PARA, te, n - te); t->next->prev = t; }
	} else {
		ASSUME(IS_HEADING(cur_type));
		current = mk_tok(cur_type, cs, ce - cs);
		if (te < cs) { token * mid = mk_tok(BLOCK_PARA, te, cs - te); t->next = mid; mid->prev = t; mid->next = current; current->prev = mid; }
		else { t->next = current; current->prev = t; }
	}
	root->child = t;
	scratch_pad * scratch = ALLOC(sizeof(scratch_pad));
	scratch->outline_stack = stack_new(4);
	scratch->opml_item_closed = 0;
	scratch->base_header_level = base;
	token * below = mk_tok(below_type, 0, 0);
	if (has_below) { stack_push(scratch->outline_stack, below); }
	stack_push(scratch->outline_stack, t);
	DString * out = d_string_new("");
	g_ps_calls = 0;

	mmd_outline_add_opml(out, source, current, scratch);

	size_t S = IS_HEADING(t_type) ? te : ts;
	size_t E = at_end ? n : cs;
	size_t q;
	check_span(out, source, S, E, 0, &q);
	/* the rest: close the note, close every open item of level >= the new one, open the new item */
	int lvl_new = at_end ? 0 : LEVEL(cur_type);       /* base_header_level shifts both sides alike */
	size_t pops = 0;
	if (LEVEL(t_type) >= lvl_new) { pops = 1; if (has_below && LEVEL(below_type) >= lvl_new) { pops = 2; } }
	DString * tail = d_string_new("\">");
	for (size_t i = 0; i < 2; i++) { if (i < pops) { d_string_append(tail, "</outline>\n"); } }
	if (!at_end) { d_string_append(tail, "<outline"); }
	ASSERT(out->currentStringLength == q + tail->currentStringLength, "output after the note has the expected length");
	ASSERT(g_k >= tail->currentStringLength || out->str[q + g_k] == tail->str[g_k], "output after the note == \"> + closings + <outline");
	ASSERT(scratch->outline_stack->size == (has_below ? 2 : 1) - pops + (at_end ? 0 : 1), "outline stack: closed levels popped, new heading pushed");
	ASSERT(at_end || stack_peek(scratch->outline_stack) == current, "new heading is the open item");
	ASSERT(scratch->opml_item_closed == (at_end ? 1 : 0), "item-closed flag");
	REACH();
}

#define IS_MARKER_H(ty) ((ty) >= MARKER_H1 && (ty) <= MARKER_H6)
#define IS_TRAIL(ty) (IS_MARKER_H(ty) || (ty) == TEXT_NL || (ty) == TEXT_NL_SP || (ty) == INDENT_TAB || (ty) == INDENT_SPACE \
	|| (ty) == NON_INDENT_SPACE || (ty) == MARKER_SETEXT_1 || (ty) == MARKER_SETEXT_2)
#define KCH 3
void h_header(void) {
	IN(size_t, n); ASSUME(n <= SB);
	char * source = mk_source(n);
	IN(size_t, nch); ASSUME(nch >= 1 && nch <= KCH);
	IN_ARR(size_t, cut, KCH + 1); IN_ARR(unsigned short, cty, KCH);
	IN(unsigned short, t_type);
	ASSUME(cut[0] <= cut[1] && cut[1] <= cut[2] && cut[2] <= cut[3] && cut[3] <= n);
	token * t = mk_tok(t_type, cut[0], cut[nch] - cut[0]);
	token * ch[KCH];
	for (size_t i = 0; i < KCH; i++) {
		if (i < nch) {
			ch[i] = mk_tok(cty[i], cut[i], cut[i + 1] - cut[i]);
			if (i > 0) { ch[i - 1]->next = ch[i]; ch[i]->prev = ch[i - 1]; }
		}
	}
	t->child = ch[0]; ch[0]->tail = ch[nch - 1];
	scratch_pad * scratch = ALLOC(sizeof(scratch_pad));
	DString * out = d_string_new("");
	g_ps_calls = 0;

	mmd_export_header_opml(out, source, t, scratch);

	/* spec: title = from the first child that is not an opening ATX marker to the end of the last child that is
	 * not a closing marker / newline / indentation (whole heading span on the respective side if there is none) */
	size_t S = cut[0], E = cut[nch];
	bool fs = false;
	for (size_t i = 0; i < KCH; i++) { if (i < nch && !fs && !IS_MARKER_H(cty[i])) { S = cut[i]; fs = true; } }
	bool fe = false;
	for (size_t i = KCH; i > 0; i--) { if (i - 1 < nch && !fe && !IS_TRAIL(cty[i - 1])) { E = cut[i]; fe = true; } }
	ASSERT(S <= E && cut[0] <= S && E <= cut[nch], "title span lies inside the heading");
	size_t q;
	check_span(out, source, S, E, 0, &q);
	ASSERT(out->currentStringLength == q, "nothing but the title is written");
	REACH();
}
