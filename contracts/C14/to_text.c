/* C14 / C05 -- mmd_engine_convert_opml_to_text / mmd_engine_convert_itmz_to_text (mmd.c, the real functions; real d_string_new and
 * d_string_append_c_array): "import an outline, hand back the MultiMarkdown text, and leave the engine as it was".
 * The importer (mmd_convert_opml_string / mmd_convert_itmz_string: tokenizer + re-import parser of opml-reader.c / itmz-reader.c) is
 * USED BY CONTRACT: it is asked for the whole text (0, length) and replaces the engine's buffer by the converted text (frees the
 * old buffer, installs a new one and its length; it does not update the buffer size -- read from parse_opml_token_chain).
 *   ensures  the returned DString holds exactly the converted text (that buffer, that length)
 *   ensures  the engine holds the ORIGINAL outline text again: same length, same bytes (ghost index), NUL-terminated -- so a later
 *            conversion of the same engine (e.g. to HTML, which re-imports the outline) sees the whole outline, not a prefix of it
 * Bounded: outline text of <= SN symbolic bytes, converted text of <= CN bytes. */
#include "verif.h"
#include "d_string.h"
#include "libMultiMarkdown.h"
#include "mmd.h"
#ifndef SN
#define SN 3
#endif
#ifndef CN
#define CN 2
#endif
static int g_calls; static char * g_conv; static size_t g_cl, g_n; static mmd_engine * g_e;
static void importer(mmd_engine * e, size_t start, size_t len) {
	ASSERT(e == g_e && start == 0 && len == g_n, "C14: the importer is asked to convert the engine's whole text");
	g_calls++;
	free(e->dstr->str);
	e->dstr->str = g_conv; e->dstr->currentStringLength = g_cl;
}
#ifdef ITMZ
void mmd_convert_itmz_string(mmd_engine * e, size_t start, size_t len) { importer(e, start, len); }
DString * mmd_engine_convert_itmz_to_text(mmd_engine * e);
#define TO_TEXT mmd_engine_convert_itmz_to_text
#else
void mmd_convert_opml_string(mmd_engine * e, size_t start, size_t len) { importer(e, start, len); }
DString * mmd_engine_convert_opml_to_text(mmd_engine * e);
#define TO_TEXT mmd_engine_convert_opml_to_text
#endif
void h_to_text(void) {
	mmd_engine * e = ALLOC(sizeof(mmd_engine)); g_e = e;
	IN(size_t, n); ASSUME(n <= SN); g_n = n;
	char orig[SN + 1];
	char * src = ALLOC(SN + 1);
	for (size_t i = 0; i < SN; i++) { char c; ASSUME(c != 0); src[i] = (i < n) ? c : 0; orig[i] = src[i]; }
	src[SN] = 0; orig[SN] = 0;
	DString * ds = ALLOC(sizeof(DString)); ds->str = src; ds->currentStringLength = n; ds->currentStringBufferSize = SN + 1; e->dstr = ds;
	{ IN(size_t, cl); ASSUME(cl <= CN); g_cl = cl; g_conv = ALLOC(CN + 1); for (size_t i = 0; i < CN; i++) { char c; ASSUME(c != 0); g_conv[i] = (i < cl) ? c : 0; } g_conv[CN] = 0; }
	DString * r = TO_TEXT(e);
	ASSERT(g_calls == 1, "C14: one import");
	ASSERT(r != NULL && r != ds && r->str == g_conv && r->currentStringLength == g_cl, "C14: the converted text is returned, whole");
	ASSERT(e->dstr == ds && ds->str != g_conv && ds->str != NULL, "C14/C05: the engine does not keep the converted text");
	ASSERT(ds->currentStringLength == n, "C14/C05: the engine's text has its original length again (a shorter length would cut the outline off for the next conversion)");
	IN(size_t, k); ASSUME(k <= n);
	ASSERT(ds->str[k] == orig[k], "C14/C05: the engine's text has its original bytes again, terminator included (ghost index)");
	REACH();
}
