/* C14 -- "outline export is lossless": mmd_check_preamble_opml (opml.c, the real function) decides which blocks before the first
 * heading are stored in the ">>Preamble<<" item.  Contract: the preamble starts at the FIRST block that is not metadata -- whatever
 * kind of block that is -- unless that block is a heading (then there is no preamble): no leading block's source text is left out of
 * the outline.  Bounded: 0..3 leading blocks of symbolic types. */
#include "verif.h"
#include "d_string.h"
#include "token.h"
#include "writer.h"
#include "stack.h"
void mmd_check_preamble_opml(DString * out, token * t, scratch_pad * scratch);
static token * g_pushed; static unsigned g_pushes;
void stack_push(stack * s, void * element) { g_pushed = element; g_pushes++; }
void d_string_append_c_array(DString * d, const char * s, size_t n) { }
void d_string_append(DString * d, const char * s) { }
static bool is_heading(unsigned short t) { return (t >= BLOCK_H1 && t <= BLOCK_H6) || t == BLOCK_SETEXT_1 || t == BLOCK_SETEXT_2; }
void h_preamble(void) {
	scratch_pad * scratch = ALLOC(sizeof(scratch_pad)); scratch->outline_stack = ALLOC(sizeof(stack)); scratch->opml_item_closed = 1;
	token * doc = ALLOC(sizeof(token)); doc->type = DOC_START_TOKEN; doc->child = NULL; doc->next = NULL;
	IN(unsigned, n); ASSUME(n <= 3);
	token * b[3] = { NULL, NULL, NULL }; token * last = NULL;
	for (unsigned i = 0; i < 3; i++) {
		if (i < n) {
			b[i] = ALLOC(sizeof(token)); IN(unsigned short, ty); b[i]->type = ty; b[i]->next = NULL; b[i]->prev = last; b[i]->child = NULL; b[i]->start = i; b[i]->len = 1;
			if (last) { last->next = b[i]; } else { doc->child = b[i]; }
			last = b[i];
		}
	}
	DString * out = ALLOC(sizeof(DString)); out->str = ALLOC(8); out->str[0] = 0; out->currentStringLength = 0; out->currentStringBufferSize = 8;
	g_pushed = NULL; g_pushes = 0;
	mmd_check_preamble_opml(out, doc, scratch);
	token * first = NULL;                                 /* the first block that is not metadata */
	for (unsigned i = 0; i < 3; i++) { if (first == NULL && i < n && b[i]->type != BLOCK_META) { first = b[i]; } }
	if (first == NULL || is_heading(first->type)) {
		ASSERT(g_pushes == 0, "C14: no preamble when the document starts (after its metadata) with a heading or is empty");
	} else {
		ASSERT(g_pushes == 1 && g_pushed == first, "C14: the preamble item starts at the first non-metadata block, whatever its kind: no leading block is left out of the outline");
		ASSERT(scratch->opml_item_closed == 0, "the preamble item is left open for its note text");
	}
	REACH();
}
