/* C14 -- "XML escaping on export and unescaping on import are exact inverses on all text".
 *
 * h_roundtrip_opml / h_roundtrip_itmz: the REAL mmd_print_source_opml (opml.c) resp.
 * mmd_print_source_itmz (itmz.c) escapes the span [start,start+len) of a NUL-terminated source into
 * a DString; the REAL print_xml_as_text (xml.c; hand-written C, it calls none of the re2c scan_*
 * functions) decodes that DString into a second one; obligation: the second DString IS the span,
 * byte for byte and in length.  Quantifier: ALL sources of <= NB bytes over the byte domain 1..255
 * (NUL is the terminator of the C string the exporter reads and cannot occur inside a span), all
 * sub-spans.  DString = ghost sink (lib/ds_sink.c), i.e. d_string.c by its specification (C19).
 *
 * h_unescape_safe (C01): print_xml_as_text reads AHEAD of the cursor (`*++c`, strncmp(c,"#10;",4))
 * and may step the cursor past s_stop (`c += 4`); precondition taken from the call sites
 * (opml-reader.c / itmz-reader.c pass a NUL-terminated attribute value and len <= strlen): some NUL
 * sits at an index >= start+len inside the object.  Every other byte is arbitrary (NULs inside the
 * span included).  Obligations: CBMC's pointer/bounds checks inside print_xml_as_text/strncmp, the
 * sink capacity, and "the decoded text is never longer than the span".                           */
#include "verif.h"
#include "d_string.h"

void mmd_print_source_opml(DString * out, const char * source, size_t start, size_t len);
void mmd_print_source_itmz(DString * out, const char * source, size_t start, size_t len);
void print_xml_as_text(DString * out, const char * source, size_t start, size_t len);

#ifndef NB
#define NB 2          /* source bytes */
#endif
#ifndef ESCAPER
#define ESCAPER mmd_print_source_opml
#endif

size_t g_k;           /* ghost index: "byte g_k of the decoded text is byte start+g_k of the source" for ALL g_k */

/* escape then unescape == identity */
#define PRE_roundtrip (start <= n && len <= n - start)
#define POST_roundtrip (back->currentStringLength == len && (g_k >= len || back->str[g_k] == src[start + g_k]) \
	&& back->str[back->currentStringLength] == 0)
/* the escaped form is pure XML attribute text: none of & < > " ' TAB LF CR survives unescaped except '&' opening an entity */
#define XML_CLEAN(ch) ((ch) != '<' && (ch) != '>' && (ch) != '"' && (ch) != '\'' && (ch) != '\n' && (ch) != '\r' && (ch) != '\t')

static void roundtrip(void) {
	IN(size_t, n); ASSUME(n <= NB);
	char * src = ALLOC(n + 1);
	IN_ARR(char, fill, NB);
	for (size_t i = 0; i < NB; i++) { if (i < n) { ASSUME(fill[i] != 0); src[i] = fill[i]; } }
	src[n] = 0;
	IN(size_t, start); IN(size_t, len);
	{ IN(size_t, k); g_k = k; }
	DString * esc = d_string_new("");
	DString * back = d_string_new("");
	ASSUME(PRE_roundtrip);
	ESCAPER(esc, src, start, len);
	{ IN(size_t, j); ASSERT(j >= esc->currentStringLength || XML_CLEAN(esc->str[j]), "escaped text contains no raw XML-reserved or whitespace-control byte"); }
	ASSERT(esc->currentStringLength >= len && esc->currentStringLength <= 6 * len, "escape expands each byte to 1..6 bytes");
	print_xml_as_text(back, esc->str, 0, esc->currentStringLength);
	ASSERT(POST_roundtrip, "postcondition unescape(escape(s)) == s, byte for byte");
	REACH();
}
void h_roundtrip(void) { roundtrip(); }

/* ---- C01: read-ahead of print_xml_as_text on an arbitrary buffer ---- */
#ifndef BUF
#define BUF 7
#endif
void h_unescape_safe(void) {
	char * source = ALLOC(BUF);
	IN_ARR(char, fill, BUF);
	for (size_t i = 0; i + 1 < BUF; i++) { source[i] = fill[i]; }
	source[BUF - 1] = 0;
	IN(size_t, start); IN(size_t, len);
	ASSUME(start <= BUF - 1 && len <= BUF - 1 - start);
	DString * out = d_string_new("");
	print_xml_as_text(out, source, start, len);
	ASSERT(out->currentStringLength <= len && out->str[out->currentStringLength] == 0, "decoded text is a C string no longer than the span");
	REACH();
}
