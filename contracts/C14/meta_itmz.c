/* C14 -- "metadata survives the outline export", iThoughts side: the REAL mmd_export_metadata_itmz (itmz.c) writes, for
 * EVERY entry of the metadata table in table order, one <topic uuid=.. text="KEY" note="VALUE"/> whose KEY and VALUE are
 * the WHOLE key and the WHOLE value (span 0..strlen) handed to the escaper mmd_print_source_itmz (verified for every
 * span by c14_roundtrip_itmz; here a recording stub), inside one >>Metadata<< topic; nothing when there is no metadata.
 * Bounded: tables of <= MK entries; key/value lengths symbolic (<= 2).  print_uuid_itmz: recording stub.        */
#include "verif.h"
#include "itmz.h"
void mmd_export_metadata_itmz(DString * out, const char * source, scratch_pad * scratch);

#ifndef MK
#define MK 2
#endif
#define EV_MAX (4 + 7 * MK + 2)
static struct { int kind; const char * p; size_t a, b; } g_ev[EV_MAX];
static unsigned g_nev;
static DString * g_out;
static void ev(int kind, const char * p, size_t a, size_t b) { if (g_nev < EV_MAX) { g_ev[g_nev].kind = kind; g_ev[g_nev].p = p; g_ev[g_nev].a = a; g_ev[g_nev].b = b; } g_nev++; }
void mmd_print_source_itmz(DString * out, const char * source, size_t start, size_t len) { ASSERT(out == g_out, "writes go to the output string"); ev(1, source, start, len); }
void print_uuid_itmz(DString * out) { ASSERT(out == g_out, "writes go to the output string"); ev(2, NULL, 0, 0); }
void d_string_append_c_array(DString * d, const char * s, size_t n) { ASSERT(d == g_out, "writes go to the output string"); ev(0, s, n, 0); }
void d_string_append(DString * d, const char * s) { ASSERT(d == g_out, "writes go to the output string"); ev(0, s, strlen(s), 0); }

static bool lit_is(unsigned i, const char * lit, size_t n) {
	if (i >= g_nev || i >= EV_MAX || g_ev[i].kind != 0 || g_ev[i].a != n) { return false; }
	for (size_t k = 0; k < 48; k++) { if (k < n && g_ev[i].p[k] != lit[k]) { return false; } }
	return true;
}
static bool span_is(unsigned i, const char * s, size_t n) { return i < g_nev && i < EV_MAX && g_ev[i].kind == 1 && g_ev[i].p == s && g_ev[i].a == 0 && g_ev[i].b == n; }
static bool uuid_is(unsigned i) { return i < g_nev && i < EV_MAX && g_ev[i].kind == 2; }
#define LIT(x) x, (sizeof(x) - 1)

void h_meta_itmz(void) {
	IN(unsigned, n); ASSUME(n <= MK);
	IN_ARR(unsigned char, kl, MK); IN_ARR(unsigned char, vl, MK);
	meta * m[MK];
	for (unsigned i = 0; i < MK; i++) {
		ASSUME(kl[i] <= 2 && vl[i] <= 2);
		m[i] = ALLOC(sizeof(meta));
		char * k = ALLOC(3); char * v = ALLOC(3);
		for (unsigned j = 0; j < 3; j++) { k[j] = j < kl[i] ? 'k' : 0; v[j] = j < vl[i] ? 'v' : 0; }
		m[i]->key = k; m[i]->value = v; m[i]->start = 0; m[i]->hh.next = NULL; m[i]->hh.prev = NULL;
	}
	for (unsigned i = 0; i + 1 < MK; i++) { if (i + 1 < n) { m[i]->hh.next = m[i + 1]; } }
	scratch_pad * scratch = ALLOC(sizeof(scratch_pad));
	scratch->meta_hash = n ? m[0] : NULL;
	g_out = ALLOC(sizeof(DString)); g_out->str = NULL; g_out->currentStringLength = 0; g_out->currentStringBufferSize = 0;
	g_nev = 0;
	mmd_export_metadata_itmz(g_out, "", scratch);
	if (n == 0) {
		ASSERT(g_nev == 0, "C14: no metadata, no metadata topic");
	} else {
		ASSERT(g_nev == 4 + 7 * n, "C14: one wrapper topic and exactly one topic per metadata entry");
		ASSERT(lit_is(0, LIT("<topic ")) && uuid_is(1) && lit_is(2, LIT("text=\"&gt;&gt;Metadata&lt;&lt;\">\n")), "C14: the metadata topic is the one the reader recognises (>>Metadata<<)");
		for (unsigned i = 0; i < MK; i++) {
			if (i < n) {
				unsigned b = 3 + 7 * i;
				ASSERT(lit_is(b, LIT("<topic ")) && uuid_is(b + 1) && lit_is(b + 2, LIT("text=\"")) && lit_is(b + 4, LIT("\" note=\"")) && lit_is(b + 6, LIT("\"/>\n")), "C14/C08: each entry is one <topic uuid=.. text=.. note=../> element");
				ASSERT(span_is(b + 3, m[i]->key, kl[i]), "C14: the WHOLE key of entry i, in table order, goes through the escaper into text=");
				ASSERT(span_is(b + 5, m[i]->value, vl[i]), "C14: the WHOLE value of entry i goes through the escaper into note=");
			}
		}
		ASSERT(lit_is(3 + 7 * n, LIT("</topic>\n")), "C14/C08: the metadata topic is closed");
	}
	REACH();
}
