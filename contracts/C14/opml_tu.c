/* the real, unmodified /repo/src/opml.c as its own translation unit, linked AFTER outline.c so that the
 * recording stub of mmd_print_source_opml defined there is the callee (first definition wins at link
 * time; the harness asserts the stub was called).  Natively the driver compiles /repo/src/opml.c itself
 * and the stub is compiled out. */
#ifndef VERIF_NATIVE
#include "opml.c"
#endif
