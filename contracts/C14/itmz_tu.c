/* the real, unmodified /repo/src/itmz.c as its own translation unit, linked AFTER the spec so that the recording stubs
 * of mmd_print_source_itmz / print_uuid_itmz defined there are the callees (first definition wins at link time; the
 * harness asserts the stubs were called). */
#ifndef VERIF_NATIVE
#include "itmz.c"
#endif
