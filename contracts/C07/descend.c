/* C07 -- "the work for a chain of siblings is a LOOP, recursion only descends one tree level": for the
 * tree walkers that recurse without a depth guard (class (c) of the cycle inventory; their depth equals
 * the token-tree depth -- the known finding), the contract states the measure they DO have: every
 * recursive call is made on the HEAD OF A CHILD CHAIN of the token being visited, never on a sibling.
 * A walker that recursed along `next` would need stack proportional to the number of sibling tokens
 * (document length), which the property forbids ("no input ... can exhaust the call stack").
 * Enforced with --enforce-contract-rec: the recursive call is replaced by the contract, so its requires
 * clause is CHECKED at every recursive call site of the real function. */
#include "verif.h"
#include <stdio.h>
#include "d_string.h"
#include "libMultiMarkdown.h"
#include "token.h"
#include "mmd.h"

token * g_a; token * g_b; token * g_ac; token * g_bc;    /* a -> b siblings; ac = child chain head of a; bc = of b */
#define IS_CHAIN_HEAD(t) ((t) == g_a || (t) == g_ac || (t) == g_bc)

static token * mk(unsigned short type, size_t start, size_t len) {
	token * t = ALLOC(sizeof(token));
	t->type = type; t->start = start; t->len = len; t->next = NULL; t->prev = NULL; t->child = NULL; t->tail = t; t->mate = NULL;
	t->can_open = 1; t->can_close = 1; t->unmatched = 1; t->out_start = 0; t->out_len = 0;
	return t;
}
static void shape(void) {
	IN(unsigned short, ta); IN(unsigned short, tb); IN(unsigned short, tc); IN(unsigned short, td);
	g_a = mk(ta, 0, 2); g_b = mk(tb, 2, 2); g_ac = mk(tc, 0, 1); g_bc = mk(td, 2, 1);
	token * ac2 = mk(tc, 1, 1);
	g_a->next = g_b; g_b->prev = g_a; g_a->tail = g_b;
	g_a->child = g_ac; g_ac->next = ac2; ac2->prev = g_ac; g_ac->tail = ac2;
	g_b->child = g_bc;
}

/* ---- whitespace_fix(t, source) (writer.c) ---- */
void whitespace_fix(token * t, const char * source);
#define PRE_whitespace_fix (t == NULL || IS_CHAIN_HEAD(t))
CONTRACT(void, whitespace_fix, (token * t, const char * source), PRE_whitespace_fix, 1,
	__CPROVER_assigns(g_a->type, g_b->type, g_ac->type, g_bc->type, g_ac->next->type))
void h_whitespace_fix(void) {
	shape();
	char * source = ALLOC(5); source[4] = 0;
	token * t = g_a;
	CALLV(whitespace_fix(t, source), PRE_whitespace_fix, 1)
	REACH();
}

/* ---- pair_emphasis_tokens(t) (mmd.c) ---- */
void pair_emphasis_tokens(token * t);
#define PRE_pair_emphasis (t == NULL || IS_CHAIN_HEAD(t))
/* tokens are unmated in this shape, so the walker has nothing to rewrite: empty frame */
CONTRACT(void, pair_emphasis_tokens, (token * t), PRE_pair_emphasis, 1, __CPROVER_assigns())
void h_pair_emphasis(void) {
	shape();
	token * t = g_a;
	CALLV(pair_emphasis_tokens(t), PRE_pair_emphasis, 1)
	REACH();
}
