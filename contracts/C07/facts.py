"""C07 supporting static fact: inventory of the recursive cycles of the library.

run(work, repo): build the library goto binary from repo/src/*.c (all but main.c / argtable3.c), take
goto-instrument's call graph, compute its strongly connected components and map every recursive
component to
  (a) a recursion-depth GUARD in the code (and the contract unit that checks it),
  (b) a decreasing MEASURE (why the recursion depth is bounded by something other than tree depth), or
  (c) "depth = token-tree depth, no bound in the code" -- reported, not verified (DESIGN.md C07/2, section 9 item 8).
A recursive component that contains none of the anchor functions below is NEW: status "inconclusive"
(needs a contract or a classification), never a violation.
"""
import concurrent.futures as _cf
import os
import re
import subprocess

# anchor function -> (class, text)
MAP = {
    # (a) guards
    "mmd_export_token_tree_html": ("a", "guard kMaxExportRecursiveDepth, unit c07_guard_tree_html (the cycle also holds the direct call mmd_export_token_html(t->child) of the SUPERSCRIPT/SUBSCRIPT arms and mmd_export_toc_entry_html, measure *counter)"),
    "mmd_export_token_tree_latex": ("a", "guard kMaxExportRecursiveDepth, unit c07_guard_tree_latex (plus direct calls on t->child in the PAIR_MATH/SUPERSCRIPT/SUBSCRIPT arms)"),
    "mmd_export_token_tree_beamer": ("a", "guard kMaxExportRecursiveDepth, unit c07_guard_tree_beamer"),
    "mmd_export_token_tree_memoir": ("a", "guard kMaxExportRecursiveDepth, unit c07_guard_tree_memoir"),
    "mmd_export_token_tree_opendocument": ("a", "guard kMaxExportRecursiveDepth, unit c07_guard_tree_opendocument"),
    "mmd_export_token_tree_opml": ("a", "guard kMaxExportRecursiveDepth, unit c07_guard_tree_opml"),
    "mmd_export_token_tree_itmz": ("a", "guard kMaxExportRecursiveDepth, unit c07_guard_tree_itmz"),
    "mmd_parse_token_chain": ("a", "guard kMaxParseRecursiveDepth, unit c07_guard_parse_chain (Parse/yy_reduce/recursive_parse_* by contract)"),
    "token_pairs_match_pairs_inside_token": ("a", "guard kMaxPairRecursiveDepth in the code (depth == limit -> return; recursive call with depth + 1); contract unit not built (no result in 300 s)"),
    "mmd_pair_tokens_in_block": ("a", "recursion on BLOCK nesting only (mmd_pair_tokens_in_chain(block->child)): block nesting is created by mmd_parse_token_chain, whose guard limits it to kMaxParseRecursiveDepth"),
    "strip_line_tokens_from_block": ("a", "recursion on block nesting (deflist/table/definition inside a block): bounded by the parser's guard as above; structurally <= 3 levels per block"),
    # (b) measures
    "trie_node_insert": ("b", "measure: remaining key length (key + 1 per call, stops at NUL)"),
    "trie_node_search": ("b", "measure: remaining query length (query + 1 per call, stops at NUL)"),
    "ac_trie_node_prepare": ("b", "measure: trie depth = length of the longest inserted key (depth + 1 per call)"),
    "match_free": ("b", "measure: length of the match list (m->next per call) -- linear in the number of matches, not in nesting"),
    "mmd_export_toc_entry_latex": ("b", "measure: header_stack->size - *counter (counter advances before each recursive call); depth <= heading levels"),
    "epub_export_nav_entry": ("b", "measure: header_stack->size - *counter; depth <= heading levels"),
    "mmd_transclude_source": ("b", "measure: files not yet on parse_stack (a file already on the stack is not transcluded again); depends on the file system"),
    "__CPROVER_file_local_miniz_c_mz_zip_heap_write_func": ("b", "not a recursion: artefact of resolving miniz' function pointers by signature (the function calls pZip->m_pRealloc)"),
    # (c) depth = token-tree depth, no bound in the code
    "pair_emphasis_tokens": ("c", "pair_emphasis_tokens(t->child) for every token with a child"),
    "mmd_assign_ambidextrous_tokens_in_block": ("c", "recurses into every child chain"),
    "whitespace_fix": ("c", "whitespace_fix(t->child)"),
    "automatic_search": ("c", "automatic_search(e, t->child, ac)"),
    "mmd_export_token_tree_html_raw": ("c", "raw sub-writer: no recurse_depth guard"),
    "mmd_export_token_tree_latex_raw": ("c", "raw sub-writer: no recurse_depth guard"),
    "mmd_export_token_tree_latex_tt": ("c", "tt sub-writer: no recurse_depth guard"),
    "mmd_export_token_tree_opendocument_raw": ("c", "raw sub-writer: no recurse_depth guard"),
    "accept_token_tree": ("c", "CriticMarkup accept walk"),
    "reject_token_tree": ("c", "CriticMarkup reject walk"),
    "print_token_tree": ("c", "source printer walk"),
    "print_token_tree_raw": ("c", "source printer walk"),
    "traverse_for_images": ("c", "textbundle image walk"),
    "token_tree_free": ("c", "only with DISABLE_OBJECT_POOL (with the pool token_free is a no-op and there is no cycle)"),
}


def _run(cmd, timeout=600):
    p = subprocess.run(cmd, stdout=subprocess.PIPE, stderr=subprocess.STDOUT, timeout=timeout)
    return p.returncode, p.stdout.decode("utf-8", "replace")


def _sccs(edges):
    idx, low, onst, st, out, n = {}, {}, set(), [], [], [0]
    for root in list(edges):
        if root in idx:
            continue
        idx[root] = low[root] = n[0]
        n[0] += 1
        st.append(root)
        onst.add(root)
        work = [(root, iter(edges[root]))]
        while work:
            v, it = work[-1]
            pushed = False
            for w in it:
                if w not in idx:
                    idx[w] = low[w] = n[0]
                    n[0] += 1
                    st.append(w)
                    onst.add(w)
                    work.append((w, iter(edges[w])))
                    pushed = True
                    break
                if w in onst:
                    low[v] = min(low[v], idx[w])
            if pushed:
                continue
            work.pop()
            if work:
                low[work[-1][0]] = min(low[work[-1][0]], low[v])
            if low[v] == idx[v]:
                comp = []
                while True:
                    w = st.pop()
                    onst.discard(w)
                    comp.append(w)
                    if w == v:
                        break
                out.append(sorted(comp))
    return out


def run(work, repo):
    name = "c07_cycle_inventory"
    d = os.path.join(work, "c07_callgraph")
    os.makedirs(d, exist_ok=True)
    src = os.path.join(repo, "src")
    inc = ["-I" + src]
    for b in (os.path.join(repo, "_build"), "/repo/_build", "/verif/contracts/lib/fallback_build"):
        if os.path.exists(os.path.join(b, "version.h")):
            inc.append("-I" + b)
            break
    files = sorted(f for f in os.listdir(src) if f.endswith(".c") and f not in ("main.c", "argtable3.c"))

    def cc(f):
        o = os.path.join(d, f[:-2] + ".o")
        rc, txt = _run(["goto-cc", "-c", "--export-file-local-symbols"] + inc + [os.path.join(src, f), "-o", o])
        return (o, None) if rc == 0 else (None, "%s: %s" % (f, txt[-300:]))

    with _cf.ThreadPoolExecutor(max_workers=4) as ex:
        res = list(ex.map(cc, files))
    bad = [e for _, e in res if e]
    if bad:
        return [{"name": name, "status": "inconclusive", "diag": "goto-cc failed: " + bad[0], "detail": "\n".join(bad)}]
    gb = os.path.join(d, "lib.gb")
    rc, txt = _run(["goto-cc"] + [o for o, _ in res] + ["-o", gb])
    if rc != 0:
        return [{"name": name, "status": "inconclusive", "diag": "link failed", "detail": txt[-800:]}]
    rc, txt = _run(["goto-instrument", "--call-graph", gb])
    edges = {}
    for line in txt.splitlines():
        m = re.match(r"^(\S+) -> (\S+)$", line.strip())
        if m:
            edges.setdefault(m.group(1), set()).add(m.group(2))
            edges.setdefault(m.group(2), set())
    if rc != 0 or len(edges) < 500:
        return [{"name": name, "status": "inconclusive", "diag": "call graph not produced (%d nodes)" % len(edges), "detail": txt[-800:]}]
    rec = [c for c in _sccs(edges) if len(c) > 1 or c[0] in edges[c[0]]]
    by = {"a": [], "b": [], "c": [], "new": []}
    for c in sorted(rec):
        anchors = [f for f in c if f in MAP]
        label = "{" + ", ".join(x.replace("__CPROVER_file_local_", "") for x in c[:6]) + (", ..." if len(c) > 6 else "") + "}"
        if not anchors:
            by["new"].append(label)
            continue
        cls = min(MAP[f][0] for f in anchors)
        by[cls].append(label + ": " + "; ".join(MAP[f][1] for f in anchors if MAP[f][0] == cls))
    detail = ["%d recursive cycles (SCCs of %d functions, %d call edges) in the library goto binary" % (len(rec), len(edges), sum(len(v) for v in edges.values())),
              "(a) guarded by a depth limit in the code: %d" % len(by["a"])] + ["    " + x for x in by["a"]] + \
             ["(b) bounded by a decreasing measure: %d" % len(by["b"])] + ["    " + x for x in by["b"]] + \
             ["(c) depth = token-tree depth, NO bound in the code (known finding: 10^6 nested '[' crash the real binary, DESIGN.md section 9 item 8): %d" % len(by["c"])] + ["    " + x for x in by["c"]]
    out = {"name": name, "status": "ok", "detail": "\n".join(detail),
           "cycles": len(rec), "guarded": len(by["a"]), "measure": len(by["b"]), "unbounded_tree_depth": len(by["c"])}
    if by["new"]:
        out["status"] = "inconclusive"
        out["diag"] = "NEW recursive cycle(s) without a guard contract, measure or classification (needs contract): " + "; ".join(by["new"])
        out["detail"] += "\nNEW (unmapped): " + "; ".join(by["new"])
    res = [out]
    if by["c"]:
        # the class (c) cycles ARE a genuine defect of C07 (unguarded recursion on token-tree depth); reported as a
        # finding keyed by the member set, matched against /verif/known_findings.txt by the driver
        members = sorted({f.replace("__CPROVER_file_local_", "") for c in rec for f in c if f in MAP and MAP[f][0] == "c"})
        res.append({"name": "unguarded_tree_depth_recursion", "status": "finding", "key": ",".join(members),
                    "detail": "functions recursing on token-tree depth with no depth guard:\n" + "\n".join("    " + x for x in by["c"])})
    return res
