/* C07 -- the block parser's recursive cycle  mmd_parse_token_chain -> Parse (lemon, generated) -> recursive_parse_{list_item,indent,blockquote}
 * -> mmd_parse_token_chain : the guard in mmd_parse_token_chain is `e->recurse_depth == kMaxParseRecursiveDepth`, an EQUALITY test, so
 * it bounds the depth only while every step of the cycle moves the counter by exactly one.  c07_guard_parse_chain proves
 * mmd_parse_token_chain against  requires depth <= limit / calls Parse only with 1 <= depth <= limit / restores depth.  These units
 * close the cycle on the other side: each recursive_parse_* (mmd.c, the real function), entered in the state Parse's contract
 * guarantees (1 <= depth <= limit), calls mmd_parse_token_chain -- replaced by the contract proved in c07_guard_parse_chain -- with
 * its PRECONDITION depth <= limit holding, i.e. WITHOUT touching the counter, exactly once, and returns with the counter unchanged.
 * The block-surgery callees (token_copy, token_remove_first_child, deindent_block, strip_quote_markers_from_block,
 * strip_leading_whitespace: C15's subject) are replaced by contracts that assign token fields only. */
#include "verif.h"
#include "d_string.h"
#include "token.h"
#include "mmd.h"

unsigned g_calls;
token * g_block, * g_line, * g_tok, * g_tok2, * g_copy;

void C07_RP(mmd_engine * e, token * block);

void mmd_parse_token_chain__contract(mmd_engine * e, token * chain)
__CPROVER_requires(e->recurse_depth <= kMaxParseRecursiveDepth)            /* PRE_parse of c07_guard_parse_chain: beyond the limit the equality guard never fires */
__CPROVER_requires(chain == g_block)
__CPROVER_ensures(g_calls == __CPROVER_old(g_calls) + 1 && e->recurse_depth == __CPROVER_old(e->recurse_depth))
__CPROVER_ensures(g_block->child == g_line && g_line->child == __CPROVER_old(g_line->child))
__CPROVER_assigns(g_calls, e->root);

token * token_copy__contract(token * original)
__CPROVER_requires(original != NULL)
__CPROVER_ensures(__CPROVER_return_value == g_copy)
__CPROVER_assigns();
void token_remove_first_child__contract(token * parent)
__CPROVER_requires(parent == g_line)
__CPROVER_ensures(g_line->child == g_tok2)
__CPROVER_assigns(g_line->child, g_tok2->prev, g_tok2->tail);
void deindent_block__contract(mmd_engine * e, token * block)
__CPROVER_requires(block == g_block)
__CPROVER_ensures(g_block->child == g_line && (g_line->child == __CPROVER_old(g_line->child) || g_line->child == g_tok2))     /* drops a leading indent token, or nothing */
__CPROVER_assigns(g_line->child, g_line->start, g_line->len, g_tok->type, g_tok2->prev, g_tok2->tail);
void strip_quote_markers_from_block__contract(mmd_engine * e, token * block)
__CPROVER_requires(block == g_block)
__CPROVER_ensures(g_block->child == g_line && (g_line->child == __CPROVER_old(g_line->child) || g_line->child == g_tok2))
__CPROVER_assigns(g_line->child, g_line->start, g_line->len, g_line->type, g_tok2->prev, g_tok2->tail);
void strip_leading_whitespace__contract(token * chain, const char * source)
__CPROVER_ensures(1)
__CPROVER_assigns(g_tok2->type, g_tok2->start, g_tok2->len);

#define PRE_rp (block == g_block && e->recurse_depth >= 1 && e->recurse_depth <= kMaxParseRecursiveDepth && g_calls == 0)
#define POST_rp (e->recurse_depth == OLD(e->recurse_depth) && g_calls == 1)
#define PASTE2(a, b) a##b
#define PASTE(a, b) PASTE2(a, b)
void PASTE(C07_RP, __contract)(mmd_engine * e, token * block)
__CPROVER_requires(PRE_rp)
__CPROVER_ensures(POST_rp)
__CPROVER_assigns(e->root, g_calls, g_block->child, g_line->child, g_line->start, g_line->len, g_line->type, g_tok->type, g_tok2->prev, g_tok2->tail, g_tok2->type, g_tok2->start, g_tok2->len,
                  g_copy->next, g_tok->prev, g_tok2->prev);

static token * mk(unsigned short type) {
	token * t = ALLOC(sizeof(token));
	t->type = type; t->start = 0; t->len = 1; t->next = NULL; t->prev = NULL; t->child = NULL; t->tail = t; t->mate = NULL;
	return t;
}
void h_rp(void) {
	mmd_engine * e = ALLOC(sizeof(mmd_engine));
	DString * d = ALLOC(sizeof(DString)); d->str = ALLOC(8); d->str[7] = 0; d->currentStringLength = 7; d->currentStringBufferSize = 8; e->dstr = d;
	IN(unsigned short, bt); IN(unsigned short, lt); IN(unsigned short, t1); IN(unsigned short, t2);
	g_block = mk(bt); g_line = mk(lt); g_tok = mk(t1); g_tok2 = mk(t2); g_copy = mk(t1);
	g_block->child = g_line; g_line->child = g_tok; g_tok->next = g_tok2; g_tok2->prev = g_tok; g_tok->tail = g_tok2;
	g_calls = 0;
	C07_RP(e, g_block);
	REACH();
}
