# ---------------------------------------------------------------- C07 bounded stack: recursion guards
_C07_TREES = [
    ("html", "mmd_export_token_tree_html", "mmd_export_token_html", ["html.c"]),
    ("latex", "mmd_export_token_tree_latex", "mmd_export_token_latex", ["latex.c"]),
    ("beamer", "mmd_export_token_tree_beamer", "mmd_export_token_beamer", ["beamer.c"]),
    ("memoir", "mmd_export_token_tree_memoir", "mmd_export_token_memoir", ["memoir.c"]),
    ("opendocument", "mmd_export_token_tree_opendocument", "mmd_export_token_opendocument", ["opendocument-content.c"]),
    ("opml", "mmd_export_token_tree_opml", "mmd_export_token_opml", ["opml.c"]),
    ("itmz", "mmd_export_token_tree_itmz", "mmd_export_token_itmz", ["itmz.c"]),
]
_C07_SHAPE = "sibling chain of <= 3 tokens (loop unwound, unwinding assertions on); the depth counter ranges over its whole interval [0, limit]"
for _s, _tree, _tok, _files in _C07_TREES:
    U("c07_guard_tree_" + _s, ["C07"], "h_tree", ["C07/guards.c"], _files, enforce=_tree, replace=[_tok], lib=(),
      defines=["-DI18N_DISABLED=1", "-DC07_TREE=" + _tree, "-DC07_TOK=" + _tok], kind="bounded",
      bounds={"siblings<=": 3, "unwind": 5, "recurse_depth": "all of 0..kMaxExportRecursiveDepth"},
      cbmc_flags=["--unwind", "5", "--unwinding-assertions"], min_obligations=10, timeout=300, cost=20,
      callees={_tok: "contract: requires 1 <= recurse_depth <= kMaxExportRecursiveDepth at every call site, ensures recurse_depth restored (C02(c)) and ghost call counter + 1"},
      assumptions=[_C07_SHAPE])

U("c07_guard_parse_chain", ["C07", "C05"], "h_parse", ["C07/guards.c"], ["mmd.c"], enforce="mmd_parse_token_chain",
  replace=["Parse", "ParseAlloc", "ParseFree", "token_append_child"], lib=(),
  defines=["-DI18N_DISABLED=1", "-DC07_PARSE=1"], kind="bounded",
  bounds={"line tokens in the chain<=": 3, "unwind": 5, "recurse_depth": "all of 0..kMaxParseRecursiveDepth"},
  cbmc_flags=["--unwind", "5", "--unwinding-assertions"], min_obligations=10, timeout=300, cost=30,
  callees={"Parse": "contract: requires 1 <= e->recurse_depth <= kMaxParseRecursiveDepth at every call site, ensures it restored, ghost call counter + 1",
           "ParseAlloc/ParseFree": "contract (no effect on the engine)", "token_append_child": "contract (assigns parent->child)"},
  assumptions=[_C07_SHAPE, "lemon's Parse restores e->recurse_depth: its actions re-enter mmd_parse_token_chain only through recursive_parse_*, whose postcondition is the one proved here (induction on call depth)"])

PROPS["C07"] = {
    "level": "other",
    "explanation": "Recursion-depth guard contracts (goto-instrument --dfcc, real unmodified functions): every writer tree walk "
                   "mmd_export_token_tree_{html,latex,beamer,memoir,opendocument,opml,itmz} and the block parser's mmd_parse_token_chain are checked for EVERY value of "
                   "their depth counter in [0, limit]: the counter is restored on return, the callee that closes the recursive cycle (per-token writer / lemon Parse, "
                   "replaced by a contract) is only ever called with 1 <= depth <= limit, and at depth == limit it is not called at all (ghost call counter) -- i.e. the "
                   "stack depth contributed by these cycles is bounded by the limit.  The sibling chain walked by the loop is a bounded shape (<= 3 tokens), so the units "
                   "are labelled bounded.  Supporting static fact (contracts/C07/facts.py): every recursive cycle of the library call graph is mapped to a guard, a decreasing "
                   "measure, or listed as 'depth = token-tree depth, no bound in the code'.  Observer (d) of the dispatch units (c02_dispatch_{html,latex,opendocument}_*, shared with C02): for EVERY token type the per-token writer never enters the tree writer with a lower depth counter than it was entered with, so the export guard cannot be switched off by an arm. The other half of the block parser's cycle is closed by c07_cycle_recursive_parse_* (proof units): recursive_parse_list_item/_indent/_blockquote, entered in the state Parse's contract guarantees, call mmd_parse_token_chain exactly once with its precondition depth <= limit holding and without touching the counter -- the equality guard bounds the depth only while every step of the cycle is 1.",
    "slice": "mmd_export_token_tree_html/latex/beamer/memoir/opendocument/opml/itmz, mmd_parse_token_chain, recursive_parse_list_item/_indent/_blockquote",
    "not_reached": "cost(d^k) <= c*k*cost(d) in executed basic blocks: a relation between two runs on different inputs, not a postcondition of any function; "
                   "kLargeStackThreshold behaviour; token_pairs_match_pairs_inside_token's guard (depth == kMaxPairRecursiveDepth -> immediate return, recursive call with depth+1) "
                   "is in the code but its unit (plain CBMC, real stack.c, bounded tree) did not finish in 300 s and is not registered; the recursive walks WITHOUT a guard "
                   "(pair_emphasis_tokens, mmd_assign_ambidextrous_tokens_in_block, whitespace_fix, automatic_search, the *_raw/*_tt sub-writers, accept/reject_token_tree, "
                   "print_token_tree, traverse_for_images, strip_line_tokens_from_block) recurse on token-tree depth with no bound in the code: reported by the cycle inventory, not verified",
    "trusted_base": ["cbmc/goto-cc/goto-instrument 6.11.0 (DFCC instrumentation, MiniSat2)", "goto-instrument --call-graph (function pointers resolved by signature)"],
    "assumptions": [_C07_SHAPE, "per-token writers store only non-negative values in scratch->skip_token and restore scratch->recurse_depth (C02(c))",
                    "lemon's Parse re-enters mmd_parse_token_chain only through recursive_parse_* and restores e->recurse_depth (induction on call depth)"],
}

# ---- measure of the unguarded tree walkers: recursion only descends into a child chain (never along siblings)
U("c07_descend_whitespace_fix", ["C07"], "h_whitespace_fix", ["C07/descend.c"], ["writer.c"], enforce="whitespace_fix", rec=True, lib=(),
  cbmc_flags=["--unwind", "4"], kind="bounded", bounds={"shape": "2 siblings, child chains of 2 and 1 tokens"},
  functions=["whitespace_fix"], callees={"recursive call": "contract (requires: argument is the head of a child chain)"}, min_obligations=10,
  assumptions=["token types symbolic; shape fixed (2 siblings with children)"])
U("c07_descend_pair_emphasis", ["C07"], "h_pair_emphasis", ["C07/descend.c"], ["mmd.c"], enforce="pair_emphasis_tokens", rec=True, lib=(),
  cbmc_flags=["--unwind", "4"], kind="bounded", bounds={"shape": "2 siblings, child chains of 2 and 1 tokens"},
  functions=["pair_emphasis_tokens"], callees={"recursive call": "contract (requires: argument is the head of a child chain)"}, min_obligations=10,
  assumptions=["token types symbolic, mates NULL; shape fixed (2 siblings with children)"])

# ---- the other half of the block parser's cycle: recursive_parse_* call mmd_parse_token_chain without touching the depth counter
for _f, _repl in (("recursive_parse_list_item", ["token_copy", "token_remove_first_child", "deindent_block"]),
                  ("recursive_parse_indent", ["deindent_block", "strip_leading_whitespace"]),
                  ("recursive_parse_blockquote", ["strip_quote_markers_from_block"])):
    U("c07_cycle_" + _f, ["C07"], "h_rp", ["C07/rparse.c"], ["mmd.c"], enforce=_f, replace=["mmd_parse_token_chain"] + _repl, lib=(), kind="proof",
      defines=["-DI18N_DISABLED=1", "-DC07_RP=" + _f], min_obligations=10, timeout=300, cost=15,
      functions=[_f],
      callees={"mmd_parse_token_chain": "contract proved by c07_guard_parse_chain: requires depth <= limit (checked at the call site), restores depth, ghost call counter + 1",
               ", ".join(_repl): "contracts assigning token fields only (C15's subject)"},
      assumptions=["entered with 1 <= e->recurse_depth <= kMaxParseRecursiveDepth: the state in which lemon's Parse runs its actions (Parse's contract in c07_guard_parse_chain)",
                   "block shape: block -> line -> two tokens (the functions dereference block->child->child)"])
