/* C07 -- recursion-depth guard contracts of the tree walks that the property statement names:
 * "nesting beyond the built-in depth limits degrades the rendering but never crashes".
 *
 *   mmd_export_token_tree_{html,latex,beamer,memoir,opendocument,opml,itmz}   (writer.h kMaxExportRecursiveDepth)
 *   mmd_parse_token_chain                                                    (mmd.h    kMaxParseRecursiveDepth)
 *
 * Each is the real, unmodified function, checked by goto-instrument --dfcc against the contract below
 * for EVERY value of the depth counter in [0, limit]; the callee that closes the recursive cycle (the
 * per-token writer / lemon's Parse) is replaced by a contract whose
 *   - precondition  "1 <= depth <= limit" is an obligation at every call site: the counter was
 *     incremented before the call and no call is made beyond the limit (the stack-depth bound), and
 *   - postcondition bumps a ghost call counter, so that "at the limit NO callee is invoked" is the
 *     caller's postcondition  depth == limit ==> g_calls unchanged.
 * The callee contracts' "depth restored" clause is what the caller's own postcondition provides for
 * the next level (induction over the call depth; per-token writers: also C02(c)).
 * The sibling chain is a bounded shape (<= 3 tokens, loop unwound); the depth counter is unbounded. */
#include "verif.h"
#include "d_string.h"
#include "token.h"
#include "writer.h"
#include "mmd.h"

#define PASTE2(a, b) a##b
#define PASTE(a, b) PASTE2(a, b)

unsigned g_calls;      /* ghost: number of invocations of the replaced callee */
token * g_t1, * g_t2, * g_t3;   /* ghost: the tokens of the bounded chain (for frame clauses) */

static token * mk_chain(void) {
	g_t1 = ALLOC(sizeof(token));
	g_t2 = ALLOC(sizeof(token));
	g_t3 = ALLOC(sizeof(token));
	IN(unsigned char, n);
	ASSUME(n <= 3);
	g_t1->prev = NULL;
	g_t1->next = n >= 2 ? g_t2 : NULL;
	g_t2->prev = g_t1;
	g_t2->next = n >= 3 ? g_t3 : NULL;
	g_t3->prev = g_t2;
	g_t3->next = NULL;
	g_t1->tail = n >= 3 ? g_t3 : (n == 2 ? g_t2 : g_t1);
	return n >= 1 ? g_t1 : NULL;
}

#ifdef C07_TREE
/* ------------------------------------------------------------------ writer tree walks */
void C07_TREE(DString * out, const char * source, token * t, scratch_pad * scratch);
void C07_TOK(DString * out, const char * source, token * t, scratch_pad * scratch);

/* the per-token writer, by contract */
void PASTE(C07_TOK, __contract)(DString * out, const char * source, token * t, scratch_pad * scratch)
__CPROVER_requires(t != NULL)
__CPROVER_requires(scratch->recurse_depth >= 1 && scratch->recurse_depth <= kMaxExportRecursiveDepth)
__CPROVER_ensures(g_calls == __CPROVER_old(g_calls) + 1 && scratch->recurse_depth == __CPROVER_old(scratch->recurse_depth))
__CPROVER_ensures(scratch->skip_token >= 0)      /* the arms only ever store small non-negative constants (skip_token = 1, 2) */
__CPROVER_assigns(g_calls, scratch->skip_token);

#define PRE_tree (scratch->skip_token >= 0 && scratch->recurse_depth >= 0 && scratch->recurse_depth <= kMaxExportRecursiveDepth && g_calls == 0)
#define POST_tree (scratch->recurse_depth == OLD(scratch->recurse_depth) \
	&& (OLD(scratch->recurse_depth) == kMaxExportRecursiveDepth ? (g_calls == 0 && scratch->skip_token == OLD(scratch->skip_token)) : g_calls <= 3))
void PASTE(C07_TREE, __contract)(DString * out, const char * source, token * t, scratch_pad * scratch)
__CPROVER_requires(PRE_tree)
__CPROVER_ensures(POST_tree)
__CPROVER_assigns(scratch->recurse_depth, scratch->skip_token, g_calls);

void h_tree(void) {
	scratch_pad * sp = ALLOC(sizeof(scratch_pad));
	DString * out = ALLOC(sizeof(DString));
	char * src = ALLOC(8);
	token * head = mk_chain();
	g_calls = 0;
	C07_TREE(out, src, head, sp);
	REACH();
}
#endif

#ifdef C07_PARSE
/* ------------------------------------------------------------------ block parser recursion */
void mmd_parse_token_chain(mmd_engine * e, token * chain);
void * ParseAlloc(void *);
void Parse(void *, int, void *, void *);
void ParseFree(void *, void *);

void * ParseAlloc__contract(void * m)
__CPROVER_ensures(1)
__CPROVER_assigns();

/* lemon's Parse (its actions re-enter mmd_parse_token_chain through recursive_parse_*): by contract */
void Parse__contract(void * yyp, int yymajor, void * yyminor, void * engine)
__CPROVER_requires(((mmd_engine *)engine)->recurse_depth >= 1 && ((mmd_engine *)engine)->recurse_depth <= kMaxParseRecursiveDepth)
__CPROVER_ensures(g_calls == __CPROVER_old(g_calls) + 1 && ((mmd_engine *)engine)->recurse_depth == __CPROVER_old(((mmd_engine *)engine)->recurse_depth))
__CPROVER_assigns(g_calls, ((mmd_engine *)engine)->root);

void ParseFree__contract(void * p, void * f)
__CPROVER_ensures(1)
__CPROVER_assigns();

void token_append_child__contract(token * parent, token * t)
__CPROVER_requires(parent != NULL)
__CPROVER_ensures(1)
__CPROVER_assigns(parent->child);

token * g_chain;
#define PRE_parse (e->recurse_depth <= kMaxParseRecursiveDepth && g_calls == 0 && chain == g_chain)
/* at the limit: immediate return, nothing parsed, the chain is left as it was */
#define POST_parse (e->recurse_depth == OLD(e->recurse_depth) \
	&& (OLD(e->recurse_depth) == kMaxParseRecursiveDepth ? (g_calls == 0 && chain->child == OLD(chain->child) && e->root == OLD(e->root)) : (g_calls >= 1 && g_calls <= 4)))
void mmd_parse_token_chain__contract(mmd_engine * e, token * chain)
__CPROVER_requires(PRE_parse)
__CPROVER_ensures(POST_parse)
__CPROVER_assigns(e->recurse_depth, e->root, g_calls, g_chain->child,
                  g_t1->next, g_t1->tail, g_t1->prev, g_t2->next, g_t2->tail, g_t2->prev, g_t3->next, g_t3->tail, g_t3->prev);

void h_parse(void) {
	mmd_engine * e = ALLOC(sizeof(mmd_engine));
	g_chain = ALLOC(sizeof(token));
	g_chain->child = mk_chain();
	g_calls = 0;
	mmd_parse_token_chain(e, g_chain);
	REACH();
}
#endif
