/* C19 -- remaining DString functions: d_string_new, d_string_free, file-local
 * ensureStringBufferCanHold, the printf family (vsnprintf by assumed stub), NULL arguments, and the
 * bounded content unit of d_string_replace_text_in_range. */
#include "ds_spec.h"
#include <stdarg.h>
#include <stdio.h>

#ifndef CAP_MAX
#define CAP_MAX (1UL << 40)
#endif
#ifndef STR_MAX
#define STR_MAX (1UL << 40)
#endif
size_t g_n; const char * g_str;
#define DLEN(d) ((d)->currentStringLength)
#define ENSURE_FN __CPROVER_file_local_d_string_c_ensureStringBufferCanHold
void ENSURE_FN(DString * baseString, size_t newStringSize);
#ifdef VERIF_NATIVE
#include "d_string.c"     /* native replay: the file-local function is reached by textual inclusion */
#define __CPROVER_file_local_d_string_c_ensureStringBufferCanHold ensureStringBufferCanHold
#endif

/* ---- d_string_new ---- */
#define PRE_new (startingString == NULL || (startingString == g_str && g_n < STR_MAX && startingString[g_n] == 0))
#define POST_new (RET != NULL && DS_WF(RET) && DLEN(RET) == (startingString == NULL ? 0 : g_n) && RET->currentStringBufferSize >= 1024 \
	&& __CPROVER_rw_ok(RET->str, RET->currentStringBufferSize))
CONTRACT(DString *, d_string_new, (const char * startingString), PRE_new, POST_new, __CPROVER_assigns())

void h_new(void) {
	IN(bool, isnull); IN(size_t, n); ASSUME(n < STR_MAX);
	char * startingString = NULL;
	if (!isnull) { startingString = ALLOC(n + 1); startingString[n] = 0; }
	g_n = n; g_str = startingString;
	CALLR(DString *, d_string_new(startingString), PRE_new, POST_new)
	REACH();
}

/* ---- ensureStringBufferCanHold: capacity afterwards holds newStringSize+1, never shrinks, length and
 * (ghost index) content preserved ---- */
size_t g_k; char g_bk;
#define PRE_ensure (DS_WF(baseString) && newStringSize < 2 * CAP_MAX)
#define POST_ensure (baseString->currentStringBufferSize >= newStringSize + 1 && baseString->currentStringBufferSize >= OLD(baseString->currentStringBufferSize) \
	&& DLEN(baseString) == OLD(DLEN(baseString)) && __CPROVER_rw_ok(baseString->str, baseString->currentStringBufferSize) \
	&& (OLD(baseString->currentStringBufferSize) >= newStringSize + 1 ? (baseString->str == OLD(baseString->str) && baseString->currentStringBufferSize == OLD(baseString->currentStringBufferSize)) : 1))
#ifndef VERIF_NATIVE
void ensure__contract(DString * baseString, size_t newStringSize) __CPROVER_requires(PRE_ensure) __CPROVER_ensures(POST_ensure)
	__CPROVER_assigns(baseString->str, baseString->currentStringBufferSize, __CPROVER_object_whole(baseString->str)) __CPROVER_frees(baseString->str);
#endif

void h_ensure(void) {
	IN(size_t, cap); IN(size_t, slen); IN(size_t, newStringSize);
	ASSUME(cap >= 1 && cap <= CAP_MAX && slen < cap);
	DString * baseString = ALLOC(sizeof(DString));
	baseString->str = ALLOC(cap); baseString->currentStringBufferSize = cap; baseString->currentStringLength = slen; baseString->str[slen] = 0;
	CALLV(ENSURE_FN(baseString, newStringSize), PRE_ensure, POST_ensure)
	REACH();
}

/* ---- printf family: vsnprintf is libc (assumed stub below): returns g_vsn and, when size > 0,
 * writes at most size bytes ending in a NUL at min(g_vsn, size-1) ---- */
int g_vsn;
#ifndef VERIF_NATIVE
int vsnprintf(char * buf, size_t size, const char * fmt, va_list ap) {
	if (size > 0) {
		__CPROVER_precondition(__CPROVER_w_ok(buf, size), "vsnprintf buffer writeable");
		if (__CPROVER_w_ok(buf, size)) {
			__CPROVER_havoc_slice(buf, size);
			buf[(g_vsn >= 0 && (size_t)g_vsn < size - 1) ? (size_t)g_vsn : size - 1] = 0;
			/* register the formatted string: its first NUL is where vsnprintf put it (ghost state, in the frame) */
			g_str = buf; g_n = (g_vsn >= 0 && (size_t)g_vsn < size - 1) ? (size_t)g_vsn : size - 1;
		}
	}
	return g_vsn;
}
#endif
#define PRE_printf (DS_WF(baseString) && DLEN(baseString) < CAP_MAX && g_vsn < INT_MAX)
#define POST_printf (DS_WF(baseString) && DLEN(baseString) == OLD(DLEN(baseString)) + (g_vsn > 0 ? (size_t)g_vsn : 0))
#ifndef VERIF_NATIVE
void d_string_append_printf__contract(DString * baseString, const char * format, ...) __CPROVER_requires(PRE_printf) __CPROVER_ensures(POST_printf) DS_FRAME(baseString) __CPROVER_assigns(g_str, g_n);
void d_string_insert_printf__contract(DString * baseString, size_t pos, const char * format, ...) __CPROVER_requires(PRE_printf) __CPROVER_ensures(POST_printf) DS_FRAME(baseString) __CPROVER_assigns(g_str, g_n);
#endif

#define MK_DS(d) \
	IN(size_t, cap); IN(size_t, slen); ASSUME(cap >= 1 && cap <= CAP_MAX && slen < cap); \
	DString * d = ALLOC(sizeof(DString)); d->str = ALLOC(cap); d->currentStringBufferSize = cap; d->currentStringLength = slen; d->str[slen] = 0;

void h_append_printf(void) {
	MK_DS(baseString)
	IN(int, vsn); g_vsn = vsn; g_str = NULL; g_n = 0;
	CALLV(d_string_append_printf(baseString, "%s", "x"), PRE_printf, POST_printf)
	REACH();
}

void h_insert_printf(void) {
	MK_DS(baseString)
	IN(int, vsn); g_vsn = vsn; g_str = NULL; g_n = 0;
	IN(size_t, pos);
	CALLV(d_string_insert_printf(baseString, pos, "%s", "x"), PRE_printf, POST_printf)
	REACH();
}

#ifdef VERIF_PLAIN
/* ---- d_string_free: returns the buffer iff it was not asked to free it; releases the rest (leak check) ---- */
void h_free(void) {
	IN(bool, freeCharacterData); IN(bool, isnull);
	DString * d = NULL; char * buf = NULL;
	if (!isnull) { d = ALLOC(sizeof(DString)); buf = ALLOC(8); buf[0] = 0; d->str = buf; d->currentStringBufferSize = 8; d->currentStringLength = 0; }
	char * r = d_string_free(d, freeCharacterData);
	ASSERT(r == ((isnull || freeCharacterData) ? NULL : buf), "postcondition d_string_free: returns the character data iff it was not freed");
	if (r) { free(r); }     /* legal only if d_string_free did not free it: a double free fails free()'s precondition */
	REACH();
}

/* ---- NULL arguments: no effect, no dereference ---- */
void h_null(void) {
	d_string_append(NULL, "a"); d_string_append_c(NULL, 'a'); d_string_append_c_array(NULL, "a", 1); d_string_append_printf(NULL, "a");
	d_string_prepend(NULL, "a"); d_string_insert(NULL, 0, "a"); d_string_insert_c(NULL, 0, 'a'); d_string_insert_c_array(NULL, 0, "a", 1);
	d_string_insert_printf(NULL, 0, "a"); d_string_erase(NULL, 0, 1);
	ASSERT(d_string_copy_substring(NULL, 0, 1) == NULL, "copy_substring(NULL) == NULL");
	ASSERT(d_string_replace_text_in_range(NULL, 0, 1, "a", "b") == 0, "replace(NULL) == 0");
	ASSERT(d_string_free(NULL, true) == NULL, "free(NULL) == NULL");
	DString * d = ALLOC(sizeof(DString)); d->str = ALLOC(4); d->str[0] = 'x'; d->str[1] = 0; d->currentStringBufferSize = 4; d->currentStringLength = 1;
	d_string_append(d, NULL); d_string_append_c_array(d, NULL, 3); d_string_append_printf(d, NULL); d_string_prepend(d, NULL);
	d_string_insert(d, 0, NULL); d_string_insert_c_array(d, 0, NULL, 2); d_string_insert_printf(d, 0, NULL);
	ASSERT(d_string_replace_text_in_range(d, 0, 1, NULL, "b") == 0 && d_string_replace_text_in_range(d, 0, 1, "x", NULL) == 0, "replace with NULL pattern/replacement == 0");
	ASSERT(DS_WF(d) && d->currentStringLength == 1 && d->str[0] == 'x', "NULL string arguments leave the DString unchanged");
	REACH();
}

/* ---- d_string_replace_text_in_range: bounded content against the ideal string:
 * "replace every non-overlapping occurrence of a NON-EMPTY pattern that starts in [pos, pos+len) (len == -1:
 * to the end; the range is clamped to the string), left to right, never rescanning replaced text";
 * returns new length - old length ---- */
#endif
#ifndef HAYB
#define HAYB 3
#endif
#if defined(NO_GROWTH) && !defined(VERIF_NATIVE)
/* bounded replace unit: the buffer is allocated large enough for every result, so growth is never needed;
 * this realloc stub turns that into an obligation and keeps CBMC from forking a new heap object per insert */
void * realloc(void * p, size_t n) { __CPROVER_assert(0, "replace unit: buffer growth is never needed (harness bound)"); __CPROVER_assume(0); return p; }
#endif
#if defined(GROW_MOVES) && !defined(VERIF_NATIVE)
/* bounded replace unit, growth variant: the buffer is exactly as large as the old text, so every
 * lengthening insert must grow it, and this realloc ALWAYS MOVES the block (allowed by the C standard),
 * which is the case a pointer kept across d_string_insert does not survive */
void * realloc(void * p, size_t n) {
	char * q = malloc(n);
	__CPROVER_assume(q != 0);
	if (p) {
		size_t old = __CPROVER_OBJECT_SIZE(p);
		for (size_t i = 0; i < n && i < old; i++) { q[i] = ((char *)p)[i]; }
		free(p);
	}
	return q;
}
#endif
#define PRE_replace (DS_WF(d) && original[0] != 0)
#define POST_replace (DS_WF(d))
CONTRACT(long, d_string_replace_text_in_range, (DString * d, size_t pos, size_t len, const char * original, const char * replace), PRE_replace, POST_replace, DS_FRAME(d))
#if 1
#define PATB 2
#define OUTB (HAYB * PATB + 1)
void h_replace(void) {
	IN(size_t, L); IN(size_t, lo); IN(size_t, lr); IN(size_t, pos); IN(size_t, len);
	ASSUME(L <= HAYB && lo >= 1 && lo <= PATB && lr <= PATB);
	IN_ARR(char, hay, HAYB); IN_ARR(char, orig, PATB); IN_ARR(char, repl, PATB);
	char original[PATB + 1], replace[PATB + 1];
	for (size_t i = 0; i < PATB; i++) { if (i < lo) { ASSUME(orig[i] != 0); } original[i] = i < lo ? orig[i] : 0; if (i < lr) { ASSUME(repl[i] != 0); } replace[i] = i < lr ? repl[i] : 0; }
	original[PATB] = 0; replace[PATB] = 0;
#ifdef GROW_MOVES
	DString * d = ALLOC(sizeof(DString)); d->str = ALLOC(HAYB + 1); d->currentStringBufferSize = L + 1; d->currentStringLength = L;
#else
	DString * d = ALLOC(sizeof(DString)); d->str = ALLOC(OUTB + 1); d->currentStringBufferSize = OUTB + 1; d->currentStringLength = L;
#endif
	for (size_t i = 0; i < HAYB; i++) { if (i < L) { ASSUME(hay[i] != 0); d->str[i] = hay[i]; } }
	d->str[L] = 0;
	/* reference result */
	char ref[OUTB + 1]; size_t rl = 0;
	size_t stop = (pos > L) ? 0 : ((len == SZ_MAX || len > L - pos) ? L : pos + len);
	size_t i = 0;
	while (i < L) {
		bool m = (pos <= L) && i >= pos && i < stop && i + lo <= L;
		for (size_t j = 0; j < PATB; j++) { if (m && j < lo && hay[i + j] != original[j]) { m = false; } }
		if (m) { for (size_t j = 0; j < PATB; j++) { if (j < lr) { ref[rl++] = replace[j]; } } i += lo; }
		else { ref[rl++] = hay[i]; i++; }
	}
	ref[rl] = 0;
	CALLR(long, d_string_replace_text_in_range(d, pos, len, original, replace), PRE_replace, POST_replace)
	long delta = RETV;
	ASSERT(DS_WF(d), "postcondition replace: DS_WF");
	ASSERT(d->currentStringLength == rl, "postcondition replace: length equals the ideal string's");
	ASSERT(delta == (long)rl - (long)L, "postcondition replace: returns the change in length");
	IN(size_t, k);
	ASSERT(k >= rl || d->str[k] == ref[k], "postcondition replace: content equals the ideal string's (ghost index)");
	REACH();
}
#endif
