/* C19/C01 -- d_string_replace_text_in_range against the CONTRACTS of d_string_erase and d_string_insert
 * (modular: the callees' bodies are not used).  d_string_insert's contract has `frees(baseString->str)`:
 * the buffer may be reallocated, so any pointer into the old buffer kept across the call is dangling and
 * its use fails a pointer obligation.  The loop is explored for its first UNW-1 iterations (bounded: with
 * strstr a contract stub there is no content to bound the iteration count, and the growth bound
 * DLEN < CAP_MAX is not inductive without it). */
#define DS_CONTRACTS_ONLY
#include "ds_A.c"

DString * g_hay;   /* ghost: the DString whose text is searched */
/* strstr: NULL or a pointer into the haystack object, at or after h (assumed contract stub) */
#ifndef VERIF_NATIVE
char * strstr(const char * h, const char * nd) {
	__CPROVER_precondition(__CPROVER_r_ok(h, 1), "strstr haystack readable");
	__CPROVER_precondition(__CPROVER_r_ok(nd, 1), "strstr needle readable");
	_Bool found; size_t off;
	if (!found) { return 0; }
	__CPROVER_assume(off < __CPROVER_OBJECT_SIZE(h) - __CPROVER_POINTER_OFFSET(h));
	/* a match lies inside the string: for the registered DString it starts before the recorded end */
	if (g_hay && __CPROVER_same_object(h, g_hay->str)) {
		__CPROVER_assume(__CPROVER_POINTER_OFFSET(h) + off < g_hay->currentStringLength);
	}
	return (char *)h + off;
}
#endif

/* USAGE contract of d_string_insert for callers: same precondition and length as the contract proved in
 * unit ds_A_insert, plus "the buffer has been reallocated" (the C standard lets realloc move the block on
 * every call, so a caller must be correct under this behaviour; content is not tracked). */
#ifndef VERIF_NATIVE
void d_string_insert__use(DString * baseString, size_t pos, const char * insertedString)
	__CPROVER_requires(PRE_insert)
	__CPROVER_ensures(DLEN(baseString) == __CPROVER_old(DLEN(baseString)) + g_n && baseString->currentStringBufferSize > DLEN(baseString)
		&& baseString->currentStringBufferSize <= 4 * CAP_MAX
		&& __CPROVER_is_fresh(baseString->str, baseString->currentStringBufferSize) && baseString->str[DLEN(baseString)] == 0)
	__CPROVER_assigns(baseString->str, baseString->currentStringBufferSize, baseString->currentStringLength, __CPROVER_object_whole(baseString->str))
	__CPROVER_frees(baseString->str);
#endif

#define PRE_replace (DS_WF(d) && DLEN(d) < (CAP_MAX >> 1) && original[0] != 0 && replace == g_str && g_n < (1UL << 30) && replace[g_n] == 0)
#define POST_replace (DS_WF(d))
CONTRACT(long, d_string_replace_text_in_range, (DString * d, size_t pos, size_t len, const char * original, const char * replace), PRE_replace, POST_replace,
	DS_FRAME(d))

void h_replace_mod(void) {
	verif_stubs_init();
	IN(size_t, cap); IN(size_t, slen);
	ASSUME(cap >= 1 && cap <= CAP_MAX && slen < cap);
	DString * d = ALLOC(sizeof(DString));
	d->str = ALLOC(cap); d->currentStringBufferSize = cap; d->currentStringLength = slen; d->str[slen] = 0;
	IN(size_t, n); ASSUME(n < (1UL << 30));
	char * replace = ALLOC(n + 1); replace[n] = 0; g_n = n; g_str = replace;
	IN(size_t, no); ASSUME(no >= 1 && no < (1UL << 30));
	char * original = ALLOC(no + 1); original[no] = 0; { IN(char, o0); ASSUME(o0 != 0); original[0] = o0; }
	IN(size_t, pos); IN(size_t, len);
	g_hay = d;
	CALLR(long, d_string_replace_text_in_range(d, pos, len, original, replace), PRE_replace, POST_replace)
	REACH();
}
