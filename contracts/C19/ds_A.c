/* C19 Unit A -- representation invariant and lengths of every DString
 * operation, for ALL capacities (symbolic, up to CAP_MAX = 2^40), ALL positions
 * and lengths in size_t.  Byte movers are contract stubs (lib/libc_stubs.c);
 * byte CONTENT is decided by Unit B (bounded).  The functions verified are the
 * unmodified ones in /repo/src/d_string.c.  Each contract is written once
 * (PRE_x / POST_x) and used both as the __CPROVER contract and as the native
 * replay assertion.                                                          */
#include "ds_spec.h"

#ifndef CAP_MAX
#define CAP_MAX (1UL << 40)
#endif
#ifndef STR_MAX
#define STR_MAX (1UL << 40)
#endif
void verif_stubs_init(void);
#ifdef VERIF_NATIVE
void verif_stubs_init(void) {}
#endif

size_t g_n;          /* ghost: length of the registered string argument (index of its first NUL) */
const char * g_str;  /* ghost: the registered string argument */
#define DLEN(d) ((d)->currentStringLength)
#define GROWN(d) (DLEN(d) - OLD(DLEN(d)))

/* ---- contracts (parameter names are the real ones) ---- */
#define PRE_erase DS_WF(baseString)
#define POST_erase (DS_WF(baseString) && DLEN(baseString) == M_ERASE_LEN(OLD(DLEN(baseString)), pos, len) \
	&& baseString->currentStringBufferSize == OLD(baseString->currentStringBufferSize) && baseString->str == OLD(baseString->str))
CONTRACT(void, d_string_erase, (DString * baseString, size_t pos, size_t len), PRE_erase, POST_erase, DS_FRAME_NOGROW(baseString))

/* a string argument s with a NUL at index g_n; the amount appended is a NUL index of s that is <= g_n */
#define STR_ARG(s) (g_n < STR_MAX && (s) == g_str && (s)[g_n] == 0)
#define POST_grow_by_strlen(d, s) (DS_WF(d) && DLEN(d) == OLD(DLEN(d)) + g_n)

#define PRE_append (DS_WF(baseString) && DLEN(baseString) < CAP_MAX && STR_ARG(appendedString))
#define POST_append POST_grow_by_strlen(baseString, appendedString)
CONTRACT(void, d_string_append, (DString * baseString, const char * appendedString), PRE_append, POST_append, DS_FRAME(baseString))

#define PRE_append_c DS_WF(baseString)
#define POST_append_c (DS_WF(baseString) && DLEN(baseString) == OLD(DLEN(baseString)) + (appendedCharacter ? 1 : 0) \
	&& (appendedCharacter == 0 || baseString->str[DLEN(baseString) - 1] == appendedCharacter))
CONTRACT(void, d_string_append_c, (DString * baseString, char appendedCharacter), PRE_append_c, POST_append_c, DS_FRAME(baseString))

#define PRE_append_c_array (DS_WF(baseString) && DLEN(baseString) < CAP_MAX && STR_ARG(appendedChars) && (bytes == SZ_MAX || bytes <= g_n + 1))
#define POST_append_c_array (DS_WF(baseString) && DLEN(baseString) == OLD(DLEN(baseString)) + (bytes == SZ_MAX ? g_n : bytes))
CONTRACT(void, d_string_append_c_array, (DString * baseString, const char * appendedChars, size_t bytes), PRE_append_c_array, POST_append_c_array, DS_FRAME(baseString))

#define PRE_prepend (DS_WF(baseString) && DLEN(baseString) < CAP_MAX && STR_ARG(prependedString))
#define POST_prepend POST_grow_by_strlen(baseString, prependedString)
CONTRACT(void, d_string_prepend, (DString * baseString, const char * prependedString), PRE_prepend, POST_prepend, DS_FRAME(baseString))

#define PRE_insert (DS_WF(baseString) && DLEN(baseString) < CAP_MAX && STR_ARG(insertedString))
#define POST_insert POST_grow_by_strlen(baseString, insertedString)
CONTRACT(void, d_string_insert, (DString * baseString, size_t pos, const char * insertedString), PRE_insert, POST_insert, DS_FRAME(baseString))

#define PRE_insert_c DS_WF(baseString)
#define POST_insert_c (DS_WF(baseString) && DLEN(baseString) == OLD(DLEN(baseString)) + (insertedCharacter ? 1 : 0) \
	&& (insertedCharacter == 0 || baseString->str[M_CLAMP(OLD(DLEN(baseString)), pos)] == insertedCharacter))
CONTRACT(void, d_string_insert_c, (DString * baseString, size_t pos, char insertedCharacter), PRE_insert_c, POST_insert_c, DS_FRAME(baseString))

#define PRE_insert_c_array (DS_WF(baseString) && DLEN(baseString) < CAP_MAX && STR_ARG(insertedString) && (bytes == SZ_MAX || bytes <= g_n + 1))
#define POST_insert_c_array (DS_WF(baseString) && DLEN(baseString) == OLD(DLEN(baseString)) + (bytes == SZ_MAX ? g_n : bytes))
CONTRACT(void, d_string_insert_c_array, (DString * baseString, size_t pos, const char * insertedString, size_t bytes), PRE_insert_c_array, POST_insert_c_array, DS_FRAME(baseString))

#define SUBN M_SUBSTR_N(DLEN(d), start, len)
#define PRE_copy_substring DS_WF(d)
#define POST_copy_substring (DS_WF(d) && DLEN(d) == OLD(DLEN(d)) && d->str == OLD(d->str) \
	&& (SUBN == SZ_MAX ? RET == NULL : (RET != NULL && __CPROVER_r_ok(RET, SUBN + 1) && RET[SUBN] == 0)))
CONTRACT(char *, d_string_copy_substring, (DString * d, size_t start, size_t len), PRE_copy_substring, POST_copy_substring, __CPROVER_assigns())

/* ---- harness helpers: the harness builds the memory SHAPE (objects of symbolic
 * size); the logical precondition is the contract's requires clause ---- */
#define MK_DS(d) \
	IN(size_t, cap); IN(size_t, slen); \
	ASSUME(cap >= 1 && cap <= CAP_MAX && slen < cap); \
	DString * d = ALLOC(sizeof(DString)); \
	d->str = ALLOC(cap); d->currentStringBufferSize = cap; d->currentStringLength = slen; d->str[slen] = 0;

#define MK_STR(s) \
	IN(size_t, n); ASSUME(n < STR_MAX); \
	char * s = ALLOC(n + 1); s[n] = 0; g_n = n; g_str = s;

void h_erase(void) {
	verif_stubs_init();
	MK_DS(baseString)
	IN(size_t, pos); IN(size_t, len);
	CALLV(d_string_erase(baseString, pos, len), PRE_erase, POST_erase)
	REACH();
}

void h_append(void) {
	verif_stubs_init();
	MK_DS(baseString)
	MK_STR(appendedString)
	CALLV(d_string_append(baseString, appendedString), PRE_append, POST_append)
	REACH();
}

void h_append_c(void) {
	verif_stubs_init();
	MK_DS(baseString)
	IN(char, appendedCharacter);
	CALLV(d_string_append_c(baseString, appendedCharacter), PRE_append_c, POST_append_c)
	REACH();
}

void h_append_c_array(void) {
	verif_stubs_init();
	MK_DS(baseString)
	MK_STR(appendedChars)
	IN(size_t, bytes);
	CALLV(d_string_append_c_array(baseString, appendedChars, bytes), PRE_append_c_array, POST_append_c_array)
	REACH();
}

void h_prepend(void) {
	verif_stubs_init();
	MK_DS(baseString)
	MK_STR(prependedString)
	CALLV(d_string_prepend(baseString, prependedString), PRE_prepend, POST_prepend)
	REACH();
}

void h_insert(void) {
	verif_stubs_init();
	MK_DS(baseString)
	MK_STR(insertedString)
	IN(size_t, pos);
	CALLV(d_string_insert(baseString, pos, insertedString), PRE_insert, POST_insert)
	REACH();
}

void h_insert_c(void) {
	verif_stubs_init();
	MK_DS(baseString)
	IN(size_t, pos); IN(char, insertedCharacter);
	CALLV(d_string_insert_c(baseString, pos, insertedCharacter), PRE_insert_c, POST_insert_c)
	REACH();
}

void h_insert_c_array(void) {
	verif_stubs_init();
	MK_DS(baseString)
	MK_STR(insertedString)
	IN(size_t, pos); IN(size_t, bytes);
	CALLV(d_string_insert_c_array(baseString, pos, insertedString, bytes), PRE_insert_c_array, POST_insert_c_array)
	REACH();
}

void h_copy_substring(void) {
	verif_stubs_init();
	MK_DS(d)
	IN(size_t, start); IN(size_t, len);
	CALLR(char *, d_string_copy_substring(d, start, len), PRE_copy_substring, POST_copy_substring)
	REACH();
}
