/* C19 Unit A -- representation invariant and lengths of every DString
 * operation, for ALL capacities (symbolic, up to CAP_MAX = 2^40), ALL positions
 * and lengths in size_t.  Byte movers are contract stubs (lib/libc_stubs.c);
 * byte CONTENT is decided by Unit B (bounded).  The functions verified are the
 * unmodified ones in /repo/src/d_string.c.  Each contract is written once
 * (PRE_x / POST_x) and used both as the __CPROVER contract and as the native
 * replay assertion.                                                          */
#include "ds_spec.h"

#ifndef CAP_MAX
#define CAP_MAX (1UL << 40)
#endif
#ifndef STR_MAX
#define STR_MAX (1UL << 40)
#endif
void verif_stubs_init(void);
#if defined(VERIF_NATIVE) || defined(UNIT_B)
void verif_stubs_init(void) {}
#endif

size_t g_n;          /* ghost: length of the registered string argument (index of its first NUL) */
const char * g_str;  /* ghost: the registered string argument */
#define DLEN(d) ((d)->currentStringLength)

/* ---- Unit B (bounded): byte CONTENT against the ideal string.  g_old is a ghost copy of the
 * buffer before the call, g_k a ghost index chosen nondeterministically by the harness (so every
 * clause "byte g_k of the result is ..." is a universally quantified statement over g_k). ---- */
#ifdef UNIT_B
#ifndef CAPB
#define CAPB 8
#endif
#ifndef STRB
#define STRB 4
#endif
#undef CAP_MAX
#undef STR_MAX
#define CAP_MAX CAPB
#define STR_MAX STRB
char g_old[CAPB];
size_t g_k, g_L;            /* ghost index; ghost old length */
#define SARG(i) (g_str[(i)])
#define CONTENT(cond, expected) && (!(cond) || (expected))
#else
#define CONTENT(cond, expected)
#endif
#define GROWN(d) (DLEN(d) - OLD(DLEN(d)))

/* ---- contracts (parameter names are the real ones) ---- */
#define PRE_erase DS_WF(baseString)
#define POST_erase (DS_WF(baseString) && DLEN(baseString) == M_ERASE_LEN(OLD(DLEN(baseString)), pos, len) \
	&& baseString->currentStringBufferSize == OLD(baseString->currentStringBufferSize) && baseString->str == OLD(baseString->str) \
	CONTENT(g_k < DLEN(baseString), baseString->str[g_k] == ((g_k < pos || DLEN(baseString) == g_L) ? g_old[g_k] : g_old[g_k + len])))
CONTRACT(void, d_string_erase, (DString * baseString, size_t pos, size_t len), PRE_erase, POST_erase, DS_FRAME_NOGROW(baseString))

/* a string argument s with a NUL at index g_n; the amount appended is a NUL index of s that is <= g_n */
#define STR_ARG(s) (g_n < STR_MAX && (s) == g_str && (s)[g_n] == 0)
#define POST_grow_by_strlen(d, s) (DS_WF(d) && DLEN(d) == OLD(DLEN(d)) + g_n)

#define PRE_append (DS_WF(baseString) && DLEN(baseString) < CAP_MAX && STR_ARG(appendedString))
#define POST_append (POST_grow_by_strlen(baseString, appendedString) \
	CONTENT(g_k < DLEN(baseString), baseString->str[g_k] == (g_k < g_L ? g_old[g_k] : SARG(g_k - g_L))))
CONTRACT(void, d_string_append, (DString * baseString, const char * appendedString), PRE_append, POST_append, DS_FRAME(baseString))

#define PRE_append_c DS_WF(baseString)
#define POST_append_c (DS_WF(baseString) && DLEN(baseString) == OLD(DLEN(baseString)) + (appendedCharacter ? 1 : 0) \
	&& (appendedCharacter == 0 || baseString->str[DLEN(baseString) - 1] == appendedCharacter) \
	CONTENT(g_k < g_L, baseString->str[g_k] == g_old[g_k]))
CONTRACT(void, d_string_append_c, (DString * baseString, char appendedCharacter), PRE_append_c, POST_append_c, DS_FRAME(baseString))

#define PRE_append_c_array (DS_WF(baseString) && DLEN(baseString) < CAP_MAX && STR_ARG(appendedChars) && (bytes == SZ_MAX || bytes <= g_n + 1))
#define POST_append_c_array (DS_WF(baseString) && DLEN(baseString) == OLD(DLEN(baseString)) + (bytes == SZ_MAX ? g_n : bytes) \
	CONTENT(g_k < DLEN(baseString), baseString->str[g_k] == (g_k < g_L ? g_old[g_k] : SARG(g_k - g_L))))
CONTRACT(void, d_string_append_c_array, (DString * baseString, const char * appendedChars, size_t bytes), PRE_append_c_array, POST_append_c_array, DS_FRAME(baseString))

#define PRE_prepend (DS_WF(baseString) && DLEN(baseString) < CAP_MAX && STR_ARG(prependedString))
#define POST_prepend (POST_grow_by_strlen(baseString, prependedString) \
	CONTENT(g_k < DLEN(baseString), baseString->str[g_k] == (g_k < g_n ? SARG(g_k) : g_old[g_k - g_n])))
CONTRACT(void, d_string_prepend, (DString * baseString, const char * prependedString), PRE_prepend, POST_prepend, DS_FRAME(baseString))

#define PRE_insert (DS_WF(baseString) && DLEN(baseString) < CAP_MAX && STR_ARG(insertedString))
#define INS_P M_CLAMP(g_L, pos)
#define POST_insert (POST_grow_by_strlen(baseString, insertedString) \
	CONTENT(g_k < DLEN(baseString), baseString->str[g_k] == (g_k < INS_P ? g_old[g_k] : (g_k < INS_P + g_n ? SARG(g_k - INS_P) : g_old[g_k - g_n]))))
CONTRACT(void, d_string_insert, (DString * baseString, size_t pos, const char * insertedString), PRE_insert, POST_insert, DS_FRAME(baseString))

#define PRE_insert_c DS_WF(baseString)
#define POST_insert_c (DS_WF(baseString) && DLEN(baseString) == OLD(DLEN(baseString)) + (insertedCharacter ? 1 : 0) \
	&& (insertedCharacter == 0 || baseString->str[M_CLAMP(OLD(DLEN(baseString)), pos)] == insertedCharacter) \
	CONTENT(g_k < DLEN(baseString) && insertedCharacter != 0 && g_k != M_CLAMP(g_L, pos), baseString->str[g_k] == (g_k < M_CLAMP(g_L, pos) ? g_old[g_k] : g_old[g_k - 1])) \
	CONTENT(g_k < DLEN(baseString) && insertedCharacter == 0, baseString->str[g_k] == g_old[g_k]))
CONTRACT(void, d_string_insert_c, (DString * baseString, size_t pos, char insertedCharacter), PRE_insert_c, POST_insert_c, DS_FRAME(baseString))

#define PRE_insert_c_array (DS_WF(baseString) && DLEN(baseString) < CAP_MAX && STR_ARG(insertedString) && (bytes == SZ_MAX || bytes <= g_n + 1))
#define INS_N (bytes == SZ_MAX ? g_n : bytes)
#define POST_insert_c_array (DS_WF(baseString) && DLEN(baseString) == OLD(DLEN(baseString)) + INS_N \
	CONTENT(g_k < DLEN(baseString), baseString->str[g_k] == (g_k < M_CLAMP(g_L, pos) ? g_old[g_k] : (g_k < M_CLAMP(g_L, pos) + INS_N ? SARG(g_k - M_CLAMP(g_L, pos)) : g_old[g_k - INS_N]))))
CONTRACT(void, d_string_insert_c_array, (DString * baseString, size_t pos, const char * insertedString, size_t bytes), PRE_insert_c_array, POST_insert_c_array, DS_FRAME(baseString))

#define SUBN M_SUBSTR_N(DLEN(d), start, len)
#define PRE_copy_substring DS_WF(d)
#define POST_copy_substring (DS_WF(d) && DLEN(d) == OLD(DLEN(d)) && d->str == OLD(d->str) \
	&& (SUBN == SZ_MAX ? RET == NULL : (RET != NULL && __CPROVER_r_ok(RET, SUBN + 1) && RET[SUBN] == 0)) \
	CONTENT(SUBN != SZ_MAX && g_k < SUBN, RET[g_k] == g_old[start + g_k]) \
	CONTENT(g_k < DLEN(d), d->str[g_k] == g_old[g_k]))
CONTRACT(char *, d_string_copy_substring, (DString * d, size_t start, size_t len), PRE_copy_substring, POST_copy_substring, __CPROVER_assigns())

#ifndef DS_CONTRACTS_ONLY
/* ---- harness helpers: the harness builds the memory SHAPE (objects of symbolic
 * size); the logical precondition is the contract's requires clause ---- */
#ifdef UNIT_B
/* bounded: fill the buffer with symbolic bytes, keep a ghost copy, pick the ghost index */
#define DS_FILL(d) { IN_ARR(char, fill, CAPB); for (size_t i_ = 0; i_ < CAPB; i_++) { if (i_ < cap) { ASSUME(i_ >= slen || fill[i_] != 0); (d)->str[i_] = fill[i_]; } g_old[i_] = (i_ < cap) ? fill[i_] : 0; } } \
	{ IN(size_t, k); g_k = k; } g_L = slen;
#define STR_FILL(s) { IN_ARR(char, sfill, STRB); for (size_t i_ = 0; i_ < STRB; i_++) { if (i_ < n) { ASSUME(sfill[i_] != 0); (s)[i_] = sfill[i_]; } } }
#else
#define DS_FILL(d)
#define STR_FILL(s)
#endif

#define MK_DS(d) \
	IN(size_t, cap); IN(size_t, slen); \
	ASSUME(cap >= 1 && cap <= CAP_MAX && slen < cap); \
	DString * d = ALLOC(sizeof(DString)); \
	d->str = ALLOC(cap); d->currentStringBufferSize = cap; d->currentStringLength = slen; \
	DS_FILL(d) d->str[slen] = 0;

#define MK_STR(s) \
	IN(size_t, n); ASSUME(n < STR_MAX); \
	char * s = ALLOC(n + 1); STR_FILL(s) s[n] = 0; g_n = n; g_str = s;

void h_erase(void) {
	verif_stubs_init();
	MK_DS(baseString)
	IN(size_t, pos); IN(size_t, len);
	CALLV(d_string_erase(baseString, pos, len), PRE_erase, POST_erase)
	REACH();
}

void h_append(void) {
	verif_stubs_init();
	MK_DS(baseString)
	MK_STR(appendedString)
	CALLV(d_string_append(baseString, appendedString), PRE_append, POST_append)
	REACH();
}

void h_append_c(void) {
	verif_stubs_init();
	MK_DS(baseString)
	IN(char, appendedCharacter);
	CALLV(d_string_append_c(baseString, appendedCharacter), PRE_append_c, POST_append_c)
	REACH();
}

void h_append_c_array(void) {
	verif_stubs_init();
	MK_DS(baseString)
	MK_STR(appendedChars)
	IN(size_t, bytes);
	CALLV(d_string_append_c_array(baseString, appendedChars, bytes), PRE_append_c_array, POST_append_c_array)
	REACH();
}

void h_prepend(void) {
	verif_stubs_init();
	MK_DS(baseString)
	MK_STR(prependedString)
	CALLV(d_string_prepend(baseString, prependedString), PRE_prepend, POST_prepend)
	REACH();
}

void h_insert(void) {
	verif_stubs_init();
	MK_DS(baseString)
	MK_STR(insertedString)
	IN(size_t, pos);
	CALLV(d_string_insert(baseString, pos, insertedString), PRE_insert, POST_insert)
	REACH();
}

void h_insert_c(void) {
	verif_stubs_init();
	MK_DS(baseString)
	IN(size_t, pos); IN(char, insertedCharacter);
	CALLV(d_string_insert_c(baseString, pos, insertedCharacter), PRE_insert_c, POST_insert_c)
	REACH();
}

void h_insert_c_array(void) {
	verif_stubs_init();
	MK_DS(baseString)
	MK_STR(insertedString)
	IN(size_t, pos); IN(size_t, bytes);
	CALLV(d_string_insert_c_array(baseString, pos, insertedString, bytes), PRE_insert_c_array, POST_insert_c_array)
	REACH();
}

void h_copy_substring(void) {
	verif_stubs_init();
	MK_DS(d)
	IN(size_t, start); IN(size_t, len);
	CALLR(char *, d_string_copy_substring(d, start, len), PRE_copy_substring, POST_copy_substring)
	REACH();
}
#endif /* DS_CONTRACTS_ONLY */
