# ---------------------------------------------------------------- C19 DString
PROPS["C19"] = {
    "level": "proof",
    "explanation": "Every public DString operation of /repo/src/d_string.c is verified against its contract (DS_WF representation invariant + ideal-string length model, lib/ds_spec.h) by goto-instrument --dfcc contract enforcement: Unit A for all capacities up to 2^40 and all size_t positions/lengths (byte movers as contract stubs), Unit B for byte content at small capacities (bounded, reported separately).",
    "slice": "d_string_new/free/append/append_c/append_c_array/append_printf/prepend/insert/insert_c/insert_c_array/insert_printf/erase/copy_substring/replace_text_in_range + file-local ensureStringBufferCanHold",
    "not_reached": "formatting done by libc vsnprintf; sequences of operations follow by induction from the per-operation contracts (DS_WF is both pre- and postcondition), stated not machine-checked",
    "trusted_base": ["cbmc/goto-cc/goto-instrument 6.11.0 (DFCC instrumentation, MiniSat2)", "lib/libc_stubs.c contract stubs for libc", "x86-64 LP64 machine model, size_t arithmetic modular as in C"],
    "assumptions": [LIBC_ASSUME, NOFAIL, "DString capacity <= 2^40 and argument strings shorter than 2^40 in Unit A"],
}

_DS_SMALL = ["-DCAP_MAX=24", "-DSTR_MAX=8"]
_ENSURE = "__CPROVER_file_local_d_string_c_ensureStringBufferCanHold"
# inductive contract of the growth loop in ensureStringBufferCanHold (the only loop on these paths)
_ENSURE_LOOP = {_ENSURE: [{
    "loop_id": 0, "vars": ["newBufferSize", "newBufferSizeNeeded", "baseString"],
    "invariants": "newBufferSize >= 1 && newBufferSize >= baseString->currentStringBufferSize && newBufferSize <= 2 * newBufferSizeNeeded + 104857600ul",
    "assigns": "newBufferSize",
    "decreases": "(newBufferSizeNeeded > newBufferSize ? newBufferSizeNeeded - newBufferSize : 0ul)"}]}
_GROWS = {"d_string_append", "d_string_append_c", "d_string_append_c_array", "d_string_prepend", "d_string_insert", "d_string_insert_c", "d_string_insert_c_array"}
_DS_NATIVE = {"repo": ["d_string.c"]}
for fn, h in [("d_string_erase", "h_erase"), ("d_string_append", "h_append"), ("d_string_append_c", "h_append_c"),
              ("d_string_append_c_array", "h_append_c_array"), ("d_string_prepend", "h_prepend"),
              ("d_string_insert", "h_insert"), ("d_string_insert_c", "h_insert_c"),
              ("d_string_insert_c_array", "h_insert_c_array"), ("d_string_copy_substring", "h_copy_substring")]:
    U("ds_A_" + fn[9:], ["C19", "C01"], h, ["C19/ds_A.c"], ["d_string.c"], enforce=fn, loops=(_ENSURE_LOOP if fn in _GROWS else None),
      small=_DS_SMALL, native=_DS_NATIVE, min_obligations=20,
      callees={"ensureStringBufferCanHold": "body", "strlen/memmove/memcpy/strncpy/strncat": "contract stub", "realloc/malloc": "CBMC built-in"},
      nobody_ok=["fprintf", "exit"],
      assumptions=[LIBC_ASSUME, NOFAIL])

# Unit B: byte content, bounded capacity (real CBMC libc models, loops unwound)
for fn, h in [("d_string_erase", "h_erase"), ("d_string_append", "h_append"), ("d_string_append_c", "h_append_c"),
              ("d_string_append_c_array", "h_append_c_array"), ("d_string_prepend", "h_prepend"),
              ("d_string_insert", "h_insert"), ("d_string_insert_c", "h_insert_c"),
              ("d_string_insert_c_array", "h_insert_c_array"), ("d_string_copy_substring", "h_copy_substring")]:
    for capb, tier in (((3, "quick"), (5, "thorough")) if fn == "d_string_insert_c_array" else ((4, "quick"), (7, "thorough"))):
        U("ds_B%d_%s" % (capb, fn[9:]), ["C19"], h, ["C19/ds_A.c"], ["d_string.c"], plain=True, functions=[fn], lib=("lib/libc_models.c",),
          defines=["-DUNIT_B", "-DCAPB=%d" % capb, "-DSTRB=%d" % (capb // 2)], kind="bounded", tier=tier,
          bounds={"capacity<=": capb, "argument string length<": capb // 2, "unwind": capb + 2},
          cbmc_flags=["--unwind", str(capb + 2), "--unwinding-assertions"],
          native=_DS_NATIVE, min_obligations=20, nobody_ok=["fprintf", "exit"], timeout=600, cost=30,
          callees={"ensureStringBufferCanHold": "body", "libc": "byte-loop reference models lib/libc_models.c (unwound)"},
          assumptions=[NOFAIL])


# ---- remaining functions
_NEW_LOOP = {"d_string_new": [{
    "loop_id": 0, "vars": ["startingBufferSize", "startingStringSize"],
    "invariants": "startingBufferSize >= 1024 && (startingBufferSize == 1024 || startingBufferSize <= 2 * startingStringSize + 2)",
    "assigns": "startingBufferSize",
    "decreases": "(startingStringSize + 1 > startingBufferSize ? startingStringSize + 1 - startingBufferSize : 0ul)"}]}
U("ds_A_new", ["C19", "C01"], "h_new", ["C19/ds_more.c"], ["d_string.c"], enforce="d_string_new", loops=_NEW_LOOP,
  small=_DS_SMALL, native={"repo": []}, min_obligations=20, nobody_ok=["fprintf", "exit"],
  callees={"strlen/strncpy": "contract stub", "malloc": "CBMC built-in"}, assumptions=[LIBC_ASSUME, NOFAIL])
U("ds_A_ensure", ["C19", "C01"], "h_ensure", ["C19/ds_more.c"], ["d_string.c"], enforce=_ENSURE, loops=_ENSURE_LOOP,
  contracts={_ENSURE: "ensure__contract"}, small=_DS_SMALL, native={"repo": []}, min_obligations=20, nobody_ok=["fprintf", "exit"],
  functions=["ensureStringBufferCanHold (file-local)"], callees={"realloc": "CBMC built-in"}, assumptions=[NOFAIL])
for _f in ("append_printf", "insert_printf"):
    U("ds_A_" + _f, ["C19", "C01"], "h_" + _f, ["C19/ds_more.c"], ["d_string.c"], enforce="d_string_" + _f, loops=_ENSURE_LOOP,
      small=_DS_SMALL, native=None, min_obligations=20, nobody_ok=["fprintf", "exit"],
      functions=["d_string_" + _f, "vasprintf (d_string.c)"],
      callees={"vasprintf": "body", "vsnprintf": "assumed stub (returns a ghost count, NUL-terminates)", "d_string_append/insert": "body", "strlen etc.": "contract stub"},
      assumptions=[LIBC_ASSUME, NOFAIL, "vsnprintf behaves as in C99 and formatted text is shorter than INT_MAX"])
U("ds_free", ["C19", "C01"], "h_free", ["C19/ds_more.c"], ["d_string.c"], plain=True, lib=(), cbmc_flags=["--unwind", "3", "--unwinding-assertions", "--memory-leak-check"],
  functions=["d_string_free"], kind="finite", native={"repo": []}, min_obligations=5, nobody_ok=["fprintf", "exit", "vsnprintf"])
U("ds_null_args", ["C19", "C01"], "h_null", ["C19/ds_more.c"], ["d_string.c"], plain=True, lib=("lib/libc_models.c",), cbmc_flags=["--unwind", "4", "--unwinding-assertions"],
  functions=["every d_string_* with NULL arguments"], kind="finite", native={"repo": []}, min_obligations=5, nobody_ok=["fprintf", "exit", "vsnprintf"])
# bounded content of replace_text_in_range (harness-encoded, byte-loop libc models; realloc stubbed as "never needed")
U("ds_B_replace_3", ["C19"], "h_replace", ["C19/ds_more.c"], ["d_string.c"], plain=True,
  lib=("lib/libc_models.c",), kind="bounded", defines=["-DHAYB=3", "-DNO_GROWTH"],
  bounds={"haystack<=": 3, "pattern<=": 2, "replacement<=": 2, "unwind": 5}, cbmc_flags=["--unwind", "5", "--unwinding-assertions"], timeout=900, cost=60,
  functions=["d_string_replace_text_in_range"], callees={"d_string_erase/insert/ensureStringBufferCanHold": "body", "strstr/strlen/memmove/strncpy": "byte-loop models", "realloc": "stub asserting it is never reached"},
  native={"repo": []}, nobody_ok=["fprintf", "exit", "vsnprintf"],
  assumptions=[NOFAIL, "the pattern is non-empty (an empty pattern makes the replace loop diverge; excluded from the ideal-string model)"])

# modular unit: replace against the CONTRACTS of erase/insert (insert may free the buffer -> dangling pointers show up)
U("ds_replace_modular_K3", ["C19", "C01"], "h_replace_mod", ["C19/ds_replace.c"], ["d_string.c"], enforce="d_string_replace_text_in_range",
  replace=["d_string_erase", "d_string_insert"], contracts={"d_string_insert": "d_string_insert__use"}, kind="bounded", bounds={"loop iterations explored<=": 3},
  cbmc_flags=["--unwind", "4", "--no-unwinding-assertions", "--unwindset", "__CPROVER_contracts_write_set_check_assigns_clause_inclusion.0:12,__CPROVER_contracts_write_set_record_deallocated.0:12"], native=None, min_obligations=20, nobody_ok=["fprintf", "exit"],
  functions=["d_string_replace_text_in_range"], callees={"d_string_erase": "contract (ds_A_erase)", "d_string_insert": "contract (ds_A_insert)", "strstr/strlen": "contract stubs"},
  assumptions=[LIBC_ASSUME, NOFAIL, "strstr returns NULL or a pointer into the haystack object at or after its argument",
               "d_string_insert is used through a usage contract in which realloc always moves the buffer (permitted by the C standard); its length/representation part is the contract proved in ds_A_insert"])
