/* C16 (c) / C11 (a) -- clean_string (/repo/src/writer.c, unmodified), source of SYMBOLIC size (up to
 * 2^40 bytes, full byte domain), both flags symbolic, loop contracts on the scan loop and on the
 * trailing-trim loop.  Decided here, for every input:
 *  - memory safety of the scan (look-ahead *(str+1) after a backslash, the "&amp;" skip) and of the
 *    trim loop (index currentStringLength-1 only when the length is non-zero);
 *  - for an ARBITRARY source position g_k (ghost index = universally quantified) holding a byte >= 0x80:
 *    when the scan moves past g_k, the byte just emitted is exactly source[g_k] -- every byte of every
 *    multi-byte sequence is copied unchanged, at its turn (hence in order), never dropped, never
 *    treated as whitespace;
 *    the same for g_k holding any non-whitespace byte other than '\\' when !lowercase && !url_clean
 *    (C11: "no non-whitespace character lost"); a backslash is emitted as itself, or as '\n' when
 *    it escapes a line ending (MultiMarkdown's escaped line break -- its own case);
 *  - at most one byte is emitted per byte consumed;
 *  - the trim loop removes only bytes of the ASCII whitespace/line-ending class (ghost index g_t over
 *    the removed range) and leaves every byte below the new length unchanged => it can never cut
 *    into a multi-byte sequence;
 *  - the result is a NUL-terminated string no longer than the source.
 * Whole-string valid(in) => valid(out) and the exact content: bounded, u8_bounded.c.          */
#include "C16/char_spec.h"
#include "C16/u8_spec.h"
#include "d_string.h"

#ifndef SRC_MAX
#define SRC_MAX (1UL << 40)
#endif

char * clean_string(const char * str, bool lowercase, bool url_clean);

const char * g_src;   /* ghost: the source string */
size_t g_n;           /* ghost: index of its terminating NUL (last byte of the object) */
size_t g_cap;         /* ghost: sink capacity */
size_t g_k;           /* ghost: an arbitrary source index */
size_t g_t;           /* ghost: an arbitrary output index */
#ifdef VERIF_NATIVE
unsigned char g_last, g_uout; size_t g_cnt;
#define OUTLEN strlen(RET)
#else
extern unsigned char g_last, g_uout;
extern size_t g_cnt;
#define OUTLEN g_cnt
#endif

#define PRE_clean_string (str == g_src && g_n < SRC_MAX && str[g_n] == 0 && g_cap > g_n + 1 && g_cnt == 0 && g_k < g_n && g_t < g_n)
#define POST_clean_string (RET != NULL && OUTLEN <= g_n && RET[OUTLEN] == 0)
CONTRACT(char *, clean_string, (const char * str, bool lowercase, bool url_clean), PRE_clean_string, POST_clean_string, __CPROVER_assigns(g_last, g_cnt, g_uout))

void h_clean(void) {
	IN(size_t, n);
	ASSUME(n >= 1 && n < SRC_MAX);
	char * str = ALLOC(n + 1);       /* contents: unconstrained bytes */
#ifdef SRC_SMALL
	{ IN_ARR(unsigned char, fill, SRC_MAX); for (size_t i = 0; i < SRC_MAX; i++) { if (i < n) { str[i] = (char)fill[i]; } } }
#endif
	str[n] = 0;
	g_src = str;
	g_n = n;
	{ IN(size_t, cap); ASSUME(cap > n + 1 && cap <= SRC_MAX + 2); g_cap = cap; }
	{ IN(size_t, k); ASSUME(k < n); g_k = k; }
	{ IN(size_t, t); ASSUME(t < n); g_t = t; }
	g_cnt = 0;
	g_last = 0;
	g_uout = U8_ACC;
	IN(bool, lowercase);
	IN(bool, url_clean);
	CALLR(char *, clean_string(str, lowercase, url_clean), PRE_clean_string, POST_clean_string)
	REACH();
}

/* the NULL arm */
void h_clean_null(void) {
	IN(bool, lowercase);
	IN(bool, url_clean);
	char * r = clean_string(NULL, lowercase, url_clean);
	ASSERT(r == NULL, "clean_string(NULL) is NULL");
	REACH();
}
