/* char_spec.h -- specification of /repo/src/char.c's byte classes, written from the comments of
 * /repo/src/char.h (NOT from the table), and the char_is_* CONTRACTS for use in DFCC units (DFCC
 * havocs the non-const table smart_char_type, so in DFCC units the classifiers are replaced by these
 * contracts; unit c16_char_classes proves each of them for all 256 bytes against the real table).
 *
 * Sets (char.h, enum char_types):
 *   whitespace   ' ' '\t'
 *   line ending  '\n' '\r' '\0'
 *   punctuation  .!?,;:"'`~(){}[]#$%+-=<>&@\/^*_|
 *   alpha a-zA-Z, digit 0-9, upper A-Z, lower a-z, intraword punctuation - '
 * Every class is empty above 0x7F (C16: 0xA0 is not whitespace in this table; a byte of a multi-byte
 * UTF-8 sequence is in no class).                                                             */
#ifndef C16_CHAR_SPEC_H
#define C16_CHAR_SPEC_H
#include "verif.h"
#include "char.h"

#define UC(c) ((unsigned char)(c))
#define IS_WS(c) (UC(c) == ' ' || UC(c) == '\t')
#define IS_LE(c) (UC(c) == '\n' || UC(c) == '\r' || UC(c) == 0)
#define IS_UPPER(c) (UC(c) >= 'A' && UC(c) <= 'Z')
#define IS_LOWER(c) (UC(c) >= 'a' && UC(c) <= 'z')
#define IS_ALPHA(c) (IS_UPPER(c) || IS_LOWER(c))
#define IS_DIGIT(c) (UC(c) >= '0' && UC(c) <= '9')
#define IS_INTRA_P(c) (UC(c) == '-' || UC(c) == '\'')
#define IS_PUNCT(c) (UC(c) == '.' || UC(c) == '!' || UC(c) == '?' || UC(c) == ',' || UC(c) == ';' || UC(c) == ':' || UC(c) == '"' \
	|| UC(c) == '\'' || UC(c) == '`' || UC(c) == '~' || UC(c) == '(' || UC(c) == ')' || UC(c) == '{' || UC(c) == '}' || UC(c) == '[' \
	|| UC(c) == ']' || UC(c) == '#' || UC(c) == '$' || UC(c) == '%' || UC(c) == '+' || UC(c) == '-' || UC(c) == '=' || UC(c) == '<' \
	|| UC(c) == '>' || UC(c) == '&' || UC(c) == '@' || UC(c) == '\\' || UC(c) == '/' || UC(c) == '^' || UC(c) == '*' || UC(c) == '_' \
	|| UC(c) == '|')

/* result is "non-zero iff in the set" (the functions return the masked table entry, not 0/1) */
#define CLS(set) ((RET != 0) == ((set) ? 1 : 0))
#define POST_char_is_whitespace CLS(IS_WS(c))
#define POST_char_is_line_ending CLS(IS_LE(c))
#define POST_char_is_punctuation CLS(IS_PUNCT(c))
#define POST_char_is_alpha CLS(IS_ALPHA(c))
#define POST_char_is_digit CLS(IS_DIGIT(c))
#define POST_char_is_alphanumeric CLS(IS_ALPHA(c) || IS_DIGIT(c))
#define POST_char_is_lower_case CLS(IS_LOWER(c))
#define POST_char_is_upper_case CLS(IS_UPPER(c))
#define POST_char_is_intraword CLS(IS_ALPHA(c) || IS_INTRA_P(c))
#define POST_char_is_whitespace_or_line_ending CLS(IS_WS(c) || IS_LE(c))
#define POST_char_is_whitespace_or_punctuation CLS(IS_WS(c) || IS_PUNCT(c))
#define POST_char_is_whitespace_or_line_ending_or_punctuation CLS(IS_WS(c) || IS_LE(c) || IS_PUNCT(c))

#define CHAR_CONTRACT(fn) CONTRACT(int, fn, (char c), 1, POST_##fn, __CPROVER_assigns())
CHAR_CONTRACT(char_is_whitespace)
CHAR_CONTRACT(char_is_line_ending)
CHAR_CONTRACT(char_is_punctuation)
CHAR_CONTRACT(char_is_alpha)
CHAR_CONTRACT(char_is_digit)
CHAR_CONTRACT(char_is_alphanumeric)
CHAR_CONTRACT(char_is_lower_case)
CHAR_CONTRACT(char_is_upper_case)
CHAR_CONTRACT(char_is_intraword)
CHAR_CONTRACT(char_is_whitespace_or_line_ending)
CHAR_CONTRACT(char_is_whitespace_or_punctuation)
CHAR_CONTRACT(char_is_whitespace_or_line_ending_or_punctuation)

#endif
