/* C16 (b) -- label_from_string (/repo/src/writer.c, unmodified), source of SYMBOLIC size (up to 2^40
 * bytes, full byte domain, NOT assumed valid UTF-8), loop contracts on both loops.
 *
 * What is decided here, for every input:
 *  - memory safety of the look-ahead (*next_char is read one past str; the inner loop runs next_char
 *    over a run of continuation bytes): never past the terminating NUL;
 *  - the input is consumed in SEGMENTS [p,q): every outer iteration starts at offset 0 or at a
 *    non-continuation byte and ends at the next non-continuation byte -- for valid UTF-8 the segments
 *    are exactly the characters, so no character is ever entered in the middle ("never split");
 *  - a segment of more than one byte is emitted WHOLE, byte for byte, unchanged and in order (inner
 *    loop invariant: the byte just emitted is the byte at str, one byte emitted per byte consumed)
 *    ("never truncated, never case-mapped bytewise");
 *  - tolower is called with 7-bit bytes only (obligation in the tolower model C16/libc_c16.c; it is also
 *    the C01 obligation that tolower never gets a negative char);
 *  - at most one byte is emitted per byte consumed (output length <= input length), result is a
 *    NUL-terminated string.
 * The whole-string statement valid(in) => valid(out) is decided bounded in u8_bounded.c.       */
#include "C16/u8_spec.h"
#include "d_string.h"

#ifndef SRC_MAX
#define SRC_MAX (1UL << 40)
#endif

char * label_from_string(const char * str);

const char * g_src;   /* ghost: the source string */
size_t g_n;           /* ghost: index of its terminating NUL (last byte of the object) */
size_t g_cap;         /* ghost: sink capacity */
#ifdef VERIF_NATIVE
unsigned char g_last, g_uout; size_t g_cnt;   /* no ghost state natively: the replay checks the C-level facts */
#define OUTLEN strlen(RET)
#else
extern unsigned char g_last, g_uout;
extern size_t g_cnt;
#define OUTLEN g_cnt
#endif

#define PRE_label_from_string (str == g_src && g_n < SRC_MAX && str[g_n] == 0 && g_cap > g_n + 1 && g_cnt == 0 && g_uout == U8_ACC)
#define POST_label_from_string (RET != NULL && OUTLEN <= g_n && RET[OUTLEN] == 0)
CONTRACT(char *, label_from_string, (const char * str), PRE_label_from_string, POST_label_from_string, __CPROVER_assigns(g_last, g_cnt, g_uout))

void h_label(void) {
	IN(size_t, n);
	ASSUME(n < SRC_MAX);
	char * str = ALLOC(n + 1);       /* contents: unconstrained bytes */
#ifdef SRC_SMALL
	{ IN_ARR(unsigned char, fill, SRC_MAX); for (size_t i = 0; i < SRC_MAX; i++) { if (i < n) { str[i] = (char)fill[i]; } } }
#endif
	str[n] = 0;
	g_src = str;
	g_n = n;
	{ IN(size_t, cap); ASSUME(cap > n + 1 && cap <= SRC_MAX + 2); g_cap = cap; }
	ASSUME(__CPROVER_POINTER_OFFSET(str) == 0);   /* (keeps the primitive's symbol in the goto binary for the loop-contract parser) */
	g_cnt = 0;
	g_last = 0;
	g_uout = U8_ACC;
	CALLR(char *, label_from_string(str), PRE_label_from_string, POST_label_from_string)
	REACH();
}
