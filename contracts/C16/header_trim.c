/* C16 (d) -- header_clean_trailing_whitespace (/repo/src/writer.c, unmodified; token_trim_trailing_whitespace
 * of token.c and the char.c table: real bodies), BOUNDED: a header whose child chain has at most HK tokens
 * of ANY type with arbitrary spans inside a source of at most HN symbolic bytes (full byte domain).
 * For every token of the chain (ghost index g_j) and every source position (ghost index g_t):
 *   start is unchanged, len only shrinks, and every byte cut off the end -- position in
 *   [start + new len, start + old len) -- is ' ', '\t', '\n' or '\r' (NUL cannot occur inside the source):
 *   only 7-bit bytes are ever trimmed, so a multi-byte sequence at the end of a heading is never split.
 * Links and the source text are unchanged.                                                      */
#include "C16/char_spec.h"
#include "libMultiMarkdown.h"
#include "token.h"

#ifndef HN
#define HN 6
#endif
#ifndef HK
#define HK 3
#endif
void header_clean_trailing_whitespace(token * header, const char * source);

void h_header_trim(void) {
	IN(size_t, L);
	ASSUME(L <= HN);
	char * src = ALLOC(HN + 1);
	{
		IN_ARR(unsigned char, src_b, HN);
		for (size_t i = 0; i < HN; i++) {
			if (i < L) {
				ASSUME(src_b[i] != 0);
				src[i] = (char)src_b[i];
			} else {
				src[i] = 0;
			}
		}
	}
	src[HN] = 0;
	IN(size_t, k);
	ASSUME(k >= 1 && k <= HK);
	IN_ARR(unsigned short, ty, HK);
	IN_ARR(size_t, st, HK);
	IN_ARR(size_t, ln, HK);
	token * tk[HK];
	for (size_t j = 0; j < HK; j++) {
		tk[j] = NULL;
		if (j < k) {
			ASSUME(st[j] <= L && ln[j] <= L - st[j]);        /* span inside the source (C15's span invariant) */
			token * t = ALLOC(sizeof(token));
			t->type = ty[j];
			t->start = st[j];
			t->len = ln[j];
			t->next = NULL;
			t->prev = (j > 0) ? tk[j - 1] : NULL;
			t->child = NULL;
			t->tail = NULL;
			t->mate = NULL;
			if (j > 0) {
				tk[j - 1]->next = t;
			}
			tk[j] = t;
		}
	}
	token * header = ALLOC(sizeof(token));
	header->type = BLOCK_H1;
	header->start = 0;
	header->len = L;
	header->child = tk[0];
	header->tail = tk[k - 1];      /* the function walks back from header->tail */
	header->next = NULL;
	header->prev = NULL;
	header->mate = NULL;
	IN(size_t, g_j);
	IN(size_t, g_t);
	ASSUME(g_j < k && g_t < HN);
	char byte_before = src[g_t];

	header_clean_trailing_whitespace(header, src);

	token * t = tk[g_j];
	ASSERT(t->start == st[g_j] && t->len <= ln[g_j], "a trim never moves the start and never grows the token");
	ASSERT(!(g_t >= t->start + t->len && g_t < st[g_j] + ln[g_j]) || IS_WS(src[g_t]) || src[g_t] == '\n' || src[g_t] == '\r',
		   "every byte trimmed off the end of a heading token is ASCII whitespace / line ending (never a byte of a multi-byte sequence)");
	ASSERT(src[g_t] == byte_before, "the source text is not modified");
	ASSERT(t->prev == (g_j > 0 ? tk[g_j - 1] : NULL) && t->next == (g_j + 1 < k ? tk[g_j + 1] : NULL), "links unchanged");
	REACH();
}
