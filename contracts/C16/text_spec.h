/* text_spec.h -- the property-level specification of labels/keys and of cleaned values (C16, C11),
 * written as MATCHING predicates over (source, result) -- two cursors, no output buffer -- from the
 * property text, not from the code.  Plain/native units only (they are C functions).           */
#ifndef C16_TEXT_SPEC_H
#define C16_TEXT_SPEC_H
#include "C16/char_spec.h"
#include "C16/u8_spec.h"

/* ---- label: "keep [0-9A-Za-z._:-] lower-cased and multi-byte characters whole, drop the rest"
 * (defined for valid UTF-8 sources: characters are delimited by u8_char_at) */
#define LABEL_KEEP(c) (IS_ALPHA(c) || IS_DIGIT(c) || (c) == '.' || (c) == '_' || (c) == '-' || (c) == ':')
static bool spec_label_matches(const char * in, const char * out) {
	size_t i = 0, o = 0;
	while (in[i] != 0) {
		int n = u8_char_at((const unsigned char *)in, i);
		if (n > 1) {
			for (int k = 0; k < n; k++) {              /* a multi-byte character: all of its bytes, unchanged */
				if (out[o] != in[i + k]) {
					return false;
				}
				o++;
			}
		} else if (LABEL_KEEP(in[i])) {
			char want = IS_UPPER(in[i]) ? (char)(in[i] + ('a' - 'A')) : in[i];
			if (out[o] != want) {
				return false;
			}
			o++;
		}
		i += (n > 1) ? (size_t)n : 1;
	}
	return out[o] == 0;
}

/* ---- clean (lowercase == false, url_clean == false; no escaped line break in the source):
 *  the non-whitespace bytes of source and result are the same sequence (nothing lost, nothing added);
 *  the result has no leading/trailing whitespace and its only whitespace is single ' ' between two
 *  non-whitespace bytes, present iff the source has whitespace between the same two bytes */
#define SP_WS(c) ((c) == ' ' || (c) == '\t' || (c) == '\n' || (c) == '\r')
static bool spec_clean_matches(const char * in, const char * out) {
	size_t i = 0, o = 0;
	while (SP_WS(in[i])) {
		i++;                                        /* leading whitespace stripped */
	}
	while (in[i] != 0) {
		if (out[o] != in[i]) {                      /* the next non-whitespace byte, unchanged */
			return false;
		}
		i++;
		o++;
		bool gap = false;
		while (SP_WS(in[i])) {
			i++;
			gap = true;
		}
		if (in[i] != 0 && gap) {                    /* an inner run of whitespace is ONE space; a trailing run is dropped */
			if (out[o] != ' ') {
				return false;
			}
			o++;
		}
	}
	return out[o] == 0;
}

static bool has_escaped_line_break(const char * s) {
	for (size_t i = 0; s[i] != 0; i++) {
		if (s[i] == '\\' && (s[i + 1] == '\n' || s[i + 1] == '\r')) {
			return true;
		}
	}
	return false;
}

/* bytes >= 0x80 of source and result: same sequence */
static bool high_bytes_match(const char * in, const char * out) {
	size_t i = 0, o = 0;
	for (;;) {
		while (in[i] != 0 && UC(in[i]) < 0x80) {
			i++;
		}
		while (out[o] != 0 && UC(out[o]) < 0x80) {
			o++;
		}
		if (in[i] == 0 || out[o] == 0) {
			return in[i] == out[o];
		}
		if (in[i] != out[o]) {
			return false;
		}
		i++;
		o++;
	}
}

#endif
