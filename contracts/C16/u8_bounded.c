/* C16 (b),(c) / C11 (a) -- whole-string statements, BOUNDED: every NUL-terminated source of at most BN
 * bytes over the full byte domain.  Real label_from_string / clean_string (writer.c); DString is
 * the ghost sink lib/ds_sink.c (the ideal string; the real d_string.c's 1 KiB buffers exhaust the solver).
 *   valid UTF-8 in  =>  valid UTF-8 out                                  (C16)
 *   label  == the property's label function of the source               (C16 labels/ids, C11 keys)
 *   clean  == the whitespace-normalised source, no character lost/added (C11 values)
 * The specification side: C16/text_spec.h.                                                   */
#include "C16/text_spec.h"
#include "d_string.h"

#ifndef BN
#define BN 5
#endif

char * label_from_string(const char * str);
char * clean_string(const char * str, bool lowercase, bool url_clean);

/* (bytes come from a named array so that the native replay can feed the counterexample) */
#define MK_SRC(s) char * s = ALLOC(BN + 1); { IN_ARR(unsigned char, src_b, BN); for (size_t i_ = 0; i_ < BN; i_++) { s[i_] = (char)src_b[i_]; } } s[BN] = 0;

#define PRE_label_valid u8_valid(str)
#define POST_label_valid (RET != NULL && u8_valid(RET) && spec_label_matches(str, RET) && u8_strlen(RET) <= u8_strlen(str))
void h_label_valid(void) {
	MK_SRC(str)
	CALLR(char *, label_from_string(str), PRE_label_valid, POST_label_valid)
	free(RETV);
	REACH();
}

/* any bytes (not assumed valid): safety, termination within the bound, and high bytes are never altered */
void h_label_any(void) {
	MK_SRC(str)
	CALLR(char *, label_from_string(str), 1, (RET != NULL && u8_strlen(RET) <= u8_strlen(str)))
	free(RETV);
	REACH();
}

#define PRE_clean_valid u8_valid(str)
#define POST_clean_valid (RET != NULL && u8_valid(RET) && high_bytes_match(str, RET) \
	&& (lowercase || url_clean || has_escaped_line_break(str) || spec_clean_matches(str, RET)))
void h_clean_valid(void) {
	MK_SRC(str)
	IN(bool, lowercase);
	IN(bool, url_clean);
	CALLR(char *, clean_string(str, lowercase, url_clean), PRE_clean_valid, POST_clean_valid)
	free(RETV);
	REACH();
}

/* any bytes: high bytes still pass through unchanged and in order */
void h_clean_any(void) {
	MK_SRC(str)
	IN(bool, lowercase);
	IN(bool, url_clean);
	CALLR(char *, clean_string(str, lowercase, url_clean), 1, (RET != NULL && high_bytes_match(str, RET)))
	free(RETV);
	REACH();
}
