/* C16 (a) -- the byte classes of /repo/src/char.c against the sets documented in char.h, for ALL 256
 * bytes (one symbolic byte, loop-free: a finite, complete case split), and the agreement of the three
 * formulations of "valid UTF-8" used by the C16/C11 units with each other and with /repo's own
 * utf8_check on all short strings (bounded).  char.c is linked unmodified; static initialisers are
 * kept in plain mode, so it is the real table that is read.                                   */
#include "C16/char_spec.h"
#include "C16/u8_spec.h"

#define CHK(fn) { CALLR(int, fn(c), 1, POST_##fn) }

void h_char_classes(void) {
	IN(char, c);
	CHK(char_is_whitespace)
	CHK(char_is_line_ending)
	CHK(char_is_punctuation)
	CHK(char_is_alpha)
	CHK(char_is_digit)
	CHK(char_is_alphanumeric)
	CHK(char_is_lower_case)
	CHK(char_is_upper_case)
	CHK(char_is_intraword)
	CHK(char_is_whitespace_or_line_ending)
	CHK(char_is_whitespace_or_punctuation)
	CHK(char_is_whitespace_or_line_ending_or_punctuation)
	/* C16: no byte >= 0x80 (lead, continuation, 0xA0) is in any class */
	if (UC(c) >= 0x80) {
		ASSERT(!char_is_whitespace(c) && !char_is_line_ending(c) && !char_is_punctuation(c) && !char_is_alpha(c)
			   && !char_is_digit(c) && !char_is_alphanumeric(c) && !char_is_lower_case(c) && !char_is_upper_case(c)
			   && !char_is_intraword(c) && !char_is_whitespace_or_line_ending(c) && !char_is_whitespace_or_punctuation(c)
			   && !char_is_whitespace_or_line_ending_or_punctuation(c), "every class is empty for bytes >= 0x80 (0xA0 is not whitespace)");
	}
	/* C01: the terminating NUL is a line ending -- every forward scan 'until line ending' stops at it */
	ASSERT(char_is_line_ending(0) != 0 && char_is_whitespace_or_line_ending(0) != 0, "NUL is a line ending");
	ASSERT(char_is_whitespace(0) == 0 && char_is_alphanumeric(0) == 0 && char_is_punctuation(0) == 0, "NUL is in no other class");
	REACH();
}

#ifndef U8N
#define U8N 4
#endif
/* all NUL-terminated strings of at most U8N bytes (full byte domain) */
void h_utf8_spec_agree(void) {
	char * s = ALLOC(U8N + 1);
	IN_FILL(s, U8N);
	s[U8N] = 0;
	bool v = u8_valid(s);
	ASSERT(u8_dfa_valid(s) == v, "automaton U8_STEP accepts exactly the strings the table-3-7 validator accepts");
	ASSERT(u8_seg_valid(s) == v, "local (segment) formulation of validity is equivalent");
	unsigned char * bad = utf8_check((unsigned char *)s);
	ASSERT((bad == NULL) == (v && !u8_has_fffe(s)), "/repo utf8_check accepts exactly the valid strings without U+FFFE/U+FFFF");
	REACH();
}
