/* C16 (d) -- trim_trailing_whitespace_d_string (/repo/src/writer.c, unmodified) on a DString of SYMBOLIC
 * capacity (up to 2^40) and length, full byte domain, loop by contract; char_is_whitespace by its
 * contract (proved for all 256 bytes in c16_char_classes).
 *   - every removed byte (ghost index g_t over [new length, old length)) was ' ' or '\t' => only 7-bit
 *     bytes are removed, a multi-byte sequence is never cut;
 *   - every byte below the new length is unchanged; the string stays NUL-terminated (DS_WF);
 *   - the trim is maximal (new length 0 or the last remaining byte is not whitespace);
 *   - empty and all-blank strings included (a defect found here -- the pointer &d->str[-1] was formed for
 *     them -- is fixed in /repo 4f59e4c);  NULL is accepted.                                    */
#include "C16/char_spec.h"
#include "ds_spec.h"

#ifndef CAP_MAX
#define CAP_MAX (1UL << 40)
#endif
void trim_trailing_whitespace_d_string(DString * d);

size_t g_t;        /* ghost: an arbitrary index */
char g_bt;         /* ghost: the byte at g_t before the call */
#define DLEN(d) ((d)->currentStringLength)
#define PRE_trim (DS_WF(d) && d->currentStringBufferSize <= CAP_MAX && g_t < d->currentStringBufferSize && g_bt == d->str[g_t])
#define POST_trim (DS_WF(d) && DLEN(d) <= OLD(DLEN(d)) && d->str == OLD(d->str) && d->currentStringBufferSize == OLD(d->currentStringBufferSize) \
	&& (g_t >= DLEN(d) || d->str[g_t] == g_bt) \
	&& (g_t < DLEN(d) || g_t >= OLD(DLEN(d)) || IS_WS(g_bt)) \
	&& (DLEN(d) == 0 || !IS_WS(d->str[DLEN(d) - 1])))
CONTRACT(void, trim_trailing_whitespace_d_string, (DString * d), PRE_trim, POST_trim, DS_FRAME_NOGROW(d))

void h_trim(void) {
	IN(size_t, cap);
	IN(size_t, slen);
	ASSUME(cap >= 1 && cap <= CAP_MAX && slen < cap);
	DString * d = ALLOC(sizeof(DString));
	d->str = ALLOC(cap);
	d->currentStringBufferSize = cap;
	d->currentStringLength = slen;
#ifdef CAP_SMALL
	{ IN_ARR(char, fill, CAP_MAX); for (size_t i = 0; i < CAP_MAX; i++) { if (i < slen) { d->str[i] = fill[i]; } } }
#endif
	d->str[slen] = 0;
	{ IN(size_t, t); ASSUME(t < cap); g_t = t; }
	g_bt = d->str[g_t];
	CALLV(trim_trailing_whitespace_d_string(d), PRE_trim, POST_trim)
	REACH();
}

void h_trim_null(void) {
	trim_trailing_whitespace_d_string(NULL);
	REACH();
}
