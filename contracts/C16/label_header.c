/* C16 / C10 -- label_from_header (writer.c, the real function) hands back the label that label_from_token made, UNTOUCHED:
 * label_from_token / label_from_string build the label from whole characters of the heading (their contracts: the lbl_* / hdr_label_*
 * units); this function only chooses WHICH span is labelled -- the manual label when there is one, otherwise the heading text without
 * a Setext underline marker.  label_from_token, manual_label_from_header, token_new and token_free are used by contract.
 *   requires EXT_RANDOM_LABELS off, a label of any length <= LL bytes (any bytes, e.g. a run of multi-byte characters)
 *   ensures  the result IS the string label_from_token returned (same block) and every byte of it, terminator included, is as
 *            label_from_token left it (ghost index) -- in particular it is not cut at a byte offset, which could split a character
 *   ensures  the span labelled is the manual label if there is one; otherwise [t->start, t->len) -- up to the Setext marker for a
 *            Setext heading -- and the temporary token is released
 * LL = 70 covers labels longer than any round number of bytes a cap might choose below that. */
#include "verif.h"
#include "d_string.h"
#include "stack.h"
#include "mmd.h"
#include "token.h"
#include "writer.h"
#ifndef LL
#define LL 70
#endif
static char * g_lab; static char g_orig[LL + 1]; static token * g_manual; static token * g_given; static size_t g_gs, g_gl; static int g_new, g_freed, g_calls; static token * g_tmp;
token * manual_label_from_header(token * h, const char * source) { return g_manual; }
char * label_from_token(const char * source, token * t) { g_calls++; g_given = t; g_gs = t->start; g_gl = t->len; return g_lab; }
token * token_new(unsigned short type, size_t start, size_t len) {
	token * t = ALLOC(sizeof(token)); g_new++; g_tmp = t;
	t->type = type; t->start = start; t->len = len; t->next = NULL; t->prev = NULL; t->child = NULL; t->tail = t; t->mate = NULL;
	return t;
}
void token_free(token * t) { if (t == g_tmp) { g_freed++; } }
void h_label_header(void) {
	char src[4] = "abc";
	scratch_pad * sp = ALLOC(sizeof(scratch_pad));
	{ IN(unsigned long, ext); ASSUME(!(ext & EXT_RANDOM_LABELS)); sp->extensions = ext; }
	IN(size_t, l); ASSUME(l <= LL);
	g_lab = ALLOC(LL + 1);
	for (size_t i = 0; i < LL; i++) { char c; ASSUME(c != 0); g_lab[i] = (i < l) ? c : 0; g_orig[i] = g_lab[i]; }
	g_lab[LL] = 0; g_orig[LL] = 0;
	token * h = ALLOC(sizeof(token)); IN(unsigned short, hty); IN(size_t, hs); IN(size_t, hl); ASSUME(hs < 1000 && hl < 1000);
	h->type = hty; h->start = hs; h->len = hl; h->next = NULL; h->prev = NULL; h->child = NULL; h->tail = h; h->mate = NULL;
	IN(bool, has_child); IN(unsigned short, tailty); IN(size_t, ts); ASSUME(ts >= hs && ts <= hs + hl);
	if (has_child) { token * c = ALLOC(sizeof(token)); c->type = tailty; c->start = ts; c->len = 0; c->next = NULL; c->prev = NULL; c->child = NULL; c->tail = c; c->mate = NULL; h->child = c; }
	IN(bool, manual); g_manual = manual ? (token *)ALLOC(sizeof(token)) : NULL; if (g_manual) { g_manual->start = 1; g_manual->len = 1; }
	char * r = label_from_header(src, h, sp);
	ASSERT(g_calls == 1 && r == g_lab, "C10/C16: the header's label is the string label_from_token made");
	IN(size_t, k); ASSUME(k <= LL);
	ASSERT(r[k] == g_orig[k], "C16: the label is handed back untouched, terminator included (ghost index): it is never cut at a byte offset");
	if (manual) {
		ASSERT(g_given == g_manual && g_new == 0, "C10: a manual label is used when the heading has one");
	} else {
		bool setext = has_child && (tailty == MARKER_SETEXT_1 || tailty == MARKER_SETEXT_2);
		ASSERT(g_given == g_tmp && g_new == 1 && g_freed == 1, "the automatic label is made from a temporary token, which is released");
		ASSERT(g_gs == hs && g_gl == (setext ? ts - hs : hl), "C10: the automatic label covers the heading's text, without the Setext underline marker");
	}
	REACH();
}
