# ---------------------------------------------------------------- C16 valid UTF-8 in, valid UTF-8 out
PROPS["C16"] = {
    "level": "other",
    "explanation": "Decomposed as in DESIGN 4/C16 over the byte-level mechanisms the property names (labels/ids, cleaned strings = metadata values, link labels, "
                   "url strings; trimming).  PROOF units (goto-instrument --dfcc contracts + loop contracts on the unmodified functions, sources/buffers of SYMBOLIC size "
                   "up to 2^40, full byte domain, input NOT assumed valid): (a) every char_is_* of char.c equals the set documented in char.h for all 256 bytes, every "
                   "class is empty above 0x7F (0xA0 is not whitespace), NUL is a line ending; (b) label_from_string consumes its input in segments that start at a "
                   "non-continuation byte and end at the next one (for valid UTF-8: exactly the characters), emits a multi-byte segment whole, byte for byte, in order, "
                   "and hands only 7-bit bytes to tolower; (c) clean_string emits every byte >= 0x80 unchanged at its turn (ghost index over all source positions) and its "
                   "trailing trim removes only ASCII whitespace/line endings; (d) trim_trailing_whitespace_d_string removes only blanks, for all capacities.  BOUNDED units "
                   "(all sources of <= 5 bytes in the quick tier, <= 7 thorough, full byte domain) decide the whole-string statement: valid UTF-8 in => valid UTF-8 out, the "
                   "result equals the property's label function / whitespace-normalised text (C16/text_spec.h), bytes >= 0x80 are the same sequence in and out, and "
                   "header_clean_trailing_whitespace cuts only ASCII whitespace off heading tokens.  The three formulations of validity used (table-3-7 decoder, automaton, "
                   "local segment form) and /repo's utf8_check are proved to agree on all strings of <= 6 bytes.",
    "slice": "char.c: char_is_* (12 functions), utf8_check; writer.c: label_from_string, clean_string, trim_trailing_whitespace_d_string, header_clean_trailing_whitespace (+ token.c token_trim_trailing_whitespace under it); label_from_header (label handed back untouched: no cut at a byte offset); standalone superscript/subscript arm (marker ends at an ASCII byte)",
    "not_reached": "the re2c lexer's own byte classes (WS=[ \\t\\240] in lexer.re / meta_key in scanners.re: generated code, out of CBMC's reach -- the one place the property text itself worries about); "
                   "writers end to end; token_trim_* (trim_leading / trim_trailing / trim_both, shared with C15: only space, TAB, line endings and NUL are ever trimmed -- no byte of a multi-byte character -- for sources of any length); the five per-character escapers (esc_char_*: shared with C04/C08, full byte domain x flags, including the obfuscating path of mmd_print_char_html) carry the C16 obligation 'a byte >= 0x80 is passed through unchanged'.  Whole-string valid => valid for UNBOUNDED length is the "
                   "induction over the per-segment facts of the proof units; it is not machine-checked (it needs the quantified hypothesis 'every character of the source is well-formed', "
                   "which the SAT back end cannot carry; the same unit under the z3 back end did not finish in 10 min).",
    "trusted_base": ["cbmc/goto-cc/goto-instrument 6.11.0 (DFCC instrumentation, MiniSat2)", "C16/u8_sink.c and lib/ds_sink.c (DString as the ideal string; refinement: C19)",
                     "C16/libc_c16.c (tolower in the C locale, strncmp, strcmp reference models)", "x86-64 LP64, char signed"],
    "assumptions": ["DString behaves as the ideal string (proved: C19)", "the \"C\" locale is in force (/repo never calls setlocale): tolower is the identity outside A-Z",
                    "'valid UTF-8' is the Unicode/RFC 3629 definition (U+FFFE/U+FFFF are valid; /repo's utf8_check additionally rejects them -- difference proved exact on <= 6 bytes)"],
}

U("c16_char_classes", ["C16", "C01"], "h_char_classes", ["C16/chars.c"], ["char.c"], plain=True, lib=(), kind="proof",
  functions=["char_is_whitespace", "char_is_line_ending", "char_is_punctuation", "char_is_alpha", "char_is_digit", "char_is_alphanumeric",
             "char_is_lower_case", "char_is_upper_case", "char_is_intraword", "char_is_whitespace_or_line_ending",
             "char_is_whitespace_or_punctuation", "char_is_whitespace_or_line_ending_or_punctuation"],
  bounds={}, native={"repo": ["char.c"]}, min_obligations=20,
  callees={"smart_char_type": "the real table (static initialiser kept in plain mode)"})
U("c16_utf8_spec_agree4", ["C16"], "h_utf8_spec_agree", ["C16/chars.c"], ["char.c"], plain=True, lib=(), kind="bounded",
  defines=["-DU8N=4"], bounds={"string length<=": 4, "unwind": 6}, cbmc_flags=["--unwind", "6", "--unwinding-assertions"],
  functions=["utf8_check"], native={"repo": ["char.c"]}, min_obligations=10)
U("c16_utf8_spec_agree6", ["C16"], "h_utf8_spec_agree", ["C16/chars.c"], ["char.c"], plain=True, lib=(), kind="bounded",
  defines=["-DU8N=6"], bounds={"string length<=": 6, "unwind": 8}, cbmc_flags=["--unwind", "8", "--unwinding-assertions"],
  functions=["utf8_check"], native={"repo": ["char.c"]}, min_obligations=10, timeout=600)

# ---- label_from_string: size-generic, both loops by contract
import re as _re
def _inv(txt, base="g_src"):
    """OFF(p) -> offset of p in the source object (pointer difference to the ghost base)"""
    return _re.sub(r"OFF\((\w+)\)", r"((unsigned long)\1 - (unsigned long)g_src)", " ".join(txt.split()))
_SINK_OK = "out->currentStringLength == g_cnt && g_cnt <= g_n && out->str[g_cnt] == 0"
_IN_SRC = "__CPROVER_same_object(%s, g_src) && OFF(%s) <= g_n"
_LABEL_ASSIGNS = "str, next_char, g_last, g_cnt, g_uout, out->currentStringLength, __CPROVER_object_whole(out->str)"
_LABEL_LOOPS = {"label_from_string": [
    {"loop_id": 1, "vars": ["str", "next_char", "out"],
     "invariants": _inv(_IN_SRC % ("str", "str") + " && (OFF(str) == 0 || (*str & 0xC0) != 0x80) && "
                        + _SINK_OK + " && g_cnt <= OFF(str)"),
     "assigns": _LABEL_ASSIGNS,
     "decreases": _inv("g_n - OFF(str)")},
    {"loop_id": 0, "vars": ["str", "next_char", "out"],
     "invariants": _inv(_IN_SRC % ("str", "str") + " && " + _IN_SRC % ("next_char", "next_char") + " && next_char == str + 1 && OFF(next_char) <= g_n"
                        " && g_last == (unsigned char)*str && " + _SINK_OK + " && g_cnt <= OFF(str) + 1"
                        " && (unsigned long)str >= (unsigned long)__CPROVER_loop_entry(str) && g_cnt - __CPROVER_loop_entry(g_cnt) == (unsigned long)str - (unsigned long)__CPROVER_loop_entry(str)"
                        " && (str == __CPROVER_loop_entry(str) || (*str & 0xC0) == 0x80)"),
     "assigns": _LABEL_ASSIGNS,
     "decreases": _inv("g_n - OFF(next_char)")},
]}
U("c16_label_loop", ["C16", "C01"], "h_label", ["C16/label_loop.c"], ["writer.c"], enforce="label_from_string", loops=_LABEL_LOOPS,
  lib=("C16/u8_sink.c", "C16/libc_c16.c"), defines=["-DTOLOWER_STRICT", "-DTOLOWER_7BIT"], small=["-DSRC_SMALL", "-DSRC_MAX=6"], min_obligations=30,
  callees={"d_string_new/d_string_append_c/d_string_free": "ghost sink C16/u8_sink.c (DString specification, symbolic capacity)",
           "tolower": "C-locale model that CHECKS its argument: C11 7.4p1 range and 7-bit only (C16/libc_c16.c)"},
  assumptions=["DString behaves as the ideal string (proved: C19)", "source shorter than 2^40 bytes"])

# ---- clean_string: size-generic, both loops by contract (loop 0 = scan, loop 1 = trailing trim)
_WSLE = "(%s == ' ' || %s == '\\t' || %s == '\\n' || %s == '\\r' || %s == 0)"
_GK = "(unsigned char)g_src[g_k]"
_CLEAN_LOOPS = {"clean_string": [
    {"loop_id": 0, "vars": ["str", "out", "block_whitespace", "lowercase", "url_clean"],
     "invariants": _inv(_IN_SRC % ("str", "str") + " && " + _SINK_OK + " && g_cnt <= OFF(str)"
                        " && (OFF(str) != g_k + 1 || " + _GK + " < 0x80 || g_last == " + _GK + ")"
                        " && (OFF(str) != g_k + 1 || lowercase || url_clean || " + _GK + " == ' ' || " + _GK + " == '\\t' || " + _GK + " == '\\n' || " + _GK + " == '\\r' || "
                        + _GK + " == '\\\\' || g_last == " + _GK + ")"
                        " && (OFF(str) != g_k + 1 || url_clean || " + _GK + " != '\\\\' || g_last == ((g_src[g_k + 1] == '\\n' || g_src[g_k + 1] == '\\r') ? '\\n' : '\\\\'))"),
     "assigns": "str, block_whitespace, g_last, g_cnt, g_uout, out->currentStringLength, __CPROVER_object_whole(out->str)",
     "decreases": _inv("g_n - OFF(str)")},
    {"loop_id": 1, "vars": ["out", "clean"],
     "invariants": "clean == out->str && out->currentStringLength <= g_cnt && g_cnt <= g_n && clean[g_cnt] == 0 && clean[out->currentStringLength] == 0"
                   " && (g_t < out->currentStringLength || g_t >= __CPROVER_loop_entry(out->currentStringLength) || "
                   + (_WSLE.replace("%s", "__CPROVER_loop_entry(clean[g_t])")) + ")"
                   " && (g_t >= out->currentStringLength || clean[g_t] == __CPROVER_loop_entry(clean[g_t]))",
     "assigns": "out->currentStringLength, __CPROVER_object_whole(out->str)",
     "decreases": "out->currentStringLength"},
]}
U("c16_clean_loop", ["C16", "C11", "C01"], "h_clean", ["C16/clean_loop.c"], ["writer.c"], enforce="clean_string", loops=_CLEAN_LOOPS,
  replace=["char_is_whitespace_or_line_ending"], lib=("C16/u8_sink.c", "C16/libc_c16.c"), defines=["-DTOLOWER_STRICT"], small=["-DSRC_SMALL", "-DSRC_MAX=6"], min_obligations=30,
  callees={"d_string_new/d_string_append_c/d_string_free": "ghost sink C16/u8_sink.c (DString specification, symbolic capacity)",
           "char_is_whitespace_or_line_ending": "contract (proved for all 256 bytes: c16_char_classes)",
           "tolower": "C-locale model that CHECKS C11 7.4p1 on its argument (C16/libc_c16.c)", "strncmp": "loop-free model (n <= 5)"},
  assumptions=["DString behaves as the ideal string (proved: C19)", "source shorter than 2^40 bytes",
               "the \"C\" locale is in force (/repo never calls setlocale): tolower is the identity outside A-Z"])

# ---- whole-string statements, bounded (DString = ghost sink; the real d_string.c with its 1 KiB buffers exhausts the SAT solver here)
_WB_REPO = ["writer.c", "char.c"]
_WB_NATIVE = {"repo": ["writer.c"], "ldflags": ["/repo/_build/libMultiMarkdown.a", "-lm"]}   # replay: writer.c from the tree under check, the rest of the library from the build
def _bounded(name, entry, fns, bn, tier, extra_def=(), props=("C16",), strict=False, unwind=None, **kw):
    U(name, list(props), entry, ["C16/u8_bounded.c"], _WB_REPO, plain=True, lib=("lib/ds_sink.c", "lib/libc_models.c", "C16/libc_c16.c"),
      defines=["-DBN=%d" % bn, "-DSINK_CAP=%d" % (bn + 3)] + (["-DTOLOWER_STRICT"] if strict else []) + list(extra_def), kind="bounded", tier=tier,
      bounds={"source length<=": bn, "unwind": unwind or bn + 2}, cbmc_flags=["--unwind", str(unwind or bn + 2), "--unwinding-assertions"],
      functions=fns, min_obligations=20, timeout=600, cost=40, native=_WB_NATIVE,
      callees={"d_string_*": "ghost sink lib/ds_sink.c (DString specification; refinement by d_string.c is C19)", "char_is_whitespace_or_line_ending": "real body and table", "libc byte movers": "lib/libc_models.c reference loops",
               "tolower": "C-locale model" + (" checking C11 7.4p1" if strict else "")},
      assumptions=[NOFAIL, "the \"C\" locale is in force (/repo never calls setlocale)"], **kw)
_bounded("c16_label_valid_B5", "h_label_valid", ["label_from_string"], 5, "quick", extra_def=["-DTOLOWER_7BIT"], strict=True, props=("C16", "C11"))
_bounded("c16_label_valid_B7", "h_label_valid", ["label_from_string"], 7, "thorough", extra_def=["-DTOLOWER_7BIT"], strict=True, props=("C16", "C11"))
_bounded("c16_label_any_B5", "h_label_any", ["label_from_string"], 5, "quick", extra_def=["-DTOLOWER_7BIT"], strict=True, props=("C16", "C01"))
_bounded("c16_clean_valid_B5", "h_clean_valid", ["clean_string"], 5, "quick", strict=True, props=("C16", "C11"))
_bounded("c16_clean_valid_B7", "h_clean_valid", ["clean_string"], 7, "thorough", strict=True, props=("C16", "C11"))
_bounded("c16_clean_any_B5", "h_clean_any", ["clean_string"], 5, "quick", strict=True, props=("C16", "C01"))
# Two defects these units found were fixed in /repo (9a373f6: clean_string's '&' arm did not clear block_whitespace, "Tom & Jerry" -> "Tom &Jerry",
# counterexample bytes 26 0A 40 26; 05f5a53: clean_string(lowercase) handed tolower() a negative char for bytes >= 0x80, C11 7.4p1).
# The exact-content check covers '&', and the strict tolower range check (C11 7.4p1) is part of every clean_string unit.

# ---- trims (a defect found here -- &d->str[-1] formed for an empty / all-blank DString, C11 6.5.6p8 -- is fixed in /repo 4f59e4c)
_TRIM_LOOP = {"trim_trailing_whitespace_d_string": [{
    "loop_id": 0, "vars": ["d"],
    "invariants": "d->currentStringLength <= __CPROVER_loop_entry(d->currentStringLength) && d->currentStringLength < d->currentStringBufferSize"
                  " && d->str[d->currentStringLength] == 0"
                  " && (g_t >= d->currentStringLength || d->str[g_t] == g_bt)"
                  " && (g_t < d->currentStringLength || g_t >= __CPROVER_loop_entry(d->currentStringLength) || g_bt == ' ' || g_bt == '\\t')",
    "assigns": "d->currentStringLength, __CPROVER_object_whole(d->str)",
    "decreases": "d->currentStringLength"}]}
U("c16_trim_dstring", ["C16", "C01"], "h_trim", ["C16/trim.c"], ["writer.c"], enforce="trim_trailing_whitespace_d_string", loops=_TRIM_LOOP,
  replace=["char_is_whitespace"], lib=(), small=["-DCAP_SMALL", "-DCAP_MAX=8"], min_obligations=20,
  callees={"char_is_whitespace": "contract (proved for all 256 bytes: c16_char_classes)"},
  assumptions=["DString capacity <= 2^40"])
U("c16_trim_dstring_null", ["C16", "C01"], "h_trim_null", ["C16/trim.c"], ["writer.c"], plain=True, lib=(), min_obligations=0,
  functions=["trim_trailing_whitespace_d_string"], callees={})
U("c16_header_trim_K3", ["C16", "C01"], "h_header_trim", ["C16/header_trim.c"], ["writer.c", "token.c", "char.c"], plain=True, lib=(), kind="bounded",
  defines=["-DHN=6", "-DHK=3"], bounds={"source length<=": 6, "tokens in the heading<=": 3, "unwind": 9}, cbmc_flags=["--unwind", "9", "--unwinding-assertions"],
  functions=["header_clean_trailing_whitespace", "token_trim_trailing_whitespace", "char_is_whitespace_or_line_ending"],
  callees={"token_trim_trailing_whitespace/char_is_whitespace_or_line_ending": "real bodies and table"}, min_obligations=20, timeout=600, cost=20,
  assumptions=["token spans lie inside the source (C15)"])

# ---- label_from_header passes label_from_token's result through untouched (no cut at a byte offset)
U("c16_label_from_header_passthrough", ["C16", "C10"], "h_label_header", ["C16/label_header.c"], ["writer.c"], plain=True, lib=("lib/libc_models.c",), kind="bounded",
  defines=["-DLL=70", "-DI18N_DISABLED=1"], drop_bodies=["manual_label_from_header", "label_from_token"],
  pre_instrument=["--remove-function-body-regex", "^(?!label_from_header$|manual_label_from_header$|label_from_token$|token_new$|token_free$|strlen$|h_label_header$|verif_.*$|__CPROVER.*$).*"],
  cbmc_flags=["--unwind", "73", "--unwinding-assertions"], bounds={"label length<=": 70, "unwind": 73},
  functions=["label_from_header"], callees={"label_from_token, manual_label_from_header": "contract stubs (their contracts: lbl_* / hdr_label_* units)", "token_new, token_free": "counting stubs"},
  min_obligations=10, timeout=300, cost=15, assumptions=[NOFAIL, "EXT_RANDOM_LABELS off (the random arm makes a decimal number)"])
