/* u8_sink.c -- C16's ghost sink: the DString SPECIFICATION (ideal string, lib/ds_spec.h) restricted to
 * the three operations label_from_string / clean_string use (new(""), append_c, free), over a buffer of
 * SYMBOLIC capacity g_cap chosen by the harness, instrumented with ghost state observing the emitted
 * byte stream: the last byte emitted, the number of bytes emitted, and the UTF-8 automaton state of
 * the emitted stream (U8_STEP).  Units link this INSTEAD of /repo/src/d_string.c (that d_string.c
 * refines the ideal string is property C19).  Capacity overflow is an assertion.
 * (tolower / strncmp: C16/libc_c16.c)                                                            */
#include <stddef.h>
#include <stdbool.h>
#include <stdlib.h>
#include "d_string.h"
#include "C16/u8_spec.h"

extern size_t g_cap;          /* ghost: capacity handed to every DString created (harness-chosen) */
unsigned char g_last;         /* ghost: last byte emitted */
size_t g_cnt;                 /* ghost: number of bytes emitted */
unsigned char g_uout;         /* ghost: U8_STEP state of the emitted stream */

DString *d_string_new(const char *s) {
	__CPROVER_precondition(s != NULL && s[0] == 0, "u8 sink: DStrings start empty in the functions under contract");
	DString *d = malloc(sizeof(DString));
	__CPROVER_assume(d != NULL);
	d->str = malloc(g_cap);
	__CPROVER_assume(d->str != NULL);
	d->currentStringBufferSize = g_cap;
	d->currentStringLength = 0;
	d->str[0] = 0;
	return d;
}

void d_string_append_c(DString *d, char c) {
	if (d && c) {
		__CPROVER_assert(d->currentStringLength + 1 < d->currentStringBufferSize, "u8 sink capacity (harness bound) not exceeded");
		if (d->currentStringLength + 1 < d->currentStringBufferSize) {
			d->str[d->currentStringLength] = c;
			d->currentStringLength++;
			d->str[d->currentStringLength] = 0;
		}
		g_last = (unsigned char)c;
		g_cnt++;
		g_uout = U8_STEP(g_uout, c);
	}
}

char *d_string_free(DString *d, bool freeCharacterData) {
	if (!d) {
		return NULL;
	}
	char *r = d->str;
	if (freeCharacterData) {
		free(d->str);
		r = NULL;
	}
	free(d);
	return r;
}
