/* u8_spec.h -- the UTF-8 specification used by C16 (and C11):
 *   U8_STEP(st, b)  the well-formedness automaton of Unicode 15 table 3-7 / RFC 3629 as a pure macro
 *                   (usable in contracts and loop invariants; the ghost sink runs it on emitted bytes)
 *   u8_valid(s)     reference validator over a NUL-terminated string, written in the decode style of
 *                   the table (independent of the automaton; the two and /repo's utf8_check are proved
 *                   to agree on all short strings by unit c16_utf8_spec_agree)
 *   u8_seg_valid    the LOCAL formulation "every non-continuation position starts a well-formed
 *                   character that is followed by a non-continuation byte" (no automaton state),
 *                   proved equivalent on short strings in the same unit
 * "Valid UTF-8" is the standard's definition: noncharacters U+FFFE/U+FFFF are valid (Kuhn's
 * utf8_check in /repo/src/char.c additionally rejects them; that difference is stated exactly).  */
#ifndef C16_U8_SPEC_H
#define C16_U8_SPEC_H
#include "verif.h"

#define U8_ACC 0
#define U8_REJ 8
#define U8B(b) ((unsigned char)(b))
#define U8_IS_CONT(b) ((U8B(b) & 0xC0) == 0x80)
#define U8_IN(b, lo, hi) (U8B(b) >= (lo) && U8B(b) <= (hi))
/* states: 0 accept (character boundary); 1,2,3 = that many unconstrained continuation bytes pending;
 * 4 after E0 (next A0..BF), 5 after ED (next 80..9F), 6 after F0 (next 90..BF), 7 after F4 (next
 * 80..8F); 8 reject (absorbing) */
#define U8_STEP(st, b) ((unsigned char)( \
	(st) == 0 ? (U8B(b) < 0x80 ? 0 : U8_IN(b, 0xC2, 0xDF) ? 1 : U8B(b) == 0xE0 ? 4 : U8B(b) == 0xED ? 5 : U8_IN(b, 0xE1, 0xEF) ? 2 \
		: U8B(b) == 0xF0 ? 6 : U8_IN(b, 0xF1, 0xF3) ? 3 : U8B(b) == 0xF4 ? 7 : 8) \
	: (st) == 1 ? (U8_IS_CONT(b) ? 0 : 8) \
	: (st) == 2 ? (U8_IS_CONT(b) ? 1 : 8) \
	: (st) == 3 ? (U8_IS_CONT(b) ? 2 : 8) \
	: (st) == 4 ? (U8_IN(b, 0xA0, 0xBF) ? 1 : 8) \
	: (st) == 5 ? (U8_IN(b, 0x80, 0x9F) ? 1 : 8) \
	: (st) == 6 ? (U8_IN(b, 0x90, 0xBF) ? 2 : 8) \
	: (st) == 7 ? (U8_IN(b, 0x80, 0x8F) ? 2 : 8) \
	: 8))

/* length of the character a lead byte announces (0: not a lead of a well-formed character) */
#define U8_LEN(b) (U8B(b) < 0x80 ? 1 : U8_IN(b, 0xC2, 0xDF) ? 2 : U8_IN(b, 0xE0, 0xEF) ? 3 : U8_IN(b, 0xF0, 0xF4) ? 4 : 0)

#if defined(VERIF_PLAIN) || defined(VERIF_NATIVE)
/* table 3-7, row by row: admissible range of the SECOND byte for each lead */
static inline int u8_char_at(const unsigned char * s, size_t i) {
	/* number of bytes of the well-formed character starting at s[i], 0 if there is none */
	unsigned char b = s[i];
	int n = U8_LEN(b);
	if (n <= 1) {
		return n;
	}
	unsigned char lo = 0x80, hi = 0xBF;
	if (b == 0xE0) { lo = 0xA0; }
	if (b == 0xED) { hi = 0x9F; }
	if (b == 0xF0) { lo = 0x90; }
	if (b == 0xF4) { hi = 0x8F; }
	if (s[i + 1] < lo || s[i + 1] > hi) {
		return 0;
	}
	for (int k = 2; k < n; k++) {
		if (!U8_IS_CONT(s[i + k])) {   /* a NUL is not a continuation byte: never reads past the terminator */
			return 0;
		}
	}
	return n;
}

static inline bool u8_valid(const char * str) {
	const unsigned char * s = (const unsigned char *)str;
	size_t i = 0;
	while (s[i] != 0) {
		int n = u8_char_at(s, i);
		if (n == 0) {
			return false;
		}
		i += (size_t)n;
	}
	return true;
}

/* the automaton run over the string */
static inline bool u8_dfa_valid(const char * str) {
	unsigned char st = U8_ACC;
	for (size_t i = 0; str[i] != 0; i++) {
		st = U8_STEP(st, str[i]);
	}
	return st == U8_ACC;
}

/* local formulation: s[0] is not a continuation byte, and at every non-continuation position a
 * well-formed character starts and the byte after it is not a continuation byte */
static inline bool u8_seg_valid(const char * str) {
	const unsigned char * s = (const unsigned char *)str;
	if (U8_IS_CONT(s[0])) {
		return false;
	}
	for (size_t i = 0; s[i] != 0; i++) {
		if (!U8_IS_CONT(s[i])) {
			int n = u8_char_at(s, i);
			if (n == 0 || U8_IS_CONT(s[i + n])) {
				return false;
			}
		}
	}
	return true;
}

/* does the string contain U+FFFE / U+FFFF (EF BF BE / EF BF BF)?  Only used to state the exact
 * difference to /repo's utf8_check. */
static inline bool u8_has_fffe(const char * str) {
	const unsigned char * s = (const unsigned char *)str;
	for (size_t i = 0; s[i] != 0; i++) {
		if (s[i] == 0xEF && s[i + 1] == 0xBF && (s[i + 2] & 0xFE) == 0xBE) {
			return true;
		}
	}
	return false;
}

static inline size_t u8_strlen(const char * s) {
	size_t i = 0;
	while (s[i] != 0) {
		i++;
	}
	return i;
}
#endif

#endif
