/* libc_c16.c -- the two libc functions label_from_string / clean_string call besides the byte movers.
 *
 * tolower: the "C" locale definition (C11 7.4.2.1: maps A-Z to a-z, every other value to itself).
 *   /repo never calls setlocale, so the "C" locale is the one in force (assumption, listed).
 *   -DTOLOWER_STRICT: additionally CHECK C11 7.4p1 -- "the argument is an int, the value of which shall
 *   be representable as an unsigned char or shall equal EOF; otherwise the behavior is undefined".
 *   -DTOLOWER_7BIT: additionally CHECK the C16 rule that only 7-bit bytes are handed to the case
 *   mapper (so no byte of a multi-byte sequence can ever be case-mapped, in any locale).
 * strncmp: loop-free reference model for n <= 5 (the only call is strncmp(str, "&amp;", 5)).               */
#include <stddef.h>

int tolower(int c) {
#ifdef TOLOWER_STRICT
	__CPROVER_precondition(c == -1 || (c >= 0 && c <= 255), "tolower argument is EOF or representable as unsigned char (C11 7.4p1)");
#endif
#ifdef TOLOWER_7BIT
	__CPROVER_precondition(c >= 0 && c < 0x80, "C16: only 7-bit bytes are case-mapped (never a byte of a multi-byte sequence)");
#endif
	return (c >= 'A' && c <= 'Z') ? c + ('a' - 'A') : c;
}

/* loop-free (n <= 5): compare byte k if all earlier bytes were equal and non-NUL */
#define CMP1(k) if (n > (k)) { unsigned char x = (unsigned char)a[k], y = (unsigned char)b[k]; if (x != y) { return x < y ? -1 : 1; } if (x == 0) { return 0; } }
int strncmp(const char *a, const char *b, size_t n) {
	__CPROVER_precondition(n <= 5, "strncmp model: n <= 5 (the only call in the functions under contract)");
	CMP1(0) CMP1(1) CMP1(2) CMP1(3) CMP1(4)
	return 0;
}

int strcmp(const char *a, const char *b) {
	size_t i = 0;
	while (a[i] != 0 && a[i] == b[i]) {
		i++;
	}
	return (int)(unsigned char)a[i] - (int)(unsigned char)b[i];
}
