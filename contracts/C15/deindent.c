/* C15 -- deindent_line (mmd.c, real): "line stripping and marker re-insertion ... keep next/prev/tail/len coherent".
 * Shape: a line token whose children are contiguous inline tokens, the first one an indent (INDENT_TAB / INDENT_SPACE)
 * or not; spans symbolic.  Postcondition (from C15: spans inside the source, siblings consistently linked, order):
 * the indent token is removed and released; the remaining children are the old ones from the second on, the first with
 * prev == NULL and the old tail; the line now starts at its first child and still ENDS where it ended. */
#include "verif.h"
#include <stdio.h>
#include "d_string.h"
#include "libMultiMarkdown.h"
#include "token.h"
#include "mmd.h"
#include "parser.h"

void deindent_line(token * line);

static token * mk(unsigned short type, size_t start, size_t len) {
	token * t = ALLOC(sizeof(token));
	t->type = type; t->start = start; t->len = len; t->next = NULL; t->prev = NULL; t->child = NULL; t->tail = t; t->mate = NULL;
	t->can_open = 1; t->can_close = 1; t->unmatched = 1; t->out_start = 0; t->out_len = 0;
	return t;
}

void h_deindent(void) {
	IN(size_t, s0); IN(size_t, l0); IN(size_t, l1); IN(size_t, l2); IN(unsigned, n); IN(unsigned short, ty0);
	ASSUME(s0 <= (1UL << 40) && l0 >= 1 && l0 <= 8 && l1 <= (1UL << 20) && l2 <= (1UL << 20) && n >= 1 && n <= 3);
	token * c0 = mk(ty0, s0, l0);
	token * c1 = (n >= 2) ? mk(TEXT_PLAIN, s0 + l0, l1) : NULL;
	token * c2 = (n >= 3) ? mk(TEXT_NL, s0 + l0 + l1, l2) : NULL;
	if (c1) { c0->next = c1; c1->prev = c0; c0->tail = c1; }
	if (c2) { c1->next = c2; c2->prev = c1; c0->tail = c2; }
	size_t end = s0 + l0 + (c1 ? l1 : 0) + (c2 ? l2 : 0);
	token * line = mk(LINE_INDENTED_SPACE, s0, end - s0);
	line->child = c0;
	bool is_indent = (ty0 == INDENT_TAB || ty0 == INDENT_SPACE);
	deindent_line(line);
	if (!is_indent) {
		ASSERT(line->child == c0 && line->start == s0 && line->len == end - s0 && c0->next == c1, "postcondition: a line that does not start with an indent is left alone");
	} else if (n == 1) {
		ASSERT(line->child == NULL, "postcondition: the only child (an indent) is removed");
	} else {
		ASSERT(line->child == c1 && c1->prev == NULL && c1->next == c2 && c1->tail == (c2 ? c2 : c1), "postcondition C15: remaining children relinked (prev == NULL, tail kept)");
		ASSERT(line->start == c1->start, "postcondition C15: the line starts at its first remaining child");
		ASSERT(line->start + line->len == end, "postcondition C15: the line still ends where it ended (its span stays inside the source)");
		ASSERT(c1->start == s0 + l0 && c1->len == l1, "children untouched");
	}
	REACH();
}
