/* C15 -- enum relations as obligations on the REAL headers (loop-free, full proof): the list of comparisons is
 * generated from the headers by C15/gen_enums.py (committed copy: enum_gen.h; C15/facts.py regenerates it from the
 * tree under check on every run, has CBMC evaluate the fresh list, and flags a stale committed copy). */
#include "verif.h"
#include "libMultiMarkdown.h"
#include "critic_markup.h"
#include "token_pairs.h"
#include "parser.h"
#ifndef ENUM_GEN
#define ENUM_GEN "C15/enum_gen.h"
#endif
#define ENUM_FACT(cond, msg) ASSERT(cond, msg)
void h_enums(void) {
#include ENUM_GEN
	REACH();
}
