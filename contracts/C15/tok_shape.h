/* tok_shape.h -- BOUNDED token shapes for C15 (DESIGN 3.5): a builder and the well-formedness checker.
 *
 * Builder: every nondeterministic choice comes from input arrays declared IN THE HARNESS (TK_INPUTS),
 * so a CBMC counterexample can be replayed natively.  A shape has TN_MAX = TK + 4 tokens g_node[0..TN_MAX),
 * all allocated (node i takes start/len from st[i], ln[i]: any span inside the source [0,g_n), g_n symbolic);
 * which of them are linked, and how, is symbolic:
 *   top chain:   nodes 0..n-1, 1 <= n <= TK, start non-decreasing, prev/next consistent, head->prev == NULL,
 *                head->tail == last; a non-head `tail` is stale (itself or its predecessor)
 *   children:    extras x0..x3 = nodes TK..TK+3: chain A = x0 [-> x1] owned by top[CFG_CA], x0 may own the
 *                grandchild x2 (depth 2); chain B = x3 owned by top[CFG_CB]; or the extras form a second flat chain
 *                for the two-chain operations
 *   mates:       up to two disjoint symmetric pairs among all linked nodes (symbolic)
 * The LINK STRUCTURE (n, who owns which child chain, operand positions) is concrete per unit -- defs.py enumerates
 * the configurations; spans, types, mates, stale tails are symbolic (see tok_ops.c for the measurements).
 * Checker: TOK_CHAIN_WF(head) is exactly the structural part of C15's statement: finite, siblings doubly
 * linked consistently (both ways, first has no prev), non-decreasing source order, every [start,start+len)
 * inside [0,g_n), mates symmetric; children recursively.  `tail` is NOT in C15's statement: it is a
 * separate predicate TOK_TAIL_OK(head) (needed as a precondition because the code navigates by it).
 * Everything is plain C (walked natively under ASan in the replay).                                   */
#ifndef TOK_SHAPE_H
#define TOK_SHAPE_H
#include "verif.h"
#include "token.h"

#ifndef TK
#define TK 4            /* max length of the top-level chain */
#endif
#define TKX 4           /* extra nodes: child chains / second chain */
#define TN_MAX (TK + TKX)
#define TK_WALK (TK + 3) /* walk bound of the checker: surgery adds at most 2 siblings (token_split) */

size_t g_n;                         /* ghost: length of the source */
static token * g_node[TN_MAX + 1];  /* ghost: the tokens of the shape; g_node[TN_MAX] == NULL */
static bool g_used[TN_MAX + 1];     /* ghost: node is linked into the shape */
static size_t g_st0[TN_MAX + 1], g_ln0[TN_MAX + 1];   /* ghost: spans at build time */
static unsigned short g_ty0[TN_MAX + 1];

#ifdef SRC_LEN_MAX
#define TK_SRC_BOUND ASSUME(n_src <= SRC_LEN_MAX);
#else
#define TK_SRC_BOUND
#endif
#define TK_INPUTS IN(size_t, n_src); IN_ARR(size_t, st, TN_MAX); IN_ARR(size_t, ln, TN_MAX); IN_ARR(unsigned char, fl, TN_MAX); IN_ARR(unsigned char, mt, 4); \
	TK_SRC_BOUND g_n = n_src; tk_alloc_all(st, ln, fl);

/* all tokens of the shape: span inside the source; flag bit2: stale tail = predecessor (set when linked) */
static void tk_alloc_all(const size_t * st, const size_t * ln, const unsigned char * fl) {
	for (unsigned i = 0; i < TN_MAX; i++) {
		token * t = ALLOC(sizeof(token));
		ASSUME(st[i] <= g_n && ln[i] <= g_n - st[i]);
		t->type = (unsigned short)(100 + i); t->start = st[i]; t->len = ln[i];
		t->can_open = 1; t->can_close = 1; t->unmatched = 1; t->out_start = 0; t->out_len = 0;
		t->next = NULL; t->prev = NULL; t->child = NULL; t->mate = NULL; t->tail = t;
		g_node[i] = t; g_used[i] = false; g_st0[i] = t->start; g_ln0[i] = t->len; g_ty0[i] = t->type;
	}
	g_node[TN_MAX] = NULL; g_used[TN_MAX] = false;
}

/* link nodes base .. base+n-1 (n <= cap, cap a constant) into a chain whose starts are >= lo; returns the head */
static token * tk_link(unsigned base, unsigned cap, unsigned n, size_t lo, const unsigned char * fl) {
	ASSUME(n >= 1 && n <= cap);
	for (unsigned i = 0; i < cap; i++) {
		if (i < n) {
			token * t = g_node[base + i];
			ASSUME(t->start >= lo); lo = t->start;
			g_used[base + i] = true;
			if (i > 0) { token * p = g_node[base + i - 1]; p->next = t; t->prev = p; if (fl[base + i] & 4) t->tail = p; }
		}
	}
	g_node[base]->tail = g_node[base + n - 1];
	return g_node[base];
}

/* children hung below the top chain: chain A = x0 [-> x1] (CFG_AN tokens) owned by top[CFG_CA], x0 owns the grandchild
 * x2 when CFG_GN; chain B = x3 (CFG_BN) owned by top[CFG_CB].  The child STRUCTURE is concrete per unit (a symbolic one
 * makes the token_free/token_tree_free recursion unwind without end in symex); spans, mates, stale tails symbolic. */
#ifndef CFG_AN
#define CFG_AN 2
#endif
#ifndef CFG_GN
#define CFG_GN 1
#endif
#ifndef CFG_BN
#define CFG_BN 1
#endif
#ifndef CFG_CA
#define CFG_CA 0
#endif
#ifndef CFG_CB
#define CFG_CB 1
#endif
#define g_An ((unsigned)CFG_AN)
#define g_Gn ((unsigned)((CFG_AN) ? (CFG_GN) : 0))
#define g_Bn ((unsigned)(((CFG_CB) != (CFG_CA) || !(CFG_AN)) ? (CFG_BN) : 0))
static void tk_children(unsigned n_top, unsigned ca, unsigned cb, const unsigned char * fl) {
	if (g_An) { ASSUME(ca < n_top); g_node[ca]->child = tk_link(TK, 2, g_An, 0, fl); }
	if (g_Gn) { g_node[TK]->child = tk_link(TK + 2, 1, 1, 0, fl); }
	if (g_Bn) { ASSUME(cb < n_top); g_node[cb]->child = tk_link(TK + 3, 1, 1, 0, fl); }
}

/* optional symmetric mates: mt[0], mt[1] = first pair, mt[2], mt[3] = second pair (indices into g_node; used when
 * both are linked nodes, different, and neither is mated yet) */
static void tk_mates(const unsigned char * mt) {
	for (unsigned p = 0; p < 2; p++) {
		unsigned a = mt[2 * p], b = mt[2 * p + 1];
		if (a < TN_MAX && b < TN_MAX && a != b && g_used[a] && g_used[b] && g_node[a]->mate == NULL && g_node[b]->mate == NULL) {
			g_node[a]->mate = g_node[b]; g_node[b]->mate = g_node[a];
			g_node[a]->unmatched = 0; g_node[b]->unmatched = 0;
		}
	}
}

/* ------------------------------------------------------------------ checker */
/* C15's structural statement for one token, its links followed ONE step (a dangling link is a dereference
 * failure): span inside the source; next/prev mutually consistent; order; mate symmetric; a child chain
 * starts with a token that has no predecessor */
static bool tk_local_ok(token * t) {
	if (!(t->start <= g_n && t->len <= g_n - t->start)) return false;
	if (t->next != NULL && (t->next->prev != t || t->next->start < t->start)) return false;
	if (t->prev != NULL && t->prev->next != t) return false;
	if (t->mate != NULL && t->mate->mate != t) return false;
	if (t->child != NULL && t->child->prev != NULL) return false;
	return true;
}
/* TOK_CHAIN_WF with a WITNESS: the siblings starting at head are exactly seq[0..n) (n <= TK_WALK), finite (ends in
 * NULL), first has no predecessor, every one locally sound.  (Child chains get their own witness.) */
static bool tk_seq_wf(token * head, token * const * seq, unsigned n) {
	if (n == 0) return head == NULL;
	if (head != seq[0]) return false;
	for (unsigned i = 0; i < TK_WALK; i++) {
		if (i < n) {
			token * t = seq[i];
			if (t == NULL) return false;
			if (t->prev != (i > 0 ? seq[i - 1] : NULL)) return false;
			if (t->next != (i + 1 < n ? seq[i + 1] : NULL)) return false;
			if (!tk_local_ok(t)) return false;
		}
	}
	return n <= TK_WALK;
}
#define TOK_CHAIN_WF_AS(head, seq, n) tk_seq_wf((head), (seq), (n))
/* the child chains built by tk_children are untouched and sound (ownerA/ownerB: the tokens that must own them now) */
static bool tk_children_ok(token * ownerA, token * ownerB) {
	if (ownerA != NULL && g_An) {       /* NULL owner: that chain went away with its owner, nothing to look at */
		if (!tk_seq_wf(ownerA->child, &g_node[TK], g_An)) return false;
		if (!tk_seq_wf(g_node[TK]->child, &g_node[TK + 2], g_Gn)) return false;
		if (g_An == 2 && g_node[TK + 1]->child != NULL) return false;
		if (g_Gn && g_node[TK + 2]->child != NULL) return false;
	}
	if (ownerB != NULL && g_Bn) {
		if (!(tk_seq_wf(ownerB->child, &g_node[TK + 3], 1) && g_node[TK + 3]->child == NULL)) return false;
	}
	return true;
}
/* --- the same predicate WITHOUT a witness, by walking (used natively and in the thorough tier: the walk is
 * one order of magnitude more expensive for the SAT solver than the witness form) --- */
static bool tk_span_ok(const token * t) { return t->start <= g_n && t->len <= g_n - t->start; }

#define TK_DEF_WF(NAME, CHILD_WF, BOUND) \
static bool NAME(token * head) { \
	if (head == NULL) return true; \
	if (head->prev != NULL) return false;                         /* first sibling has no predecessor */ \
	token * t = head; \
	for (unsigned i = 0; i < (BOUND); i++) { \
		if (!tk_span_ok(t)) return false;                         /* [start,start+len) inside the source */ \
		if (t->mate != NULL && t->mate->mate != t) return false;  /* paired delimiters point at each other */ \
		if (t->child != NULL && !CHILD_WF(t->child)) return false; \
		if (t->next == NULL) return true;                         /* finite */ \
		if (t->next->prev != t) return false;                     /* doubly linked consistently */ \
		if (t->next->start < t->start) return false;              /* non-decreasing source order */ \
		t = t->next; \
	} \
	return false;                                                 /* longer than any shape of this family */ \
}
static bool tk_wf_none(token * head) { return head == NULL; }
/* walk bounds per level: a built shape has <= TK siblings at level 0, <= 2 at level 1, 1 at level 2; surgery adds
 * at most 2 siblings (token_split) or moves a top segment one level down (token_prune_graft, token_new_parent) */
TK_DEF_WF(tk_wf0, tk_wf_none, 1)
TK_DEF_WF(tk_wf1, tk_wf0, 2)
TK_DEF_WF(tk_wf2, tk_wf1, TK_WALK)
TK_DEF_WF(tk_wf3, tk_wf2, TK_WALK)
#define TOK_CHAIN_WF(head) tk_wf3(head)   /* depth <= 2 + 1: surgery adds at most one level */

/* last sibling reachable from t within the walk bound (NULL if the chain is longer) */
static token * tk_last(token * t) {
	for (unsigned i = 0; i < TK_WALK; i++) { if (t->next == NULL) return t; t = t->next; }
	return NULL;
}
#define TOK_TAIL_OK(head) ((head) != NULL && (head)->tail == tk_last(head))

/* the chain starting at head is exactly arr[0..n) in this order (with consistent back links) */
static bool tk_chain_is(token * head, token * const * arr, unsigned n) {
	token * t = head, * prev = NULL;
	for (unsigned i = 0; i < TK_WALK; i++) {
		if (i == n) return t == NULL;
		if (t == NULL || t != arr[i]) return false;
		if (i > 0 && t->prev != prev) return false;
		prev = t; t = t->next;
	}
	return false;
}
/* node i keeps its span and type */
static bool tk_same(unsigned i) { return g_node[i]->start == g_st0[i] && g_node[i]->len == g_ln0[i] && g_node[i]->type == g_ty0[i]; }
static bool tk_same_span(unsigned i) { return g_node[i]->start == g_st0[i] && g_node[i]->len == g_ln0[i]; }
#endif
