/* C15 -- tree-surgery primitives of /repo/src/token.c (and token_pair_mate of token_pairs.c) preserve the token
 * well-formedness predicate (tok_shape.h) over BOUNDED shapes, plus each operation's own effect.
 * Harness-encoded Hoare triples (plain units): build a shape from replayable inputs, call the REAL function,
 * check the result against C15's statement: siblings doubly linked consistently, non-decreasing source order,
 * every [start,start+len) inside the source, mates symmetric (TOK_CHAIN_WF_AS: the predicate with the expected
 * sibling sequence as witness, which is at the same time the operation's effect).
 * With -DDISABLE_OBJECT_POOL the check after the call is also the ownership check (C01): every token that must
 * survive is dereferenced, and every link stored in a survivor is followed one step -- a use-after-free is a
 * "deallocated dynamic object" failure in CBMC and an ASan report in the native replay.
 * `tail` (head of chain -> last sibling) is not in C15's statement; it is required before the call (the code
 * navigates by it) and asserted after the call wherever the code maintains it (see the comments for the cases
 * where it does not).                                                                                         */
#include "tok_shape.h"
void token_pair_mate(token * a, token * b);

/* index of t in the ghost node table, TN_MAX if it is not a token of the built shape (i.e. a new one) */
static unsigned tk_id(const token * t) {
	for (unsigned i = 0; i < TN_MAX; i++) { if (g_node[i] == t) return i; }
	return TN_MAX;
}
/* CONFIGURATION of one unit: the link structure is CONCRETE (chain length CFG_N, positions CFG_A <= CFG_B of the
 * operands); spans, types, child-chain owners and lengths, stale tails, mates and NULL arguments are symbolic.
 * (Measured: with symbolic positions one unit costs 50-200 s, with concrete ones 1-3 s; defs.py enumerates all
 * configurations up to the bound K.) */
#ifndef CFG_N
#define CFG_N 3
#endif
#ifndef CFG_A
#define CFG_A 0
#endif
#ifndef CFG_B
#define CFG_B CFG_A
#endif
/* NULL arguments of the FREEING operations are a configuration too (bit0: first argument NULL, bit1: second): a
 * symbolic NULL makes the argument of token_free an unconstrained pointer on the infeasible path and the
 * token_free/token_tree_free recursion unwinds without end */
#ifndef CFG_NULL
#define CFG_NULL 0
#endif
/* token number i of the shape, NULL beyond it (symbolic READS only: expected sequences are filled position by
 * position from a symbolic index, never through a symbolic write index, which the SAT back end handles badly) */
static token * tk_at(unsigned i) { return i < TN_MAX ? g_node[i] : NULL; }
/* the general shape: top chain g_node[0..ntop) with child chains A (owner top[ca]) and B (owner top[cb]) and mates */
#define TOP_SHAPE \
	TK_INPUTS \
	const unsigned ntop = CFG_N, ca = CFG_CA, cb = CFG_CB; \
	token * head = tk_link(0, TK, ntop, 0, fl); tk_children(ntop, ca, cb, fl); tk_mates(mt); \
	token ** top = g_node;
#define OWNER_A (g_An ? g_node[ca] : NULL)
#define OWNER_B (g_Bn ? g_node[cb] : NULL)
#define ALL_SAME_EXCEPT(x, msg) for (unsigned i__ = 0; i__ < TN_MAX; i__++) { if (i__ != (x)) { ASSERT(tk_same(i__), msg); } }
#ifdef WF_WALK
#define WALK_WF(h) ASSERT(TOK_CHAIN_WF(h), "walk: TOK_CHAIN_WF without witness")
#else
#define WALK_WF(h)
#endif
/* token i and everything below it carries no mate (precondition of the removing operations: a removed token must
 * not be the mate of a surviving one) */
static bool tk_subtree_unmated(unsigned i, unsigned ca, unsigned cb) {
	if (g_node[i]->mate != NULL) return false;
	if (g_An && ca == i && (g_node[TK]->mate != NULL || g_node[TK + 1]->mate != NULL || g_node[TK + 2]->mate != NULL)) return false;
	if (g_Bn && cb == i && g_node[TK + 3]->mate != NULL) return false;
	return true;
}

/* ------------------------------------------------------------------ the builder builds WF shapes (sanity, walk form) */
void h_shape(void) {
	TOP_SHAPE
	ASSERT(TOK_CHAIN_WF(head), "built shape satisfies TOK_CHAIN_WF (walk form)");
	ASSERT(TOK_CHAIN_WF_AS(head, top, ntop) && tk_children_ok(OWNER_A, OWNER_B), "built shape satisfies TOK_CHAIN_WF (witness form)");
	ASSERT(TOK_TAIL_OK(head), "built shape: head->tail is the last sibling");
	REACH();
}

/* ------------------------------------------------------------------ token_new_parent */
void h_new_parent(void) {
	TOP_SHAPE
	IN(bool, null_child);
	token * child = null_child ? NULL : head; unsigned nch = null_child ? 0 : ntop;
	IN(unsigned short, type);
#define PRE_new_parent 1
#define POST_new_parent (RET != NULL && tk_id(RET) == TN_MAX && RET->prev == NULL && RET->next == NULL && tk_local_ok(RET) \
	&& RET->child == child && TOK_CHAIN_WF_AS(RET->child, top, nch) && tk_children_ok(OWNER_A, OWNER_B))
	CALLR(token *, token_new_parent(child, type), PRE_new_parent, POST_new_parent)
	ASSERT(RETV->type == type && RETV->mate == NULL && RETV->tail == RETV, "new_parent: type, no mate, own tail");
	ASSERT(child != NULL || (RETV->start == 0 && RETV->len == 0), "new_parent: empty parent spans nothing");
	ASSERT(child == NULL || (RETV->start == top[0]->start && RETV->start + RETV->len == top[ntop - 1]->start + top[ntop - 1]->len), "new_parent: spans first child start .. last child end");
	ASSERT(TOK_TAIL_OK(head), "new_parent: child chain tail kept");
	ALL_SAME_EXCEPT(TN_MAX, "new_parent: no existing token changes span or type")
	WALK_WF(RETV);
	REACH();
}

/* ------------------------------------------------------------------ token_prune_graft */
void h_prune_graft(void) {
	TOP_SHAPE
	const unsigned a = CFG_A, b = CFG_B; IN(unsigned short, T);
	token * first = top[a], * last = top[b];
	token * old_child = first->child, * old_mate = first->mate;
	token * seg[TK + 1], * rest[TK + 1];
#define PRE_prune_graft 1
#define POST_prune_graft (RET == first && first->child != NULL && tk_id(first->child) == TN_MAX)
	CALLR(token *, token_prune_graft(first, last, T), PRE_prune_graft, POST_prune_graft)
	token * nc = first->child;
	/* child chain is the old segment (first replaced by its copy); top chain is top[0..a] ++ top(b..ntop) */
	unsigned ns = (b - a) + 1u, nr = ntop - (b - a);
	seg[0] = nc; for (unsigned i = 1; i < TK + 1; i++) { seg[i] = tk_at(i < ns ? a + i : TN_MAX); }
	for (unsigned i = 0; i < TK + 1; i++) { rest[i] = tk_at(i >= nr ? TN_MAX : i <= a ? i : i + (b - a)); }
	ASSERT(TOK_CHAIN_WF_AS(nc, seg, ns), "prune_graft: child chain is the old segment, well formed (links both ways, order, spans, mates)");
	ASSERT(TOK_CHAIN_WF_AS(head, rest, nr), "prune_graft: neighbours relinked around the container, top chain well formed");
	ASSERT(tk_children_ok(g_An ? (ca == a ? nc : g_node[ca]) : NULL, g_Bn ? (cb == a ? nc : g_node[cb]) : NULL), "prune_graft: child chains below are untouched (those of first now belong to its copy)");
	ASSERT(first->type == T && first->can_open == 0 && first->can_close == 0, "prune_graft: container has the requested type and cannot open/close");
	ASSERT(first->start == g_st0[a] && first->start + first->len == g_st0[b] + g_ln0[b], "prune_graft: container spans first->start .. last->start+last->len");
	ASSERT(nc->type == g_ty0[a] && nc->start == g_st0[a] && nc->len == g_ln0[a] && nc->child == old_child, "prune_graft: new child is a copy of first (type, span, children)");
	ASSERT(TOK_TAIL_OK(head), "prune_graft: head's tail fixed");
	ASSERT(a == b || TOK_TAIL_OK(nc), "prune_graft: child chain tail is last (segment of >= 2 tokens)");
#ifdef OBSERVE_TAIL
	ASSERT(a != b || TOK_TAIL_OK(nc), "prune_graft: OBSERVATION (DESIGN 9 item 13, not part of C15) child tail when first == last");
#endif
	ASSERT(old_mate == NULL || (first->mate == NULL && nc->mate == old_mate && old_mate->mate == nc), "prune_graft: mate of first moves to the copy, symmetric");
	ALL_SAME_EXCEPT(a, "prune_graft: no other token changes span or type")
	WALK_WF(head);
	REACH();
}

/* ------------------------------------------------------------------ fix_token_chain_tail */
void h_fix_tail(void) {
	TOP_SHAPE
	const unsigned k = CFG_A; IN(unsigned char, j); IN(bool, null_t); ASSUME(j < TN_MAX);
	head->tail = g_node[j];                  /* stale tail: any token */
	token * t = null_t ? NULL : top[k];
#define PRE_fix_tail 1
#define POST_fix_tail (TOK_CHAIN_WF_AS(head, top, ntop) && tk_children_ok(OWNER_A, OWNER_B))
	CALLV(fix_token_chain_tail(t), PRE_fix_tail, POST_fix_tail)
	ASSERT(null_t ? head->tail == g_node[j] : TOK_TAIL_OK(head), "fix_token_chain_tail: head->tail is the last sibling");
	ALL_SAME_EXCEPT(TN_MAX, "fix_token_chain_tail: no token changes span or type")
	WALK_WF(head);
	REACH();
}

/* ------------------------------------------------------------------ token_pop_link_from_chain */
void h_pop_link(void) {
	TOP_SHAPE
	const unsigned k = CFG_A; IN(bool, null_t);
	token * t = null_t ? NULL : top[k];
	token * rest[TK + 1]; unsigned nr = null_t ? ntop : ntop - 1u;
	for (unsigned i = 0; i < TK + 1; i++) { rest[i] = tk_at(i >= nr ? TN_MAX : (null_t || i < k) ? i : i + 1); }
	token * nhead = rest[0];
#define PRE_pop_link 1
#define POST_pop_link (TOK_CHAIN_WF_AS(nhead, rest, nr) && tk_children_ok(OWNER_A, OWNER_B))
	CALLV(token_pop_link_from_chain(t), PRE_pop_link, POST_pop_link)
	ASSERT(null_t || (t->next == NULL && t->prev == NULL && t->tail == t && tk_local_ok(t)), "pop_link: popped token is a chain of its own, still sound");
	/* tail: maintained when t had a predecessor.  When t was the head, the new head's tail is left stale
	 * (not part of C15's statement; reported) */
	ASSERT(null_t || k == 0 || TOK_TAIL_OK(head), "pop_link: head's tail fixed (t not the head)");
#ifdef OBSERVE_TAIL
	ASSERT(null_t || k != 0 || nhead == NULL || TOK_TAIL_OK(nhead), "pop_link: OBSERVATION (tail, not part of C15) new head's tail when the head is popped");
#endif
	ALL_SAME_EXCEPT(TN_MAX, "pop_link: no token changes span or type")
	if (nhead) { WALK_WF(nhead); }
	REACH();
}

/* ------------------------------------------------------------------ tokens_prune */
void h_prune(void) {
	TOP_SHAPE
	const unsigned a = CFG_A, b = CFG_B, nul = CFG_NULL;
	token * first = (nul & 1) ? NULL : top[a], * last = (nul & 2) ? NULL : top[b];
	bool noop = (nul & 3) != 0;
	token * rest[TK + 1]; unsigned nr = noop ? ntop : ntop - ((b - a) + 1u);
	for (unsigned i = 0; i < TK + 1; i++) { rest[i] = tk_at(i >= nr ? TN_MAX : (noop || i < a) ? i : i + (b - a) + 1u); }
	token * nhead = rest[0];
	bool keepA = noop || ca < a || ca > b, keepB = noop || cb < a || cb > b;
	/* removed tokens must not be mates of surviving ones */
#ifndef NO_MATE_PRE
	for (unsigned i = 0; i < TK; i++) { if (!noop && i >= a && i <= b) { ASSUME(tk_subtree_unmated(i, ca, cb)); } }
#endif
#define PRE_prune 1
#define POST_prune (TOK_CHAIN_WF_AS(nhead, rest, nr) && tk_children_ok(keepA ? OWNER_A : NULL, keepB ? OWNER_B : NULL))
	CALLV(tokens_prune(first, last), PRE_prune, POST_prune)
	ASSERT(noop || a == 0 || TOK_TAIL_OK(head), "tokens_prune: head's tail fixed (segment does not start at the head)");
#ifdef OBSERVE_TAIL
	ASSERT(noop || a != 0 || nhead == NULL || TOK_TAIL_OK(nhead), "tokens_prune: OBSERVATION (tail, not part of C15) new head's tail when the head is pruned");
#endif
	for (unsigned i = 0; i < TN_MAX; i++) {
		bool gone = !noop && ((i >= a && i <= b) || (!keepA && i >= TK && i < TK + 3) || (!keepB && i == TK + 3));
		if (!gone) { ASSERT(tk_same(i), "tokens_prune: surviving tokens are live and keep span and type"); }
	}
	if (nhead) { WALK_WF(nhead); }
	REACH();
}

/* ------------------------------------------------------------------ token_remove_tail */
void h_remove_tail(void) {
	TOP_SHAPE
	const bool null_h = (CFG_NULL & 1) != 0;
	token * h = null_h ? NULL : head;
	bool noop = null_h || ntop == 1;
	unsigned l = ntop - 1, nr = noop ? ntop : ntop - 1;
	bool keepA = noop || ca != l, keepB = noop || cb != l;
#ifndef NO_MATE_PRE
	if (!noop) { ASSUME(tk_subtree_unmated(l, ca, cb)); }
#endif
#define PRE_remove_tail 1
#define POST_remove_tail (TOK_CHAIN_WF_AS(head, top, nr) && tk_children_ok(keepA ? OWNER_A : NULL, keepB ? OWNER_B : NULL))
	CALLV(token_remove_tail(h), PRE_remove_tail, POST_remove_tail)
	ASSERT(TOK_TAIL_OK(head), "remove_tail: head's tail is the new last sibling");
	for (unsigned i = 0; i < TN_MAX; i++) {
		bool gone = !noop && (i == l || (!keepA && i >= TK && i < TK + 3) || (!keepB && i == TK + 3));
		if (!gone) { ASSERT(tk_same(i), "remove_tail: surviving tokens are live and keep span and type"); }
	}
	WALK_WF(head);
	REACH();
}

/* ------------------------------------------------------------------ token_remove_first_child / token_remove_last_child
 * parent = any top token; it may own chain A (1..2 tokens, the first may own a grandchild), chain B (1 token) or nothing */
#define REMOVE_CHILD_SHAPE \
	TOP_SHAPE \
	const unsigned p = CFG_A; const bool null_p = (CFG_NULL & 1) != 0; \
	token * parent = null_p ? NULL : top[p]; \
	bool hasA = !null_p && g_An && ca == p, hasB = !null_p && g_Bn && cb == p;

void h_remove_first_child(void) {
	REMOVE_CHILD_SHAPE
	/* removed: x0 (+ grandchild x2) of chain A, or x3 of chain B */
#ifndef NO_MATE_PRE
	if (hasA) { ASSUME(g_node[TK]->mate == NULL && g_node[TK + 2]->mate == NULL); }
	if (hasB) { ASSUME(g_node[TK + 3]->mate == NULL); }
#endif
	const unsigned oldAn = g_An;
#define PRE_remove_first_child 1
#define POST_remove_first_child (TOK_CHAIN_WF_AS(head, top, ntop))
	CALLV(token_remove_first_child(parent), PRE_remove_first_child, POST_remove_first_child)
	if (hasA) {
		ASSERT(TOK_CHAIN_WF_AS(parent->child, &g_node[TK + 1], oldAn - 1), "remove_first_child: child chain is the old one without its first token, well formed");
		ASSERT(oldAn == 1 || (TOK_TAIL_OK(parent->child) && g_node[TK + 1]->child == NULL), "remove_first_child: new first child carries the tail");
		ASSERT(tk_children_ok(NULL, OWNER_B), "remove_first_child: other child chains untouched");
	} else if (hasB) {
		ASSERT(parent->child == NULL, "remove_first_child: only child removed");
		ASSERT(tk_children_ok(OWNER_A, NULL), "remove_first_child: other child chains untouched");
	} else {
		ASSERT(tk_children_ok(OWNER_A, OWNER_B), "remove_first_child: nothing to remove, nothing changes");
	}
	ASSERT(TOK_TAIL_OK(head), "remove_first_child: top chain tail untouched");
	for (unsigned i = 0; i < TN_MAX; i++) {
		bool gone = (hasA && (i == TK || i == TK + 2)) || (hasB && i == TK + 3);
		if (!gone) { ASSERT(tk_same(i), "remove_first_child: surviving tokens are live and keep span and type"); }
	}
	WALK_WF(head);
	REACH();
}

void h_remove_last_child(void) {
	REMOVE_CHILD_SHAPE
	/* precondition from the only call site (mmd.c strip_line_tokens_from_block, BLOCK_CODE_INDENTED: the first line of
	 * the block is never the LINE_EMPTY being removed): the parent has at least two children.  With a single child
	 * the function frees it and leaves parent->child dangling (see defs.py, unit tok_remove_last_child_single). */
#ifndef SINGLE_CHILD
	ASSUME(!hasB && (!hasA || g_An == 2));
#endif
#ifndef NO_MATE_PRE
	if (hasA) { ASSUME(g_node[TK + (g_An - 1)]->mate == NULL && (g_An == 2 || g_node[TK + 2]->mate == NULL)); }
	if (hasB) { ASSUME(g_node[TK + 3]->mate == NULL); }
#endif
#define PRE_remove_last_child 1
#define POST_remove_last_child (TOK_CHAIN_WF_AS(head, top, ntop))
	CALLV(token_remove_last_child(parent), PRE_remove_last_child, POST_remove_last_child)
	if (hasA && g_An == 2) {
		ASSERT(TOK_CHAIN_WF_AS(parent->child, &g_node[TK], 1) && TOK_TAIL_OK(parent->child), "remove_last_child: child chain is the old one without its last token, well formed, tail fixed");
		ASSERT(tk_seq_wf(g_node[TK]->child, &g_node[TK + 2], g_Gn), "remove_last_child: grandchild untouched");
		ASSERT(tk_children_ok(NULL, OWNER_B), "remove_last_child: other child chains untouched");
	} else if (hasA || hasB) {
		ASSERT(parent->child == NULL, "remove_last_child: only child removed, parent has no child chain");
	} else {
		ASSERT(tk_children_ok(OWNER_A, OWNER_B), "remove_last_child: nothing to remove, nothing changes");
	}
	for (unsigned i = 0; i < TN_MAX; i++) {
		bool gone = (hasA && g_An == 2 && i == TK + 1) || (hasA && g_An == 1 && (i == TK || i == TK + 2)) || (hasB && i == TK + 3);
		if (!gone) { ASSERT(tk_same(i), "remove_last_child: surviving tokens are live and keep span and type"); }
	}
	WALK_WF(head);
	REACH();
}

/* ------------------------------------------------------------------ two chains: token_chain_append
 * chain 1 = top nodes (flat), chain 2 = extras x0..x2 (1..3 tokens), x3 optional child of x0; mates anywhere */
void h_chain_append(void) {
	TK_INPUTS
	const unsigned n1 = CFG_N, n2 = CFG_A; IN(unsigned char, nul);
	token * c1 = tk_link(0, TK, n1, 0, fl);
	token * c2 = tk_link(TK, 3, n2, g_node[n1 - 1]->start, fl);      /* appended chain continues the source order */
	if (CFG_BN) { g_node[TK]->child = tk_link(TK + 3, 1, 1, 0, fl); }
	tk_mates(mt);
	token * chain_start = (nul & 1) ? NULL : c1, * t = (nul & 2) ? NULL : c2;
	bool noop = (nul & 3) != 0;
	token * seq[TK + 3]; unsigned ns = noop ? n1 : n1 + n2;
	for (unsigned i = 0; i < TK + 3; i++) { seq[i] = tk_at(i >= ns ? TN_MAX : i < n1 ? i : TK + (i - n1)); }
#define PRE_chain_append 1
#define POST_chain_append (TOK_CHAIN_WF_AS(c1, seq, ns) && (!noop || TOK_CHAIN_WF_AS(c2, &g_node[TK], n2)))
	CALLV(token_chain_append(chain_start, t), PRE_chain_append, POST_chain_append)
	ASSERT(TOK_TAIL_OK(c1), "chain_append: head's tail is the last token of the appended chain");
	ASSERT(g_node[TK]->child == (CFG_BN ? g_node[TK + 3] : NULL) && tk_local_ok(g_node[TK + 3]), "chain_append: children untouched");
	ALL_SAME_EXCEPT(TN_MAX, "chain_append: no token changes span or type")
	WALK_WF(c1);
	REACH();
}

/* ------------------------------------------------------------------ token_append_child
 * parent = top[p]; existing children = x0[,x1] (0..2 tokens); appended chain t = x2[,x3] (1..2 tokens).
 * Precondition (call sites): children start at or after the parent's start, appended chain continues the order. */
void h_append_child(void) {
	TK_INPUTS
	const unsigned ntop = CFG_N, p = CFG_A, nc = CFG_AN, nt = CFG_B; IN(unsigned char, nul);   /* nc existing children (0..2), nt appended tokens (1..2) */
	token * head = tk_link(0, TK, ntop, 0, fl);
	token * par = g_node[p];
	token * kids = nc ? tk_link(TK, 2, nc, par->start, fl) : NULL;
	par->child = kids;
	token * c2 = tk_link(TK + 2, 2, nt, nc ? g_node[TK + nc - 1]->start : par->start, fl);
	tk_mates(mt);
	token * parent = (nul & 1) ? NULL : par, * t = (nul & 2) ? NULL : c2;
	bool noop = (nul & 3) != 0;
	token * seq[4]; unsigned ns = noop ? nc : nc + nt;
	for (unsigned i = 0; i < 4; i++) { seq[i] = tk_at(i >= ns ? TN_MAX : i < nc ? TK + i : TK + 2 + (i - nc)); }
#define PRE_append_child 1
#define POST_append_child (TOK_CHAIN_WF_AS(head, g_node, ntop) && TOK_CHAIN_WF_AS(par->child, seq, ns) && (!noop || TOK_CHAIN_WF_AS(c2, &g_node[TK + 2], nt)))
	CALLV(token_append_child(parent, t), PRE_append_child, POST_append_child)
	ASSERT(ns == 0 || TOK_TAIL_OK(par->child), "append_child: child chain tail is the last appended token");
	ASSERT(noop || (par->start == g_st0[p] && par->start + par->len == seq[ns - 1]->start + seq[ns - 1]->len), "append_child: parent spans up to the end of its last child");
	ASSERT(TOK_TAIL_OK(head), "append_child: top chain tail untouched");
	ALL_SAME_EXCEPT(noop ? TN_MAX : p, "append_child: no other token changes span or type")
	ASSERT(par->type == g_ty0[p], "append_child: parent keeps its type");
	WALK_WF(head);
	REACH();
}

/* ------------------------------------------------------------------ token_split
 * t = top[k].  Preconditions (call site automatic_search_text: match inside the token, siblings do not overlap):
 * start + len does not wrap; t's successor starts at or after t's end. */
void h_split(void) {
	TOP_SHAPE
	const unsigned k = CFG_A; IN(bool, null_t); IN(size_t, start); IN(size_t, len); IN(unsigned short, new_type);
	token * t = null_t ? NULL : top[k];
	size_t ts = g_st0[k], te = g_st0[k] + g_ln0[k], stop = start + len;
#ifndef NO_SPLIT_PRE
	ASSUME(len <= SIZE_MAX - start);
	ASSUME(k + 1 >= ntop || top[k + 1]->start >= te);
#endif
	bool noop = null_t || start < ts || stop > te;
	bool in_start = !noop && start > ts, in_stop = !noop && stop < te;
	token * nx = top[k + 1 < ntop ? k + 1 : TN_MAX];
#define PRE_split 1
#define POST_split (tk_children_ok(OWNER_A, OWNER_B))
	CALLV(token_split(t, start, len, new_type), PRE_split, POST_split)
	token * A = (in_start || in_stop) ? top[k]->next : NULL;
	token * T2 = (in_start && in_stop && A) ? A->next : NULL;
	unsigned nf = (A ? 1u : 0u) + (T2 ? 1u : 0u);
	token * seq[TK + 3]; unsigned ns = ntop + nf;
	for (unsigned i = 0; i < TK + 3; i++) { seq[i] = (i >= ns) ? NULL : (i <= k) ? top[i] : (i == k + 1u && nf >= 1) ? A : (i == k + 2u && nf == 2) ? T2 : tk_at(i - nf); }
	ASSERT(TOK_CHAIN_WF_AS(head, seq, ns), "split: chain is the old one with the new tokens after t, well formed (links both ways, order, spans, mates)");
	ASSERT(!(in_start || in_stop) || (A != NULL && tk_id(A) == TN_MAX && A->child == NULL && A->mate == NULL), "split: a new token follows t");
	ASSERT(!(in_start && in_stop) || (T2 != NULL && tk_id(T2) == TN_MAX && T2 != A && T2->child == NULL && T2->mate == NULL && T2->next == nx), "split: a second new token follows");
	if (noop) { ASSERT(tk_same(k), "split: range outside the token: nothing changes"); }
	else if (in_start && in_stop) { ASSERT(top[k]->start == ts && top[k]->len == start - ts && top[k]->type == g_ty0[k] && A->start == start && A->len == len && A->type == new_type && T2->start == stop && T2->len == te - stop && T2->type == g_ty0[k], "split: t | NEW | t' partition the old span"); }
	else if (in_start) { ASSERT(top[k]->start == ts && top[k]->len == start - ts && top[k]->type == g_ty0[k] && A->start == start && A->len == len && A->type == new_type && A->next == nx, "split: t | NEW partition the old span"); }
	else if (in_stop) { ASSERT(top[k]->start == ts && top[k]->len == len && top[k]->type == new_type && A->start == stop && A->len == te - stop && A->type == g_ty0[k] && A->next == nx, "split: NEW | t' partition the old span"); }
	else { ASSERT(top[k]->start == ts && top[k]->len == te - ts && top[k]->type == new_type, "split: whole token retyped"); }
	/* tail: unchanged by token_split; it stays correct unless t was the last sibling and got a successor
	 * (then head->tail still points at t: stale; not part of C15's statement; reported) */
	ASSERT(!(k + 1 < ntop || !(in_start || in_stop)) || TOK_TAIL_OK(head), "split: head's tail still the last sibling (t not last, or nothing inserted)");
#ifdef OBSERVE_TAIL
	ASSERT(TOK_TAIL_OK(head), "split: OBSERVATION (tail, not part of C15) head's tail after splitting the last sibling");
#endif
	ALL_SAME_EXCEPT(k, "split: no other token changes span or type")
	WALK_WF(head);
	REACH();
}

/* ------------------------------------------------------------------ token_pair_mate (token_pairs.c) */
void h_pair_mate(void) {
	TOP_SHAPE
	IN(unsigned char, ia); IN(unsigned char, ib); IN(unsigned char, nul);
	ASSUME(ia < TN_MAX && ib < TN_MAX && ia != ib && g_used[ia] && g_used[ib]);
	/* precondition (token_pairs_match_pairs_inside_token mates an unmatched opener with an unmatched closer): neither
	 * is mated to a third token */
	ASSUME((g_node[ia]->mate == NULL && g_node[ib]->mate == NULL) || (g_node[ia]->mate == g_node[ib]));
	token * a = (nul & 1) ? NULL : g_node[ia], * b = (nul & 2) ? NULL : g_node[ib];
	token * olda = g_node[ia]->mate; short ua = g_node[ia]->unmatched, ub = g_node[ib]->unmatched;
#define PRE_pair_mate 1
#define POST_pair_mate (TOK_CHAIN_WF_AS(head, top, ntop) && tk_children_ok(OWNER_A, OWNER_B))
	CALLV(token_pair_mate(a, b), PRE_pair_mate, POST_pair_mate)
	if (nul & 3) { ASSERT(g_node[ia]->mate == olda && g_node[ia]->unmatched == ua && g_node[ib]->unmatched == ub, "pair_mate: NULL argument: nothing changes"); }
	else { ASSERT(a->mate == b && b->mate == a && !a->unmatched && !b->unmatched, "pair_mate: the two tokens point at each other and are matched"); }
	ALL_SAME_EXCEPT(TN_MAX, "pair_mate: no token changes span or type")
	WALK_WF(head);
	REACH();
}

/* ------------------------------------------------------------------ token_split_on_char
 * bounded source of SRC_MAX bytes (symbolic content and length), flat chain, t = top[CFG_A].
 * Precondition: siblings do not overlap (the successor of t starts at or after t's end).
 * ALWAYS asserted (holds of the code as it is): the pieces are reachable by `next` in non-decreasing source order,
 * every piece starts inside the old span, the first piece ends before the first separator, the last piece ends where
 * t ended, the rest of the chain is untouched.
 * With -DSPLIT_CHAR_FULL: C15's statement for the result (back links consistent, every span inside the old span
 * and the source).  That FAILS on the unchanged tree: new pieces get prev == NULL, the old successor keeps prev == t,
 * and a piece that is split again gets len = offset from the ORIGINAL start (too long; can leave the source). */
#ifndef SRC_MAX
#define SRC_MAX 5
#endif
#define NPIECE SRC_MAX   /* a token of len L is cut into at most L-1 .. pieces */
void h_split_on_char(void) {
	TK_INPUTS
	const unsigned ntop = CFG_N, k = CFG_A; IN(bool, null_t); IN(char, c);
	ASSUME(n_src <= SRC_MAX);
	char * source = ALLOC(SRC_MAX); IN_FILL(source, SRC_MAX);
	token * head = tk_link(0, TK, ntop, 0, fl); tk_mates(mt);
	token ** top = g_node;
	token * t = null_t ? NULL : top[k];
	size_t ts = g_st0[k], te = g_st0[k] + g_ln0[k];
	ASSUME(k + 1 >= ntop || top[k + 1]->start >= te);
	token * nx = tk_at(k + 1 < ntop ? k + 1 : TN_MAX);
#define PRE_split_on_char 1
#define POST_split_on_char (top[k]->start == ts)
	CALLV(token_split_on_char(t, source, c), PRE_split_on_char, POST_split_on_char)
	/* the pieces: t and the new tokens between t and its old successor */
	token * piece[NPIECE + 1]; unsigned np = 0; token * w = top[k];
	for (unsigned j = 0; j < NPIECE + 1; j++) { piece[j] = NULL; if (w != NULL && w != nx && np == j) { piece[j] = w; np = j + 1; w = w->next; } }
	ASSERT(w == nx && np >= 1 && np <= NPIECE, "split_on_char: forward links lead from t through the pieces to the old successor");
	for (unsigned j = 0; j < NPIECE; j++) {
		if (j < np) {
			ASSERT(piece[j]->start >= ts && (piece[j]->start < te || np == 1), "split_on_char: every piece starts inside the old span");
			ASSERT(j + 1 >= np || piece[j]->start < piece[j + 1]->start, "split_on_char: pieces in increasing source order");
			ASSERT(j == 0 || (tk_id(piece[j]) == TN_MAX && piece[j]->type == g_ty0[k] && piece[j]->child == NULL && piece[j]->mate == NULL && source[piece[j]->start - 1] == c), "split_on_char: a new piece has t's type and starts right after a separator");
		}
	}
	ASSERT(piece[np - 1]->start + piece[np - 1]->len == te || null_t, "split_on_char: the last piece ends where t ended");
	ASSERT(np == 1 || piece[0]->len == piece[1]->start - 1 - ts, "split_on_char: the first piece ends before the first separator");
	ASSERT(nx == NULL || tk_same(k + 1 < ntop ? k + 1 : 0), "split_on_char: successor keeps span and type");
#ifdef SPLIT_CHAR_FULL
	for (unsigned j = 0; j < NPIECE; j++) {
		if (j < np) {
			ASSERT(piece[j]->start <= g_n && piece[j]->len <= g_n - piece[j]->start, "split_on_char: C15 every piece's [start,start+len) inside the source");
			ASSERT(piece[j]->start + piece[j]->len <= te, "split_on_char: every piece stays inside the old span of t");
			ASSERT(j == 0 || piece[j]->prev == piece[j - 1], "split_on_char: C15 siblings doubly linked consistently (piece->prev)");
		}
	}
	ASSERT(nx == NULL || nx->prev == piece[np - 1], "split_on_char: C15 siblings doubly linked consistently (old successor's prev)");
#endif
	REACH();
}
