/* C15 / C16 / C01 -- the standalone superscript / subscript ("x^2", "H~2" with no closing marker) arm of
 * mmd_assign_ambidextrous_tokens_in_block (mmd.c, the real function): the marker token is stretched over the following word, the
 * tokens that lie wholly inside the word are pruned, the first token that sticks out is cut at the word's end, and a TEXT_PLAIN child
 * is made for the word.
 *   requires a NUL-terminated source of <= NSRC symbolic bytes (full byte domain), a block whose chain is: the marker token
 *            (1 byte, anywhere) followed by 0..NT tokens, CONTIGUOUS, non-empty, inside the source, of symbolic kinds (plain text,
 *            number, or something else) -- the lexer's contract (tokens of any kind may lie inside a "word": every non-ASCII
 *            character that the lexer knows, e.g. U+00A0 or U+FFFC, is a token of its own and is neither whitespace nor punctuation)
 *   ensures  (C15) every token left in the chain lies inside the source, has not wrapped around (len <= n), siblings are in source
 *            order and do not overlap, and the child of the marker lies inside the marker's span
 *   ensures  (C16) when the marker was stretched (it has a child) it ends in front of whitespace, a line ending, punctuation or the
 *            terminating NUL -- an ASCII byte: never between the bytes of one multi-byte character
 *   + CBMC's pointer / bounds checks on every str[offset] access of the real function
 * tokens_prune / token_new (token.c) are used BY CONTRACT (stubs: the range leaves the chain; a fresh token with the given span);
 * their own contracts are the C15 / C18 token units. */
#include "verif.h"
#include <stdio.h>
#include "d_string.h"
#include "libMultiMarkdown.h"
#include "token.h"
#include "mmd.h"
#include "char.h"
#ifndef NSRC
#define NSRC 6
#endif
#ifndef NT
#define NT 3
#endif
void mmd_assign_ambidextrous_tokens_in_block(mmd_engine * e, token * block, size_t start_offset);
static token * mk_tok(unsigned short type, size_t start, size_t len) {
	token * t = ALLOC(sizeof(token));
	t->type = type; t->start = start; t->len = len; t->next = NULL; t->prev = NULL; t->child = NULL; t->tail = t; t->mate = NULL;
	t->can_open = 1; t->can_close = 1; t->unmatched = 1; t->out_start = 0; t->out_len = 0;
	return t;
}
void tokens_prune(token * first, token * last) { token * p = first->prev, * n = last->next; if (p) { p->next = n; } if (n) { n->prev = p; } }
token * token_new(unsigned short type, size_t start, size_t len) { return mk_tok(type, start, len); }
void h_ambi_sup(void) {
	IN(size_t, n); ASSUME(n >= 1 && n <= NSRC);
	char * str = ALLOC(NSRC + 1);
	for (size_t i = 0; i < NSRC; i++) { char c; ASSUME(c != 0); str[i] = (i < n) ? c : 0; }
	str[NSRC] = 0;
	mmd_engine * e = ALLOC(sizeof(mmd_engine));
	DString * d = ALLOC(sizeof(DString)); d->str = str; d->currentStringLength = n; d->currentStringBufferSize = NSRC + 1;
	e->dstr = d;
	IN(unsigned long, ext); e->extensions = ext;
#ifdef START
	size_t start = START; ASSUME(start < n);            /* one unit per concrete marker position */
#else
	IN(size_t, start); ASSUME(start < n);
#endif
	ASSUME(str[start] == (TOKTYPE == SUPERSCRIPT ? '^' : '~'));                 /* the lexer makes this token for that byte */
	token * block = mk_tok(BLOCK_PARA, 0, n);
	token * t = mk_tok(TOKTYPE, start, 1);
	block->child = t;
	token * last = t; size_t pos = start + 1;
#ifdef FIXED_LAYOUT
	/* concrete layout (keeps the chain's pointers concrete for symex; with a symbolic layout the unit did not finish in 600 s) */
	ASSUME(n == start + 1 + L1 + L2 + L3);
	{ static const size_t LEN[3] = { L1, L2, L3 };          /* one unit per layout; a length of 0 = no such token */
	  for (int i = 0; i < 3; i++) { if (LEN[i] > 0) { token * x = mk_tok(TEXT_PLAIN, pos, LEN[i]); last->next = x; x->prev = last; last = x; pos += LEN[i]; } } }
#else
	for (int i = 0; i < NT; i++) {
		IN(bool, more); IN(size_t, l); IN(unsigned char, kind);
		if (more && pos < n) {
			ASSUME(l >= 1 && l <= n - pos);
			#ifdef KIND_PLAIN
			token * x = mk_tok(TEXT_PLAIN, pos, l);       /* concrete kind: symex then skips the other arms of the switch for these tokens */
#else
			token * x = mk_tok(kind == 0 ? TEXT_PLAIN : kind == 1 ? TEXT_NUMBER_POSS_LIST : kind == 2 ? TEXT_PERIOD : TEXT_EMPTY, pos, l);
#endif
			(void)kind;   /* TEXT_EMPTY stands for "any other kind" (the arm only tests for the two text kinds) */
			last->next = x; x->prev = last; last = x; pos += l;
		}
	}
#endif
	t->tail = last;
	mmd_assign_ambidextrous_tokens_in_block(e, block, 0);
	ASSERT(block->child == t, "the marker token stays the first child");
	ASSERT(t->start == start && t->len >= 1 && t->len <= n - start, "C15: the marker token lies inside the source");
	size_t end = t->start + t->len;
	if (t->child) {
		ASSERT(t->child->start == t->start + 1 && t->child->len == t->len - 1, "C15: the child of a standalone marker is the word after it, inside the marker's span");
		unsigned char b = (unsigned char)str[end];
		ASSERT(b < 0x80, "C16: a stretched marker ends in front of an ASCII byte (whitespace, punctuation, line ending or the terminator): never inside a multi-byte character");
		ASSERT(b == 0 || char_is_whitespace_or_line_ending_or_punctuation(str[end]), "C15: the word ends at whitespace, a line ending, punctuation or the end of the source");
	}
	size_t prev_end = end; int cnt = 0;
	for (token * w = t->next; w && cnt < NT; w = w->next, cnt++) {
		ASSERT(w->len <= n && w->start <= n && w->start + w->len <= n, "C15: every following token lies inside the source (no wrapped length)");
		ASSERT(w->start >= prev_end, "C15: siblings are in source order and do not overlap");
		prev_end = w->start + w->len;
	}
	REACH();
}
