# ---------------------------------------------------------------- C15 token tree structurally sound
_TK_WIDTH_TEXT = "shape units, quick tier: source shorter than 65536 bytes (cuts the bit width the SAT solver reasons about); thorough tier: any size_t length"
PROPS["C15"] = {
    "level": "other",
    "explanation": "Bounded: each token-tree surgery primitive of token.c (and token_pair_mate) is run, unmodified, on every token shape of a bounded family (top chain of <= 3 tokens in the quick tier / <= 4 thorough, child chains <= 2, child depth <= 2, optional symmetric mates, stale non-head tails, symbolic spans inside a source of symbolic length) and the result is checked against C15's statement -- siblings doubly linked consistently, non-decreasing source order, every [start,start+len) inside the source, mates symmetric -- together with the operation's own effect (expected sibling sequence, spans, types, tail where the code maintains it) and, under -DDISABLE_OBJECT_POOL, ownership (every surviving token and every link stored in it is live). All deciding units for the tree part are bounded shapes, hence level 'other'. PROOF parts: the enum relations (kMaxTokenTypes > every token/CriticMarkup type, BLOCK_BLOCKQUOTE > every parser.h symbol, DOC_START_TOKEN == 0, the six/two-member heading series consecutive and the arithmetic the code does on them) are compile-time obligations on the real headers, regenerated from the headers every run; token_trim_* are proved with loop contracts for a source of any size up to 2^40; the char_is_* contracts for all 256 bytes.",
    "slice": "token_new_parent, token_chain_append, token_append_child, token_remove_first_child, token_remove_last_child, token_remove_tail, token_pop_link_from_chain, tokens_prune, token_prune_graft, token_split, token_split_on_char (forward links/order only; its full statement fails, see unit tok_split_on_char_full), fix_token_chain_tail, token_pair_mate, token_trim_leading/trailing/_whitespace; token_chain_accept (proof, every input), token_chain_accept_multiple / token_skip_until_type / token_skip_until_type_multiple (bounded chains), strip_leading_whitespace (bounded chains); enum relations of libMultiMarkdown.h / critic_markup.h / token_pairs.h / parser.h; mmd_assign_ambidextrous_tokens_in_block, standalone superscript/subscript arm (one unit per concrete chain layout); mmd_engine_parse_substring (tokenized range inside the text)",
    "not_reached": "the invariant of the tree returned by mmd_engine_parse_string / left by the writers (composition of hundreds of primitive calls driven by generated lexer/parser code); deindent_line, strip_line_tokens_from_block and the other mmd.c tree editors; chains longer than the bound; pool-on configuration (token_free is a no-op there, allocation is C18's contract)",
    "trusted_base": ["cbmc/goto-cc/goto-instrument 6.11.0 (MiniSat2)", "CBMC built-in malloc/free model", "C15/gen_enums.py (lists enumerators and #defines with regular expressions)"],
    "assumptions": [NOFAIL, _TK_WIDTH_TEXT, "`tail` (head -> last sibling) is required before each call and asserted after it only where the code maintains it: it is not part of C15's statement (not maintained: new head after token_pop_link_from_chain/tokens_prune of the head; head after token_split of the last sibling; copied child of token_prune_graft when first == last)"],
}

# ---- 1. tree-surgery primitives over bounded shapes (C15/tok_ops.c, C15/tok_shape.h) -------------------------
# One unit = one operation x one CONCRETE link structure (chain length n, operand positions a <= b, which tokens own
# child chains); spans, types, mates, stale tails and NULL arguments are symbolic inside each unit.  (Measured: with
# symbolic positions one unit costs 50-200 s, with concrete ones 1-5 s.)  Child-structure variants:
#   "op": the operand (position a) owns chain A = 2 tokens, the first owning a grandchild; its neighbour owns chain B
#   "nb": the neighbour owns chain A = 1 token (no grandchild); the operand owns chain B
#   "no": no children anywhere
_TK_NATIVE = {"repo": ["token.c", "char.c"]}
_TK_PRE_MATE = "tokens removed by token_remove_*/tokens_prune (and everything below them) are not mates of surviving tokens (a survivor's mate pointer would dangle; call sites prune unmatched delimiters)"
_TK_WIDTH = "quick tier: source shorter than 65536 bytes (cuts the bit width the SAT solver has to reason about); thorough tier: any size_t length"


def _kids(variant, n, a):
    nb = (a + 1) % n
    if variant == "op":
        return ["-DCFG_AN=2", "-DCFG_GN=1", "-DCFG_CA=%d" % a, "-DCFG_BN=%d" % (1 if n > 1 else 0), "-DCFG_CB=%d" % nb]
    if variant == "op1":   # operand owns chain A = 1 token with grandchild
        return ["-DCFG_AN=1", "-DCFG_GN=1", "-DCFG_CA=%d" % a, "-DCFG_BN=%d" % (1 if n > 1 else 0), "-DCFG_CB=%d" % nb]
    if variant == "nb":
        return ["-DCFG_AN=%d" % (1 if n > 1 else 0), "-DCFG_GN=0", "-DCFG_CA=%d" % nb, "-DCFG_BN=1", "-DCFG_CB=%d" % a]
    return ["-DCFG_AN=0", "-DCFG_GN=0", "-DCFG_BN=0"]


# thorough-tier shapes that did not finish (each > 900 s alone on an idle machine, twice): not registered; the same operations are
# covered at K3/K4 by the neighbouring shapes (n1 'nb'/'no' variants, n2..n4 'op' variants) and in the quick tier
_TOK_NOT_FINISHING = {"tok_pop_link_n1_0_0_op_K4", "tok_fix_tail_n2_0_0_op_K4"}


def _tok(op, entry, fns, n, a=0, b=None, variant="op", K=4, tier="quick", extra=(), name=None, repo=("token.c",), assumptions=(), width=True, **kw):
    b = a if b is None else b
    nm = name or "tok_%s_n%d_%d_%d_%s" % (op, n, a, b, variant)
    if tier != "quick" and not name:
        nm += "_K%d" % K
    if nm in _TOK_NOT_FINISHING:
        return
    defs = ["-DDISABLE_OBJECT_POOL", "-DTK=%d" % K, "-DCFG_N=%d" % n, "-DCFG_A=%d" % a, "-DCFG_B=%d" % b] + _kids(variant, n, a) + list(extra)
    _d = {}
    for x in defs:
        _d[x.split("=")[0]] = x
    defs = list(_d.values())
    bounds = {"top chain==": n, "operand positions": [a, b], "child structure": variant, "child depth<=": 2, "tokens<=": K + 4, "unwind": K + 6}
    if width and tier == "quick":
        defs.append("-DSRC_LEN_MAX=65535")
        bounds["source length<="] = 65535
    U(nm, ["C15", "C01"], entry, ["C15/tok_ops.c"], list(repo), plain=True, lib=(), kind="bounded", tier=tier, defines=defs, bounds=bounds,
      cbmc_flags=["--unwind", str(K + 6), "--unwinding-assertions"], functions=fns, native={"repo": ["token.c", "char.c", "token_pairs.c", "stack.c"]}, timeout=300, cost=3,
      callees={"token_new/token_copy/token_free/token_tree_free": "body (malloc/free: CBMC built-in; -DDISABLE_OBJECT_POOL)"},
      assumptions=[NOFAIL] + list(assumptions), **kw)


def _tok_family(K, tier, width=True, lite=False):
    """lite (quick tier): chain lengths 1 and K only, child-structure variants only where the operation looks at children"""
    kw = dict(K=K, tier=tier, width=width)
    for n in ([1, K] if lite else range(1, K + 1)):
        vs = ["op", "nb"] + (["no"] if n == 1 else [])
        vs1 = (["op"] + (["no"] if n == 1 else [])) if lite else vs
        for v in vs1:
            _tok("shape", "h_shape", [], n, 0, None, v, min_obligations=3, **kw)
            if n == 1 and v == "no":
                continue
            _tok("pair_mate", "h_pair_mate", ["token_pair_mate"], n, 0, None, v, repo=("token.c", "token_pairs.c"),
                 assumptions=["token_pair_mate: neither argument is mated to a third token (the pairing engine mates an unmatched opener with an unmatched closer)"], **kw)
        for v in vs:
            _tok("new_parent", "h_new_parent", ["token_new_parent", "token_new"], n, 0, None, v, **kw)
            _tok("remove_tail", "h_remove_tail", ["token_remove_tail", "token_free", "token_tree_free"], n, n - 1, None, v, assumptions=[_TK_PRE_MATE], **kw)
        for a in range(n):
            for v in vs:
                _tok("pop_link", "h_pop_link", ["token_pop_link_from_chain", "fix_token_chain_tail"], n, a, None, v, **kw)
            for v in vs1:
                _tok("split", "h_split", ["token_split", "token_new"], n, a, None, v,
                     assumptions=["token_split: start+len does not wrap and the successor of t starts at or after t's end (call site automatic_search_text: a match inside the token, siblings do not overlap)"], **kw)
            _tok("fix_tail", "h_fix_tail", ["fix_token_chain_tail"], n, a, None, "op", **kw)
            if not lite or a in (0, n - 1):
                for v in ["op", "op1", "nb", "no"]:
                    if v == "nb" and n == 1:
                        continue
                    _tok("remove_first_child", "h_remove_first_child", ["token_remove_first_child", "token_free", "token_tree_free"], n, a, None, v, assumptions=[_TK_PRE_MATE], **kw)
                    if v in ("op1", "nb"):
                        continue    # single child: excluded by the call-site precondition (see tok_remove_last_child_single)
                    _tok("remove_last_child", "h_remove_last_child", ["token_remove_last_child", "token_free", "token_tree_free"], n, a, None, v,
                         assumptions=[_TK_PRE_MATE, "token_remove_last_child: the parent has at least two children (only call site: trailing LINE_EMPTY of an indented code block, whose first line is not empty); with a single child the function frees it and leaves parent->child dangling"], **kw)
            for b in range(a, n):
                for v in vs:
                    _tok("prune_graft", "h_prune_graft", ["token_prune_graft", "token_copy"], n, a, b, v, **kw)
                    _tok("prune", "h_prune", ["tokens_prune", "fix_token_chain_tail", "token_free", "token_tree_free"], n, a, b, v, assumptions=[_TK_PRE_MATE], **kw)
        # two-chain operations: CFG_A = length of the second chain
        for n2 in ((1, 3) if lite else (1, 2, 3)):
            for bn in (0, 1):
                _tok("chain_append", "h_chain_append", ["token_chain_append"], n, n2, None, "no", extra=["-DCFG_BN=%d" % bn], name="tok_chain_append_n%d_%d_c%d%s" % (n, n2, bn, "" if tier == "quick" else "_K%d" % K),
                     assumptions=["token_chain_append: the appended chain starts at or after the last token of the chain it is appended to (source order of the arguments)"], **kw)
        for p in sorted({0, n - 1}):
            for nc in ((0, 2) if lite else (0, 1, 2)):
                for nt in (1, 2):
                    _tok("append_child", "h_append_child", ["token_append_child", "token_chain_append"], n, p, nt, "no", extra=["-DCFG_AN=%d" % nc],
                         name="tok_append_child_n%d_p%d_c%d_t%d%s" % (n, p, nc, nt, "" if tier == "quick" else "_K%d" % K),
                         assumptions=["token_append_child: children start at or after the parent's start and the appended chain continues the source order (call sites append the next line/block)"], **kw)


# NULL arguments of the freeing operations (one configuration each)
for _op, _h, _fns, _nulls in (("prune", "h_prune", ["tokens_prune"], (1, 2, 3)), ("remove_tail", "h_remove_tail", ["token_remove_tail"], (1,)),
                              ("remove_first_child", "h_remove_first_child", ["token_remove_first_child"], (1,)), ("remove_last_child", "h_remove_last_child", ["token_remove_last_child"], (1,))):
    for _nl in _nulls:
        _tok(_op, _h, _fns, 2, 0, 1 if _op == "prune" else None, "op", K=3, extra=["-DCFG_NULL=%d" % _nl], name="tok_%s_null%d" % (_op, _nl))
# token_split_on_char: bounded source (5 symbolic bytes); what holds of the code as it is (quick) ...
_SOC = "token_split_on_char: source of at most 5 bytes, siblings do not overlap"
for _n, _k in ((1, 0), (3, 1), (3, 2)):
    _tok("split_on_char", "h_split_on_char", ["token_split_on_char", "token_new"], _n, _k, None, "no", K=3, name="tok_split_on_char_n%d_%d" % (_n, _k),
         assumptions=[_SOC, "only forward links, order, piece starts and the first/last piece's extent are demanded here; C15's full statement for the result is unit tok_split_on_char_full"])
# ... and C15's statement for its result.  FAILS ON THE UNCHANGED TREE (reported to the lead, candidate genuine defect): the new pieces get
# prev == NULL, the old successor keeps prev == t, and a piece that is split again gets len = offset from the ORIGINAL start, so its
# [start,start+len) overlaps the following pieces and can leave the source.  tier="thorough" so the quick check stays green.
# (failed on the pinned tree -- genuine defect, repaired: see known_findings.txt "fixed: property=C15 ... token_split_on_char")
_tok("split_on_char", "h_split_on_char", ["token_split_on_char", "token_new"], 2, 0, None, "no", K=3, tier="quick", extra=["-DSPLIT_CHAR_FULL"], name="tok_split_on_char_full", assumptions=[_SOC])
# token_remove_last_child with a SINGLE child: frees it and leaves parent->child dangling (use-after-free for the next reader under
# -DDISABLE_OBJECT_POOL).  Not reachable from the only call site (mmd.c strip_line_tokens_from_block), hence a precondition in the quick
# units; kept as a thorough unit that FAILS ON THE UNCHANGED TREE to document the hazard (reported to the lead).
# NOT REGISTERED (would fail, but is not a violation of C15): token_remove_last_child on a parent with a SINGLE child frees the
# child and leaves parent->child dangling.  The only call site (mmd.c, list-item handling) always has >= 2 children, so the
# contract's precondition excludes it; build it with -DSINGLE_CHILD to see the hazard.
# _tok("remove_last_child", "h_remove_last_child", ["token_remove_last_child"], 2, 0, None, "op1", K=3, tier="thorough", extra=["-DSINGLE_CHILD"], name="tok_remove_last_child_single")
_tok_family(3, "quick", lite=True)
_tok_family(4, "thorough", width=False)

# ---- 2. enum relations: compile-time obligations on the real headers (proof, loop-free) ------------------------
U("enum_relations", ["C15"], "h_enums", ["C15/enums.c"], [], plain=True, lib=(), kind="proof", min_obligations=250, functions=[], native=None, cost=1,
  callees={}, assumptions=["the list of comparisons (C15/enum_gen.h) is generated from the headers by C15/gen_enums.py; C15/facts.py regenerates and re-evaluates it from the tree under check on every run"])

# ---- 3. token_trim_* over a source of symbolic size (DFCC + loop contracts), char classes (plain, 256 bytes) -----
_WS = "(string[g_k] == ' ' || string[g_k] == '\\t')"
_WSLE = "(string[g_k] == ' ' || string[g_k] == '\\t' || string[g_k] == '\\n' || string[g_k] == '\\r' || string[g_k] == 0)"
_TRIM_LEAD_LOOP = {"token_trim_leading_whitespace": [{
    "loop_id": 0, "vars": ["t", "string"],
    "invariants": "t->start + t->len == __CPROVER_loop_entry(t->start) + __CPROVER_loop_entry(t->len) && t->start >= __CPROVER_loop_entry(t->start) && t->start <= g_n && t->len <= g_n - t->start"
                  " && (!(__CPROVER_loop_entry(t->start) <= g_k && g_k < t->start) || " + _WS + ")",
    "assigns": "t->start, t->len", "decreases": "t->len"}]}
_TRIM_TRAIL_LOOP = {"token_trim_trailing_whitespace": [{
    "loop_id": 0, "vars": ["t", "string"],
    "invariants": "t->start == __CPROVER_loop_entry(t->start) && t->len <= __CPROVER_loop_entry(t->len)"
                  " && (!(t->start + t->len <= g_k && g_k < t->start + __CPROVER_loop_entry(t->len)) || " + _WSLE + ")",
    "assigns": "t->len", "decreases": "t->len"}]}
_TRIM_NATIVE = {"repo": ["token.c", "char.c"]}
_TRIM_ASSUME = ["char_is_whitespace / char_is_whitespace_or_line_ending used through their contracts (proved for all 256 bytes in unit char_classes)", "source object of 1..2^40 bytes"]
U("trim_leading", ["C15", "C01", "C16"], "h_trim_leading", ["C15/trim.c"], ["token.c", "char.c"], enforce="token_trim_leading_whitespace", replace=["char_is_whitespace"],
  loops=_TRIM_LEAD_LOOP, lib=(), native=_TRIM_NATIVE, small=["-DSRC_MAX=8"], callees={"char_is_whitespace": "contract"}, assumptions=_TRIM_ASSUME, cost=5)
U("trim_trailing", ["C15", "C01", "C16"], "h_trim_trailing", ["C15/trim.c"], ["token.c", "char.c"], enforce="token_trim_trailing_whitespace", replace=["char_is_whitespace_or_line_ending"],
  loops=_TRIM_TRAIL_LOOP, lib=(), native=_TRIM_NATIVE, small=["-DSRC_MAX=8"], callees={"char_is_whitespace_or_line_ending": "contract"}, assumptions=_TRIM_ASSUME, cost=5)
U("trim_both", ["C15", "C01", "C16"], "h_trim_both", ["C15/trim.c"], ["token.c", "char.c"], enforce="token_trim_whitespace",
  replace=["token_trim_leading_whitespace", "token_trim_trailing_whitespace"], lib=(), native=_TRIM_NATIVE, small=["-DSRC_MAX=8"],
  callees={"token_trim_leading_whitespace": "contract (unit trim_leading)", "token_trim_trailing_whitespace": "contract (unit trim_trailing)"}, assumptions=_TRIM_ASSUME, cost=5)
U("char_classes", ["C15", "C01"], "h_char_classes", ["C15/trim.c"], ["char.c", "token.c"], plain=True, lib=(), kind="proof", functions=["char_is_whitespace", "char_is_line_ending", "char_is_whitespace_or_line_ending", "char_is_punctuation", "char_is_alpha", "char_is_digit", "char_is_alphanumeric", "char_is_lower_case", "char_is_upper_case", "char_is_intraword", "char_is_whitespace_or_punctuation", "char_is_whitespace_or_line_ending_or_punctuation"],
  native={"repo": ["char.c", "token.c"]}, callees={}, cost=1, assumptions=["smart_char_type (non-const static table) holds its initialiser: no function in /repo/src writes it"])

# ---- deindent_line (mmd.c): line stripping keeps spans and links coherent (seeded change C15-m2 is caught here)
U("c15_deindent_line", ["C15", "C01"], "h_deindent", ["C15/deindent.c"], ["mmd.c", "token.c", "char.c"], plain=True, lib=(), kind="finite",
  defines=["-DDISABLE_OBJECT_POOL"], cbmc_flags=["--unwind", "4", "--unwinding-assertions"],
  functions=["deindent_line"], callees={"token_free": "body (DISABLE_OBJECT_POOL: the indent token is really released)"},
  native=None, min_obligations=20, assumptions=[NOFAIL, "children of the line are contiguous (tokenizer, assumed); 1..3 children, all spans symbolic"])

# ---- standalone superscript / subscript: the marker is stretched over the word, the covered tokens pruned, the next one cut
#      (one unit per concrete layout: marker position + lengths of the following plain-text tokens; source bytes symbolic)
for _ty, _st, _ls in (("SUPERSCRIPT", 0, (1, 1, 2)), ("SUPERSCRIPT", 0, (1, 1, 3)), ("SUPERSCRIPT", 1, (1, 2, 2)), ("SUPERSCRIPT", 1, (2, 1, 2)), ("SUPERSCRIPT", 0, (3, 0, 0)), ("SUPERSCRIPT", 1, (2, 3, 0)),
                      ("SUBSCRIPT", 0, (1, 1, 2)), ("SUBSCRIPT", 1, (1, 2, 2)), ("SUBSCRIPT", 1, (2, 3, 0))):
    _n = _st + 1 + sum(_ls)
    U("c15_standalone_%s_at%d_l%d%d%d" % ((_ty.lower(), _st) + _ls), ["C15", "C16", "C01"], "h_ambi_sup", ["C15/ambi_sup.c"], ["mmd.c", "char.c"], plain=True, lib=(), kind="bounded",
      defines=["-DNSRC=%d" % _n, "-DNT=3", "-DSTART=%d" % _st, "-DKIND_PLAIN", "-DFIXED_LAYOUT", "-DTOKTYPE=" + _ty] + ["-DL%d=%d" % (i + 1, l) for i, l in enumerate(_ls)],
      bounds={"source bytes": _n, "marker position": _st, "following plain-text tokens (lengths)": list(_ls), "unwind": _n + 3},
      cbmc_flags=["--unwind", str(_n + 3), "--unwindset", "mmd_assign_ambidextrous_tokens_in_block.14:6", "--unwinding-assertions"], timeout=600, cost=10,   # .14 = the outer while (t != NULL) over the chain (<= 4 tokens)
      functions=["mmd_assign_ambidextrous_tokens_in_block (SUPERSCRIPT/SUBSCRIPT arm)"], callees={"char_is_*": "body (real table)", "tokens_prune, token_new": "contract stubs (the range leaves the chain; a fresh token with the given span)"},
      native=None, min_obligations=20, assumptions=[NOFAIL, "the chain is contiguous, non-empty tokens inside the NUL-terminated source (lexer contract, assumed)"])

# ---- token_chain_accept: the cursor primitive (loop-free, every input) ---------------------------------------
U("chain_accept", ["C15", "C01"], "h_chain_accept", ["C15/chain_accept.c"], ["token.c", "char.c"], enforce="token_chain_accept", lib=(),
  callees={}, native={"repo": ["token.c", "char.c", "object_pool.c", "stack.c"]}, min_obligations=5)
_CH_NATIVE = {"repo": ["token.c", "char.c", "object_pool.c", "stack.c"]}
for _ar in (2, 3):
    U("chain_accept_multiple_%d" % _ar, ["C15", "C01"], "h_accept_multiple", ["C15/chain_accept.c"], ["token.c", "char.c"], plain=True, lib=(), kind="bounded",
      defines=["-DARITY=%d" % _ar], bounds={"arity (every call site in /repo uses 2 or 3)": _ar, "chain length<=": 4, "unwind": 6},
      cbmc_flags=["--unwind", "6", "--unwinding-assertions"], functions=["token_chain_accept_multiple", "token_chain_accept"],
      callees={"token_chain_accept": "body (contract: unit chain_accept)", "va_arg": "CBMC built-in"}, native=_CH_NATIVE, min_obligations=5, cost=3)
U("chain_skip_until", ["C15", "C01"], "h_skip_until", ["C15/chain_accept.c"], ["token.c", "char.c"], plain=True, lib=(), kind="bounded",
  bounds={"chain length<=": 4, "unwind": 6}, cbmc_flags=["--unwind", "6", "--unwinding-assertions"], functions=["token_skip_until_type"],
  callees={}, native=_CH_NATIVE, min_obligations=5, cost=3)
U("chain_skip_until_multiple", ["C15", "C01"], "h_skip_until_multiple", ["C15/chain_accept.c"], ["token.c", "char.c"], plain=True, lib=(), kind="bounded",
  bounds={"arity (the one call site in /repo)": 2, "chain length<=": 4, "unwind": 6}, cbmc_flags=["--unwind", "6", "--unwinding-assertions"], functions=["token_skip_until_type_multiple"],
  callees={"va_arg": "CBMC built-in"}, native=_CH_NATIVE, min_obligations=5, cost=3)
U("strip_leading_ws_K3", ["C15", "C16", "C01"], "h_strip_leading", ["C15/strip_lead.c"], ["writer.c", "token.c", "char.c"], plain=True, lib=(), kind="bounded",
  defines=["-DI18N_DISABLED=1"], bounds={"chain length<=": 3, "source bytes": 4, "unwind": 7}, cbmc_flags=["--unwind", "7", "--unwinding-assertions"],
  functions=["strip_leading_whitespace", "token_trim_leading_whitespace"], callees={"token_trim_leading_whitespace": "body (contract: unit trim_leading)", "char_is_whitespace": "body and table"},
  native=None, min_obligations=10, timeout=300, cost=10)
