/* C15 (also C01) -- token_chain_accept (unmodified /repo/src/token.c), the cursor primitive the definition /
 * abbreviation extractors of writer.c walk token chains with.  Loop-free: one DFCC run covers every input
 * (cursor NULL, empty chain, any token, any type).  Contract, from C15's statement ("navigation stays on the
 * chain"): the cursor advances by exactly one sibling iff the first token has the requested type, the token
 * accepted is returned, and nothing but the cursor is written (the chain itself is untouched: frame).   */
#include "verif.h"
#include "token.h"

token * g_cur;    /* ghost: the token the cursor points at on entry (NULL: no cursor / end of chain) */
token * g_next;   /* ghost: its successor on entry */

#define PRE_accept ((t == NULL ? g_cur == NULL : *t == g_cur) && (g_cur == NULL || g_cur->next == g_next))
#define ACC_MATCH (g_cur != NULL && g_cur->type == type)
#define POST_accept (ACC_MATCH ? (RET == g_cur && *t == g_next) : (RET == NULL && (t == NULL || *t == g_cur)))
CONTRACT(token *, token_chain_accept, (token ** t, unsigned short type), PRE_accept, POST_accept, __CPROVER_assigns(t != NULL: *t))

void h_chain_accept(void) {
	IN(bool, have_cursor); IN(bool, have_token); IN(bool, have_next);
	IN(unsigned short, ty); IN(unsigned short, type);
	token * nx = ALLOC(sizeof(token));
	nx->type = 0; nx->start = 0; nx->len = 0; nx->next = NULL; nx->prev = NULL; nx->child = NULL; nx->mate = NULL; nx->tail = nx;
	token * tk = ALLOC(sizeof(token));
	tk->type = ty; tk->start = 0; tk->len = 0; tk->prev = NULL; tk->child = NULL; tk->mate = NULL; tk->tail = tk;
	tk->next = have_next ? nx : NULL;
	token * slot = have_token ? tk : NULL;
	token ** t = have_cursor ? &slot : NULL;
	g_cur = have_cursor ? slot : NULL;
	g_next = tk->next;
	CALLR(token *, token_chain_accept(t, type), PRE_accept, POST_accept)
	/* the chain is as it was */
	ASSERT(tk->type == ty && tk->next == (have_next ? nx : NULL) && nx->next == NULL, "C15: token_chain_accept leaves the chain untouched");
	REACH();
}

/* ---- bounded companions (plain CBMC, loops unwound with unwinding assertions) ------------------------------
 * token_chain_accept_multiple at the arities every call site in /repo uses (2 and 3), and the two skipping loops
 * token_skip_until_type / token_skip_until_type_multiple on chains of <= CH_K tokens with symbolic types.
 * An unbounded linked list cannot be stated in CBMC's loop-invariant language (no recursive predicates), hence
 * bounded.  token_skip_until_type is used through a stub restating this contract in the C09 unit
 * c09_sub_asset_paths_*: this unit is what stands behind that stub.                                           */
#include <stdarg.h>
#ifndef CH_K
#define CH_K 4
#endif
#ifndef ARITY
#define ARITY 2
#endif
token * token_chain_accept_multiple(token ** t, int n, ...);
void token_skip_until_type_multiple(token ** t, int n, ...);

static token * ch_node[CH_K + 1];
static token * ch_build(unsigned n, const unsigned short * ty) {
	for (unsigned i = 0; i < CH_K; i++) {
		token * x = ALLOC(sizeof(token));
		x->type = ty[i]; x->start = i; x->len = 1; x->next = NULL; x->prev = NULL; x->child = NULL; x->mate = NULL; x->tail = x;
		ch_node[i] = x;
	}
	ch_node[CH_K] = NULL;
	for (unsigned i = 0; i + 1 < CH_K; i++) {
		if (i + 1 < n) { ch_node[i]->next = ch_node[i + 1]; ch_node[i + 1]->prev = ch_node[i]; }
	}
	return n ? ch_node[0] : NULL;
}
/* the chain is as built */
static bool ch_untouched(unsigned n, const unsigned short * ty) {
	for (unsigned i = 0; i < CH_K; i++) {
		if (ch_node[i]->type != ty[i] || ch_node[i]->start != i || ch_node[i]->len != 1 || ch_node[i]->child != NULL || ch_node[i]->mate != NULL) { return false; }
		if (ch_node[i]->next != ((i + 1 < n && i + 1 < CH_K) ? ch_node[i + 1] : NULL)) { return false; }
	}
	return true;
}
/* first node at or after position 0 whose type is a or b; NULL if none among the first n */
static token * ch_first_of(unsigned n, const unsigned short * ty, unsigned short a, unsigned short b) {
	for (unsigned i = 0; i < CH_K; i++) {
		if (i < n && (ty[i] == a || ty[i] == b)) { return ch_node[i]; }
	}
	return NULL;
}

void h_accept_multiple(void) {
	IN(unsigned, n); ASSUME(n <= CH_K);
	IN_ARR(unsigned short, ty, CH_K);
	IN(unsigned short, a); IN(unsigned short, b); IN(unsigned short, c);
	token * slot = ch_build(n, ty);
	token * first = slot;
	token * r;
#if ARITY == 2
	r = token_chain_accept_multiple(&slot, 2, (int)a, (int)b);
	bool match = first != NULL && (ty[0] == a || ty[0] == b);
#else
	r = token_chain_accept_multiple(&slot, 3, (int)a, (int)b, (int)c);
	bool match = first != NULL && (ty[0] == a || ty[0] == b || ty[0] == c);
#endif
	ASSERT(match ? (r == first && slot == first->next) : (r == NULL && slot == first), "C15: token_chain_accept_multiple advances by exactly one sibling iff the first token has one of the types");
	ASSERT(ch_untouched(n, ty), "C15: token_chain_accept_multiple leaves the chain untouched");
	REACH();
}

void h_skip_until(void) {
	IN(unsigned, n); ASSUME(n <= CH_K);
	IN_ARR(unsigned short, ty, CH_K);
	IN(unsigned short, type);
	token * slot = ch_build(n, ty);
	token_skip_until_type(&slot, type);
	ASSERT(slot == ch_first_of(n, ty, type, type), "C15: token_skip_until_type stops at the FIRST sibling of the type, NULL when there is none");
	ASSERT(ch_untouched(n, ty), "C15: token_skip_until_type leaves the chain untouched");
	REACH();
}

void h_skip_until_multiple(void) {
	IN(unsigned, n); ASSUME(n <= CH_K);
	IN_ARR(unsigned short, ty, CH_K);
	IN(unsigned short, a); IN(unsigned short, b);
	token * slot = ch_build(n, ty);
	token_skip_until_type_multiple(&slot, 2, (int)a, (int)b);
	ASSERT(slot == ch_first_of(n, ty, a, b), "C15: token_skip_until_type_multiple stops at the FIRST sibling of either type, NULL when there is none");
	ASSERT(ch_untouched(n, ty), "C15: token_skip_until_type_multiple leaves the chain untouched");
	REACH();
}
