/* C15 (also C01) -- token_chain_accept (unmodified /repo/src/token.c), the cursor primitive the definition /
 * abbreviation extractors of writer.c walk token chains with.  Loop-free: one DFCC run covers every input
 * (cursor NULL, empty chain, any token, any type).  Contract, from C15's statement ("navigation stays on the
 * chain"): the cursor advances by exactly one sibling iff the first token has the requested type, the token
 * accepted is returned, and nothing but the cursor is written (the chain itself is untouched: frame).   */
#include "verif.h"
#include "token.h"

token * g_cur;    /* ghost: the token the cursor points at on entry (NULL: no cursor / end of chain) */
token * g_next;   /* ghost: its successor on entry */

#define PRE_accept ((t == NULL ? g_cur == NULL : *t == g_cur) && (g_cur == NULL || g_cur->next == g_next))
#define ACC_MATCH (g_cur != NULL && g_cur->type == type)
#define POST_accept (ACC_MATCH ? (RET == g_cur && *t == g_next) : (RET == NULL && (t == NULL || *t == g_cur)))
CONTRACT(token *, token_chain_accept, (token ** t, unsigned short type), PRE_accept, POST_accept, __CPROVER_assigns(t != NULL: *t))

void h_chain_accept(void) {
	IN(bool, have_cursor); IN(bool, have_token); IN(bool, have_next);
	IN(unsigned short, ty); IN(unsigned short, type);
	token * nx = ALLOC(sizeof(token));
	nx->type = 0; nx->start = 0; nx->len = 0; nx->next = NULL; nx->prev = NULL; nx->child = NULL; nx->mate = NULL; nx->tail = nx;
	token * tk = ALLOC(sizeof(token));
	tk->type = ty; tk->start = 0; tk->len = 0; tk->prev = NULL; tk->child = NULL; tk->mate = NULL; tk->tail = tk;
	tk->next = have_next ? nx : NULL;
	token * slot = have_token ? tk : NULL;
	token ** t = have_cursor ? &slot : NULL;
	g_cur = have_cursor ? slot : NULL;
	g_next = tk->next;
	CALLR(token *, token_chain_accept(t, type), PRE_accept, POST_accept)
	/* the chain is as it was */
	ASSERT(tk->type == ty && tk->next == (have_next ? nx : NULL) && nx->next == NULL, "C15: token_chain_accept leaves the chain untouched");
	REACH();
}
