"""C15 static facts: the enum relations, regenerated from the headers of the tree under check on every run (a new
enumerator or parser symbol is covered automatically) and evaluated by CBMC; plus a staleness check of the
committed list used by unit enum_relations."""
import os, re, subprocess, sys


def run(work, repo):
    here = os.path.dirname(os.path.abspath(__file__)) if "__file__" in globals() else "/verif/contracts/C15"
    here = "/verif/contracts/C15" if not os.path.exists(os.path.join(here, "gen_enums.py")) else here
    ns = {"__name__": "gen_enums"}
    exec(compile(open(os.path.join(here, "gen_enums.py")).read(), "gen_enums.py", "exec"), ns)
    out = []
    try:
        text, counts = ns["generate"](repo)
    except Exception as e:
        return [{"name": "enum_relations_fresh", "status": "inconclusive", "diag": "SPEC-STALE cannot list enumerators: %s" % e, "detail": str(e)}]
    wdir = os.path.join(work, "c15_facts")
    os.makedirs(wdir, exist_ok=True)
    gen = os.path.join(wdir, "enum_gen_fresh.h")
    open(gen, "w").write(text)
    contracts = os.path.dirname(here)
    inc = ["-I" + os.path.join(contracts, "lib"), "-I" + contracts, "-I" + os.path.join(repo, "src")]
    for b in (os.path.join(repo, "_build"), "/repo/_build", os.path.join(contracts, "lib", "fallback_build")):
        if os.path.exists(os.path.join(b, "version.h")):
            inc.append("-I" + b)
            break
    obj, gb = os.path.join(wdir, "enums.o"), os.path.join(wdir, "enums.gb")
    try:
        p = subprocess.run(["goto-cc", "-c", '-DENUM_GEN="%s"' % gen] + inc + [os.path.join(here, "enums.c"), "-o", obj], capture_output=True, text=True, timeout=120)
        if p.returncode != 0:
            return [{"name": "enum_relations_fresh", "status": "inconclusive", "diag": "goto-cc failed on the generated enum list", "detail": (p.stdout + p.stderr)[-1500:]}]
        p = subprocess.run(["goto-cc", "--function", "h_enums", obj, "-o", gb], capture_output=True, text=True, timeout=120)
        p = subprocess.run(["cbmc", gb], capture_output=True, text=True, timeout=300)
    except Exception as e:
        return [{"name": "enum_relations_fresh", "status": "inconclusive", "diag": "tool error: %s" % e, "detail": str(e)}]
    res = re.findall(r"^\[(h_enums\.assertion\.\d+)\] .*?line \d+ (.*): (SUCCESS|FAILURE)$", p.stdout, re.M)
    facts = [(d, s) for _, d, s in res if "VERIF_REACH" not in d]
    reach = [s for _, d, s in res if "VERIF_REACH" in d]
    bad = [d for d, s in facts if s != "SUCCESS"]
    n_expected = text.count("ENUM_FACT(")
    if not reach or reach[0] != "FAILURE" or len(facts) != n_expected:
        out.append({"name": "enum_relations_fresh", "status": "inconclusive", "diag": "cbmc evaluated %d of %d generated comparisons" % (len(facts), n_expected), "detail": p.stdout[-1500:]})
    elif bad:
        out.append({"name": "enum_relations_fresh", "status": "violation", "native": "reproduced",
                    "detail": "enum relations violated in %s/src headers (compile-time fact, no input needed):\n  " % repo + "\n  ".join(bad)})
    else:
        out.append({"name": "enum_relations_fresh", "status": "ok",
                    "detail": "%d comparisons generated from the headers (%d token types, %d CriticMarkup types, %d parser.h symbols) all hold" % (n_expected, counts["token_types"], counts["cm_types"], counts["parser_defines"])})
    committed = open(os.path.join(here, "enum_gen.h")).read()
    if committed != text:
        new = sorted(set(re.findall(r'"(.*?)"\);', text)) - set(re.findall(r'"(.*?)"\);', committed)))
        out.append({"name": "enum_list_current", "status": "ok",
                    "diag": "SPEC-STALE committed C15/enum_gen.h lacks %d comparisons of the current headers (covered by enum_relations_fresh; regenerate with gen_enums.py)" % len(new),
                    "detail": "\n".join(new[:20])})
    else:
        out.append({"name": "enum_list_current", "status": "ok", "detail": "committed enum_gen.h equals the list generated from the headers"})
    return out
