/* C15 (also C16/C01) -- token_trim_leading_whitespace / token_trim_trailing_whitespace / token_trim_whitespace
 * (unmodified /repo/src/token.c) over a source of SYMBOLIC size: the token span stays inside its original span and
 * inside the source, and every removed byte is in the whitespace class.  DFCC, loop contracts from defs.py.
 * char_is_whitespace / char_is_whitespace_or_line_ending are used through contracts here (DFCC havocs the non-const
 * table smart_char_type); the contracts themselves are proved for all 256 bytes in the plain unit char_classes
 * against the sets documented in char.h.                                                                       */
#include "verif.h"
#include "token.h"
#include "char.h"

size_t g_n;            /* ghost: size of the source object */
const char * g_str;    /* ghost: the source */
size_t g_k;            /* ghost index: "for every k" */

/* the sets documented in char.h (enum char_types) */
#define IS_WS(c) ((c) == ' ' || (c) == '\t')
#define IS_LE(c) ((c) == '\n' || (c) == '\r' || (c) == '\0')
#define IS_WS_LE(c) (IS_WS(c) || IS_LE(c))
#define IS_DIGIT(c) ((c) >= '0' && (c) <= '9')
#define IS_UPPER(c) ((c) >= 'A' && (c) <= 'Z')
#define IS_LOWER(c) ((c) >= 'a' && (c) <= 'z')
#define IS_INTRA(c) ((c) == '-' || (c) == '\'')
/* .!?,;:"'`~(){}[]#$%+-=<>&@\/^*_|  == every ASCII punctuation character */
#define IS_PUNCT(c) (((c) >= 33 && (c) <= 47) || ((c) >= 58 && (c) <= 64) || ((c) >= 91 && (c) <= 96) || ((c) >= 123 && (c) <= 126))

#ifndef VERIF_NATIVE
int char_is_whitespace__contract(char c) __CPROVER_ensures((__CPROVER_return_value != 0) == IS_WS(c)) __CPROVER_assigns();
int char_is_whitespace_or_line_ending__contract(char c) __CPROVER_ensures((__CPROVER_return_value != 0) == IS_WS_LE(c)) __CPROVER_assigns();
#endif

#define SPAN_IN_SRC(t) ((t)->start <= g_n && (t)->len <= g_n - (t)->start)
#define PRE_trim (t != NULL && string == g_str && SPAN_IN_SRC(t))

/* leading: the end of the span is fixed, the start moves right over whitespace only, and stops at the first
 * non-whitespace byte (or when the token is empty) */
#define POST_trim_leading (SPAN_IN_SRC(t) && t->start >= OLD(t->start) && t->start + t->len == OLD(t->start) + OLD(t->len) \
	&& (!(OLD(t->start) <= g_k && g_k < t->start) || IS_WS(string[g_k])) \
	&& (t->len == 0 || !IS_WS(string[t->start])))
CONTRACT(void, token_trim_leading_whitespace, (token * t, const char * string), PRE_trim, POST_trim_leading, __CPROVER_assigns(t->start, t->len))

/* trailing: the start is fixed, the end moves left over whitespace / line endings only */
#define POST_trim_trailing (SPAN_IN_SRC(t) && t->start == OLD(t->start) && t->len <= OLD(t->len) \
	&& (!(t->start + t->len <= g_k && g_k < OLD(t->start) + OLD(t->len)) || IS_WS_LE(string[g_k])) \
	&& (t->len == 0 || !IS_WS_LE(string[t->start + t->len - 1])))
CONTRACT(void, token_trim_trailing_whitespace, (token * t, const char * string), PRE_trim, POST_trim_trailing, __CPROVER_assigns(t->len))

/* both: new span inside the old one; bytes removed in front are whitespace, bytes removed behind are whitespace or
 * line endings */
#define POST_trim_both (SPAN_IN_SRC(t) && t->start >= OLD(t->start) && t->start + t->len <= OLD(t->start) + OLD(t->len) \
	&& (!(OLD(t->start) <= g_k && g_k < t->start) || IS_WS(string[g_k])) \
	&& (!(t->start + t->len <= g_k && g_k < OLD(t->start) + OLD(t->len)) || IS_WS_LE(string[g_k])) \
	&& (t->len == 0 || (!IS_WS(string[t->start]) && !IS_WS_LE(string[t->start + t->len - 1]))))
CONTRACT(void, token_trim_whitespace, (token * t, const char * string), PRE_trim, POST_trim_both, __CPROVER_assigns(t->start, t->len))

#ifndef SRC_MAX
#define SRC_MAX (1UL << 40)
#endif
#define TRIM_SHAPE \
	IN(size_t, n); ASSUME(n >= 1 && n <= SRC_MAX); \
	char * src = ALLOC(n); g_n = n; g_str = src; \
	IN(size_t, k); g_k = k; \
	token * t = ALLOC(sizeof(token)); IN(size_t, start); IN(size_t, len); t->start = start; t->len = len; \
	t->next = NULL; t->prev = NULL; t->child = NULL; t->mate = NULL; t->tail = t; t->type = 0; \
	const char * string = src;
#ifdef VERIF_NATIVE
#define TRIM_FILL IN_FILL(src, n)
#else
#define TRIM_FILL      /* a fresh object has nondeterministic content */
#endif

void h_trim_leading(void) {
	TRIM_SHAPE TRIM_FILL
	CALLV(token_trim_leading_whitespace(t, string), PRE_trim, POST_trim_leading)
	REACH();
}
void h_trim_trailing(void) {
	TRIM_SHAPE TRIM_FILL
	CALLV(token_trim_trailing_whitespace(t, string), PRE_trim, POST_trim_trailing)
	REACH();
}
void h_trim_both(void) {
	TRIM_SHAPE TRIM_FILL
	CALLV(token_trim_whitespace(t, string), PRE_trim, POST_trim_both)
	REACH();
}

/* ---- the char_is_* contracts, all 256 bytes, against the sets documented in char.h (plain unit: static
 * initialisers kept) ---- */
void h_char_classes(void) {
	IN(unsigned char, byte);
	char c = (char)byte;
	ASSERT((char_is_whitespace(c) != 0) == IS_WS(c), "char_is_whitespace(c) <=> c in {' ', TAB}");
	ASSERT((char_is_line_ending(c) != 0) == IS_LE(c), "char_is_line_ending(c) <=> c in {LF, CR, NUL}");
	ASSERT((char_is_whitespace_or_line_ending(c) != 0) == IS_WS_LE(c), "char_is_whitespace_or_line_ending(c) <=> c in {' ', TAB, LF, CR, NUL}");
	ASSERT((char_is_digit(c) != 0) == IS_DIGIT(c), "char_is_digit(c) <=> 0-9");
	ASSERT((char_is_upper_case(c) != 0) == IS_UPPER(c), "char_is_upper_case(c) <=> A-Z");
	ASSERT((char_is_lower_case(c) != 0) == IS_LOWER(c), "char_is_lower_case(c) <=> a-z");
	ASSERT((char_is_alpha(c) != 0) == (IS_UPPER(c) || IS_LOWER(c)), "char_is_alpha(c) <=> a-zA-Z");
	ASSERT((char_is_alphanumeric(c) != 0) == (IS_UPPER(c) || IS_LOWER(c) || IS_DIGIT(c)), "char_is_alphanumeric(c) <=> a-zA-Z0-9");
	ASSERT((char_is_punctuation(c) != 0) == IS_PUNCT(c), "char_is_punctuation(c) <=> ASCII punctuation");
	ASSERT((char_is_intraword(c) != 0) == (IS_UPPER(c) || IS_LOWER(c) || IS_INTRA(c)), "char_is_intraword(c) <=> alpha or one of - '");
	ASSERT((char_is_whitespace_or_punctuation(c) != 0) == (IS_WS(c) || IS_PUNCT(c)), "char_is_whitespace_or_punctuation");
	ASSERT((char_is_whitespace_or_line_ending_or_punctuation(c) != 0) == (IS_WS_LE(c) || IS_PUNCT(c)), "char_is_whitespace_or_line_ending_or_punctuation");
	ASSERT(byte < 0x80 || (!char_is_whitespace(c) && !char_is_line_ending(c) && !char_is_punctuation(c) && !char_is_alpha(c) && !char_is_digit(c) && !char_is_intraword(c)),
		"no byte >= 0x80 is in any class (0xA0 is not whitespace in this table; a trim never removes part of a UTF-8 sequence)");
	REACH();
}
