/* C15 (also C16/C01) -- strip_leading_whitespace (/repo/src/writer.c, unmodified; used on footnote / definition / list
 * item bodies): BOUNDED chains of <= SL_K tokens, types symbolic, spans symbolic inside a source of <= SL_N symbolic bytes.
 * From C15's statement: every token keeps a span inside its ORIGINAL span (hence inside the source); the chain links
 * are untouched; only leading indent tokens are retagged (TEXT_EMPTY) and only the first token after them, if it is
 * TEXT_PLAIN, is shortened -- at its front, by whitespace bytes only (C16: never part of a multi-byte sequence);
 * everything behind the first non-indent token is untouched.                                                     */
#include "verif.h"
#include "token.h"
#include "libMultiMarkdown.h"
void strip_leading_whitespace(token * chain, const char * source);

#ifndef SL_K
#define SL_K 3
#endif
#ifndef SL_N
#define SL_N 4
#endif
#define IS_INDENT(ty) ((ty) == INDENT_TAB || (ty) == INDENT_SPACE || (ty) == NON_INDENT_SPACE)

void h_strip_leading(void) {
	IN(unsigned, n); ASSUME(n <= SL_K);
	IN_ARR(unsigned short, ty, SL_K); IN_ARR(unsigned char, st, SL_K); IN_ARR(unsigned char, ln, SL_K);
	IN_ARR(unsigned char, bytes, SL_N);
	char * src = ALLOC(SL_N + 1);
	for (unsigned i = 0; i < SL_N; i++) { src[i] = (char)bytes[i]; }
	src[SL_N] = 0;
	token * node[SL_K];
	for (unsigned i = 0; i < SL_K; i++) {
		ASSUME(st[i] <= SL_N && ln[i] <= SL_N - st[i]);
		token * x = ALLOC(sizeof(token));
		x->type = ty[i]; x->start = st[i]; x->len = ln[i]; x->next = NULL; x->prev = NULL; x->child = NULL; x->mate = NULL; x->tail = x;
		node[i] = x;
	}
	for (unsigned i = 0; i + 1 < SL_K; i++) { if (i + 1 < n) { node[i]->next = node[i + 1]; node[i + 1]->prev = node[i]; } }
	token * chain = n ? node[0] : NULL;
	strip_leading_whitespace(chain, src);
	bool lead = true;      /* still inside the run of leading indent / empty tokens */
	for (unsigned i = 0; i < SL_K; i++) {
		token * x = node[i];
		ASSERT(x->next == ((i + 1 < n && i + 1 < SL_K) ? node[i + 1] : NULL) && x->child == NULL && x->mate == NULL, "C15: strip_leading_whitespace leaves the chain links untouched");
		ASSERT(x->start >= st[i] && x->start + x->len == (size_t)st[i] + ln[i], "C15: every span stays inside its original span, its end is fixed");
		if (i < n && lead) {
			if (IS_INDENT(ty[i]) || ty[i] == TEXT_EMPTY) {
				ASSERT(x->type == TEXT_EMPTY && x->start == st[i], "leading indent tokens become TEXT_EMPTY, spans unchanged");
			} else {
				lead = false;
				ASSERT(x->type == ty[i], "the first non-indent token keeps its type");
				if (ty[i] == TEXT_PLAIN) {
					for (unsigned k = 0; k < SL_N; k++) {
						if (k >= st[i] && k < x->start) { ASSERT(src[k] == ' ' || src[k] == '\t', "C16/C15: only space / TAB bytes are cut from the front of the text token"); }
					}
					ASSERT(x->len == 0 || !(src[x->start] == ' ' || src[x->start] == '\t'), "the text token no longer starts with whitespace");
				} else {
					ASSERT(x->start == st[i], "a non-text token is not shortened");
				}
			}
		} else {
			ASSERT(x->type == ty[i] && x->start == st[i], "tokens behind the first non-indent token (and tokens not on the chain) are untouched");
		}
	}
	REACH();
}
