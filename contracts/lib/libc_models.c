/* libc_models.c -- executable reference models of the libc byte movers for the
 * BOUNDED content units (byte loops, unwound by --unwind with unwinding
 * assertions).  CBMC's built-in array-based memmove/memcpy models do not get
 * through propositional reduction when the length is symbolic and the
 * destination is reached through a heap pointer (measured: >10 min at 6 bytes),
 * so these plain loops stand in.  They restate the C standard; assumed. */
#include <stddef.h>

size_t strlen(const char *s) {
	size_t i = 0;
	while (s[i] != 0) {
		i++;
	}
	return i;
}

void *memmove(void *dst, const void *src, size_t n) {
	char *d = dst;
	const char *s = src;
	if (n == 0) {
		return dst;
	}
	if (__CPROVER_same_object(d, s) && __CPROVER_POINTER_OFFSET(d) > __CPROVER_POINTER_OFFSET(s)) {
		for (size_t i = n; i > 0; i--) {
			d[i - 1] = s[i - 1];
		}
	} else {
		for (size_t i = 0; i < n; i++) {
			d[i] = s[i];
		}
	}
	return dst;
}

void *memcpy(void *dst, const void *src, size_t n) {
	char *d = dst;
	const char *s = src;
	__CPROVER_precondition(n == 0 || !__CPROVER_same_object(d, s) ||
						   __CPROVER_POINTER_OFFSET(d) + n <= __CPROVER_POINTER_OFFSET(s) ||
						   __CPROVER_POINTER_OFFSET(s) + n <= __CPROVER_POINTER_OFFSET(d), "memcpy regions do not overlap");
	for (size_t i = 0; i < n; i++) {
		d[i] = s[i];
	}
	return dst;
}

char *strncpy(char *dst, const char *src, size_t n) {
	size_t i = 0;
	for (; i < n && src[i] != 0; i++) {
		dst[i] = src[i];
	}
	for (; i < n; i++) {
		dst[i] = 0;
	}
	return dst;
}

char *strncat(char *dst, const char *src, size_t n) {
	size_t dl = strlen(dst);
	size_t i = 0;
	for (; i < n && src[i] != 0; i++) {
		dst[dl + i] = src[i];
	}
	dst[dl + i] = 0;
	return dst;
}

char *strstr(const char *h, const char *nd) {
	if (nd[0] == 0) {
		return (char *)h;
	}
	for (size_t i = 0; h[i] != 0; i++) {
		size_t j = 0;
		while (nd[j] != 0 && h[i + j] == nd[j]) {
			j++;
		}
		if (nd[j] == 0) {
			return (char *)(h + i);
		}
	}
	return 0;
}

char *strcpy(char *dst, const char *src) {
	size_t i = 0;
	for (; src[i] != 0; i++) {
		dst[i] = src[i];
	}
	dst[i] = 0;
	return dst;
}
