/* native_rt.c -- run-time for the native (clang + ASan/UBSan) replay of a CBMC
 * counterexample against the real /repo code.  Inputs are read from the file
 * named by $VERIF_INPUTS: lines "<name> <index|-1> <value>".  Missing inputs
 * default to $VERIF_DEFAULT (0 if unset). */
#define VERIF_NATIVE 1
#include "verif.h"
#include <stdio.h>
#include <stdlib.h>
#include <string.h>

struct in { char name[96]; long idx; unsigned long long val; };
static struct in *tab; static size_t ntab; static int loaded;

static void load(void) {
	loaded = 1;
	const char *fn = getenv("VERIF_INPUTS");
	if (!fn) return;
	FILE *f = fopen(fn, "r");
	if (!f) return;
	size_t cap = 0; char name[96]; long idx; unsigned long long v;
	while (fscanf(f, "%95s %ld %llu", name, &idx, &v) == 3) {
		if (ntab == cap) { cap = cap ? cap * 2 : 256; tab = realloc(tab, cap * sizeof *tab); }
		strcpy(tab[ntab].name, name); tab[ntab].idx = idx; tab[ntab].val = v; ntab++;
	}
	fclose(f);
}

unsigned long long verif_in(const char *name, long idx) {
	if (!loaded) load();
	/* last assignment wins */
	for (size_t i = ntab; i-- > 0;)
		if (tab[i].idx == idx && strcmp(tab[i].name, name) == 0) return tab[i].val;
	const char *d = getenv("VERIF_DEFAULT");
	return d ? strtoull(d, NULL, 0) : 0;
}

void verif_fail(const char *what) {
	printf("REPLAY-FAIL %s\n", what);
	fflush(stdout);
	abort();
}

void verif_reject(const char *what) {
	printf("REPLAY-REJECT precondition/assumption does not hold natively: %s\n", what);
	fflush(stdout);
	exit(3);
}

void *verif_alloc(size_t n) {
	if (n > (1UL << 28)) verif_reject("object too large to replay natively");
	void *p = malloc(n ? n : 1);
	if (!p) verif_reject("malloc failed");
	memset(p, 'a', n);
	return p;
}
