/* verif.h -- single-source contract/harness macro layer.
 *
 * The same spec file is compiled two ways:
 *   (a) by goto-cc for CBMC (default): CONTRACT() emits a separate declaration
 *       <fn>__contract carrying __CPROVER_requires/ensures/assigns, which
 *       goto-instrument --dfcc attaches to the UNMODIFIED function in /repo/src
 *       (--enforce-contract fn/fn__contract) or uses at call sites
 *       (--replace-call-with-contract fn/fn__contract);
 *   (b) by clang -DVERIF_NATIVE for the native replay of a counterexample
 *       against the real code: inputs come from the CBMC trace, PRE is checked
 *       (rejecting the input if it does not hold), the real function is called
 *       under ASan/UBSan and POST is a run-time assertion.  OLD(e) snapshots are
 *       hoisted by vp.py (see native_rewrite()).
 */
#ifndef VERIF_H
#define VERIF_H
#include <stddef.h>
#include <stdint.h>
#include <stdbool.h>
#include <stdlib.h>
#include <string.h>
#include <limits.h>

#ifdef VERIF_NATIVE
/* ------------------------------------------------------------------ native */
#include <stdio.h>
unsigned long long verif_in(const char *name, long idx);
void verif_fail(const char *what);
void verif_reject(const char *what);
#define IN(type, name) type name = (type)verif_in(#name, -1)
#define IN_ARR(type, name, n) type name[n]; do { for (long i__ = 0; i__ < (long)(n); i__++) name[i__] = (type)verif_in(#name, i__); } while (0)
#define IN_FILL(ptr, n) do { for (long i__ = 0; i__ < (long)(n); i__++) ((unsigned char *)(ptr))[i__] = (unsigned char)verif_in(#ptr, i__); } while (0)
#define ASSUME(c) do { if (!(c)) verif_reject(#c); } while (0)
#define ASSERT(c, msg) do { if (!(c)) verif_fail(msg); } while (0)
#define REACH() do { printf("REPLAY-END reached end of harness\n"); } while (0)
#define CONTRACT(ret, fn, params, pre, post, frame)
#define OLD(e) __VERIF_OLD(e)
#define RET __verif_ret
#define CALLV(call, pre, post) { ASSUME(pre); __VERIF_SNAP_HERE; call; ASSERT(post, "postcondition " #post); __VERIF_SNAP_END; }
#define CALLR(type, call, pre, post) type __verif_ret; { ASSUME(pre); __VERIF_SNAP_HERE; __verif_ret = call; ASSERT(post, "postcondition " #post); __VERIF_SNAP_END; }
#define ALLOC(n) verif_alloc(n)
void *verif_alloc(size_t n);
#define __CPROVER_is_fresh(p, n) ((p) != NULL)
#define __CPROVER_r_ok(p, n) ((p) != NULL || (n) == 0)
#define __CPROVER_w_ok(p, n) ((p) != NULL || (n) == 0)
#define __CPROVER_rw_ok(p, n) ((p) != NULL || (n) == 0)
#define __CPROVER_same_object(a, b) (1)
#define __CPROVER_POINTER_OFFSET(p) (0)
#define __CPROVER_OBJECT_SIZE(p) (0)
#define FRAME(...)
#else
/* -------------------------------------------------------------------- CBMC */
#define IN(type, name) type name; { type name##__nd; name = name##__nd; }
#define IN_ARR(type, name, n) type name[n]; { for (long i__ = 0; i__ < (long)(n); i__++) { type e__nd; name[i__] = e__nd; } }
#define IN_FILL(ptr, n) { for (long i__ = 0; i__ < (long)(n); i__++) { unsigned char e__nd; ((unsigned char *)(ptr))[i__] = e__nd; } }
#define ASSUME(c) __CPROVER_assume(c)
#define ASSERT(c, msg) __CPROVER_assert(c, msg)
/* reachability marker: MUST be reported FAILURE by cbmc, otherwise the unit is vacuous */
#define REACH() __CPROVER_assert(0, "VERIF_REACH end of harness")
#define CONTRACT(ret, fn, params, pre, post, frame) ret fn##__contract params __CPROVER_requires(pre) __CPROVER_ensures(post) frame;
#define OLD(e) __CPROVER_old(e)
#define RET __CPROVER_return_value
#define CALLV(call, pre, post) call;
#define CALLR(type, call, pre, post) type __verif_ret = call;
#define ALLOC(n) verif_alloc(n)
static inline void *verif_alloc(size_t n) { void *p = malloc(n); __CPROVER_assume(p != NULL); return p; }
#define FRAME(...) __CPROVER_assigns(__VA_ARGS__)
#ifdef VERIF_PLAIN
/* harness-encoded contract (Hoare triple checked by plain CBMC, no DFCC instrumentation): used where
 * DFCC's write-set instrumentation of the real libc byte movers does not terminate (bounded content
 * units) and for linked shapes.  Same PRE/POST text; OLD() snapshots hoisted by vp.py. */
#undef CONTRACT
#undef OLD
#undef RET
#undef CALLV
#undef CALLR
#define CONTRACT(ret, fn, params, pre, post, frame)
#define OLD(e) __VERIF_OLD(e)
#define RET __verif_ret
#define CALLV(call, pre, post) { ASSUME(pre); __VERIF_SNAP_HERE; call; ASSERT(post, "postcondition " #post); __VERIF_SNAP_END; }
#define CALLR(type, call, pre, post) type __verif_ret; { ASSUME(pre); __VERIF_SNAP_HERE; __verif_ret = call; ASSERT(post, "postcondition " #post); __VERIF_SNAP_END; }
#endif
#endif

#define RETV __verif_ret

#endif
