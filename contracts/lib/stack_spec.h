/* stack_spec.h -- contracts of /repo/src/stack.c (shared: C18, C10, C05, C13 ...) */
#ifndef STACK_SPEC_H
#define STACK_SPEC_H
#include "verif.h"
#include "stack.h"

#ifndef STACK_CAP_MAX
#define STACK_CAP_MAX (1 << 29)     /* assumption: fewer than 2^29 entries (capacity doubles as int) */
#endif

/* representation invariant (memory shape -- element array of capacity pointers -- is built by the harness) */
#define ST_WF(s) ((s)->capacity >= 1 && (s)->capacity <= STACK_CAP_MAX && (s)->size <= (size_t)(s)->capacity)

#define PRE_stack_push ST_WF(s)
#define POST_stack_push (ST_WF_GROWN(s) && (s)->size == OLD((s)->size) + 1 && (s)->element[(s)->size - 1] == element \
	&& ((s)->capacity == OLD((s)->capacity) || ((s)->capacity == 2 * OLD((s)->capacity) && OLD((s)->size) == (size_t)OLD((s)->capacity))) \
	&& __CPROVER_rw_ok((s)->element, (s)->capacity * sizeof(void *)))
#define ST_WF_GROWN(s) ((s)->capacity >= 1 && (s)->capacity <= 2 * STACK_CAP_MAX && (s)->size <= (size_t)(s)->capacity)
CONTRACT(void, stack_push, (stack * s, void * element), PRE_stack_push, POST_stack_push,
	__CPROVER_assigns(s->size, s->capacity, s->element, __CPROVER_object_whole(s->element)) __CPROVER_frees(s->element))

#define PRE_stack_pop ST_WF(s)
#define POST_stack_pop (ST_WF(s) && (OLD((s)->size) == 0 ? (RET == NULL && (s)->size == 0) : ((s)->size == OLD((s)->size) - 1 && RET == (s)->element[(s)->size])) \
	&& (s)->capacity == OLD((s)->capacity) && (s)->element == OLD((s)->element))
CONTRACT(void *, stack_pop, (stack * s), PRE_stack_pop, POST_stack_pop, __CPROVER_assigns(s->size))

#define PRE_stack_peek ST_WF(s)
#define POST_stack_peek (RET == ((s)->size == 0 ? NULL : (s)->element[(s)->size - 1]))
CONTRACT(void *, stack_peek, (stack * s), PRE_stack_peek, POST_stack_peek, __CPROVER_assigns())

#define PRE_stack_peek_index ST_WF(s)
#define POST_stack_peek_index (RET == (index >= (s)->size ? NULL : (s)->element[index]))
CONTRACT(void *, stack_peek_index, (stack * s, size_t index), PRE_stack_peek_index, POST_stack_peek_index, __CPROVER_assigns())

/* harness helper: a stack of symbolic capacity and size; element contents unconstrained */
#define MK_STACK(s) \
	IN(int, st_cap); IN(size_t, st_size); \
	ASSUME(st_cap >= 1 && st_cap <= STACK_CAP_MAX && st_size <= (size_t)st_cap); \
	stack * s = ALLOC(sizeof(stack)); \
	s->element = ALLOC((size_t)st_cap * sizeof(void *)); s->capacity = st_cap; s->size = st_size;

#endif
