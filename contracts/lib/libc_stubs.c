/* libc_stubs.c -- contract stubs for the libc byte movers, used by the
 * SIZE-GENERIC units (objects of symbolic size), where CBMC's own loop-based
 * library models do not terminate.  Each stub asserts the standard's
 * precondition (regions readable / writable) and havocs what the real function
 * may write; content is NOT tracked here (bounded content units link CBMC's
 * real models instead).  These are assumptions: listed in every evidence file.
 */
#include <stddef.h>

/* strlen: for the string the harness registered (g_str, first NUL at g_n by
 * construction of the harness) the result is g_n; for any other pointer SOME
 * index r with s[r]==0 inside the object (the first NUL is one of the admissible
 * values, so a proof over all admissible r covers the real strlen).  The stubs
 * never write ghost state (DFCC would report that as a frame violation). */
extern const char *g_str;
extern size_t g_n;
void verif_stubs_init(void) { }

size_t strlen(const char *s) {
	__CPROVER_precondition(__CPROVER_r_ok(s, 1), "strlen argument readable");
	if (s == g_str) {
		return g_n;
	}
	size_t r;
	__CPROVER_assume(r < __CPROVER_OBJECT_SIZE(s) - __CPROVER_POINTER_OFFSET(s));
	__CPROVER_assume(s[r] == 0);
	return r;
}

void *memmove(void *dst, const void *src, size_t n) {
	__CPROVER_precondition(__CPROVER_r_ok(src, n), "memmove source region readable");
	__CPROVER_precondition(__CPROVER_w_ok(dst, n), "memmove destination region writeable");
	if (n > 0 && __CPROVER_w_ok(dst, n)) {
		__CPROVER_havoc_slice(dst, n);
	}
	return dst;
}

void *memcpy(void *dst, const void *src, size_t n) {
	__CPROVER_precondition(__CPROVER_r_ok(src, n), "memcpy source region readable");
	__CPROVER_precondition(__CPROVER_w_ok(dst, n), "memcpy destination region writeable");
	__CPROVER_precondition(n == 0 || !__CPROVER_same_object(dst, src) ||
						   __CPROVER_POINTER_OFFSET(dst) + n <= __CPROVER_POINTER_OFFSET(src) ||
						   __CPROVER_POINTER_OFFSET(src) + n <= __CPROVER_POINTER_OFFSET(dst), "memcpy regions do not overlap");
	if (n > 0 && __CPROVER_w_ok(dst, n)) {
		__CPROVER_havoc_slice(dst, n);
	}
	return dst;
}

/* strnlen-like helper: number of bytes before the first NUL among the first n
 * bytes of s, or n if there is none.  Exact for the registered string; for any
 * other pointer any value sl <= n with (sl == n or s[sl] == 0) -- sl == n is
 * always admissible, so no path is made infeasible. */
static size_t stub_strnlen(const char *s, size_t n) {
	if (s == g_str) {
		return g_n < n ? g_n : n;
	}
	size_t sl;
	__CPROVER_assume(sl <= n);
	if (sl < n) {
		__CPROVER_assume(__CPROVER_r_ok(s, sl + 1) && s[sl] == 0);
	}
	return sl;
}

/* strncpy writes exactly n bytes to dst (copy then zero padding); reads src up
 * to its NUL or n bytes */
char *strncpy(char *dst, const char *src, size_t n) {
	__CPROVER_precondition(__CPROVER_w_ok(dst, n), "strncpy destination region writeable");
	if (n > 0) {
		size_t sl = stub_strnlen(src, n);
		__CPROVER_precondition(__CPROVER_r_ok(src, sl < n ? sl + 1 : n), "strncpy source region readable");
		if (__CPROVER_w_ok(dst, n)) {
			__CPROVER_havoc_slice(dst, n);
			if (sl < n) {
				dst[sl] = 0;
			}
		}
	}
	return dst;
}

/* strncat appends min(n, strlen(src)) bytes at dst + strlen(dst) and a NUL.
 * In /repo it is only called with dst pointing AT the terminating NUL of the
 * DString (dst[0]==0 is asserted), so the append position is dst itself. */
char *strncat(char *dst, const char *src, size_t n) {
	__CPROVER_precondition(__CPROVER_r_ok(dst, 1), "strncat destination readable");
	__CPROVER_precondition(dst[0] == 0, "strncat stub: destination points at its NUL (the only use in /repo)");
	size_t m = stub_strnlen(src, n);
	__CPROVER_precondition(__CPROVER_r_ok(src, m < n ? m + 1 : n), "strncat source region readable");
	__CPROVER_precondition(__CPROVER_w_ok(dst, m + 1), "strncat destination region writeable");
	if (__CPROVER_w_ok(dst, m + 1)) {
		if (m > 0) {
			__CPROVER_havoc_slice(dst, m);
		}
		dst[m] = 0;
	}
	return dst;
}
