/* ds_spec.h -- the DString specification: representation invariant DS_WF and the
 * ideal-string LENGTH model of every public operation (C19).  Pure macros: they
 * are expanded inside __CPROVER_requires/ensures (no calls in contracts) and in
 * the native replay assertions.  All arithmetic is on size_t exactly as in C;
 * the clamping rules come from the property statement ("out-of-range positions
 * and the 'to the end' length"), NOT from the code. */
#ifndef DS_SPEC_H
#define DS_SPEC_H
#include "verif.h"
#include "d_string.h"

#define SZ_MAX ((size_t)-1)

/* representation invariant: capacity > length, NUL at length */
#define DS_WF(d) ((d)->currentStringBufferSize >= 1 && (d)->currentStringLength < (d)->currentStringBufferSize && (d)->str[(d)->currentStringLength] == 0)

/* ideal string: erase(pos,len) on a string of length L.
 *  pos > L or len == 0      -> unchanged
 *  len >= L - pos (incl. -1)-> truncated at pos
 *  otherwise                -> L - len                                   */
#define M_ERASE_LEN(L, pos, len) (((pos) > (L) || (len) == 0) ? (L) : (((len) >= (L) - (pos)) ? (pos) : (L) - (len)))

/* ideal string: copy_substring(start,len): number of bytes copied, or SZ_MAX for "invalid range -> NULL" */
#define M_SUBSTR_N(L, start, len) ((len) == SZ_MAX ? ((start) <= (L) ? (L) - (start) : SZ_MAX) : (((start) > (L) || (len) > (L) - (start)) ? SZ_MAX : (len)))

/* insert position clamp */
#define M_CLAMP(L, pos) ((pos) > (L) ? (L) : (pos))

/* frame of every mutating DString operation: the three fields and the buffer (which may be reallocated) */
#define DS_FRAME(d) __CPROVER_assigns((d)->str, (d)->currentStringBufferSize, (d)->currentStringLength, __CPROVER_object_whole((d)->str)) __CPROVER_frees((d)->str)
/* operations that never grow */
#define DS_FRAME_NOGROW(d) __CPROVER_assigns((d)->currentStringLength, __CPROVER_object_whole((d)->str))

#endif
