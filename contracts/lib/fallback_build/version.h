/*

	version.h -- libMultiMarkdown

	Copyright © 2016 - 2023 Fletcher T. Penney.


	

*/

/**

@file

@brief Lightweight markup processor to produce HTML, LaTeX, and more. - project version header

**/


#ifndef FILE_LIBMULTIMARKDOWN_H
#define FILE_LIBMULTIMARKDOWN_H

#define LIBMULTIMARKDOWN_NAME "MultiMarkdown"

#define LIBMULTIMARKDOWN_VERSION "6.7.0"
#define LIBMULTIMARKDOWN_COPYRIGHT "Copyright © 2016 - 2023 Fletcher T. Penney."

#define LIBMULTIMARKDOWN_LICENSE "\tThe `MultiMarkdown 6` project is released under the MIT License..\n"\
"	\n"\
"	GLibFacade.c and GLibFacade.h are from the MultiMarkdown v4 project:\n"\
"	\n"\
"		https://github.com/fletcher/MultiMarkdown-4/\n"\
"	\n"\
"	MMD 4 is released under both the MIT License and GPL.\n"\
"	\n"\
"	\n"\
"	CuTest is released under the zlib/libpng license. See CuTest.c for the\n"\
"	text of the license.\n"\
"	\n"\
"	uthash library:\n"\
"		Copyright (c) 2005-2016, Troy D. Hanson\n"\
"	\n"\
"		Licensed under Revised BSD license\n"\
"	\n"\
"	miniz library:\n"\
"		Copyright 2013-2014 RAD Game Tools and Valve Software\n"\
"		Copyright 2010-2014 Rich Geldreich and Tenacious Software LLC\n"\
"	\n"\
"		Licensed under the MIT license\n"\
"	\n"\
"	argtable3 library:\n"\
"		Copyright (C) 1998-2001,2003-2011,2013 Stewart Heitmann\n"\
"		<sheitmann@users.sourceforge.net>\n"\
"		All rights reserved.\n"\
"	\n"\
"		Licensed under the Revised BSD License\n"\
"	\n"\
"	\n"\
"	## The MIT License ##\n"\
"	\n"\
"	Permission is hereby granted, free of charge, to any person obtaining\n"\
"	a copy of this software and associated documentation files (the\n"\
"	\"Software\"), to deal in the Software without restriction, including\n"\
"	without limitation the rights to use, copy, modify, merge, publish,\n"\
"	distribute, sublicense, and/or sell copies of the Software, and to\n"\
"	permit persons to whom the Software is furnished to do so, subject to\n"\
"	the following conditions:\n"\
"	\n"\
"	The above copyright notice and this permission notice shall be\n"\
"	included in all copies or substantial portions of the Software.\n"\
"	\n"\
"	THE SOFTWARE IS PROVIDED \"AS IS\", WITHOUT WARRANTY OF ANY KIND,\n"\
"	EXPRESS OR IMPLIED, INCLUDING BUT NOT LIMITED TO THE WARRANTIES OF\n"\
"	MERCHANTABILITY, FITNESS FOR A PARTICULAR PURPOSE AND NONINFRINGEMENT.\n"\
"	IN NO EVENT SHALL THE AUTHORS OR COPYRIGHT HOLDERS BE LIABLE FOR ANY\n"\
"	CLAIM, DAMAGES OR OTHER LIABILITY, WHETHER IN AN ACTION OF CONTRACT,\n"\
"	TORT OR OTHERWISE, ARISING FROM, OUT OF OR IN CONNECTION WITH THE\n"\
"	SOFTWARE OR THE USE OR OTHER DEALINGS IN THE SOFTWARE.\n"\
"	\n"\
"	\n"\
"	## Revised BSD License ##\n"\
"	\n"\
"	Redistribution and use in source and binary forms, with or without\n"\
"	modification, are permitted provided that the following conditions are\n"\
"	met:\n"\
"	    * Redistributions of source code must retain the above copyright\n"\
"	      notice, this list of conditions and the following disclaimer.\n"\
"	    * Redistributions in binary form must reproduce the above\n"\
"	      copyright notice, this list of conditions and the following\n"\
"	      disclaimer in the documentation and/or other materials provided\n"\
"	      with the distribution.\n"\
"	    * Neither the name of the <organization> nor the\n"\
"	      names of its contributors may be used to endorse or promote\n"\
"	      products derived from this software without specific prior\n"\
"	      written permission.\n"\
"	\n"\
"	THIS SOFTWARE IS PROVIDED BY THE COPYRIGHT HOLDERS AND CONTRIBUTORS\n"\
"	\"AS IS\" AND ANY EXPRESS OR IMPLIED WARRANTIES, INCLUDING, BUT NOT\n"\
"	LIMITED TO, THE IMPLIED WARRANTIES OF MERCHANTABILITY AND FITNESS FOR\n"\
"	A PARTICULAR PURPOSE ARE DISCLAIMED. IN NO EVENT SHALL <COPYRIGHT\n"\
"	HOLDER> BE LIABLE FOR ANY DIRECT, INDIRECT, INCIDENTAL, SPECIAL,\n"\
"	EXEMPLARY, OR CONSEQUENTIAL DAMAGES (INCLUDING, BUT NOT LIMITED TO,\n"\
"	PROCUREMENT OF SUBSTITUTE GOODS OR SERVICES LOSS OF USE, DATA, OR\n"\
"	PROFITS OR BUSINESS INTERRUPTION) HOWEVER CAUSED AND ON ANY THEORY OF\n"\
"	LIABILITY, WHETHER IN CONTRACT, STRICT LIABILITY, OR TORT (INCLUDING\n"\
"	NEGLIGENCE OR OTHERWISE) ARISING IN ANY WAY OUT OF THE USE OF THIS\n"\
"	SOFTWARE, EVEN IF ADVISED OF THE POSSIBILITY OF SUCH DAMAGE.\n"\
"	"

#endif
