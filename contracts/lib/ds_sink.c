/* ds_sink.c -- the DString SPECIFICATION as executable ghost code: an ideal string over a small
 * fixed buffer.  Writer/escaper units link this INSTEAD of /repo/src/d_string.c, i.e. the callee is
 * used by contract; that d_string.c refines it is what property C19's units prove (Unit A: lengths and
 * representation for all sizes; Unit B: content, bounded).  Capacity overflow is an assertion (a
 * harness bound that is too small shows up as a failure, never as silent truncation).
 * Supports the printf subset the writers use: %s %c %d %i %u %lu %ld %zu %x %X %% (no widths except
 * those ignored below). */
#include <stdarg.h>
#include <stddef.h>
#include <stdbool.h>
#include <stdlib.h>
#include "d_string.h"

#ifndef SINK_CAP
#define SINK_CAP 64
#endif

static void sink_put(DString *d, char c) {
#ifndef VERIF_NATIVE
	__CPROVER_assert(d->currentStringLength + 1 < d->currentStringBufferSize, "ghost sink capacity (harness bound) not exceeded");
#endif
	if (d->currentStringLength + 1 < d->currentStringBufferSize) {
		d->str[d->currentStringLength++] = c;
		d->str[d->currentStringLength] = 0;
	}
}

DString *d_string_new(const char *s) {
	DString *d = malloc(sizeof(DString));
	d->str = malloc(SINK_CAP);
	d->currentStringBufferSize = SINK_CAP;
	d->currentStringLength = 0;
	d->str[0] = 0;
	if (s) {
		for (size_t i = 0; s[i] != 0; i++) {
			sink_put(d, s[i]);
		}
	}
	return d;
}

char *d_string_free(DString *d, bool freeCharacterData) {
	if (!d) {
		return NULL;
	}
	char *r = d->str;
	if (freeCharacterData) {
		free(d->str);
		r = NULL;
	}
	free(d);
	return r;
}

void d_string_append(DString *d, const char *s) {
	if (d && s) {
		for (size_t i = 0; s[i] != 0; i++) {
			sink_put(d, s[i]);
		}
	}
}

void d_string_append_c(DString *d, char c) {
	if (d && c) {
		sink_put(d, c);
	}
}

void d_string_append_c_array(DString *d, const char *s, size_t bytes) {
	if (d && s) {
		if (bytes == (size_t) -1) {
			d_string_append(d, s);
		} else {
			for (size_t i = 0; i < bytes; i++) {
				sink_put(d, s[i]);
			}
		}
	}
}

#ifdef SINK_NUM_GHOST
/* -DSINK_NUM_GHOST: a formatted NUMBER is not expanded into digits (each digit costs a 64-bit division in the SAT
 * encoding); the sink emits the placeholder byte SINK_NUM_MARK and records the value in a ghost list, in order.
 * Formatting digits is libc's job (assumed); the units that use this mode compare the VALUES. */
#define SINK_NUM_MARK '\x01'
#ifndef SINK_NUMS
#define SINK_NUMS 8
#endif
unsigned long g_sink_num[SINK_NUMS];
size_t g_sink_nnum;
static void sink_put(DString *d, char c);
static void sink_unum(DString *d, unsigned long v, unsigned base, bool upper) {
#ifndef VERIF_NATIVE
	__CPROVER_assert(g_sink_nnum < SINK_NUMS, "ghost sink: number list (harness bound) not exceeded");
#endif
	if (g_sink_nnum < SINK_NUMS) {
		g_sink_num[g_sink_nnum++] = v;
	}
	sink_put(d, SINK_NUM_MARK);
}
#else
static void sink_unum(DString *d, unsigned long v, unsigned base, bool upper) {
	char tmp[24];
	int n = 0;
	do {
		unsigned dg = (unsigned)(v % base);
		tmp[n++] = (char)(dg < 10 ? '0' + dg : (upper ? 'A' : 'a') + (dg - 10));
		v /= base;
	} while (v != 0 && n < 24);
	while (n > 0) {
		sink_put(d, tmp[--n]);
	}
}
#endif

#ifndef VERIF_NATIVE
/* CBMC does not apply the default argument promotions to variadic arguments: a `short` passed for %d is stored as a
 * 2-byte object, and va_arg(ap, int) on it is an out-of-bounds read.  CBMC represents va_list as an array of pointers
 * to the argument objects; read the integer with the width of the object that was actually passed. */
static long sink_va_long(va_list * ap, bool is_unsigned) {
	const void ** pp = *(const void ***)ap;
	const void * p = *pp;
	size_t sz = __CPROVER_OBJECT_SIZE(p);
	long v;
	if (sz == 1) { v = is_unsigned ? (long) * (const unsigned char *)p : (long) * (const signed char *)p; }
	else if (sz == 2) { v = is_unsigned ? (long) * (const unsigned short *)p : (long) * (const short *)p; }
	else if (sz == 4) { v = is_unsigned ? (long) * (const unsigned int *)p : (long) * (const int *)p; }
	else { v = *(const long *)p; }
	*(const void ***)ap = pp + 1;
	return v;
}
#define VA_INT(ap, lng) sink_va_long(&(ap), false)
#define VA_UINT(ap, lng) ((unsigned long)sink_va_long(&(ap), true))
#else
#define VA_INT(ap, lng) ((lng) ? va_arg(ap, long) : (long)va_arg(ap, int))
#define VA_UINT(ap, lng) ((lng) ? va_arg(ap, unsigned long) : (unsigned long)va_arg(ap, unsigned))
#endif

static void sink_vprintf(DString *d, const char *f, va_list ap) {
	for (size_t i = 0; f[i] != 0; i++) {
		if (f[i] != '%') {
			sink_put(d, f[i]);
			continue;
		}
		i++;
		bool lng = false;
		while (f[i] == 'l' || f[i] == 'z' || f[i] == '.' || f[i] == '*' || (f[i] >= '0' && f[i] <= '9')) {
			if (f[i] == 'l' || f[i] == 'z') {
				lng = true;
			}
			i++;
		}
		switch (f[i]) {
			case 's': {
				const char *s = va_arg(ap, const char *);
				if (s) {
					for (size_t k = 0; s[k] != 0; k++) {
						sink_put(d, s[k]);
					}
				}
				break;
			}
			case 'c':
				sink_put(d, (char)VA_INT(ap, false));
				break;
			case 'd':
			case 'i': {
				long v = VA_INT(ap, lng);
				if (v < 0) {
					sink_put(d, '-');
					sink_unum(d, 0UL - (unsigned long)v, 10, false);
				} else {
					sink_unum(d, (unsigned long)v, 10, false);
				}
				break;
			}
			case 'u':
				sink_unum(d, VA_UINT(ap, lng), 10, false);
				break;
			case 'x':
			case 'X':
				sink_unum(d, VA_UINT(ap, lng), 16, f[i] == 'X');
				break;
			case '%':
				sink_put(d, '%');
				break;
			case 0:
				return;
			default:
#ifndef VERIF_NATIVE
				__CPROVER_assert(0, "ghost sink: unsupported printf conversion");
#endif
				break;
		}
	}
}

void d_string_append_printf(DString *d, const char *format, ...) {
	if (d && format) {
		va_list ap;
		va_start(ap, format);
		sink_vprintf(d, format, ap);
		va_end(ap);
	}
}

void d_string_erase(DString *d, size_t pos, size_t len) {
	if (!d || pos > d->currentStringLength || len == 0) {
		return;
	}
	size_t L = d->currentStringLength;
	if (len >= L - pos) {
		d->currentStringLength = pos;
	} else {
		for (size_t i = pos; i + len < L; i++) {
			d->str[i] = d->str[i + len];
		}
		d->currentStringLength = L - len;
	}
	d->str[d->currentStringLength] = 0;
}

void d_string_insert(DString *d, size_t pos, const char *s) {
	if (!d || !s) {
		return;
	}
	size_t n = 0;
	while (s[n] != 0) {
		n++;
	}
	if (n == 0) {
		return;
	}
	size_t L = d->currentStringLength;
	if (pos > L) {
		pos = L;
	}
#ifndef VERIF_NATIVE
	__CPROVER_assert(L + n < d->currentStringBufferSize, "ghost sink capacity (harness bound) not exceeded");
#endif
	if (L + n < d->currentStringBufferSize) {
		for (size_t i = L; i > pos; i--) {
			d->str[i - 1 + n] = d->str[i - 1];
		}
		for (size_t i = 0; i < n; i++) {
			d->str[pos + i] = s[i];
		}
		d->currentStringLength = L + n;
		d->str[L + n] = 0;
	}
}

void d_string_prepend(DString *d, const char *s) {
	d_string_insert(d, 0, s);
}

void d_string_insert_c(DString *d, size_t pos, char c) {
	char b[2] = { c, 0 };
	if (c) {
		d_string_insert(d, pos, b);
	}
}
