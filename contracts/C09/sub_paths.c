/* C09 -- sub_asset_paths (textbundle.c, the real function; EPUB / TextBundle: rewrites the CSS metadata value and every image URL of
 * the source text to the stored asset's assets/<uuid> path).  The token spans refer to the ORIGINAL text; the css replacement inside
 * the metadata block changes the length of the text, so everything after it has moved: the running offset handed to
 * traverse_for_images (its own contract: c09_traverse_for_images_offsets -- every range it rewrites is shifted by *offset) must START
 * at the length change of the css replacement.
 *   requires one metadata record "css" whose value names the one stored asset (real one-entry uthash table), a BLOCK_META first block
 *   ensures  d_string_replace_text_in_range is asked to rewrite the value inside the metadata block's span (t->start, t->len), the
 *            replacement being "assets/" + the asset's stored name
 *   ensures  traverse_for_images is entered exactly once, with the same text and engine and *offset == the length change of that
 *            replacement (so that image targets after the metadata block are looked up where they now are)
 * d_string_replace_text_in_range (C19) and traverse_for_images are used by contract; token_skip_until_type: contract stub. */
#include "verif.h"
#include "d_string.h"
#include "token.h"
#include "writer.h"
#include "mmd.h"
#include "uthash.h"
#include "stack.h"
void sub_asset_paths(DString * text, mmd_engine * e);
static long g_delta, g_seen_off; static int g_repl, g_trav; static token * g_meta; static DString * g_text; static mmd_engine * g_e; static char * g_val; static char * g_ap; static bool g_dest_ok;
long d_string_replace_text_in_range(DString * d, size_t pos, size_t len, const char * original, const char * replacement) {
	ASSERT(d == g_text && pos == g_meta->start && len == g_meta->len && original == g_val, "C09: the css value is rewritten inside the metadata block's span");
	bool ok = replacement[0] == 'a' && replacement[6] == '/';
	for (int i = 0; i < 36; i++) { if (replacement[7 + i] != g_ap[i]) { ok = false; } }
	g_dest_ok = ok && replacement[43] == 0;
	g_repl++;
	return g_delta;
}
void traverse_for_images(token * t, DString * text, mmd_engine * e, long * offset, char * destination, char * url) {
	g_trav++; g_seen_off = *offset;
	ASSERT(text == g_text && e == g_e, "the images are rewritten in the same text, for the same engine");
}
void token_skip_until_type(token ** t, unsigned short type) { while (*t && (*t)->type != type) { *t = (*t)->next; } }
static token * mk(unsigned short type, size_t start, size_t len) {
	token * t = ALLOC(sizeof(token));
	t->type = type; t->start = start; t->len = len; t->next = NULL; t->prev = NULL; t->child = NULL; t->tail = t; t->mate = NULL;
	return t;
}
void h_sub_paths(void) {
	mmd_engine * e = ALLOC(sizeof(mmd_engine)); g_e = e;
	e->asset_hash = NULL;
	asset * a = ALLOC(sizeof(asset)); a->url = ALLOC(4); a->url[0] = 's'; a->url[1] = '.'; a->url[2] = 'c'; a->url[3] = 0;
	g_ap = ALLOC(37); for (int i = 0; i < 36; i++) { char c; ASSUME(c != 0); g_ap[i] = c; } g_ap[36] = 0; a->asset_path = g_ap;
	HASH_ADD_KEYPTR(hh, e->asset_hash, a->url, 3, a);
	IN(size_t, ml); ASSUME(ml >= 8 && ml <= 60);
	g_meta = mk(BLOCK_META, 0, ml); token * para = mk(BLOCK_PARA, ml, 20); g_meta->next = para; para->prev = g_meta; g_meta->tail = para;
	e->root = mk(0, 0, ml + 20); e->root->child = g_meta;
	meta * m = ALLOC(sizeof(meta)); m->key = ALLOC(4); m->key[0] = 'c'; m->key[1] = 's'; m->key[2] = 's'; m->key[3] = 0;
	g_val = ALLOC(4); g_val[0] = 's'; g_val[1] = '.'; g_val[2] = 'c'; g_val[3] = 0; m->value = g_val; m->start = 0;
	e->metadata_stack = stack_new(0); stack_push(e->metadata_stack, m);
	g_text = ALLOC(sizeof(DString)); g_text->str = ALLOC(8); g_text->str[7] = 0; g_text->currentStringLength = 7; g_text->currentStringBufferSize = 8;
	{ IN(long, dl); ASSUME(dl >= -3 && dl <= 60); g_delta = dl; }
	sub_asset_paths(g_text, e);
	ASSERT(g_repl == 1 && g_dest_ok, "C09: the css value is replaced once, by assets/<stored name>");
	ASSERT(g_trav == 1, "C09: the image pass runs once");
	ASSERT(g_seen_off == g_delta, "C09: the image pass starts with the length change of the css replacement as its offset (image targets behind the metadata block have moved by that much)");
	REACH();
}
