/* C09 -- opendocument_manifest_file (opendocument.c, the real function; uthash HASH_ITER over a real one-entry asset table):
 * the manifest entry of an asset names the archive member by the asset's generated local name; every string handed to the
 * formatter is a valid string, and the asset's URL (source text) is not written into the manifest. */
#include "verif.h"
#include <stdio.h>
#include <stdarg.h>
#include "d_string.h"
#include "token.h"
#include "writer.h"
#include "mmd.h"
#include "uthash.h"
char * opendocument_manifest_file(mmd_engine * e, int format);
static char * g_url, * g_path; static bool g_path_printed;
DString * d_string_new(const char * s) { DString * d = malloc(sizeof(DString)); d->str = malloc(4); d->str[0] = 0; d->currentStringLength = 0; d->currentStringBufferSize = 4; return d; }
char * d_string_free(DString * d, bool freeCharacterData) { char * r = d->str; if (freeCharacterData) { free(d->str); r = NULL; } free(d); return r; }
void d_string_append(DString * d, const char * s) { ASSERT(!__CPROVER_same_object(s, g_url), "the asset URL is not written into the manifest"); }
void d_string_append_c_array(DString * d, const char * s, size_t n) { ASSERT(!__CPROVER_same_object(s, g_url), "the asset URL is not written into the manifest"); }
void d_string_append_c(DString * d, char c) { }
void d_string_append_printf(DString * d, const char * fmt, ...) {
	va_list ap; va_start(ap, fmt);
	for (int i = 0; i < 120 && fmt[i]; i++) {
		if (fmt[i] == '%') {
			i++;
			if (fmt[i] == 's') {
				const char * p = va_arg(ap, const char *);
				ASSERT(p != NULL && __CPROVER_r_ok(p, 1), "C09/C01: every %s argument of the manifest writer is a valid string");
				ASSERT(!__CPROVER_same_object(p, g_url), "C09: the manifest names archive members by the generated asset name, never by (parts of) the URL");
				if (p == g_path) { g_path_printed = true; }
			} else if (fmt[i] == 'd' || fmt[i] == 'c') { (void)va_arg(ap, int); }
			else if (fmt[i] == 0) { break; }
		}
	}
	va_end(ap);
}
char * opendocument_style(int format) { char * r = malloc(2); r[0] = 0; return r; }
void h_manifest(void) {
	mmd_engine * e = ALLOC(sizeof(mmd_engine)); e->asset_hash = NULL;
	asset * a = ALLOC(sizeof(asset));
	const bool dot = URL_HAS_DOT;      /* a constant per unit: uthash then hashes a concrete key */
	g_url = ALLOC(4); g_url[0] = 'a'; g_url[1] = dot ? '.' : 'b'; g_url[2] = 'c'; g_url[3] = 0;      /* with and without an extension */
	g_path = ALLOC(3); g_path[0] = 'u'; g_path[1] = '1'; g_path[2] = 0;
	a->url = g_url; a->asset_path = g_path;
	HASH_ADD_KEYPTR(hh, e->asset_hash, a->url, 3, a);
	g_path_printed = false;
	IN(int, format);
	char * r = opendocument_manifest_file(e, format);
	ASSERT(g_path_printed, "C09: the asset's generated name appears in the manifest");
	REACH();
}
