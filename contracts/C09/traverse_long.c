/* C09 / C01 -- traverse_for_images (textbundle.c, the real function) with an inline image whose URL has ANY length: the caller
 * (sub_asset_paths) hands in a scratch buffer char url[1000]; the image's PAIR_PAREN span is as long as the source makes it.
 *   requires the call-site facts: `url` points to 1000 bytes, `destination` to 100, the token span lies inside the text
 *   ensures  every copy of the URL text has room at its destination: memcpy BY CONTRACT (stub) asserts that its destination is
 *            writable and its source readable for the whole length it is given -- for spans up to 4000 bytes --, and CBMC's
 *            pointer checks cover the terminator store
 * (Before /repo 612fa98 the URL was copied into the 1000-byte buffer whatever its length: finding 34.)
 * clean_string, d_string_replace_text_in_range by contract; uthash over a real one-entry table. */
#include "verif.h"
#include "d_string.h"
#include "token.h"
#include "writer.h"
#include "mmd.h"
#include "uthash.h"
#include "stack.h"
void traverse_for_images(token * t, DString * text, mmd_engine * e, long * offset, char * destination, char * url);
static unsigned g_copies;
void * memcpy(void * dst, const void * src, size_t n) {
	ASSERT(n == 0 || __CPROVER_w_ok(dst, n), "C01: the destination of a copy has room for all n bytes");
	ASSERT(n == 0 || __CPROVER_r_ok(src, n), "C01: the source of a copy is readable for all n bytes");
	if (n > 0) { char c; ((char *)dst)[0] = c; }
	g_copies++;
	return dst;
}
char * clean_string(const char * str, bool lowercase, bool url_clean) { ASSERT(__CPROVER_r_ok(str, 1), "a string is cleaned"); char * r = malloc(3); r[0] = 'k'; r[1] = '1'; r[2] = 0; return r; }
long d_string_replace_text_in_range(DString * d, size_t pos, size_t len, const char * original, const char * replacement) { long delta; ASSUME(delta >= -(long)len && delta <= 40); return delta; }
static token * mk(unsigned short type, size_t start, size_t len) {
	token * t = ALLOC(sizeof(token));
	t->type = type; t->start = start; t->len = len; t->next = NULL; t->prev = NULL; t->child = NULL; t->tail = t; t->mate = NULL;
	return t;
}
#define TEXT_CAP 4200
void h_traverse_long(void) {
	mmd_engine * e = ALLOC(sizeof(mmd_engine));
	e->asset_hash = NULL; e->definition_stack = stack_new(0); e->link_stack = stack_new(0);
	asset * a = ALLOC(sizeof(asset)); a->url = ALLOC(3); a->url[0] = 'k'; a->url[1] = '1'; a->url[2] = 0; a->asset_path = ALLOC(37); a->asset_path[36] = 0;
	HASH_ADD_KEYPTR(hh, e->asset_hash, a->url, 2, a);
	IN(size_t, ps); IN(size_t, pl); ASSUME(ps >= 4 && ps <= 100 && pl >= 2 && pl <= 4000);          /* ![x](....): the parenthesis span, parens included */
	token * para = mk(BLOCK_PARA, ps - 4, pl + 4);
	token * img = mk(PAIR_BRACKET_IMAGE, ps - 4, 4), * paren = mk(PAIR_PAREN, ps, pl); para->child = img; img->next = paren; paren->prev = img; img->tail = paren;
	DString * text = ALLOC(sizeof(DString)); text->str = ALLOC(TEXT_CAP); text->str[TEXT_CAP - 1] = 0; text->currentStringLength = TEXT_CAP - 1; text->currentStringBufferSize = TEXT_CAP;
	char * destination = ALLOC(100); char * url = ALLOC(1000);                 /* as declared in sub_asset_paths */
	long * offset = ALLOC(sizeof(long)); IN(long, o0); ASSUME(o0 >= 0 && o0 <= 8); *offset = o0;
	traverse_for_images(para, text, e, offset, destination, url);
	ASSERT(g_copies >= 1, "the URL text was copied (and, the asset being stored, its path)");
	REACH();
}
