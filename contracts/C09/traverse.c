/* C09 -- "the main document references exactly the stored assets": traverse_for_images (textbundle.c, the real function; EPUB and
 * TextBundle use it to rewrite image URLs to their assets/<uuid> paths inside the source text).  The token spans refer to the
 * ORIGINAL text; every replacement changes the length of the text, so the function keeps a running *offset.  Contract:
 *   every range handed to d_string_replace_text_in_range is the token's original span shifted by the sum of the length changes
 *   of all earlier replacements, and on return *offset has grown by exactly that sum
 * d_string_replace_text_in_range is by contract (C19): it returns the length change (any value here) -- ghost g_delta accumulates it.
 * Shape (bounded): a reference-style image definition (BLOCK_EMPTY on the definition stack, its link on the link stack) followed
 * by an inline image ![..](..), both naming a stored asset (real one-entry uthash table; clean_string by contract stub). */
#include "verif.h"
#include "d_string.h"
#include "token.h"
#include "writer.h"
#include "mmd.h"
#include "uthash.h"
#include "stack.h"
void traverse_for_images(token * t, DString * text, mmd_engine * e, long * offset, char * destination, char * url);
static long g_delta; static unsigned g_calls; static token * g_def, * g_paren;
char * clean_string(const char * str, bool lowercase, bool url_clean) { char * r = malloc(3); r[0] = 'k'; r[1] = '1'; r[2] = 0; return r; }
long d_string_replace_text_in_range(DString * d, size_t pos, size_t len, const char * original, const char * replacement) {
	token * t = (g_calls == 0) ? g_def : g_paren;        /* document order: the definition, then the inline image */
	ASSERT(g_calls < 2, "two replacements in this shape");
	ASSERT((long)pos == (long)t->start + g_delta && len == t->len,
	       "C09: the range to rewrite is the token's original span shifted by the accumulated length change of the earlier replacements");
	long delta; ASSUME(delta >= -(long)len && delta <= 40);       /* a replacement inside [pos, pos+len) cannot remove more than len bytes */
	g_delta += delta; g_calls++;
	return delta;
}
void stack_push(stack * s, void * element) { ASSERT(s->size < (size_t)s->capacity, "ghost: no growth needed in this unit"); s->element[s->size++] = element; }
static token * mk(unsigned short type, size_t start, size_t len) {
	token * t = ALLOC(sizeof(token));
	t->type = type; t->start = start; t->len = len; t->next = NULL; t->prev = NULL; t->child = NULL; t->tail = t; t->mate = NULL;
	return t;
}
void h_traverse(void) {
	mmd_engine * e = ALLOC(sizeof(mmd_engine));
	e->asset_hash = NULL; e->definition_stack = stack_new(0); e->link_stack = stack_new(0);
	asset * a = ALLOC(sizeof(asset)); a->url = ALLOC(3); a->url[0] = 'k'; a->url[1] = '1'; a->url[2] = 0; a->asset_path = ALLOC(37); a->asset_path[36] = 0;
	HASH_ADD_KEYPTR(hh, e->asset_hash, a->url, 2, a);
	/* text layout (original offsets): [0,10) the definition line, [12,30) a paragraph holding ![x](k1......) */
	IN(size_t, ds); IN(size_t, dl); IN(size_t, ps); IN(size_t, pl);
	ASSUME(ds <= 4 && dl >= 4 && dl <= 10 && ps >= ds + dl && ps <= 30 && pl >= 4 && pl <= 12);
	g_def = mk(BLOCK_EMPTY, ds, dl); token * dchild = mk(PAIR_BRACKET, ds, 3); g_def->child = dchild;
	token * para = mk(BLOCK_PARA, ps - 4, pl + 4); g_def->next = para; para->prev = g_def; g_def->tail = para;
	token * img = mk(PAIR_BRACKET_IMAGE, ps - 4, 4); g_paren = mk(PAIR_PAREN, ps, pl); para->child = img; img->next = g_paren; g_paren->prev = img; img->tail = g_paren;
	stack_push(e->definition_stack, g_def);
	link * l = ALLOC(sizeof(link)); l->label = dchild; l->url = ALLOC(3); l->url[0] = 'k'; l->url[1] = '1'; l->url[2] = 0;
	stack_push(e->link_stack, l);
	DString * text = ALLOC(sizeof(DString)); text->str = ALLOC(160); text->str[159] = 0; text->currentStringLength = 159; text->currentStringBufferSize = 160;      /* long enough for every shifted span of this shape (the stub does not move bytes) */
	char * destination = ALLOC(64); char * url = ALLOC(64);
	long * offset = ALLOC(sizeof(long)); IN(long, o0); ASSUME(o0 >= 0 && o0 <= 8); *offset = o0;
	g_delta = o0; g_calls = 0;
	traverse_for_images(g_def, text, e, offset, destination, url);
	ASSERT(g_calls == 2, "both references to the stored asset are rewritten");
	ASSERT(*offset == g_delta, "C09: on return the running offset is the sum of all length changes");
	REACH();
}
