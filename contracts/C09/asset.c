/* C09 -- "image assets are stored under uuid-named targets": asset_new (writer.c, the real function with the real my_strdup)
 *   ensures  the asset records a COPY of the URL and its local name is exactly what uuid_new() returned for THIS call
 *   frame    the process-wide generator behind uuid_new is not reseeded (srand by contract stub with precondition false): a name
 *            derived from the URL would make different URLs with equal checksums share a name
 * uuid_new itself (rand() % 256 x 16, v4 bits) is trusted base. */
#include "verif.h"
#include "d_string.h"
#include "token.h"
#include "writer.h"
#include "mmd.h"
static char * g_uuid; static unsigned g_uuid_calls;
char * uuid_new(void) { g_uuid_calls++; g_uuid = malloc(37); g_uuid[36] = 0; return g_uuid; }
void srand(unsigned seed) { ASSERT(0, "C09: asset names are fresh random ids -- the generator is not reseeded while an asset is named"); }
asset * asset_new(char * url, scratch_pad * scratch);
void h_asset(void) {
	IN_ARR(char, url, 4); IN(size_t, n); ASSUME(n <= 3);
	for (size_t i = 0; i < 4; i++) { if (i < n) { ASSUME(url[i] != 0); } }
	url[n] = 0;
	scratch_pad * scratch = ALLOC(sizeof(scratch_pad));
	g_uuid_calls = 0;
	asset * a = asset_new(url, scratch);
	ASSERT(a != NULL && g_uuid_calls == 1 && a->asset_path == g_uuid, "C09: the asset's local name is the uuid generated for it");
	IN(size_t, k); ASSUME(k <= n);
	ASSERT(a->url != url && a->url[k] == url[k], "C09: the asset keeps its own copy of the URL");
	REACH();
}
