# ---------------------------------------------------------------- C09 package outputs have the required members
PROPS["C09"] = {
    "level": "proof",
    "explanation": "(Shared with C20: c20_export_token_tree proves, for every format, the exact sequence of emitting routines of mmd_engine_export_token_tree -- for the packaged HTML formats EPUB/TextBundle the same body writer followed by the same footnote, glossary and citation lists as plain HTML, always wrapped as a complete document: the 'main document equals the plain rendering' clause at the level of the call trace.) epub_create, opendocument_text_create (-> opendocument_core_file_create -> opendocument_core_zip), textbundle_create and itmz_create are verified (goto-instrument --dfcc, real unmodified functions) against a ghost member table: miniz is used through a logging contract (name, buffer, size, flags per mz_zip_writer_add_mem; finalize hands out an uninterpreted archive). Required members are present exactly once, mimetype is member 0 (EPUB: with the EPUB media type; ODT: stored), the main document member is the caller's body, the archive is finalised once after all members and its (pointer,length) is returned in the DString.",
    "slice": "epub_create, opendocument_text_create, opendocument_core_file_create, opendocument_core_zip, textbundle_create, itmz_create; sub_asset_paths (offset handed to the image pass = length change of the css replacement), traverse_for_images, opendocument_manifest_file, asset_new / store_asset; epub_mimetype, epub_container_xml, textbundle_info_json (content of the fixed members)",
    "not_reached": "ZIP validity and CRCs (miniz trusted); that the OPF manifest TEXT names the members (generated text uninterpreted; container.xml's rootfile: c09_epub_static_members; for the ODF manifest: one asset, c09_odf_manifest_assets_*); asset-path consistency (add_assets by contract); equality of the inner document with the plain format's rendering",
    "trusted_base": ["cbmc/goto-cc/goto-instrument 6.11.0 (DFCC instrumentation, MiniSat2)", "miniz (mz_zip_writer_add_mem / finalize_heap_archive by logging contract)", "lib/ds_sink.c (DString specification)", "lib/libc_stubs.c strlen stub, CBMC built-in strcpy"],
    "assumptions": ["content generators (epub_container_xml, epub_package_document, epub_nav, opendocument_*_file, textbundle_info_json), scratch_pad_new/free, zip_new_archive, sub_asset_paths and add_assets are contracts", "body of 2 bytes, source text of at most 1 byte (neither is inspected by the functions under contract; textbundle_create copies the source text)"],
}
_C09_COMMON = ["mz_zip_writer_add_mem", "mz_zip_writer_finalize_heap_archive", "zip_new_archive", "scratch_pad_new", "scratch_pad_free", "add_assets"]
for _n, _def, _fn, _extra in (("epub", "-DPKG_EPUB", "epub_create", ["epub_container_xml", "epub_package_document", "epub_nav"]),
                              ("odt", "-DPKG_ODT", "opendocument_text_create", ["opendocument_metadata_file", "opendocument_style_file", "opendocument_settings_file", "opendocument_manifest_file", "opendocument_content_file"]),
                              ("textbundle", "-DPKG_TEXTBUNDLE", "textbundle_create", ["textbundle_info_json", "sub_asset_paths"]),
                              ("itmz", "-DPKG_ITMZ", "itmz_create", [])):
    _repl = [f for f in _C09_COMMON if not (_n == "itmz" and f in ("scratch_pad_new", "scratch_pad_free", "add_assets"))] + _extra
    U("c09_" + _n, ["C09"], "h_create", ["C09/pkg.c"], [], enforce=_fn, replace=_repl, defines=[_def], lib=("lib/ds_sink.c", "lib/libc_stubs.c"), native=None, timeout=150,
      cbmc_flags=["--unwind", "45", "--unwinding-assertions", "--object-bits", "10"], nobody_ok=["fprintf"],
      functions=[_fn] + (["opendocument_core_file_create", "opendocument_core_zip"] if _n == "odt" else []),
      callees={"mz_zip_writer_add_mem / mz_zip_writer_finalize_heap_archive": "logging contract (ghost member table)", "content generators, scratch pad, add_assets": "contract", "d_string_*": "lib/ds_sink.c", "strlen": "contract stub lib/libc_stubs.c", "strcpy": "CBMC built-in (unwound, constant source)"},
      assumptions=["miniz by logging contract; generated XML/JSON text uninterpreted"])

U("c09_asset_new", ["C09"], "h_asset", ["C09/asset.c"], ["writer.c"], plain=True, lib=("lib/libc_models.c",), kind="bounded",
  defines=["-DI18N_DISABLED=1"], cbmc_flags=["--unwind", "8", "--unwinding-assertions", "--object-bits", "10"], bounds={"url length<=": 3, "unwind": 8},
  functions=["asset_new", "my_strdup (writer.c)"], callees={"uuid_new": "contract stub (fresh string; trusted base)", "srand": "contract stub with precondition false", "strlen/strcpy": "byte-loop models"},
  min_obligations=5, timeout=200, cost=5, assumptions=[NOFAIL])

for _dot in (0, 1):
    U("c09_odf_manifest_assets_%s" % ("ext" if _dot else "noext"), ["C09", "C08"], "h_manifest", ["C09/manifest.c"], ["opendocument.c"], plain=True, lib=(), kind="bounded",
      defines=["-DI18N_DISABLED=1", "-DURL_HAS_DOT=%d" % _dot], cbmc_flags=["--unwind", "40", "--unwindset", "d_string_append_printf.0:122", "--unwinding-assertions", "--object-bits", "12"],
      bounds={"assets": "one (URL %s an extension)" % ("with" if _dot else "without"), "format": "any"},
      functions=["opendocument_manifest_file"], callees={"d_string_*": "contract stubs (formatter arguments must be valid strings; the URL is not written)", "HASH_ITER (uthash)": "real macro code over a real one-entry table", "opendocument_style": "stub"},
      min_obligations=10, timeout=300, cost=10, assumptions=[NOFAIL])

U("c09_traverse_for_images_offsets", ["C09"], "h_traverse", ["C09/traverse.c"], ["textbundle.c", "stack.c"], plain=True, lib=("lib/libc_models.c",), kind="bounded", drop_bodies=["stack_push"],
  defines=["-DI18N_DISABLED=1"], cbmc_flags=["--unwind", "70", "--unwinding-assertions", "--object-bits", "12"],
  bounds={"shape": "one reference-style image definition followed by one inline image, both naming the one stored asset", "spans, length changes": "symbolic"},
  functions=["traverse_for_images"],
  callees={"d_string_replace_text_in_range": "contract stub (C19): returns the length change; checks the range it is given", "clean_string": "contract stub", "HASH_FIND_STR (uthash)": "real macro code over a real one-entry table",
           "stack_peek_index/stack_new": "body", "memcpy": "byte-loop model"},
  min_obligations=10, timeout=300, cost=15, assumptions=[NOFAIL])

# ---- sub_asset_paths: the image pass starts at the length change of the css replacement
U("c09_sub_asset_paths_css_offset", ["C09"], "h_sub_paths", ["C09/sub_paths.c"], ["textbundle.c", "stack.c"], plain=True, lib=("lib/libc_models.c",), kind="bounded", drop_bodies=["traverse_for_images"],
  defines=["-DI18N_DISABLED=1"], cbmc_flags=["--unwind", "40", "--unwinding-assertions", "--object-bits", "12"],
  bounds={"shape": "one 'css' metadata record naming the one stored asset; BLOCK_META followed by a paragraph", "metadata span, length change": "symbolic"},
  functions=["sub_asset_paths"],
  callees={"d_string_replace_text_in_range": "contract stub (C19): returns the length change; checks the range and the replacement", "traverse_for_images": "contract stub recording *offset at entry (its contract: c09_traverse_for_images_offsets)",
           "HASH_FIND_STR (uthash)": "real macro code over a real one-entry table", "stack_peek_index/stack_new/stack_push": "body", "memcpy/strcmp": "byte-loop models", "token_skip_until_type": "contract stub (checked bounded against the real function: C15 unit chain_skip_until)"},
  min_obligations=10, timeout=300, cost=15, assumptions=[NOFAIL])

# ---- an inline image whose URL is longer than the caller's 1000-byte scratch buffer (finding 34, fixed in /repo 612fa98)
U("c09_traverse_for_images_long_url", ["C09", "C01"], "h_traverse_long", ["C09/traverse_long.c"], ["textbundle.c", "stack.c"], plain=True, lib=(), kind="bounded",
  defines=["-DI18N_DISABLED=1"], cbmc_flags=["--unwind", "6", "--unwinding-assertions", "--object-bits", "12"],
  pre_instrument=["--remove-function-body-regex", "^(?!traverse_for_images$|memcpy$|clean_string$|d_string_replace_text_in_range$|stack_.*$|h_traverse_long$|mk$|verif_.*$|__CPROVER.*$).*"],
  bounds={"shape": "one paragraph holding one inline image naming the stored asset", "parenthesis span": "2..4000 bytes (symbolic)", "url buffer": "1000 bytes (call site)", "unwind": 6},
  functions=["traverse_for_images"],
  callees={"memcpy": "contract stub: destination writable / source readable for the whole length", "clean_string, d_string_replace_text_in_range": "contract stubs", "HASH_FIND_STR (uthash)": "real macro code over a real one-entry table", "stack_new": "body"},
  min_obligations=10, timeout=300, cost=15, assumptions=[NOFAIL])

U("c09_epub_static_members", ["C09"], "h_epub_static", ["C09/epub_static.c"], ["epub.c"], plain=True, lib=(), kind="proof",
  defines=["-DI18N_DISABLED=1"], cbmc_flags=["--unwind", "402", "--unwinding-assertions", "--object-bits", "10"],
  functions=["epub_mimetype", "epub_container_xml", "my_strdup (epub.c)"],
  callees={"d_string_new/d_string_append/d_string_free": "recording stubs (appends concatenated; DString itself: C19)", "strlen/strcpy/malloc": "CBMC built-in"},
  min_obligations=10, timeout=300, cost=10, native=None, assumptions=[NOFAIL, "the functions take no input: the single concrete run is exhaustive (loops unwound to their concrete length, unwinding assertions on)"])

U("c09_textbundle_info_json", ["C09"], "h_textbundle_info", ["C09/epub_static.c"], ["textbundle.c"], plain=True, lib=(), kind="proof",
  defines=["-DI18N_DISABLED=1", "-DUNIT_TB"], cbmc_flags=["--unwind", "402", "--unwinding-assertions", "--object-bits", "10"],
  functions=["textbundle_info_json"],
  callees={"d_string_new/d_string_append/d_string_free": "recording stubs (appends concatenated; DString itself: C19)", "malloc": "CBMC built-in"},
  min_obligations=10, timeout=300, cost=10, native=None, assumptions=[NOFAIL, "the function takes no input: the single concrete run is exhaustive (loops unwound to their concrete length, unwinding assertions on)"])
