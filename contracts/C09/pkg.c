/* C09 -- "package outputs contain the members their consumers require": epub_create (epub.c),
 * opendocument_text_create -> opendocument_core_file_create -> opendocument_core_zip (opendocument.c),
 * textbundle_create (textbundle.c), itmz_create (itmz.c): real, unmodified, enforced under DFCC; the repo
 * file is INCLUDED textually (scratch_pad is an anonymous-struct typedef whose CBMC tag differs between
 * translation units; add_assets / my_strdup are statics).
 *
 * miniz is used by a LOGGING contract: mz_zip_writer_add_mem appends (name, buffer, size, flags) to the
 * ghost member table g_m[0..g_nm) and returns an arbitrary status; mz_zip_writer_finalize_heap_archive
 * hands out the uninterpreted archive (g_zip, g_zip_len) and records how many members existed when it
 * ran.  Content generators (XML / JSON text) are contracts returning fresh short strings.
 *
 * Obligations (property statement): the required members are each present EXACTLY ONCE; `mimetype` is
 * member 0 (EPUB: holding the EPUB media type; ODT: stored, MZ_NO_COMPRESSION); the main document member
 * is the body the caller passed; the archive is finalised once, after every member and the assets, and its
 * (pointer, length) is what the returned DString carries.  Member ORDER beyond "mimetype first" is not
 * demanded (the property does not).                                                                 */
#if defined(PKG_EPUB)
#include "epub.c"
#define CREATE epub_create
#elif defined(PKG_ODT)
#include "opendocument.c"
#define CREATE opendocument_text_create
#elif defined(PKG_TEXTBUNDLE)
#include "textbundle.c"
#define CREATE textbundle_create
#else
#include "itmz.c"
#define CREATE itmz_create
#endif
#include "mmd.h"
#include "writer.h"
#include "verif.h"

/* strlen is the contract stub of lib/libc_stubs.c (any index of a NUL inside the object; exact for string
 * constants without embedded NUL); no string is registered */
const char * g_str; size_t g_n;

typedef struct { int id; const void * buf; size_t size; unsigned flags; bool is_epub_mime; } member;	/* id: which well-known member name (N_*), 0 = any other */
#define M_MAX 12
member g_m[M_MAX];
unsigned g_nm;				/* members so far */
unsigned g_fin;				/* number of finalize calls */
unsigned g_nm_at_fin;		/* g_nm when the archive was finalised */
unsigned g_nm_at_assets;	/* g_nm when the assets were added */
unsigned g_assets;			/* number of add_assets calls */
char * g_zip;				/* the finished archive */
size_t g_zip_len;
scratch_pad * g_scratch;
int g_status;

/* exact string equality with a literal of at most 24 bytes (incl. NUL), without calls or loops */
#define C_(p, l, i) ((i) >= sizeof(l) || (p)[i] == (l)[(i) < sizeof(l) ? (i) : 0])
#define STR_IS(p, l) (C_(p, l, 0) && C_(p, l, 1) && C_(p, l, 2) && C_(p, l, 3) && C_(p, l, 4) && C_(p, l, 5) && C_(p, l, 6) && C_(p, l, 7) \
	&& C_(p, l, 8) && C_(p, l, 9) && C_(p, l, 10) && C_(p, l, 11) && C_(p, l, 12) && C_(p, l, 13) && C_(p, l, 14) && C_(p, l, 15) \
	&& C_(p, l, 16) && C_(p, l, 17) && C_(p, l, 18) && C_(p, l, 19) && C_(p, l, 20) && C_(p, l, 21) && C_(p, l, 22) && C_(p, l, 23))
#define EPUB_MIME "application/epub+zip"
#if defined(PKG_EPUB)
#define IS_EPUB_MIME(b, n) ((n) == sizeof(EPUB_MIME) - 1 && STR_IS((const char *)(b), EPUB_MIME))
#else
#define IS_EPUB_MIME(b, n) 0
#endif
/* the member names the property talks about; classified ONCE, when the member is added (the name is a
 * string constant at every call site, so this folds to a constant) */
enum { N_OTHER, N_MIMETYPE, N_CONTAINER, N_OPF, N_NAV, N_MAIN_XHTML, N_CONTENT, N_STYLES, N_META, N_SETTINGS, N_MANIFEST, N_INFO_JSON, N_TEXT_MD, N_TEXT_HTML, N_MAPDATA };
#if defined(PKG_EPUB)
#define NAME_ID(p) (STR_IS(p, "mimetype") ? N_MIMETYPE : STR_IS(p, "META-INF/container.xml") ? N_CONTAINER : STR_IS(p, "OEBPS/main.opf") ? N_OPF \
	: STR_IS(p, "OEBPS/nav.xhtml") ? N_NAV : STR_IS(p, "OEBPS/main.xhtml") ? N_MAIN_XHTML : N_OTHER)
#elif defined(PKG_ODT)
#define NAME_ID(p) (STR_IS(p, "mimetype") ? N_MIMETYPE : STR_IS(p, "content.xml") ? N_CONTENT : STR_IS(p, "styles.xml") ? N_STYLES \
	: STR_IS(p, "meta.xml") ? N_META : STR_IS(p, "settings.xml") ? N_SETTINGS : STR_IS(p, "META-INF/manifest.xml") ? N_MANIFEST : N_OTHER)
#elif defined(PKG_TEXTBUNDLE)
#define NAME_ID(p) (STR_IS(p, "info.json") ? N_INFO_JSON : STR_IS(p, "text.markdown") ? N_TEXT_MD : STR_IS(p, "text.html") ? N_TEXT_HTML : N_OTHER)
#else
#define NAME_ID(p) (STR_IS(p, "mapdata.xml") ? N_MAPDATA : N_OTHER)
#endif
#define IS_(i, n) (((i) < g_nm && g_m[i].id == (n)) ? 1 : 0)
#define COUNT(n) (IS_(0, n) + IS_(1, n) + IS_(2, n) + IS_(3, n) + IS_(4, n) + IS_(5, n) + IS_(6, n) + IS_(7, n) + IS_(8, n) + IS_(9, n) + IS_(10, n) + IS_(11, n))
/* some member with name id n carries exactly (buf, size) */
#define HOLDS_(i, n, b, z) ((i) < g_nm && g_m[i].id == (n) && g_m[i].buf == (const void *)(b) && g_m[i].size == (z))
#define HOLDS(n, b, z) (HOLDS_(0, n, b, z) || HOLDS_(1, n, b, z) || HOLDS_(2, n, b, z) || HOLDS_(3, n, b, z) || HOLDS_(4, n, b, z) || HOLDS_(5, n, b, z) \
	|| HOLDS_(6, n, b, z) || HOLDS_(7, n, b, z) || HOLDS_(8, n, b, z) || HOLDS_(9, n, b, z) || HOLDS_(10, n, b, z) || HOLDS_(11, n, b, z))

#if !defined(VERIF_NATIVE) && !defined(VERIF_PLAIN)
mz_bool mz_zip_writer_add_mem__contract(mz_zip_archive * pZip, const char * pArchive_name, const void * pBuf, size_t buf_size, mz_uint level_and_flags)
__CPROVER_requires(g_nm < M_MAX && g_fin == 0 && pArchive_name != NULL && (buf_size == 0 || __CPROVER_r_ok(pBuf, buf_size)))
__CPROVER_ensures(g_nm == OLD(g_nm) + 1 && g_m[OLD(g_nm)].id == NAME_ID(pArchive_name) && g_m[OLD(g_nm)].buf == pBuf && g_m[OLD(g_nm)].size == buf_size
	&& g_m[OLD(g_nm)].flags == level_and_flags && g_m[OLD(g_nm)].is_epub_mime == IS_EPUB_MIME(pBuf, buf_size)
	&& RET == g_status)
__CPROVER_assigns(g_nm, g_m[g_nm]);

mz_bool mz_zip_writer_finalize_heap_archive__contract(mz_zip_archive * pZip, void ** ppBuf, size_t * pSize)
__CPROVER_requires(ppBuf != NULL && pSize != NULL)
__CPROVER_ensures(g_fin == OLD(g_fin) + 1 && g_nm_at_fin == g_nm && *ppBuf == g_zip && *pSize == g_zip_len && RET == g_status)
__CPROVER_assigns(g_fin, g_nm_at_fin, *ppBuf, *pSize);

void zip_new_archive__contract(mz_zip_archive * pZip) __CPROVER_requires(pZip != NULL) __CPROVER_ensures(1) __CPROVER_assigns();
scratch_pad * scratch_pad_new__contract(mmd_engine * e, short format) __CPROVER_requires(1) __CPROVER_ensures(RET == g_scratch) __CPROVER_assigns();
void scratch_pad_free__contract(scratch_pad * scratch) __CPROVER_requires(scratch == g_scratch) __CPROVER_ensures(1) __CPROVER_assigns();
void add_assets__contract(mz_zip_archive * pZip, mmd_engine * e, const char * directory)
__CPROVER_requires(g_fin == 0) __CPROVER_ensures(g_assets == OLD(g_assets) + 1 && g_nm_at_assets == g_nm) __CPROVER_assigns(g_assets, g_nm_at_assets);
/* generated XML / JSON text: a fresh, short, NUL-terminated string (its content is not interpreted) */
#define GEN_POST (__CPROVER_is_fresh(RET, 4) && RET[3] == 0)
#if defined(PKG_EPUB)
char * epub_container_xml__contract(void) __CPROVER_requires(1) __CPROVER_ensures(GEN_POST) __CPROVER_assigns();
char * epub_package_document__contract(scratch_pad * scratch) __CPROVER_requires(1) __CPROVER_ensures(GEN_POST) __CPROVER_assigns();
char * epub_nav__contract(mmd_engine * e, scratch_pad * scratch) __CPROVER_requires(1) __CPROVER_ensures(GEN_POST) __CPROVER_assigns();
#elif defined(PKG_ODT)
char * opendocument_metadata_file__contract(mmd_engine * e, scratch_pad * scratch) __CPROVER_requires(1) __CPROVER_ensures(GEN_POST) __CPROVER_assigns();
char * opendocument_style_file__contract(int format) __CPROVER_requires(1) __CPROVER_ensures(GEN_POST) __CPROVER_assigns();
char * opendocument_settings_file__contract(int format) __CPROVER_requires(1) __CPROVER_ensures(GEN_POST) __CPROVER_assigns();
char * opendocument_manifest_file__contract(mmd_engine * e, int format) __CPROVER_requires(1) __CPROVER_ensures(GEN_POST) __CPROVER_assigns();
char * opendocument_content_file__contract(const char * body, int format) __CPROVER_requires(1) __CPROVER_ensures(GEN_POST) __CPROVER_assigns();
#elif defined(PKG_TEXTBUNDLE)
char * textbundle_info_json__contract(void) __CPROVER_requires(1) __CPROVER_ensures(GEN_POST) __CPROVER_assigns();
void sub_asset_paths__contract(DString * text, mmd_engine * e) __CPROVER_requires(text != NULL) __CPROVER_ensures(1) __CPROVER_assigns();
#endif
#endif

/* ---- what every package creator owes ---- */
#define ARCHIVE_OK (g_fin == 1 && g_nm_at_fin == g_nm && g_assets <= 1 && RET != NULL && RET->str == g_zip && RET->currentStringLength == g_zip_len)
#define ONCE(l) (COUNT(l) == 1)
#if defined(PKG_EPUB)
#define MEMBERS (g_nm >= 1 && g_m[0].id == N_MIMETYPE && g_m[0].is_epub_mime && ONCE(N_MIMETYPE) && ONCE(N_CONTAINER) \
	&& ONCE(N_OPF) && ONCE(N_NAV) && ONCE(N_MAIN_XHTML) && HOLDS(N_MAIN_XHTML, body->str, body->currentStringLength))
#elif defined(PKG_ODT)
#define MEMBERS (g_nm >= 1 && g_m[0].id == N_MIMETYPE && g_m[0].flags == MZ_NO_COMPRESSION && ONCE(N_MIMETYPE) && ONCE(N_CONTENT) \
	&& ONCE(N_STYLES) && ONCE(N_META) && ONCE(N_SETTINGS) && ONCE(N_MANIFEST))
#elif defined(PKG_TEXTBUNDLE)
#define MEMBERS (ONCE(N_INFO_JSON) && ONCE(N_TEXT_MD) && ONCE(N_TEXT_HTML) && HOLDS(N_TEXT_HTML, body->str, body->currentStringLength))
#else
#define MEMBERS (ONCE(N_MAPDATA) && HOLDS(N_MAPDATA, body->str, body->currentStringLength))
#endif
#define PRE_create (g_nm == 0 && g_fin == 0 && g_assets == 0 && body != NULL && e != NULL)
#define POST_create (ARCHIVE_OK && MEMBERS)
#define PKG_FRAME __CPROVER_assigns(g_nm, __CPROVER_object_whole(g_m), g_fin, g_nm_at_fin, g_assets, g_nm_at_assets, g_scratch->random_seed_base_labels)
#if defined(PKG_EPUB)
CONTRACT(DString *, epub_create, (DString * body, mmd_engine * e, const char * directory), PRE_create, POST_create, PKG_FRAME)
#elif defined(PKG_ODT)
CONTRACT(DString *, opendocument_text_create, (DString * body, mmd_engine * e, const char * directory), PRE_create, POST_create, PKG_FRAME)
#elif defined(PKG_TEXTBUNDLE)
CONTRACT(DString *, textbundle_create, (DString * body, mmd_engine * e, const char * directory), PRE_create, POST_create, PKG_FRAME)
#else
CONTRACT(DString *, itmz_create, (DString * body, mmd_engine * e, const char * directory), PRE_create, POST_create, PKG_FRAME)
#endif

void h_create(void) {
	g_nm = 0; g_fin = 0; g_assets = 0; g_nm_at_fin = 0; g_nm_at_assets = 0;
	g_str = NULL; g_n = 0;	/* no registered string (DFCC havocs statics at entry) */
	{ IN(size_t, zl); g_zip_len = zl; IN(int, st); g_status = st; }
	g_zip = ALLOC(1);
	g_scratch = ALLOC(sizeof(scratch_pad));
	/* the rendered body: 2 arbitrary bytes */
	DString * body = ALLOC(sizeof(DString));
	body->str = ALLOC(3); { IN(char, b0); IN(char, b1); body->str[0] = b0; body->str[1] = b1; body->str[2] = 0; }
	body->currentStringLength = 2; body->currentStringBufferSize = 3;
	mmd_engine * e = ALLOC(sizeof(mmd_engine));
	e->dstr = ALLOC(sizeof(DString)); e->dstr->str = ALLOC(2); { IN(char, s0); e->dstr->str[0] = s0; e->dstr->str[1] = 0; }
	e->dstr->currentStringLength = (e->dstr->str[0] ? 1 : 0); e->dstr->currentStringBufferSize = 2;
	{ IN(int, seed); e->random_seed_base_labels = seed; }
	IN(const char *, directory);
	CALLR(DString *, CREATE(body, e, directory), PRE_create, POST_create)
	REACH();
}
