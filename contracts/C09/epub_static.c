/* C09 -- the two fixed members of an EPUB container, from the REAL epub_mimetype / epub_container_xml (epub.c):
 *  - "mimetype" holds exactly the 20 bytes "application/epub+zip" (OCF 3.3 section 4.3: no padding, no newline);
 *  - META-INF/container.xml is an XML document whose <rootfile> names, as full-path, the very member under which
 *    epub_create stores the package document ("OEBPS/main.opf": member table proved in unit c09_epub), with the
 *    media type OCF requires for it.
 * No input: one concrete run of the real functions is every run.  DString is a recording stub (appends are
 * concatenated into g_buf); the scanner below is written from the OCF text, not from epub.c.              */
#include "verif.h"
#include <string.h>
#include "d_string.h"
char * epub_mimetype(void);
char * epub_container_xml(void);

#define BUF_N 400
static char g_buf[BUF_N];
static size_t g_len;
DString * d_string_new(const char * s) {
	DString * d = malloc(sizeof(DString));
	g_len = 0;
	for (size_t i = 0; i < BUF_N - 1 && s[i]; i++) { g_buf[g_len++] = s[i]; }
	g_buf[g_len] = 0;
	d->str = g_buf; d->currentStringLength = g_len; d->currentStringBufferSize = BUF_N;
	return d;
}
void d_string_append(DString * d, const char * s) {
	ASSERT(d->str == g_buf, "append to the container string");
	for (size_t i = 0; i < BUF_N && s[i]; i++) {
		ASSERT(g_len + 1 < BUF_N, "container.xml fits the recording buffer");
		g_buf[g_len++] = s[i];
	}
	g_buf[g_len] = 0; d->currentStringLength = g_len;
}
char * d_string_free(DString * d, bool freeCharacterData) { char * r = freeCharacterData ? NULL : d->str; free(d); return r; }

/* does `lit` occur in s at position p ? */
static bool at(const char * s, size_t n, size_t p, const char * lit, size_t ln) {
	if (p > n || ln > n - p) { return false; }
	for (size_t i = 0; i < ln; i++) { if (s[p + i] != lit[i]) { return false; } }
	return true;
}
/* position just after the first occurrence of lit, or 0 */
static size_t after_first(const char * s, size_t n, const char * lit, size_t ln) {
	for (size_t p = 0; p < BUF_N; p++) { if (p < n && at(s, n, p, lit, ln)) { return p + ln; } }
	return 0;
}
#define LIT(x) x, (sizeof(x) - 1)

#ifndef UNIT_TB
void h_epub_static(void) {
	char * m = epub_mimetype();
	ASSERT(m != NULL && at(m, 21, 0, "application/epub+zip", 21), "C09: the mimetype member is exactly application/epub+zip");
	char * c = epub_container_xml();
	ASSERT(c == g_buf && g_len > 0 && g_len < BUF_N && c[g_len] == 0, "container.xml is the recorded string");
	ASSERT(at(c, g_len, 0, LIT("<?xml version=\"1.0\"")), "C08/C09: container.xml starts with an XML declaration");
	size_t r = after_first(c, g_len, LIT("<rootfile "));
	ASSERT(r != 0, "C09: container.xml has a rootfile element");
	size_t fp = after_first(c, g_len, LIT("full-path=\""));
	ASSERT(fp > r && at(c, g_len, fp, LIT("OEBPS/main.opf\"")), "C09: the rootfile's full-path is the member the package document is stored under (OEBPS/main.opf)");
	size_t mt = after_first(c, g_len, LIT("media-type=\""));
	ASSERT(mt > r && at(c, g_len, mt, LIT("application/oebps-package+xml\"")), "C09: the rootfile's media type is application/oebps-package+xml");
	ASSERT(after_first(c, g_len, LIT("</container>")) != 0 && after_first(c, g_len, LIT("urn:oasis:names:tc:opendocument:xmlns:container")) != 0, "C09: container element in the OCF namespace, closed");
	REACH();
}
#else
/* ---- TextBundle: info.json from the REAL textbundle_info_json (textbundle.c).  TextBundle spec v2: a JSON object with
 * "version" (the number 2) and, for a Markdown text member, "type": "net.daringfireball.markdown".  The scanner
 * below is a JSON-object recogniser for the escape-free subset (strings without backslash; flat object). ---- */
char * textbundle_info_json(void);
void h_textbundle_info(void) {
	char * c = textbundle_info_json();
	ASSERT(c == g_buf && g_len >= 2 && g_len < BUF_N && c[g_len] == 0, "info.json is the recorded string");
	ASSERT(c[0] == '{' && c[g_len - 1] == '}', "C09: info.json is one JSON object");
	bool in_str = false; unsigned colons = 0, commas = 0, opens = 0, closes = 0, quotes = 0; bool ok = true;
	for (size_t i = 0; i < BUF_N; i++) {
		if (i < g_len) {
			char ch = c[i];
			if (ch == '\\' || (in_str && (ch == '\n' || ch == '\t'))) { ok = false; }
			if (ch == '"') { in_str = !in_str; quotes++; }
			else if (!in_str) {
				if (ch == ':') { colons++; } else if (ch == ',') { commas++; } else if (ch == '{') { opens++; } else if (ch == '}') { closes++; }
			}
		}
	}
	ASSERT(ok && !in_str && opens == 1 && closes == 1 && colons >= 1 && commas + 1 == colons, "C09: info.json is a flat JSON object: strings closed, members separated by commas, no trailing comma");
	size_t v = after_first(c, g_len, LIT("\"version\":"));
	ASSERT(v != 0 && (at(c, g_len, v, LIT(" 2,")) || at(c, g_len, v, LIT("2,")) || at(c, g_len, v, LIT(" 2\n")) ), "C09: info.json declares TextBundle version 2 (a number)");
	size_t t = after_first(c, g_len, LIT("\"type\":"));
	ASSERT(t != 0 && (at(c, g_len, t, LIT(" \"net.daringfireball.markdown\"")) || at(c, g_len, t, LIT("\"net.daringfireball.markdown\""))), "C09: info.json declares the Markdown UTI for the text member");
	REACH();
}
#endif
