/* C11 (d) -- strip_line_tokens_from_metadata (/repo/src/mmd.c, unmodified; stack_push, char_is_*: real
 * bodies; DString: ghost sink; default: meta_new, meta_set_value, label_from_string, clean_string real
 * bodies too -- -DSTRIP_MODULAR: meta_new / meta_set_value are used BY CONTRACT (stubs that record what
 * they are given; their own contract is unit c11_meta_B4), which reaches longer sources), BOUNDED: a
 * chain of at most NL line tokens (LINE_META first; then LINE_META / LINE_INDENTED_TAB /
 * LINE_INDENTED_SPACE / LINE_PLAIN) over a source of at most SN symbolic bytes.
 * Assumed (the tokenizer's and the scanner's part, out of reach):
 *   LINES_WF: line tokens are contiguous, non-empty, lie inside the source, and every line ends with
 *             its '\n', except that the last one may end at end of input without one;
 *   scan_meta_key (re2c) by contract: on a LINE_META line it returns k >= 1 such that the k bytes are key
 *             bytes [A-Za-z0-9_ \t.-] and source[start + k] == ':' on the same line (stub below).
 * Postcondition from the property: one record per LINE_META line, pushed in source order;
 *   m->start == the line's start;   m->key == label(key text);
 *   m->value == the text after the ':' up to the end of the record's last continuation line,
 *               whitespace-normalised, continuation lines joined, no character lost or added
 *               (spec_clean_matches) -- including the block that ends at end of input without newline.
 *   (modular variant: the RAW text handed to meta_set_value is whitespace-equivalent to that source text
 *    -- same non-whitespace bytes in order, whitespace between the same neighbours -- which with
 *    meta_set_value's contract "value = whitespace-normalised argument" gives the statement above)  */
#include "C16/text_spec.h"
#include "d_string.h"
#include "libMultiMarkdown.h"
#include "mmd.h"
#include "writer.h"
#include "stack.h"
#include "token.h"
#include "parser.h"

#ifndef SN
#define SN 8
#endif
#ifndef NL
#define NL 3
#endif

static char * g_srcp;            /* ghost: the source buffer */
static size_t g_lstart[NL];      /* ghost: start of line j */
static size_t g_llen[NL];        /* ghost: length of line j (with its newline) */
static unsigned short g_ltype[NL];
static size_t g_klen[NL];        /* ghost: key length the scanner reports for a LINE_META line */
static size_t g_nl;              /* ghost: number of lines */

/* contract stubs for the re2c scanners */
size_t scan_meta_key(const char * c) {
	for (size_t j = 0; j < NL; j++) {
		if (j < g_nl && c == g_srcp + g_lstart[j] && g_ltype[j] == LINE_META) {
			return g_klen[j];
		}
	}
	ASSERT(0, "scan_meta_key is only asked about the start of a LINE_META line");
	return 0;
}
#ifdef DEFAULT_ARM
/* default arm of strip_line_tokens_from_metadata: a line of any OTHER kind (here LINE_LIST_ENUMERATED, e.g. the key
 * line "1. item: v") is a key line iff scan_meta_line says so (re2c scanner: by contract = the ghost g_other_meta) */
static bool g_other_meta[NL];
size_t scan_meta_line(const char * c) {
	for (size_t j = 0; j < NL; j++) {
		if (j < g_nl && c == g_srcp + g_lstart[j]) {
			return g_other_meta[j] ? 1 : 0;
		}
	}
	ASSERT(0, "scan_meta_line is only asked about the start of a line");
	return 0;
}
#else
size_t scan_meta_line(const char * c) {
	ASSERT(0, "scan_meta_line: the default arm is not part of this unit (line types are restricted)");
	return 0;
}
#endif

static size_t g_r;               /* ghost: an arbitrary record index (what is checked for it holds for all) */
#ifdef STRIP_MODULAR
/* meta_new / meta_set_value by contract: the stubs record their arguments (writer.c is not linked) */
static size_t g_mn_start, g_mn_len;      /* arguments of the g_r-th meta_new call */
static char g_raw[SN + NL + 1];          /* last raw value handed to meta_set_value for record g_r */
static size_t g_mn_calls;
static bool g_set;
meta * meta_new(const char * source, size_t key_start, size_t len) {
	ASSERT(source == g_srcp, "meta_new is given the engine's source");
	meta * m = ALLOC(sizeof(meta));
	m->key = NULL;
	m->value = NULL;
	m->start = key_start;
	if (g_mn_calls == g_r) {
		g_mn_start = key_start;
		g_mn_len = len;
	}
	m->hh.hashv = (unsigned)g_mn_calls;          /* (unused field: remembers which record this is) */
	g_mn_calls++;
	return m;
}
void meta_set_value(meta * m, const char * value) {
	ASSERT(m != NULL && value != NULL, "meta_set_value is given a record and a string");
	if (m->hh.hashv == g_r) {
		size_t i = 0;
		for (; i < SN + NL && value[i] != 0; i++) {
			g_raw[i] = value[i];
		}
		ASSERT(value[i] == 0, "raw value fits the ghost copy");
		g_raw[i] = 0;
		g_set = true;
	}
}
/* same non-whitespace bytes in order, and whitespace between the same neighbours (leading/trailing
 * whitespace is immaterial): exactly the strings with the same whitespace-normalised form */
static bool ws_equiv(const char * a, const char * b) {
	size_t i = 0, j = 0;
	bool first = true;
	for (;;) {
		bool ga = false, gb = false;
		while (SP_WS(a[i])) {
			i++;
			ga = true;
		}
		while (SP_WS(b[j])) {
			j++;
			gb = true;
		}
		if (a[i] == 0 || b[j] == 0) {
			return a[i] == b[j];
		}
		if (!first && ga != gb) {
			return false;
		}
		if (a[i] != b[j]) {
			return false;
		}
		first = false;
		i++;
		j++;
	}
}
#endif

#define KEYBYTE(c) (IS_ALPHA(c) || IS_DIGIT(c) || (c) == '_' || (c) == ' ' || (c) == '\t' || (c) == '-' || (c) == '.')

static char g_keytxt[SN + 1];   /* ghost: key text of record g_r */
static char g_valtxt[SN + 1];   /* ghost: source text of record g_r's value (after the ':', through its continuation lines) */
static size_t g_rstart;         /* ghost: start of record g_r's line */
static size_t g_nrec;

void h_strip(void) {
	IN(size_t, L);
	ASSUME(L >= 1 && L <= SN);
	char * src = ALLOC(SN + 1);
	{
		IN_ARR(char, fill, SN + 1);
		for (size_t i = 0; i <= SN; i++) {
			if (i < L) {
				ASSUME(fill[i] != 0);
				src[i] = fill[i];
			} else {
				src[i] = 0;
			}
		}
	}
	g_srcp = src;
	/* LINES_WF */
	IN(size_t, nl);
	ASSUME(nl >= 1 && nl <= NL);
	g_nl = nl;
	IN_ARR(size_t, lstart, NL);
	IN_ARR(size_t, llen, NL);
	IN_ARR(unsigned char, ltype, NL);
	IN_ARR(size_t, klen, NL);
	token * lines[NL];
	for (size_t j = 0; j < NL; j++) {
		lines[j] = NULL;
		if (j < nl) {
			ASSUME(llen[j] >= 1 && lstart[j] < L && llen[j] <= L - lstart[j]);
			ASSUME(j == 0 || lstart[j] == lstart[j - 1] + llen[j - 1]);
			size_t last = lstart[j] + llen[j] - 1;
			for (size_t i = 0; i < SN; i++) {
				if (i >= lstart[j] && i < last) {
					ASSUME(src[i] != '\n');           /* one line */
				}
			}
			ASSUME(src[last] == '\n' || (j == nl - 1 && last == L - 1));
#ifdef YAML_FENCE
			/* a YAML-fenced block: line 0 is the opening fence (LINE_YAML), line 1 the first key line, the LAST line may be the closing fence
			 * (typed LINE_SETEXT_2 by the line classifier).  Fence lines carry no record and no value text: effective kind 0. */
			bool fence = (j == 0) || (j == nl - 1 && j >= 2 && ltype[j] % 8 >= 4);
			unsigned short ty = fence ? 0 : ((j == 1 || ltype[j] % 4 == 0) ? LINE_META : (ltype[j] % 4 == 1 ? LINE_INDENTED_TAB : (ltype[j] % 4 == 2 ? LINE_INDENTED_SPACE : LINE_PLAIN)));
			unsigned short tok_ty = fence ? (j == 0 ? LINE_YAML : LINE_SETEXT_2) : ty;
#else
			unsigned short ty = (j == 0 || ltype[j] % 4 == 0) ? LINE_META : (ltype[j] % 4 == 1 ? LINE_INDENTED_TAB : (ltype[j] % 4 == 2 ? LINE_INDENTED_SPACE : LINE_PLAIN));
			unsigned short tok_ty = ty;
#endif
#ifdef DEFAULT_ARM
			/* ty is the EFFECTIVE kind the property reasons with; tok_ty the kind the line classifier assigned */
			g_other_meta[j] = false;
			if (j > 0 && ltype[j] % 8 >= 4 && (ty == LINE_META || ty == LINE_PLAIN)) {
				tok_ty = LINE_LIST_ENUMERATED;
				g_other_meta[j] = (ty == LINE_META);
			}
#endif
			g_lstart[j] = lstart[j];
			g_llen[j] = llen[j];
			g_ltype[j] = ty;
			g_klen[j] = 0;
			if (ty == LINE_META) {
				/* scan_meta_key's contract */
				ASSUME(klen[j] >= 1 && klen[j] < llen[j] && src[lstart[j] + klen[j]] == ':');
				for (size_t i = 0; i < SN; i++) {
					if (i >= lstart[j] && i < lstart[j] + klen[j]) {
						ASSUME(KEYBYTE(src[i]));
					}
				}
				g_klen[j] = klen[j];
			}
			token * t = ALLOC(sizeof(token));
			t->type = tok_ty;
			t->start = lstart[j];
			t->len = llen[j];
			t->next = NULL;
			t->prev = NULL;
			t->child = NULL;
			t->tail = NULL;
			t->mate = NULL;
			lines[j] = t;
			if (j > 0) {
				lines[j - 1]->next = t;
				t->prev = lines[j - 1];
			}
		}
	}
	token * block = ALLOC(sizeof(token));
	block->type = BLOCK_META;
	block->start = lstart[0];
	block->len = lstart[nl - 1] + llen[nl - 1] - lstart[0];
	block->child = lines[0];
	block->next = NULL;
	block->prev = NULL;
	block->tail = NULL;
	block->mate = NULL;

	/* what the property expects of record g_r: key text and value text of the g_r-th LINE_META line */
	{ IN(size_t, gr); ASSUME(gr < NL); g_r = gr; }
	g_nrec = 0;
	for (size_t j = 0; j < NL; j++) {
		if (j < nl && g_ltype[j] == LINE_META) {
			if (g_nrec == g_r) {
				g_rstart = lstart[j];
				size_t k = 0;
				for (; k < SN && k < klen[j]; k++) {
					g_keytxt[k] = src[lstart[j] + k];
				}
				g_keytxt[k] = 0;
				/* region end: start of the next LINE_META line, or end of the block */
				size_t rend = lstart[nl - 1] + llen[nl - 1];
				for (size_t q = NL; q-- > 0;) {
					if (q > j && q < nl && (g_ltype[q] == LINE_META || g_ltype[q] == 0)) {      /* 0: a fence line (YAML_FENCE) carries no value text */
						rend = lstart[q];
					}
				}
				size_t o = 0;
				for (size_t i = 0; i < SN; i++) {
					if (i > lstart[j] + klen[j] && i < rend) {
						g_valtxt[o] = src[i];
						o++;
					}
				}
				g_valtxt[o] = 0;
			}
			g_nrec++;
		}
	}

	mmd_engine * e = ALLOC(sizeof(mmd_engine));
	DString * ds = ALLOC(sizeof(DString));
	ds->str = src;
	ds->currentStringLength = L;
	ds->currentStringBufferSize = SN + 1;
	e->dstr = ds;
	stack * st = ALLOC(sizeof(stack));
	st->element = ALLOC(NL * sizeof(void *));
	st->capacity = NL;
	st->size = 0;
	e->metadata_stack = st;

	strip_line_tokens_from_metadata(e, block);

	ASSERT(st->size == g_nrec, "one record per LINE_META line");
	if (g_r < g_nrec && g_r < st->size) {
		meta * m = st->element[g_r];
		ASSERT(m != NULL && m->start == g_rstart, "records are pushed in source order and carry the line's start offset");
#ifdef STRIP_MODULAR
		ASSERT(g_mn_start == g_rstart && g_mn_len == u8_strlen(g_keytxt), "meta_new is given exactly the key text (line start, scanner's key length)");
		ASSERT(g_set && (has_escaped_line_break(g_valtxt) || ws_equiv(g_valtxt, g_raw)),
			   "the raw value handed to meta_set_value is the source text after the ':' up to whitespace normalisation (nothing lost or added, continuation lines joined)");
#else
		ASSERT(m->key != NULL && spec_label_matches(g_keytxt, m->key), "key is the normalised lower-case label of the key text");
		ASSERT(m->value != NULL && (has_escaped_line_break(g_valtxt) || spec_clean_matches(g_valtxt, m->value)),
			   "value is the source text after the ':' (continuation lines joined, whitespace-normalised), no character lost or added");
#endif
	}
	REACH();
}
