/* C11 (c) -- mmd_engine_update_metavalue_for_key (/repo/src/mmd.c, unmodified; label_from_string,
 * stack_peek_index, char_is_whitespace: real bodies; DString: ghost sink lib/ds_sink.c so that CONTENT
 * is checked), BOUNDED: source of at most SRC_N symbolic bytes, at most NM records, key/value of at most
 * KN/VN bytes.
 *
 * mmd_engine_has_metadata (recognition: scanners + lexer + parser, ASSUMED) is replaced by a CONTRACT
 * saying what the parse of the block delivers, and the harness builds exactly the states that contract
 * admits (HASMETA_WF):
 *   returns has;  *end = meta_end;  has <=> the stack holds >= 1 record;  !has => meta_end == 0;
 *   has => 1 <= meta_end <= length, record starts strictly increasing, each start at a line start
 *          and < meta_end; the region of record j is [start_j, start_{j+1}) resp. [start_j, meta_end);
 *          its first line contains a ':' (the key separator);
 *          the block ends with a line ending or at end of input; keys need NOT be different;
 *          default: no YAML fences;  -DYAML_FENCE: the block ends with a closing fence line "---\n"
 *          (meta_end includes it; the last record's region ends where the fence starts).
 * Postcondition, from the property ("that key reads back as the new value while every other key's value
 * and the body are unchanged") at the level of the TEXT:
 *   key present (first record whose key is the label of the query):
 *        result == old[0, v) ++ value ++ "\n" ++ old[region end, ...)   v = first byte after the ':' and blanks
 *   key absent, metadata present:  result == old[0, meta_end) ++ key ":\t" value "\n" ++ old[meta_end, ...)
 *                                  (on a line of its own: preceded by "\n" if the block does not end in a line
 *                                  ending; with a YAML fence: inserted before the closing fence)
 *   no metadata:                   result == key ":\t" value "\n\n" ++ old
 * i.e. every byte before the edited value and after its region is unchanged, and the length is
 * old - (region end - v) + strlen(value) + 1.  Also decided: the ':' scan and the blank skip stay inside
 * the buffer, erase/insert arguments are in range (sink capacity and pointer checks).          */
#include "C16/text_spec.h"
#include "d_string.h"
#include "libMultiMarkdown.h"
#include "mmd.h"
#include "writer.h"
#include "stack.h"

#ifndef SRC_N
#define SRC_N 8
#endif
#ifndef NM
#define NM 2
#endif
#ifndef KN
#define KN 2
#endif
#ifndef VN
#define VN 2
#endif
#define EXP_N (SRC_N + KN + VN + 6)

bool g_has;      /* ghost: what the (assumed) parse answers */
size_t g_end;    /* ghost: end offset of the metadata block */

#ifndef VERIF_NATIVE
bool mmd_engine_has_metadata(mmd_engine * e, size_t * end)
__CPROVER_requires(e != NULL && end != NULL)
__CPROVER_ensures(__CPROVER_return_value == g_has && *end == g_end)
__CPROVER_assigns(*end);
#endif

static char * mk_str(size_t cap) {
	char * s = ALLOC(cap + 1);
	IN_FILL(s, cap);
	s[cap] = 0;
	return s;
}

static char g_old[SRC_N + 1];   /* ghost: the source before the call */
static size_t g_L;              /* ghost: its length */
static size_t g_start[NM + 1];  /* ghost: record starts; g_start[cnt] = meta_end */
static size_t g_cnt;
static size_t g_rend_last;      /* ghost: end of the last record's region (== meta_end unless a closing YAML fence follows) */
#define IS_EOL(c) ((c) == '\n' || (c) == '\r')
static meta * g_m[NM];
static char g_exp[EXP_N + 1];   /* ghost: the text the property demands */

static void put(size_t * o, char c) {
	if (*o < EXP_N) {
		g_exp[*o] = c;
	}
	(*o)++;
}
static void put_s(size_t * o, const char * s, size_t cap) {
	for (size_t i = 0; i < cap && s[i] != 0; i++) {
		put(o, s[i]);
	}
}

/* builds an engine in a state HASMETA_WF admits; returns false if the nondeterministic choice is not one */
static mmd_engine * mk_engine(void) {
	IN(size_t, L);
	ASSUME(L <= SRC_N);
	IN_ARR(char, src, SRC_N + 1);
	for (size_t i = 0; i <= SRC_N; i++) {
		if (i < L) {
			ASSUME(src[i] != 0);
		} else {
			src[i] = 0;
		}
		g_old[i] = src[i];
	}
	g_L = L;
	mmd_engine * e = ALLOC(sizeof(mmd_engine));
	e->dstr = d_string_new(src);
	stack * st = ALLOC(sizeof(stack));
	st->element = ALLOC(NM * sizeof(void *));
	st->capacity = NM;
	IN(size_t, cnt);
	ASSUME(cnt <= NM);
	IN(size_t, mend);
	g_cnt = cnt;
	g_has = cnt >= 1;
	g_end = g_has ? mend : 0;
	if (g_has) {
		ASSUME(mend >= 1 && mend <= L);
		ASSUME(IS_EOL(src[mend - 1]) || mend == L);
#ifdef YAML_FENCE
		ASSUME(mend >= 5 && src[mend - 4] == '-' && src[mend - 3] == '-' && src[mend - 2] == '-' && src[mend - 1] == '\n' && IS_EOL(src[mend - 5]));
#endif
	}
#ifdef YAML_FENCE
	g_rend_last = g_has ? mend - 4 : 0;      /* the closing fence is not part of the last record */
#else
	g_rend_last = g_end;
#endif
	IN_ARR(size_t, starts, NM);
	for (size_t j = 0; j < NM; j++) {
		g_m[j] = NULL;
		if (j < cnt) {
			g_start[j] = starts[j];
			ASSUME(starts[j] < g_rend_last);
			ASSUME(j == 0 || starts[j - 1] < starts[j]);
			ASSUME(starts[j] == 0 || IS_EOL(src[starts[j] - 1]));
			meta * m = ALLOC(sizeof(meta));
			m->key = mk_str(KN);
			m->value = NULL;
			m->start = starts[j];
			st->element[j] = m;
			g_m[j] = m;
		}
	}
	g_start[cnt] = g_rend_last;
	/* the first line of every region contains the key separator */
	for (size_t j = 0; j < NM; j++) {
		if (j < cnt) {
			bool colon = false;
			for (size_t i = 0; i < SRC_N; i++) {
				if (i >= g_start[j] && i < g_start[j + 1] && !colon) {
					ASSUME(!IS_EOL(src[i]));
					if (src[i] == ':') {
						colon = true;
					}
				}
			}
			ASSUME(colon);
		}
	}
	st->size = cnt;
	e->metadata_stack = st;
	return e;
}

/* the text the property demands (see the header) */
static void mk_expected(const char * key, const char * value) {
	size_t o = 0;
	size_t hit = NM;
	for (size_t j = NM; j-- > 0;) {
		if (j < g_cnt && spec_label_matches(key, g_m[j]->key)) {
			hit = j;                                /* ends as the FIRST matching record */
		}
	}
	if (hit < NM) {
		size_t v = g_start[hit];
		while (g_old[v] != ':') {
			v++;
		}
		v++;
		while (g_old[v] == ' ' || g_old[v] == '\t') {
			v++;
		}
		for (size_t i = 0; i < SRC_N; i++) {
			if (i < v) {
				put(&o, g_old[i]);
			}
		}
		if (value) {
			put_s(&o, value, VN);
		}
		put(&o, '\n');
		for (size_t i = 0; i < SRC_N; i++) {
			if (i >= g_start[hit + 1] && i < g_L) {
				put(&o, g_old[i]);
			}
		}
	} else {
		for (size_t i = 0; i < SRC_N; i++) {
			if (i < g_rend_last) {
				put(&o, g_old[i]);
			}
		}
		if (g_has && !IS_EOL(g_old[g_rend_last - 1])) {
			put(&o, '\n');                           /* the new record starts on its own line */
		}
		put_s(&o, key, KN);
		put(&o, ':');
		put(&o, '\t');
		if (value) {
			put_s(&o, value, VN);
		}
		put(&o, '\n');
		if (!g_has) {
			put(&o, '\n');
		}
		for (size_t i = 0; i < SRC_N; i++) {
			if (i >= g_rend_last && i < g_L) {
				put(&o, g_old[i]);
			}
		}
	}
	put(&o, 0);
}

static bool text_is_expected(DString * d) {
	for (size_t i = 0; i <= EXP_N; i++) {
		if (d->str[i] != g_exp[i]) {
			return false;
		}
		if (g_exp[i] == 0) {
			return d->currentStringLength == i;
		}
	}
	return false;
}

#define PRE_update (u8_valid(key))
#define POST_update (text_is_expected(e->dstr) && e->metadata_stack->size == 0)   /* the records of the OLD text are discarded so that the next query re-collects them (fix 3c42d25) */
void h_update(void) {
	mmd_engine * e = mk_engine();
	char * key = mk_str(KN);
	IN(bool, has_value);
	char * value = has_value ? mk_str(VN) : NULL;
	if (u8_valid(key)) {
		mk_expected(key, value);
	}
	CALLV(mmd_engine_update_metavalue_for_key(e, key, value), PRE_update, POST_update)
	REACH();
}
