/* C11 (b) -- the lookup side of the metadata API: mmd_engine_metavalue_for_key and
 * mmd_engine_metadata_keys (/repo/src/mmd.c, unmodified; label_from_string, stack_peek_index real
 * bodies), BOUNDED: a metadata stack of at most NM records with keys of at most KN bytes and a query
 * of at most KN bytes, full byte domain.
 *   metavalue_for_key: returns the value of the FIRST record whose key equals the normalised
 *                      (label) form of the query, NULL if there is none / no metadata / NULL arguments
 *   metadata_keys:     the keys in stack order, one per line; NULL if there is no metadata
 * Recognition of the block is ASSUMED.  Two treatments of mmd_engine_has_metadata (same file, mmd.c):
 *  default:            its body is removed (goto-instrument --remove-function-body): the call returns an
 *                      arbitrary answer and does not touch the engine -- the units cover "records already
 *                      on the stack" (the state every second and later request sees) and "no records";
 *  -DHASMETA_CONTRACT: replaced (DFCC) by a contract that says what the parse delivers -- "true iff the
 *                      document starts with a metadata block, and then the engine's metadata stack holds
 *                      its g_parsed records in source order" -- covering the first request as well.   */
#include "C16/text_spec.h"
#include "d_string.h"
#include "libMultiMarkdown.h"
#include "mmd.h"
#include "writer.h"
#include "stack.h"

#ifndef NM
#define NM 3
#endif
#ifndef KN
#define KN 3
#endif

size_t g_parsed;   /* ghost: number of records visible to the lookup (already parsed, or delivered by the assumed parse) */
bool g_already;    /* ghost: were they on the stack before the call? */

bool mmd_engine_has_metadata__contract(mmd_engine * e, size_t * end)
__CPROVER_requires(e != NULL && end == NULL)
__CPROVER_ensures(__CPROVER_return_value == (g_parsed > 0)
				  && e->metadata_stack->size == (g_parsed > 0 ? g_parsed : __CPROVER_old(e->metadata_stack->size)))
__CPROVER_assigns(e->metadata_stack->size);

static char * mk_str(size_t cap) {
	char * s = ALLOC(cap + 1);
	IN_FILL(s, cap);
	s[cap] = 0;
	return s;
}

static meta * g_m[NM];
static mmd_engine * mk_engine(void) {
	mmd_engine * e = ALLOC(sizeof(mmd_engine));
	stack * st = ALLOC(sizeof(stack));
	st->element = ALLOC(NM * sizeof(void *));
	st->capacity = NM;
	IN(size_t, cnt);
	ASSUME(cnt <= NM);
	for (size_t j = 0; j < NM; j++) {
		g_m[j] = NULL;
		if (j < cnt) {
			meta * m = ALLOC(sizeof(meta));
			m->key = mk_str(KN);
			m->value = ALLOC(1);           /* the value is only handed back: its identity is what matters */
			m->start = 0;
			st->element[j] = m;
			g_m[j] = m;
		}
	}
	IN(bool, parsed);                      /* has the block been parsed already (stack populated)? */
	st->size = parsed ? cnt : 0;
	g_already = parsed;
#ifdef HASMETA_CONTRACT
	g_parsed = cnt;
#else
	g_parsed = parsed ? cnt : 0;
#endif
	e->metadata_stack = st;
	return e;
}

/* the property's answer: value of the first record whose key is the label of the query */
static char * spec_lookup(const char * key) {
	for (size_t j = 0; j < NM; j++) {
		if (j < g_parsed && spec_label_matches(key, g_m[j]->key)) {
			return g_m[j]->value;
		}
	}
	return NULL;
}

#define PRE_metavalue_for_key (u8_valid(key))
#define POST_metavalue_for_key (RET == g_want)
void h_metavalue(void) {
	mmd_engine * e = mk_engine();
	char * key = mk_str(KN);
	char * g_want = u8_valid(key) ? spec_lookup(key) : NULL;
	CALLR(char *, mmd_engine_metavalue_for_key(e, key), PRE_metavalue_for_key, POST_metavalue_for_key)
	ASSERT(e->metadata_stack->size == g_parsed || g_parsed == 0, "the records stay on the stack for later requests");
	REACH();
}

void h_metavalue_null(void) {
	mmd_engine * e = mk_engine();
	char * key = mk_str(KN);
	ASSERT(mmd_engine_metavalue_for_key(NULL, key) == NULL, "NULL engine: no value");
	ASSERT(mmd_engine_metavalue_for_key(e, NULL) == NULL, "NULL key: no value");
	REACH();
}

/* result == key_0 '\n' key_1 '\n' ... key_{n-1} '\n' */
static bool spec_keys_match(const char * out) {
	size_t o = 0;
	for (size_t j = 0; j < NM; j++) {
		if (j < g_parsed) {
			const char * k = g_m[j]->key;
			for (size_t i = 0; i < KN && k[i] != 0; i++) {
				if (out[o] != k[i]) {
					return false;
				}
				o++;
			}
			if (out[o] != '\n') {
				return false;
			}
			o++;
		}
	}
	return out[o] == 0;
}

/* (body-less has_metadata may answer "yes" on an empty stack: then the listing is the empty string) */
#define POST_metadata_keys (g_parsed == 0 ? (RET == NULL || RET[0] == 0) : (RET != NULL && spec_keys_match(RET)))
void h_keys(void) {
	mmd_engine * e = mk_engine();
	CALLR(char *, mmd_engine_metadata_keys(e), 1, POST_metadata_keys)
	REACH();
}
