/* C02 / C11 -- mmd_assign_line_type (mmd.c, the real function) is TOTAL and types a line LINE_META only where metadata may be:
 * the tokenizer creates every line token with type 0 (token_new(0, ...)) and hands it to this function; the parser driver then
 * feeds line->type to Parse(), where 0 means END OF INPUT -- a line left at 0 makes the parser accept early and everything before it
 * is dropped from the rendering (C02).
 *   requires line->type == 0 at entry (as created), 1..3 tokens of ANY types, any extensions, allow_meta either way,
 *            the re2c scanners answer anything (scan_url and scan_meta_line are stubs that record their answer; the others are
 *            havocked)
 *   ensures  (C02) line->type != 0 afterwards
 *   ensures  (C11) line->type == LINE_META only if metadata was still allowed at entry, the engine is not in compatibility mode,
 *            the line starts with plain text, the line does NOT start with a URL (scan_url said 0) and scan_meta_line accepted it
 *            ("http://host/..." would otherwise scan as key "http" with value "//host/...") */
#include "verif.h"
#include "d_string.h"
#include "libMultiMarkdown.h"
#include "token.h"
#include "mmd.h"
#include "parser.h"
void mmd_assign_line_type(mmd_engine * e, token * line);
static size_t g_url, g_meta; static int g_url_calls, g_meta_calls;
size_t scan_url(const char * c) { g_url_calls++; return g_url; }
size_t scan_meta_line(const char * c) { g_meta_calls++; return g_meta; }
/* contract stub of tokens_prune (token.c): the range first..last leaves the chain (its tokens are released there; not needed here) */
void tokens_prune(token * first, token * last) { token * p = first->prev, * n = last->next; if (p) { p->next = n; } if (n) { n->prev = p; } }
static token * mk(unsigned short type, size_t start, size_t len) {
	token * t = ALLOC(sizeof(token));
	t->type = type; t->start = start; t->len = len; t->next = NULL; t->prev = NULL; t->child = NULL; t->tail = t; t->mate = NULL;
	t->can_open = 0; t->can_close = 0; t->unmatched = 1; t->out_start = 0; t->out_len = 0;
	return t;
}
void h_linetype2(void) {
	mmd_engine * e = ALLOC(sizeof(mmd_engine));
	DString * ds = ALLOC(sizeof(DString)); char * src = ALLOC(9);
	for (int i = 0; i < 8; i++) { char c; src[i] = c; } src[8] = 0;
	ds->str = src; ds->currentStringLength = 8; ds->currentStringBufferSize = 9; e->dstr = ds;
	IN(unsigned long, ext); e->extensions = ext; IN(bool, am); e->allow_meta = am;
	{ IN(size_t, u); g_url = u; IN(size_t, m); g_meta = m; }
	IN(unsigned, n); ASSUME(n >= 1 && n <= 3);
	IN(unsigned short, t1); IN(unsigned short, t2); IN(unsigned short, t3);
#ifdef FIRST_TYPE
	ASSUME(t1 == FIRST_TYPE);
#endif
	IN(size_t, l1); ASSUME(l1 == 1 || l1 == 2);
	token * line = mk(0, 0, 2 * n);
	token * c1 = mk(t1, 0, l1); line->child = c1; token * last = c1;
	if (n >= 2) { token * c2 = mk(t2, 2, 2); c1->next = c2; c2->prev = c1; last = c2; }
	if (n >= 3) { token * c3 = mk(t3, 4, 2); last->next = c3; c3->prev = last; last = c3; }
	c1->tail = last;
	/* the token the switch looks at (after the function's own skip of one leading NON_INDENT_SPACE / single-space text token) */
	token * first = c1;
	if (c1->type == NON_INDENT_SPACE) { first = c1->next; } else if (c1->type == TEXT_PLAIN && c1->len == 1 && src[0] == ' ') { first = c1->next; }
	unsigned short ft = first ? first->type : 0;
	mmd_assign_line_type(e, line);
	ASSERT(line->type != 0, "C02: every line gets a line type (a line left at 0 is read by the parser as END OF INPUT: all earlier blocks are dropped)");
	if (line->type == LINE_META) {
		ASSERT(am && !(ext & EXT_COMPATIBILITY), "C11: a line is typed LINE_META only while metadata is still allowed and not in compatibility mode");
		ASSERT(ft == TEXT_PLAIN, "C11: only a line starting with plain text can be a metadata line");
		ASSERT(g_url == 0 && g_url_calls >= 1, "C11: a line that starts with a URL is never a metadata line (scan_url is consulted first)");
		ASSERT(g_meta != 0, "C11: a line is typed LINE_META only if scan_meta_line accepts it");
	}
	REACH();
}
