/* C11 / C20 -- "the metadata block ends at the first blank line": mmd_assign_line_type (mmd.c, the real function; the re2c scanners
 * it consults are havocked: they return anything) against
 *   ensures  a line that is classified LINE_EMPTY switches metadata recognition off (e->allow_meta == false)
 * for a line of 1..3 tokens whose first token is an indent (TAB / spaces) or a line ending -- the arms that can produce LINE_EMPTY --,
 * the following tokens any types, any engine extensions, allow_meta true or false at entry.  A later "key: value"-looking body line
 * is typed LINE_META only while allow_meta is still true, so a blank line that left it on would turn the body into metadata. */
#include "verif.h"
#include "d_string.h"
#include "libMultiMarkdown.h"
#include "token.h"
#include "mmd.h"
#include "parser.h"
void mmd_assign_line_type(mmd_engine * e, token * line);
static token * mk(unsigned short type, size_t start, size_t len) {
	token * t = ALLOC(sizeof(token));
	t->type = type; t->start = start; t->len = len; t->next = NULL; t->prev = NULL; t->child = NULL; t->tail = t; t->mate = NULL;
	t->can_open = 0; t->can_close = 0; t->unmatched = 1; t->out_start = 0; t->out_len = 0;
	return t;
}
void h_linetype(void) {
	mmd_engine * e = ALLOC(sizeof(mmd_engine));
	DString * ds = ALLOC(sizeof(DString)); char * src = ALLOC(9);
	for (int i = 0; i < 8; i++) { char c; src[i] = c; } src[8] = 0;
	ds->str = src; ds->currentStringLength = 8; ds->currentStringBufferSize = 9; e->dstr = ds;
	{ IN(unsigned long, ext); e->extensions = ext; IN(bool, am); e->allow_meta = am; }
	IN(unsigned, n); ASSUME(n >= 1 && n <= 3);
	IN(unsigned short, t1); IN(unsigned short, t2); IN(unsigned short, t3);
	ASSUME(t1 == INDENT_TAB || t1 == INDENT_SPACE || t1 == TEXT_NL || t1 == TEXT_LINEBREAK);          /* the kinds of token a blank line can start with (the other arms never produce LINE_EMPTY) */
	token * line = mk(LINE_PLAIN, 0, 2 * n);
	token * c1 = mk(t1, 0, 2); line->child = c1; token * last = c1;
	if (n >= 2) { token * c2 = mk(t2, 2, 2); c1->next = c2; c2->prev = c1; last = c2; }
	if (n >= 3) { token * c3 = mk(t3, 4, 2); last->next = c3; c3->prev = last; last = c3; }
	c1->tail = last;
	mmd_assign_line_type(e, line);
	ASSERT(line->type != LINE_EMPTY || !e->allow_meta, "C11/C20: a line classified as empty ends metadata recognition (allow_meta is cleared)");
	REACH();
}
