/* C11 (a) -- meta_new / meta_set_value / meta_free (/repo/src/writer.c, unmodified; label_from_string,
 * clean_string and the file-local my_strndup are their REAL bodies), BOUNDED: source of at most SN bytes
 * and values of at most VN bytes over the full byte domain; any key_start inside the source, any len.
 *   meta_new:       m->start == key_start, m->value == NULL, m->key == the property's normalised
 *                   lower-case label (C16/text_spec.h) of source[key_start .. key_start+len) (cut at the NUL)
 *   meta_set_value: m->value == the whitespace-normalised value, no character lost or added
 *                   (spec_clean_matches); a NULL value leaves the record unchanged; the previous value is
 *                   released (--memory-leak-check: nothing is left allocated after meta_free)
 *   meta_free:      releases key, value and record; NULL is accepted
 * DString is the ghost sink lib/ds_sink.c.                                                      */
#include "C16/text_spec.h"
#include "d_string.h"
#include "libMultiMarkdown.h"
#include "writer.h"

#ifndef SN
#define SN 4
#endif
#ifndef VN
#define VN 4
#endif

/* the slice the key is taken from: source[key_start .. key_start+len), cut at the terminating NUL */
static char g_slice[SN + 1];
static void mk_slice(const char * source, size_t key_start, size_t len) {
	size_t k = 0;
	for (; k < SN && k < len && source[key_start + k] != 0; k++) {
		g_slice[k] = source[key_start + k];
	}
	g_slice[k] = 0;
}

#define PRE_meta_new (key_start <= u8_strlen(source) && u8_valid(g_slice))
#define POST_meta_new (RET != NULL && RET->start == key_start && RET->value == NULL && RET->key != NULL \
	&& spec_label_matches(g_slice, RET->key) && u8_valid(RET->key))
#define PRE_meta_set_value (m != NULL && u8_valid(value))
#define POST_meta_set_value (m->value != NULL && (has_escaped_line_break(value) || spec_clean_matches(value, m->value)) \
	&& u8_valid(m->value) && high_bytes_match(value, m->value) && m->key == OLD(m->key) && m->start == OLD(m->start))

void h_meta(void) {
	char * source = ALLOC(SN + 1);
	IN_FILL(source, SN);
	source[SN] = 0;
	IN(size_t, key_start);
	IN(size_t, len);
	ASSUME(key_start <= SN);
	if (key_start <= u8_strlen(source)) {
		mk_slice(source, key_start, len);
	}
	CALLR(meta *, meta_new(source, key_start, len), PRE_meta_new, POST_meta_new)
	meta * m = RETV;

	/* first value */
	char * value = ALLOC(VN + 1);
	IN_FILL(value, VN);
	value[VN] = 0;
	CALLV(meta_set_value(m, value), PRE_meta_set_value, POST_meta_set_value)

	/* a NULL value is ignored */
	char * before = m->value;
	meta_set_value(m, NULL);
	ASSERT(m->value == before, "meta_set_value(m, NULL) leaves the value unchanged");

	/* second value replaces (and releases) the first */
	IN(bool, again);
	if (again) {
		char * value2 = ALLOC(VN + 1);
		IN_FILL(value2, VN);
		value2[VN] = 0;
		ASSUME(u8_valid(value2));
		meta_set_value(m, value2);
		ASSERT(m->value != NULL && (has_escaped_line_break(value2) || spec_clean_matches(value2, m->value)), "the second value replaces the first");
		free(value2);
	}

	meta_free(m);
	meta_free(NULL);
	free(value);
	free(source);
	REACH();
}
