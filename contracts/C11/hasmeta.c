/* C11 -- mmd_engine_has_metadata (mmd.c, real) against contracts of what it calls: the tokenizer/parser
 * (mmd_tokenize_string, mmd_parse_token_chain: generated lexer + lemon parser, out of CBMC's reach) are
 * replaced by the contract "the parse APPENDS the g_parsed records of the leading metadata block to the
 * engine's metadata stack (and may change the other stacks' sizes)".
 * Obligation (from C11: "the key listing returns its keys ... in order", "for all sequences of update
 * operations"): after has_metadata the metadata stack holds EXACTLY the records of one parse -- an engine
 * that already carried records from an earlier request must not end up with them twice; every other stack
 * size and the parse tree are as before.  (Genuine defect found while analysing seeded change C06-m3 and
 * repaired in /repo: the re-parse appended to the old entries.) */
#include "verif.h"
#include <stdio.h>
#include "d_string.h"
#include "libMultiMarkdown.h"
#include "token.h"
#include "writer.h"
#include "stack.h"
#include "mmd.h"

size_t g_parsed;      /* ghost: records the (assumed) parse delivers */
int g_meta_freed;     /* ghost: meta_free calls */
#ifndef VERIF_NATIVE
void meta_free(meta * m) { g_meta_freed++; free(m); }
bool g_first_meta;    /* ghost: does the text start with a metadata line (scan_meta_line, re2c: by contract) */
size_t scan_meta_line(const char * c) { return g_first_meta ? 1 : 0; }

#define ALL_SIZES(X) X(abbreviation_stack) X(citation_stack) X(definition_stack) X(footnote_stack) X(glossary_stack) X(header_stack) X(link_stack) X(metadata_stack) X(table_stack)
#define FRESH_STACK(s) && __CPROVER_is_fresh(__CPROVER_return_value->s, sizeof(stack))
mmd_engine * mmd_engine_create__contract(DString * d, unsigned long extensions)
	__CPROVER_requires(1)
	__CPROVER_ensures(__CPROVER_is_fresh(__CPROVER_return_value, sizeof(mmd_engine)) ALL_SIZES(FRESH_STACK))
	__CPROVER_assigns();
token * mmd_tokenize_string__contract(mmd_engine * e, size_t start, size_t len, bool stop_on_empty_line)
	__CPROVER_requires(1)
	__CPROVER_ensures(__CPROVER_is_fresh(__CPROVER_return_value, sizeof(token)) && __CPROVER_is_fresh(__CPROVER_return_value->child, sizeof(token)))
	__CPROVER_assigns();
#define ASSIGN_SIZE(s) , e->s->size
void mmd_parse_token_chain__contract(mmd_engine * e, token * chain)
	__CPROVER_requires(1)
	__CPROVER_ensures(e->metadata_stack->size == __CPROVER_old(e->metadata_stack->size) + g_parsed)
	__CPROVER_assigns(e->recurse_depth ALL_SIZES(ASSIGN_SIZE));
/* the temporary engine only BORROWED the nine stack sizes (its element arrays hold nothing): freeing it with a non-zero size would make
 * mmd_engine_reset pop and free uninitialised pointers -- so "every stack of the engine handed to mmd_engine_free is empty" is the
 * callee's precondition, checked at the call site */
void mmd_engine_free__contract(mmd_engine * e, bool freeDString)
	__CPROVER_requires(e->abbreviation_stack->size == 0 && e->citation_stack->size == 0 && e->definition_stack->size == 0 && e->footnote_stack->size == 0
		&& e->glossary_stack->size == 0 && e->header_stack->size == 0 && e->link_stack->size == 0 && e->metadata_stack->size == 0 && e->table_stack->size == 0)
	__CPROVER_ensures(1) __CPROVER_assigns();
#endif

#define NMETA 2
static stack * mk_stack(size_t size) { stack * s = ALLOC(sizeof(stack)); s->element = ALLOC(4 * sizeof(void *)); s->capacity = 4; s->size = size; return s; }

meta * g_m0; meta * g_m1;
size_t g_old_sizes[9]; token * g_old_root; size_t g_old_meta; bool g_had_tree;

#define SIZES_SAME(e) ((e)->abbreviation_stack->size == g_old_sizes[0] && (e)->citation_stack->size == g_old_sizes[1] && (e)->definition_stack->size == g_old_sizes[2] \
	&& (e)->footnote_stack->size == g_old_sizes[3] && (e)->glossary_stack->size == g_old_sizes[4] && (e)->header_stack->size == g_old_sizes[5] \
	&& (e)->link_stack->size == g_old_sizes[6] && (e)->table_stack->size == g_old_sizes[8])
#define PRE_hasmeta (e != NULL)
/* g_had_tree: the engine held a parse tree of the current text -> nothing is re-parsed, the stack is left alone;
 * otherwise either the first line is not metadata (nothing touched) or the stack holds exactly one parse's records */
#define POST_hasmeta (e->root == g_old_root && SIZES_SAME(e) \
	&& ((!g_first_meta || g_had_tree) ? (e->metadata_stack->size == g_old_meta && g_meta_freed == 0) \
		: (e->metadata_stack->size == g_parsed && g_meta_freed == (int)g_old_meta)))
CONTRACT(bool, mmd_engine_has_metadata, (mmd_engine * e, size_t * end), PRE_hasmeta, POST_hasmeta,
	__CPROVER_assigns(*end, g_meta_freed, e->root, e->recurse_depth, e->abbreviation_stack->size, e->citation_stack->size, e->definition_stack->size, e->footnote_stack->size,
		e->glossary_stack->size, e->header_stack->size, e->link_stack->size, e->metadata_stack->size, e->table_stack->size)
	__CPROVER_frees(g_m0, g_m1))

void h_hasmeta(void) {
	mmd_engine * e = ALLOC(sizeof(mmd_engine));
	DString * d = ALLOC(sizeof(DString)); d->str = ALLOC(4); d->str[3] = 0; d->currentStringLength = 3; d->currentStringBufferSize = 4;
	e->dstr = d;
	IN_ARR(size_t, sz, 9);
	for (int i = 0; i < 9; i++) { ASSUME(sz[i] <= 4); g_old_sizes[i] = sz[i]; }
	e->abbreviation_stack = mk_stack(sz[0]); e->citation_stack = mk_stack(sz[1]); e->definition_stack = mk_stack(sz[2]); e->footnote_stack = mk_stack(sz[3]);
	e->glossary_stack = mk_stack(sz[4]); e->header_stack = mk_stack(sz[5]); e->link_stack = mk_stack(sz[6]); e->table_stack = mk_stack(sz[8]);
	IN(size_t, nmeta); ASSUME(nmeta <= NMETA);
	e->metadata_stack = mk_stack(nmeta); g_old_meta = nmeta; g_old_sizes[7] = nmeta;
	g_m0 = ALLOC(sizeof(meta)); g_m1 = ALLOC(sizeof(meta));
	e->metadata_stack->element[0] = g_m0; e->metadata_stack->element[1] = g_m1;
	IN(bool, has_tree); IN(bool, tree_current);
	e->root = NULL; g_had_tree = false;
	if (has_tree) { token * r = ALLOC(sizeof(token)); r->type = DOC_START_TOKEN; r->len = tree_current ? 3 : 2; r->child = NULL; r->next = NULL; e->root = r; g_had_tree = tree_current; }
	g_old_root = e->root;
	{ IN(size_t, parsed); ASSUME(parsed <= 2); g_parsed = parsed; }
	g_meta_freed = 0;
	{ IN(bool, fm); g_first_meta = fm; }
	IN(bool, want_end); size_t endv = 0; size_t * end = want_end ? &endv : NULL;
	CALLR(bool, mmd_engine_has_metadata(e, end), PRE_hasmeta, POST_hasmeta)
	REACH();
}
