# ---------------------------------------------------------------- C11 metadata reported, extracted, updated faithfully
PROPS["C11"] = {
    "level": "other",
    "explanation": "Recognition of the metadata block (re2c scanners, lexer, lemon parser) is ASSUMED and stated as contracts (scan_meta_key: k key bytes followed by ':'; "
                   "mmd_engine_has_metadata: HASMETA_WF in C11/update.c; LINES_WF in C11/strip.c).  From there on the real, unmodified functions are checked against the property text: "
                   "strip_line_tokens_from_metadata pushes one record per LINE_META line in order with m->start = the line start, key = normalised lower-case label of the key text, value = "
                   "the text after the ':' through the continuation lines, whitespace-normalised, no character lost or added, including a block that ends at end of input without newline; "
                   "meta_new / meta_set_value / meta_free (key, start, value replacement, release); mmd_engine_metavalue_for_key returns the value of the FIRST record whose key is the label "
                   "of the query, NULL otherwise; mmd_engine_metadata_keys lists the keys in order; mmd_engine_update_metavalue_for_key produces exactly old[0,v) ++ value ++ newline ++ "
                   "old[region end..) when the key exists (first match), and inserts 'key:\\tvalue\\n' on a line of its own at the end of the block / before the document otherwise -- every byte "
                   "before the edited value and after its region unchanged -- with all pointer walks and erase/insert arguments in range.  All C11 units are BOUNDED (sources of 5-8 bytes quick, "
                   "8-12 thorough; <= 3 records / line tokens; keys/values of 2-4 bytes; full byte domain); clean_string's 'no non-whitespace byte is lost' is additionally a size-generic proof "
                   "(c16_clean_loop).  Five genuine defects these units found are fixed in /repo (9a373f6, ed1af1d, baa5fd2, de7492b, and 05f5a53); one is a known finding (YAML fences, c11_update_yaml_S8).",
    "slice": "writer.c: meta_new, meta_set_value, meta_free, label_from_string, clean_string, my_strndup; mmd.c: strip_line_tokens_from_metadata, mmd_engine_metavalue_for_key, mmd_engine_metadata_keys, mmd_engine_update_metavalue_for_key; stack.c: stack_push, stack_peek_index; mmd_assign_line_type (total; LINE_META only with metadata allowed, not in compatibility mode, plain text first, no URL, scanner accepts)",
    "not_reached": "that has-metadata's answer and end offset delimit exactly the block (of the line classifier only 'a blank line ends metadata recognition' is under contract: c11_blank_line_ends_meta), and that the line tokens / key lengths are what LINES_WF and the scanner contract say (tokenizer, re2c scanners, lemon parser: out of reach, DESIGN section 2); "
                   "the default arm of strip_line_tokens_from_metadata (scan_meta_line on other line types); escaped line breaks (backslash before a line ending) in values: safety and UTF-8 only; "
                   "'reads back as the new value' after an update is decided at the level of the text produced, not by re-parsing; the complete-document <meta>/<title> output (writers).",
    "trusted_base": ["cbmc/goto-cc/goto-instrument 6.11.0 (MiniSat2; legacy --replace-call-with-contract for mmd_engine_has_metadata)", "lib/ds_sink.c (DString as the ideal string; refinement: C19)",
                     "lib/libc_models.c, C16/libc_c16.c (byte-loop reference models of strlen/memcpy/strcmp/strncmp, tolower in the C locale)", "x86-64 LP64, char signed"],
    "assumptions": [NOFAIL, "the \"C\" locale is in force (/repo never calls setlocale)", "DString behaves as the ideal string (proved: C19)",
                    "recognition contracts: scan_meta_key, HASMETA_WF (mmd_engine_has_metadata), LINES_WF (line tokens) -- see explanation"],
}
_C11_LIB = ("lib/ds_sink.c", "lib/libc_models.c", "C16/libc_c16.c")
_C_LOCALE = "the \"C\" locale is in force (/repo never calls setlocale)"
_SINK_NOTE = "ghost sink lib/ds_sink.c (DString specification; refinement by d_string.c is C19)"

U("c11_meta_B4", ["C11", "C01"], "h_meta", ["C11/meta.c"], ["writer.c", "char.c"], plain=True, lib=_C11_LIB, kind="bounded",
  defines=["-DSN=4", "-DVN=4", "-DSINK_CAP=8", "-DTOLOWER_STRICT"], bounds={"source length<=": 4, "value length<=": 4, "unwind": 7},
  cbmc_flags=["--unwind", "7", "--unwinding-assertions", "--memory-leak-check"],
  functions=["meta_new", "meta_set_value", "meta_free", "label_from_string", "clean_string", "__CPROVER_file_local_writer_c_my_strndup"],
  callees={"label_from_string/clean_string/my_strndup": "real bodies", "d_string_*": _SINK_NOTE, "memcpy/strlen": "lib/libc_models.c reference loops", "tolower": "C-locale model checking C11 7.4p1"},
  min_obligations=50, timeout=600, cost=40, assumptions=[NOFAIL, _C_LOCALE, "escaped line breaks (backslash before a line ending) in a value: safety and UTF-8 only, not exact content"])

_LK_REPO = ["mmd.c", "writer.c", "stack.c", "char.c"]
_HASMETA = {"mmd_engine_has_metadata": "contract: true iff the source starts with a metadata block, and then the stack holds its records in source order (recognition by the re2c scanners/lexer/lemon parser is ASSUMED)"}
_HASMETA_NB = {"mmd_engine_has_metadata": "body removed: arbitrary answer, engine untouched (recognition is ASSUMED; the populated-stack state is built by the harness)"}
def _lookup(name, entry, fn, nm, kn, tier, contract=False, unwind=None):
    uw = unwind or max(nm, kn) + 3
    U(name, ["C11", "C01"], entry, ["C11/lookup.c"], _LK_REPO, plain=True, lib=_C11_LIB, kind="bounded", tier=tier,
      replace=(["mmd_engine_has_metadata"] if contract else []),
      pre_instrument=([] if contract else ["--remove-function-body", "mmd_engine_has_metadata", "--generate-function-body", "mmd_engine_has_metadata", "--generate-function-body-options", "nondet-return"]),
      defines=["-DNM=%d" % nm, "-DKN=%d" % kn, "-DSINK_CAP=%d" % (nm * (kn + 1) + 2), "-DTOLOWER_STRICT", "-DTOLOWER_7BIT"] + (["-DHASMETA_CONTRACT"] if contract else []),
      bounds={"records<=": nm, "key length<=": kn, "query length<=": kn, "unwind": uw},
      cbmc_flags=["--unwind", str(uw), "--unwinding-assertions"], functions=[fn, "label_from_string", "stack_peek_index"],
      callees=dict(_HASMETA if contract else _HASMETA_NB, **{"label_from_string/stack_peek_index": "real bodies", "d_string_*": _SINK_NOTE, "strcmp": "byte-loop model"}),
      min_obligations=20, timeout=600, cost=30, assumptions=[NOFAIL, _C_LOCALE])
_lookup("c11_metavalue_K2", "h_metavalue", "mmd_engine_metavalue_for_key", 3, 2, "quick")
_lookup("c11_metavalue_K3", "h_metavalue", "mmd_engine_metavalue_for_key", 3, 3, "thorough")
_lookup("c11_metavalue_null", "h_metavalue_null", "mmd_engine_metavalue_for_key", 2, 2, "quick")
_lookup("c11_metadata_keys_K3", "h_keys", "mmd_engine_metadata_keys", 3, 3, "quick")
_lookup("c11_metavalue_parse_K2", "h_metavalue", "mmd_engine_metavalue_for_key", 2, 2, "quick", contract=True)

# ---- update: has_metadata by (legacy, non-DFCC) contract replacement; DString = ghost sink so content is checked
def _update(name, tier, src_n, nm, kn, vn, extra=(), note=None, unwind=None):
    uw = unwind or src_n + 4
    U(name, (["C11", "C01", "C06", "C20"] if name == "c11_update_S6" else ["C11", "C01"]), "h_update", ["C11/update.c"], _LK_REPO, plain=True, lib=_C11_LIB, kind="bounded", tier=tier,
      pre_instrument=["--replace-call-with-contract", "mmd_engine_has_metadata"],
      defines=["-DSRC_N=%d" % src_n, "-DNM=%d" % nm, "-DKN=%d" % kn, "-DVN=%d" % vn, "-DSINK_CAP=%d" % (src_n + kn + vn + 8), "-DTOLOWER_STRICT", "-DTOLOWER_7BIT"] + list(extra),
      bounds={"source length<=": src_n, "records<=": nm, "key length<=": kn, "value length<=": vn, "unwind": uw},
      cbmc_flags=["--unwind", str(uw), "--unwindset", "text_is_expected.0:%d" % (src_n + kn + vn + 9), "--unwinding-assertions"],
      functions=["mmd_engine_update_metavalue_for_key", "label_from_string", "stack_peek_index", "char_is_whitespace"],
      callees=dict(_HASMETA, **{"label_from_string/stack_peek_index/char_is_whitespace": "real bodies", "d_string_*": _SINK_NOTE, "strcmp": "byte-loop model"}),
      min_obligations=50, timeout=900, cost=60,
      assumptions=[NOFAIL, _C_LOCALE, "state delivered by the parse of the block: HASMETA_WF in C11/update.c (record starts increasing, at line starts, key separator on the first line, "
                   "block ends with a line ending or at end of input; no YAML fences unless -DYAML_FENCE)"] + ([note] if note else []))
_update("c11_update_S6", "quick", 6, 2, 2, 2)
_update("c11_update_S8", "thorough", 8, 2, 2, 2)
# Defects these units found, fixed in /repo: baa5fd2 (append branch glued the new record onto the last value when the block ends at end of
# input without newline), de7492b (duplicate keys: start overwritten at every match, end fixed after the first -> len wrapped, body erased).
# KNOWN FINDING D4 (known: line in /verif/known_findings.txt): YAML-fenced block -- meta_end includes the closing fence, so replacing the LAST key erases the fence and
# adding a key inserts after it ("---\na: 1\n---\nbody\n": update a -> "---\na: NEW\nbody\n").  Fails by design (quick tier): the driver prints KNOWN-FINDING and exits 0.
_update("c11_update_yaml_S8", "quick", 8, 1, 1, 1, extra=["-DYAML_FENCE"], note="variant: block closed by a YAML fence line")

# ---- strip_line_tokens_from_metadata: bounded line-token chain
# (defect found here, fixed in /repo ed1af1d: a block ending at end of input without newline lost the last value byte,
#  `printf 'a: 1\nb: 23' | multimarkdown -e b` printed 2)
def _strip(name, tier, sn, nl, modular=False, default_arm=False, yaml=False, props=("C11", "C01")):
    uw = sn + (nl + 2 if modular else 2)
    U(name, list(props), "h_strip", ["C11/strip.c"], (["mmd.c", "stack.c", "char.c"] if modular else _LK_REPO), plain=True, lib=_C11_LIB, kind="bounded", tier=tier,
      defines=["-DSN=%d" % sn, "-DNL=%d" % nl, "-DSINK_CAP=%d" % (sn + nl + 3), "-DTOLOWER_STRICT", "-DTOLOWER_7BIT"] + (["-DYAML_FENCE"] if yaml else []) + (["-DSTRIP_MODULAR"] if modular else []) + (["-DDEFAULT_ARM"] if default_arm else []),
      bounds={"source length<=": sn, "line tokens<=": nl, "unwind": uw}, cbmc_flags=["--unwind", str(uw), "--unwinding-assertions"],
      functions=["strip_line_tokens_from_metadata", "stack_push", "char_is_line_ending", "char_is_whitespace"] + ([] if modular else ["meta_new", "meta_set_value", "label_from_string", "clean_string"]),
      callees={"scan_meta_key": "contract stub (re2c scanner ASSUMED): k key bytes followed by ':' on the line", "scan_meta_line": "not reached (line types restricted to META/INDENTED/PLAIN)",
               "meta_new/meta_set_value": ("contract stubs recording their arguments (their contract: c11_meta_B4)" if modular else "real bodies (with label_from_string/clean_string)"),
               "stack_push/char_is_*": "real bodies", "d_string_*": _SINK_NOTE},
      min_obligations=50, timeout=900, cost=60,
      assumptions=[NOFAIL, _C_LOCALE, "LINES_WF (tokenizer, ASSUMED): line tokens contiguous, non-empty, inside the source, each ending with its newline except possibly the last at end of input; the block starts with a LINE_META line",
                   "escaped line breaks in a value: safety only"])
_strip("c11_strip_S5", "quick", 5, 2)
_strip("c11_strip_mod_S8", "quick", 8, 3, modular=True)
_strip("c11_strip_default_arm_S6", "quick", 6, 2, modular=True, default_arm=True, props=("C11", "C01", "C02"))   # lines of another kind: key line iff scan_meta_line (contract) says so
_strip("c11_strip_yaml_S8", "quick", 8, 3, modular=True, yaml=True, props=("C11", "C01", "C20"))   # YAML-fenced block: the fence lines carry no record and no value text
_strip("c11_strip_mod_S10", "thorough", 10, 3, modular=True)   # (S12 was measured once: ok, 2229 s -- too close to the timeout to register)

# ---- mmd_engine_has_metadata: the records of ONE parse, never appended to an earlier request's (fix 3c42d25)
U("c11_has_metadata_resets", ["C11", "C01"], "h_hasmeta", ["C11/hasmeta.c"], ["mmd.c", "stack.c", "token.c", "object_pool.c", "char.c"], enforce="mmd_engine_has_metadata",
  replace=["mmd_engine_create", "mmd_tokenize_string", "mmd_parse_token_chain", "mmd_engine_free"], lib=(),
  cbmc_flags=["--unwind", "4", "--unwindset", "h_hasmeta.0:10,h_hasmeta.1:10,__CPROVER_contracts_write_set_check_assigns_clause_inclusion.0:20", "--object-bits", "10"], kind="bounded", bounds={"records already on the stack<=": 2, "records delivered by the parse<=": 2},
  functions=["mmd_engine_has_metadata"],
  callees={"mmd_tokenize_string/mmd_parse_token_chain": "contract: the parse appends g_parsed records to the metadata stack (generated lexer/parser: assumed)",
           "mmd_engine_create/mmd_engine_free": "contract (fresh engine with its stacks; free requires every stack of the engine to be empty)", "meta_free": "counting stub", "scan_meta_line": "stub: any value", "stack_pop/token_tree_free": "body"},
  min_obligations=30, timeout=900, cost=360, nobody_ok=[], tier="thorough",
  assumptions=["the tokenizer + lemon parser append exactly the leading block's records to e->metadata_stack (assumed contract)", NOFAIL])

# ---- a blank line ends metadata recognition (mmd_assign_line_type with the scanners havocked)
U("c11_blank_line_ends_meta", ["C11", "C20"], "h_linetype", ["C11/linetype.c"], ["mmd.c", "char.c"], plain=True, lib=(), kind="bounded",
  pre_instrument=["--remove-function-body-regex", "^(?!mmd_assign_line_type$|line_is_empty$|char_is_.*$|h_linetype$|mk$|verif_.*$|__CPROVER.*$).*",
                  "--generate-function-body", "^(?!__CPROVER_|malloc$|free$|verif_).*$", "--generate-function-body-options", "nondet-return"],
  cbmc_flags=["--unwind", "12", "--unwinding-assertions", "--object-bits", "12"], checks=["--no-standard-checks"],
  bounds={"tokens on the line": "1..3", "first token": "INDENT_TAB / INDENT_SPACE / TEXT_NL / TEXT_LINEBREAK (the kinds that can start a blank line)", "following tokens": "any types"},
  functions=["mmd_assign_line_type", "line_is_empty"], callees={"scan_* (re2c)": "body removed, nondet return value", "char_is_*, tokens_prune, token_remove_first_child": "body"},
  min_obligations=2, timeout=600, cost=30, assumptions=[NOFAIL, "memory safety of the function is not claimed by this unit (standard checks off: callees are havocked)"])

# ---- mmd_assign_line_type is total (C02) and types LINE_META only where metadata may be, never for a URL line (C11)
for _nm, _ft in (("any", None),):
    U("c11_line_type_total_%s" % _nm, ["C11", "C02"], "h_linetype2", ["C11/linetype2.c"], ["mmd.c", "char.c"], plain=True, lib=(), kind="bounded",
      defines=(["-DFIRST_TYPE=%s" % _ft] if _ft else []),
      pre_instrument=["--remove-function-body-regex", "^(?!mmd_assign_line_type$|line_is_empty$|char_is_.*$|h_linetype2$|scan_url$|scan_meta_line$|tokens_prune$|mk$|verif_.*$|__CPROVER.*$).*",
                      "--generate-function-body", "^(?!__CPROVER_|malloc$|free$|verif_).*$", "--generate-function-body-options", "nondet-return"],
      cbmc_flags=["--unwind", "12", "--unwinding-assertions", "--object-bits", "12"], checks=["--no-standard-checks"],
      bounds={"tokens on the line": "1..3", "first token": _ft or "any type", "following tokens": "any types", "line type at entry": "0 (as the tokenizer creates it)"},
      functions=["mmd_assign_line_type", "line_is_empty"], callees={"scan_url, scan_meta_line": "stubs recording a nondet answer", "other scan_* (re2c)": "body removed, nondet return value", "char_is_*": "body", "tokens_prune": "contract stub (the range leaves the chain)", "token_remove_first_child": "havocked"},
      min_obligations=5, timeout=600, cost=30, assumptions=[NOFAIL, "memory safety of the function is not claimed by this unit (standard checks off: callees are havocked)"])
