/* C10 / C08 -- the citation CALL SITE of html.c (arms PAIR_BRACKET_CITATION and PAIR_BRACKET-as-locator of mmd_export_token_html, the
 * real switch function): the citation list's entry N links back to href="#cnref:N" (mmd_export_citation_list_html), so the FIRST call
 * that uses citation N must carry id="cnref:N" -- with or without a locator -- and a later call of the same citation must not repeat it.
 *   requires EXT_NOTES; the call is `[#key]` or `[locator][#key]`; citation_from_bracket (writer.c) BY CONTRACT: it answers the
 *            citation's number N >= 1 (or -1: malformed) and, when this is the first use, has pushed it on used_citations
 *   ensures  (C10) for a regular citation: the anchor printed carries id="cnref:N" iff this call was the first use of N; its href
 *            is "#cn:N" in both cases
 *   ensures  (C08) the locator -- raw source text -- is never handed to the formatter as a %s argument: it goes through the HTML
 *            string escaper (mmd_print_string_html, its own contract: esc_string_html)
 *   ensures  a locator call tells the walker to skip the citation token it has consumed (skip_token == 1) */
#include "verif.h"
#include <stdio.h>
#include <stdarg.h>
#include "d_string.h"
#include "token.h"
#include "writer.h"
#include "stack.h"
#include "html.h"
#include "parser.h"
void mmd_export_token_html(DString * out, const char * source, token * t, scratch_pad * scratch);
static char * g_loc; static short g_num; static bool g_first; static token * g_cite;
static unsigned g_anchor, g_id, g_href_ok, g_id_ok, g_escaped_loc, g_raw_loc;
char * text_inside_pair(const char * source, token * pair) { if (pair != g_cite) { return g_loc; } char * r = malloc(2); r[0] = '#'; r[1] = 0; return r; }
char * label_from_string(const char * str) { char * r = malloc(3); char a, b; ASSUME(a != 0 && b != 0); r[0] = a; r[1] = b; r[2] = 0; return r; }      /* any 2-byte label: "notcited" needs 8 */
void citation_from_bracket(const char * source, scratch_pad * scratch, token * t, short * num) {
	ASSERT(t == g_cite, "the citation token is classified");
	*num = g_num;
	if (g_first && g_num != -1) { scratch->used_citations->size++; }
}
void mmd_print_string_html(DString * out, const char * str, bool obfuscate, bool line_breaks) { if (str == g_loc) { g_escaped_loc++; } }
void mmd_export_token_tree_html(DString * out, const char * source, token * t, scratch_pad * scratch) { }
void d_string_append(DString * d, const char * s) { ASSERT(s != g_loc, "C08: the locator is not copied raw"); }
void d_string_append_c(DString * d, char c) { }
void d_string_append_c_array(DString * d, const char * s, size_t n) { ASSERT(s != g_loc, "C08: the locator is not copied raw"); }
int strcmp(const char * a, const char * b) { for (int i = 0; i < 10; i++) { if (a[i] != b[i]) { return (unsigned char)a[i] < (unsigned char)b[i] ? -1 : 1; } if (a[i] == 0) { return 0; } } return 0; }
static bool has(const char * fmt, const char * needle) {
	for (int i = 0; i < 100 && fmt[i]; i++) { int j = 0; while (j < 20 && needle[j] && fmt[i + j] == needle[j]) { j++; } if (needle[j] == 0) { return true; } }
	return false;
}
void d_string_append_printf(DString * d, const char * fmt, ...) {
	va_list ap; va_start(ap, fmt);
	bool anchor = has(fmt, "<a href="), id = has(fmt, " id=\"cnref:");
	int nint = 0; int ints[3] = { 0, 0, 0 };
	for (int i = 0; i < 100 && fmt[i]; i++) {
		if (fmt[i] == '%') {
			i++;
			if (fmt[i] == 's') { const char * p = va_arg(ap, const char *); if (p == g_loc) { g_raw_loc++; } }
			else if (fmt[i] == 'd') { int v = va_arg(ap, int); if (nint < 3) { ints[nint++] = v; } }      /* the arguments are shorts promoted to int: CBMC's va_arg leaves the upper half of the slot unspecified, so only the low 16 bits are compared */
			else if (fmt[i] == 0) { break; }
		}
	}
	va_end(ap);
	if (anchor) {
		g_anchor++;
		if (has(fmt, "<a href=\"#cn:%d\"") && (short)ints[0] == g_num) { g_href_ok++; }
		if (id) { g_id++; if (nint >= 2 && (short)ints[1] == g_num) { g_id_ok++; } }
	}
}
static token * mk(unsigned short type, size_t start, size_t len) {
	token * t = ALLOC(sizeof(token));
	t->type = type; t->start = start; t->len = len; t->next = NULL; t->prev = NULL; t->child = NULL; t->tail = t; t->mate = NULL;
	t->can_open = 0; t->can_close = 0; t->unmatched = 1; t->out_start = 0; t->out_len = 0;
	return t;
}
void h_citation_call(void) {
	char * source = ALLOC(16); source[15] = 0;
	scratch_pad * scratch = ALLOC(sizeof(scratch_pad));
	{ IN(unsigned long, ext); ASSUME(ext & EXT_NOTES); scratch->extensions = ext; }
	scratch->padded = 2; scratch->recurse_depth = 1; scratch->skip_token = 0;
	scratch->used_citations = ALLOC(sizeof(stack)); { IN(size_t, sz); ASSUME(sz < 100); scratch->used_citations->size = sz; }
	IN(bool, locator);
	g_loc = ALLOC(3); { char a, b; ASSUME(a != 0); g_loc[0] = a; g_loc[1] = b; g_loc[2] = 0; }       /* the locator text: any non-empty string */
	g_cite = mk(PAIR_BRACKET_CITATION, 4, 4); g_cite->child = mk(BRACKET_CITATION_LEFT, 4, 2); g_cite->child->next = mk(TEXT_PLAIN, 6, 1);
	token * t = g_cite;
	if (locator) { t = mk(PAIR_BRACKET, 0, 4); t->next = g_cite; g_cite->prev = t; t->tail = g_cite; }
	{ IN(short, n); ASSUME(n == -1 || (n >= 1 && n < 1000)); g_num = n; IN(bool, f); g_first = f; }
	DString * out = ALLOC(sizeof(DString)); out->str = ALLOC(8); out->str[0] = 0; out->currentStringLength = 0; out->currentStringBufferSize = 8;
	mmd_export_token_html(out, source, t, scratch);
	ASSERT(g_raw_loc == 0, "C08: the locator (raw source text) is never a %s argument of the formatter");
	if (g_num != -1) {
		ASSERT(g_anchor == 1 && g_href_ok == 1, "C10: one anchor, pointing at the citation's entry #cn:N");
		ASSERT(g_id == (g_first ? 1u : 0u) && g_id_ok == g_id, "C10: the call carries id=\"cnref:N\" iff it is the first use of citation N (the entry's back-link points there), with or without a locator");
		ASSERT(!locator || g_escaped_loc == 1, "C08: the locator is printed through the HTML string escaper");
		ASSERT(!locator || scratch->skip_token == 1, "a locator call consumes the citation token that follows it");
	} else {
		ASSERT(g_anchor == 0, "a malformed citation prints no anchor");
	}
	REACH();
}
