/* C10 (1) -- numbering invariant of the used-note stacks.
 *
 *   USED_WF(st) :=  ST_WF(st)  and  for every i < st->size:  ((footnote *) st->element[i])->count == i + 1
 *
 * i.e. "entries are numbered 1..n in order of first use": the list exporters (html.c
 * mmd_export_footnote_list_html & co.) print entry i of the same stack under number i+1, and every call
 * site prints note->count -- so a call links to an entry that exists iff count is the entry's position.
 * The quantifier is a ghost index g_i picked nondeterministically by the harness (README: ghost-index
 * idiom); the stack has SYMBOLIC size and capacity (< 2^29, lib/stack_spec.h).  The functions verified
 * are the unmodified mark_*_as_used of /repo/src/writer.c with the REAL stack_push body (stack.c). */
/* include order matters: scratch_pad is an ANONYMOUS struct whose goto-cc tag is derived from its member
 * types at the point of the typedef; writer.c sees it (via html.h) while struct stack is still incomplete */
#include "writer.h"
#include "stack_spec.h"

size_t g_i;          /* ghost: arbitrary index (ranges over the NEW size as well: g_i == old size is the pushed slot) */
footnote * g_fi;     /* ghost: the note stored at g_i before the call (if g_i < old size) */

#define NOTE(st, i) ((footnote *)(st)->element[(i)])
#define UNUSED ((size_t) -1)
/* before the call: the entry at the ghost index is the ghost note and carries its own position */
#define USED_WF_PRE(st) (ST_WF(st) && (g_i >= (st)->size || ((st)->element[g_i] == (void *)g_fi && g_fi->count == g_i + 1)))
/* after the call: whatever is stored at the ghost index (old entry or the new one) carries its position */
#define USED_WF_POST(st) (ST_WF_GROWN(st) && (g_i >= (st)->size || NOTE(st, g_i)->count == g_i + 1))

/* requires USED_WF; ensures USED_WF and
 *   old count == -1  =>  size == old size + 1, the note is the new top entry and its count == size
 *   otherwise        =>  nothing changes (size, entries, count)                                     */
#define PRE_mark(st, n) (USED_WF_PRE(st) && (n) != NULL)
#define POST_mark(st, n) (USED_WF_POST(st) \
	&& (OLD((n)->count) == UNUSED \
		? ((st)->size == OLD((st)->size) + 1 && (n)->count == (st)->size && (st)->element[(st)->size - 1] == (void *)(n)) \
		: ((st)->size == OLD((st)->size) && (n)->count == OLD((n)->count) && (st)->element == OLD((st)->element) && (st)->capacity == OLD((st)->capacity))) \
	&& (g_i >= OLD((st)->size) || ((st)->element[g_i] == (void *)g_fi && g_fi->count == g_i + 1)))
#define FRAME_mark(st, n) __CPROVER_assigns((n)->count, (st)->size, (st)->capacity, (st)->element, __CPROVER_object_whole((st)->element)) __CPROVER_frees((st)->element)

#define PRE_mark_footnote_as_used PRE_mark(scratch->used_footnotes, f)
#define POST_mark_footnote_as_used POST_mark(scratch->used_footnotes, f)
CONTRACT(void, mark_footnote_as_used, (scratch_pad * scratch, footnote * f), PRE_mark_footnote_as_used, POST_mark_footnote_as_used, FRAME_mark(scratch->used_footnotes, f))

#define PRE_mark_citation_as_used PRE_mark(scratch->used_citations, c)
#define POST_mark_citation_as_used POST_mark(scratch->used_citations, c)
CONTRACT(void, mark_citation_as_used, (scratch_pad * scratch, footnote * c), PRE_mark_citation_as_used, POST_mark_citation_as_used, FRAME_mark(scratch->used_citations, c))

#define PRE_mark_glossary_as_used PRE_mark(scratch->used_glossaries, c)
#define POST_mark_glossary_as_used POST_mark(scratch->used_glossaries, c)
CONTRACT(void, mark_glossary_as_used, (scratch_pad * scratch, footnote * c), PRE_mark_glossary_as_used, POST_mark_glossary_as_used, FRAME_mark(scratch->used_glossaries, c))

#define PRE_mark_abbreviation_as_used PRE_mark(scratch->used_abbreviations, c)
#define POST_mark_abbreviation_as_used POST_mark(scratch->used_abbreviations, c)
CONTRACT(void, mark_abbreviation_as_used, (scratch_pad * scratch, footnote * c), PRE_mark_abbreviation_as_used, POST_mark_abbreviation_as_used, FRAME_mark(scratch->used_abbreviations, c))

/* harness: a scratch pad whose four used-stacks are four distinct stacks of symbolic size; the note
 * under test is either a fresh object or the very note stored at the ghost index (re-use of a note
 * already in the list) */
#define MK_USED(st) stack * st; { MK_STACK(s_) st = s_; }
#define MK_SCRATCH \
	scratch_pad * scratch = ALLOC(sizeof(scratch_pad)); \
	MK_USED(sf) MK_USED(sc) MK_USED(sg) MK_USED(sa) \
	scratch->used_footnotes = sf; scratch->used_citations = sc; scratch->used_glossaries = sg; scratch->used_abbreviations = sa; \
	IN(size_t, gi); g_i = gi; g_fi = ALLOC(sizeof(footnote)); { IN(size_t, cnt0); g_fi->count = cnt0; }
#define PLACE_GHOST(st) if (g_i < (st)->size) { (st)->element[g_i] = g_fi; }
#define MK_NOTE(n) footnote * n; { IN(bool, same); if (same) { n = g_fi; } else { n = ALLOC(sizeof(footnote)); IN(size_t, cnt1); n->count = cnt1; } }

void h_mark_footnote(void) {
	MK_SCRATCH PLACE_GHOST(sf) MK_NOTE(f)
	CALLV(mark_footnote_as_used(scratch, f), PRE_mark_footnote_as_used, POST_mark_footnote_as_used)
	REACH();
}

void h_mark_citation(void) {
	MK_SCRATCH PLACE_GHOST(sc) MK_NOTE(c)
	CALLV(mark_citation_as_used(scratch, c), PRE_mark_citation_as_used, POST_mark_citation_as_used)
	REACH();
}

void h_mark_glossary(void) {
	MK_SCRATCH PLACE_GHOST(sg) MK_NOTE(c)
	CALLV(mark_glossary_as_used(scratch, c), PRE_mark_glossary_as_used, POST_mark_glossary_as_used)
	REACH();
}

void h_mark_abbreviation(void) {
	MK_SCRATCH PLACE_GHOST(sa) MK_NOTE(c)
	CALLV(mark_abbreviation_as_used(scratch, c), PRE_mark_abbreviation_as_used, POST_mark_abbreviation_as_used)
	REACH();
}

/* ------------------------------------------------------------------------------------------------
 * the *_from_bracket call paths (html.c/latex.c/... PAIR_BRACKET_FOOTNOTE / _CITATION arms call these to
 * obtain the number they print): the number handed back is the position of an entry that EXISTS in the
 * used list, and a note defined inline is appended as entry size+1 (order of first use).
 * Callees by contract: extract_*_from_stack (hash lookup + mark_*_as_used, whose contract is proved
 * above), text_inside_pair, footnote_new.  stack_push: real body. */
#ifdef FROM_BRACKET
#include "token.h"

footnote * g_found;   /* ghost: the note the hash lookup finds for the bracket text, or NULL */

/* hash lookup + mark_*_as_used: either nothing is found (-1, nothing changes) or the found note is
 * marked (mark contract) and its number returned; a note that carries a number sits at that position
 * (established by mark_*: count == size and element[size-1] == note at the time of the push) */
/* the callee contract does not model a reallocation of the list inside the lookup (a havocked `element` pointer cannot
 * be constrained again under --pointer-primitive-check): the *_from_bracket units therefore require room for one more
 * entry on entry; growth of the list is covered by the mark_* units (real stack_push, any size/capacity) */
#define PRE_extract(st) (USED_WF_PRE(st) && (st)->size < (st)->capacity)
/* (stated with pointer equalities against the ghosts g_found / g_fi only: an assumed postcondition must not dereference
 * cells of the array it has just havocked) */
#define POST_extract(st) (ST_WF(st) && (st)->size < 32767 \
	&& (RET == UNUSED \
		? ((st)->size == OLD((st)->size)) \
		: (g_found != NULL && RET >= 1 && RET <= (st)->size && (st)->element[RET - 1] == (void *)g_found && g_found->count == RET \
			&& ((st)->size == OLD((st)->size) || ((st)->size == OLD((st)->size) + 1 && RET == (st)->size)))) \
	&& (g_i >= OLD((st)->size) || ((st)->element[g_i] == (void *)g_fi && g_fi->count == g_i + 1)))
#define FRAME_extract(st) __CPROVER_assigns((st)->size, (st)->element[(st)->size], g_found->count)   /* the slot a push would fill */
size_t extract_footnote_from_stack__contract(scratch_pad * scratch, const char * target)
	__CPROVER_requires(PRE_extract(scratch->used_footnotes)) __CPROVER_ensures(POST_extract(scratch->used_footnotes)) FRAME_extract(scratch->used_footnotes);
size_t extract_citation_from_stack__contract(scratch_pad * scratch, const char * target)
	__CPROVER_requires(PRE_extract(scratch->used_citations)) __CPROVER_ensures(POST_extract(scratch->used_citations)) FRAME_extract(scratch->used_citations);
char * text_inside_pair__contract(const char * source, token * pair)
	__CPROVER_requires(1) __CPROVER_ensures(__CPROVER_is_fresh(RET, 1)) __CPROVER_assigns();
/* a fresh note that is not yet in any list (count == -1); its token surgery on `content` is C15's subject */
footnote * footnote_new__contract(const char * source, token * label, token * content, bool lowercase)
	__CPROVER_requires(1) __CPROVER_ensures(__CPROVER_is_fresh(RET, sizeof(footnote)) && RET->count == UNUSED) __CPROVER_assigns();

/* fewer than 32766 notes: `short footnote_id = extract_...()` and `*num = size` truncate size_t to short */
#define PRE_from_bracket(st, tofree) (USED_WF_PRE(st) && (st)->size < 32766 && (st)->size < (st)->capacity && ST_WF(tofree) && t->child != NULL && t->child->mate != NULL)
/* count of entry i.  An entry written by the contracted lookup is known to CBMC only through the assumed equality
 * element[i] == g_found (dereferencing a havocked-then-assumed pointer cell yields an invalid object in symex), so it is
 * read through the ghost; every other entry was stored by real code (harness, stack_push) and is read directly. */
#define CNT(st, i) ((st)->element[(i)] == (void *)g_found ? g_found->count : NOTE(st, (i))->count)
#define POST_fb_wf(st) (ST_WF_GROWN(st) && (g_i >= (st)->size || CNT(st, g_i) == g_i + 1))
#define POST_fb_num(st) (*num >= 1 && (size_t)*num <= (st)->size && CNT(st, (size_t)*num - 1) == (size_t)*num)
#define POST_fb_size(st) ((st)->size >= OLD((st)->size) && (st)->size <= OLD((st)->size) + 1)
#define POST_from_bracket(st) (POST_fb_wf(st) && POST_fb_num(st) && POST_fb_size(st))
#define FRAME_from_bracket(st, tofree) __CPROVER_assigns(*num, t->child->type, t->child->mate->type, g_found->count, \
	(st)->size, (st)->capacity, (st)->element, __CPROVER_object_whole((st)->element), \
	(tofree)->size, (tofree)->capacity, (tofree)->element, __CPROVER_object_whole((tofree)->element)) __CPROVER_frees((st)->element, (tofree)->element)

#define PRE_footnote_from_bracket PRE_from_bracket(scratch->used_footnotes, scratch->inline_footnotes_to_free)
#define POST_footnote_from_bracket POST_from_bracket(scratch->used_footnotes)
CONTRACT(void, footnote_from_bracket, (const char * source, scratch_pad * scratch, token * t, short * num), PRE_footnote_from_bracket, POST_fb_wf(scratch->used_footnotes),
	__CPROVER_ensures(POST_fb_num(scratch->used_footnotes)) __CPROVER_ensures(POST_fb_size(scratch->used_footnotes)) FRAME_from_bracket(scratch->used_footnotes, scratch->inline_footnotes_to_free))

/* citations: with a BibTeX file an unknown key is left to BibTeX (*num == -1, nothing recorded) */
#define PRE_citation_from_bracket PRE_from_bracket(scratch->used_citations, scratch->inline_citations_to_free)
#define POST_citation_from_bracket ((*num == -1 && scratch->bibtex_file != NULL && scratch->used_citations->size == OLD(scratch->used_citations->size) && POST_fb_wf(scratch->used_citations)) \
	|| POST_from_bracket(scratch->used_citations))
CONTRACT(void, citation_from_bracket, (const char * source, scratch_pad * scratch, token * t, short * num), PRE_citation_from_bracket, POST_citation_from_bracket,
	FRAME_from_bracket(scratch->used_citations, scratch->inline_citations_to_free))

#define MK_BRACKET \
	MK_SCRATCH \
	{ MK_STACK(s_) scratch->inline_footnotes_to_free = s_; } { MK_STACK(s_) scratch->inline_citations_to_free = s_; } \
	{ IN(bool, bib); scratch->bibtex_file = bib ? ALLOC(1) : NULL; } \
	g_found = ALLOC(sizeof(footnote)); \
	token * t = ALLOC(sizeof(token)); t->child = ALLOC(sizeof(token)); t->child->mate = ALLOC(sizeof(token)); \
	char * source = ALLOC(4); short * num = ALLOC(sizeof(short));

void h_footnote_from_bracket(void) {
	MK_BRACKET PLACE_GHOST(sf)
	CALLV(footnote_from_bracket(source, scratch, t, num), PRE_footnote_from_bracket, POST_footnote_from_bracket)
	REACH();
}

void h_citation_from_bracket(void) {
	MK_BRACKET PLACE_GHOST(sc)
	CALLV(citation_from_bracket(source, scratch, t, num), PRE_citation_from_bracket, POST_citation_from_bracket)
	REACH();
}
#endif
