# ---------------------------------------------------------------- C10 anchors and references match
PROPS["C10"] = {
    "level": "other",
    "explanation": "(1) Numbering: USED_WF(list) := every entry i of a used-note stack carries count == i+1 (ghost index over a stack of symbolic size). mark_footnote/citation/glossary/abbreviation_as_used (unmodified writer.c, real stack_push) are PROVED to keep USED_WF, to append an unused note as entry size+1 with count == size, and to change nothing for a note already numbered -- entries are numbered 1..n in order of first use. footnote_from_bracket / citation_from_bracket are proved (hash lookup by contract) to hand the writer a number that is the position of an EXISTING entry, inline notes being appended as entry size+1. (2) Random anchors: the footnote list entry is checked against ANCHOR(n) = R(seed_base+n)%32000+1 with srand/rand an uninterpreted function; holds without --random, FAILS with it (genuine defect: the list keeps id=fn:n while calls link to #fn:<random>). (3) Heading id vs automatic cross-reference: process_header_to_links and label_from_header run on the same bounded header token (ATX open/closed, Setext 1/2, with/without manual label, symbolic title bytes) and link->url must equal '#'+id; holds for ATX, Setext-1 and manual labels, FAILS for Setext-2 (genuine defect: underline dashes end up in the link target). (4) TOC: the recursive *_toc_entry_* walkers of html/latex/opendocument/epub under their own contract (--enforce-contract-rec): a TOC entry's label is derived with the heading's own index as label counter (the state in which the heading's id is derived), entries in document order, no heading twice (<= 3 headings). (5) the footnote list keeps up with notes that become used while it is written (nested footnotes). (6) extract_*_from_stack (real uthash, one-entry table): the number returned to a call site indexes the used-stack of the same kind and that entry is the note looked up. Level 'other': (1) is an unbounded proof but (2),(3) are bounded and no unit composes call sites, list and back-links of a whole document.",
    "slice": "mark_footnote/citation/glossary/abbreviation_as_used, footnote_from_bracket, citation_from_bracket (DFCC, any stack size); mmd_export_footnote_list_html (1 note); process_header_to_links, label_from_header, manual_label_from_header, label_from_token, label_from_string, link_new, clean_string (bounded header shapes); process_table_to_link and the BLOCK_TABLE arms of the writers (one shared rule for the labelled token); the citation call site of html.c (id=\"cnref:N\" iff first use; locator through the escaper)",
    "not_reached": "that every href=#x of a rendered document has a matching id=x; the PAIR_BRACKET_FOOTNOTE/_CITATION/_GLOSSARY arms and the BLOCK_PARA back-link of mmd_export_token_html (per-type writer units, DESIGN section 2); glossary_from_bracket/abbreviation_from_bracket (string surgery + loops); extract_*_from_stack (uthash lookup) is used by contract only; citation/glossary list exporters; table captions; TOC entries; LaTeX \\autoref/\\label",
    "trusted_base": ["cbmc/goto-cc/goto-instrument 6.11.0 (DFCC instrumentation, MiniSat2)", "lib/ds_sink.c as the DString specification (C19)", "C18 contract of the token allocator (fresh object) in the header units"],
    "assumptions": [],
}
_LIBSRC = ["aho-corasick.c", "beamer.c", "char.c", "critic_markup.c", "d_string.c", "epub.c", "file.c", "html.c", "itmz.c", "itmz-lexer.c",
           "itmz-parser.c", "itmz-reader.c", "latex.c", "lexer.c", "memoir.c", "miniz.c", "mmd.c", "object_pool.c", "opendocument.c",
           "opendocument-content.c", "opml.c", "opml-lexer.c", "opml-parser.c", "opml-reader.c", "parser.c", "rng.c", "scanners.c", "stack.c",
           "textbundle.c", "token.c", "token_pairs.c", "transclude.c", "uuid.c", "xml.c", "writer.c", "zip.c"]
_C10_ST = "used-note stacks hold fewer than 2^29 entries (stack capacity is an int that doubles; lib/stack_spec.h)"
for _n in ("footnote", "citation", "glossary", "abbreviation"):
    U("used_mark_" + _n, ["C10"], "h_mark_" + _n, ["C10/used.c"], ["writer.c", "stack.c"], enforce="mark_%s_as_used" % _n, lib=(),
      native={"repo": _LIBSRC}, small=["-DSTACK_CAP_MAX=8"],
      callees={"stack_push": "body (stack.c; its own contract is proved under C18)", "realloc": "CBMC built-in"},
      assumptions=[NOFAIL, _C10_ST], min_obligations=20)

# ---- (3) heading id vs auto-link target (bounded shapes + content, harness-encoded)
_HDR_REPO = ["writer.c", "token.c", "stack.c", "char.c"]
def _hdr_unit(_nm, _shape, _man, _closing, _tl, _tier, _comment=""):
    _span = (3 if _shape == 0 else 0) + _tl + (4 if _man else 0) + (2 if (_shape == 0 and _closing) else 0) + 1 + (3 if _shape else 0)
    _unw = _span + 4
    U("hdr_label_" + _nm, (["C10"] if _nm == "setext2" else ["C10", "C05"]), "h_hdr", ["C10/hdr.c"], _HDR_REPO, plain=True, lib=("lib/ds_sink.c", "lib/libc_models.c"), kind="bounded", tier=_tier,
      defines=["-DSHAPE=%d" % _shape, "-DMANUAL=%d" % _man, "-DCLOSING=%d" % _closing, "-DTL=%d" % _tl, "-DSINK_CAP=32"],
      bounds={"title bytes=": _tl, "marker chars=": 2, "manual label bytes=": 2 if _man else 0, "header span bytes=": _span, "unwind": _unw},
      cbmc_flags=["--unwind", str(_unw), "--unwinding-assertions"], timeout=400, cost=60,
      functions=["process_header_to_links", "label_from_header", "manual_label_from_header", "label_from_token", "label_from_string", "link_new", "clean_string", "text_inside_pair"],
      callees={"DString": "ghost sink lib/ds_sink.c (C19)", "pool_allocate_object": "C18 contract (fresh object)", "memcpy/strlen": "byte-loop models lib/libc_models.c", "everything else": "body"},
      native={"repo": _LIBSRC},
      assumptions=[NOFAIL, "header token shapes as built by the parser (observed with token_tree_describe on the real binary): concrete layout per unit, title is one TEXT_PLAIN token of symbolic bytes without NUL/line ending; Setext underline is one MARKER_SETEXT_n token of '='/'-' characters plus the line ending",
                   "title/label bytes are UTF-8 in the weak sense that a continuation byte never directly follows an ASCII byte (otherwise label_from_string keeps a tab/space/backslash that clean_string(url) rewrites: id and href differ on invalid UTF-8)"])

_hdr_unit("atx_closed", 0, 0, 1, 3, "quick")
_hdr_unit("setext1", 1, 0, 0, 3, "quick")
_hdr_unit("setext2_manual", 2, 1, 0, 2, "quick")
_hdr_unit("atx_open", 0, 0, 0, 4, "thorough")
_hdr_unit("atx_manual", 0, 1, 1, 3, "thorough")
_hdr_unit("setext1_manual", 1, 1, 0, 3, "thorough")
# GENUINE DEFECT of /repo (reported to the lead): for a Setext level-2 heading the auto-link url keeps the underline dashes
# ("Ti\n--\n": id "ti", LINK_AUTO url "#ti--"); fails on the unchanged tree, kept out of the quick tier.
_hdr_unit("setext2", 2, 0, 0, 3, "thorough")

# ---- (1b) the *_from_bracket call paths: the number handed to the writer is the position of an existing entry
for _n in ("footnote", "citation"):
    U("used_%s_from_bracket" % _n, ["C10"], "h_%s_from_bracket" % _n, ["C10/used.c"], ["writer.c", "stack.c"], enforce="%s_from_bracket" % _n,
      replace=["extract_%s_from_stack" % _n, "text_inside_pair", "footnote_new"], defines=["-DFROM_BRACKET"], lib=(),
      callees={"extract_%s_from_stack" % _n: "contract (hash lookup not modelled; marks the found note as in mark_%s_as_used, proved in unit used_mark_%s)" % (_n, _n),
               "text_inside_pair": "contract: fresh string", "footnote_new": "contract: fresh note with count == -1", "stack_push": "body"},
      assumptions=[NOFAIL, _C10_ST, "fewer than 32766 used notes of one kind (the code narrows size_t to short)",
                   "extract_%s_from_stack by contract: returns -1 and changes nothing, or marks the found note and returns its number; a numbered note sits at that position of the used list" % _n,
                   "the used list has room for one more entry on entry (size < capacity): a reallocation inside the contracted lookup is not modelled; growth is covered by the used_mark_* units",
                   "text_inside_pair returns a string (the NULL case -- bracket without children -- is excluded by t->child != NULL)"], min_obligations=20)

# ---- (2) random anchors: the footnote list entry vs the anchor function used by the call site / back-link
for _rnd, _tier in ((0, "quick"), (1, "thorough")):
    # _rnd == 1: GENUINE DEFECT of /repo (reported to the lead): with --random the calls link to #fn:<R(seed+n)> but the list keeps id="fn:n"
    U("anchor_footnote_list" + ("_random" if _rnd else ""), ["C10"], "h_footnote_list", ["C10/anchors.c"], ["html.c", "writer.c", "stack.c"], plain=True, lib=("lib/ds_sink.c",), kind="bounded", tier=_tier,
      defines=["-DRANDOM=%d" % _rnd, "-DNNOTES=1", "-DSINK_CAP=128"], bounds={"used footnotes=": 1, "note content": "empty", "unwind": 100},
      cbmc_flags=["--unwind", "100", "--unwinding-assertions"], timeout=300, cost=30,
      functions=["mmd_export_footnote_list_html"], callees={"pad/stack_peek_index/mmd_export_token_tree_html": "body", "DString": "ghost sink", "srand/rand": "uninterpreted ghost function R(seed) (real libc in the native replay)"},
      native={"repo": _LIBSRC}, assumptions=[NOFAIL, "rand() after srand(s) is a function of s only (uninterpreted R) with a non-negative result (the one __CPROVER_assume in the rand stub; C standard: 0..RAND_MAX)"], min_obligations=20)

# ---- (2a) the list keeps up with notes that become used WHILE it is being written (a footnote referenced inside a footnote)
U("anchor_footnote_list_growing", ["C10"], "h_footnote_list", ["C10/anchors.c"], ["html.c", "writer.c", "stack.c"], plain=True, lib=(), kind="bounded",
  drop_bodies=["mmd_export_token_tree_html", "stack_push"],
  defines=["-DRANDOM=0", "-DNNOTES=1", "-DGROW=2"], bounds={"used footnotes at entry=": 1, "notes that become used while the list is written<=": 2, "unwind": 6},
  cbmc_flags=["--unwind", "5", "--unwinding-assertions", "--object-bits", "12"], timeout=400, cost=35,
  functions=["mmd_export_footnote_list_html"], callees={"mmd_export_token_tree_html": "contract stub: prints nothing, may push one more used note (what the PAIR_BRACKET_FOOTNOTE arm does)", "pad/stack_*": "body", "DString": "no-op contract stubs; the entry id passed to d_string_append_printf is recorded"},
  native=None, assumptions=[NOFAIL], min_obligations=20)

# ---- (2b) the call site of a footnote uses the same anchor function (PAIR_BRACKET_FOOTNOTE arm of the real writer switch)
for _rnd in (0, 1):
    U("anchor_footnote_call" + ("_random" if _rnd else ""), ["C10"], "h_footnote_call", ["C10/call.c"], ["html.c", "stack.c"], plain=True, lib=("lib/ds_sink.c",), kind="bounded",
      defines=["-DRANDOM=%d" % _rnd, "-DSINK_CAP=128", "-DI18N_DISABLED", "-DSINK_NUM_GHOST"], bounds={"token": "one PAIR_BRACKET_FOOTNOTE", "notes used before<=": 6, "unwind": 100},
      cbmc_flags=["--unwind", "100", "--unwinding-assertions"], timeout=600, cost=40,
      functions=["mmd_export_token_html (arm PAIR_BRACKET_FOOTNOTE)"], callees={"footnote_from_bracket": "contract stub (its contract: unit used_footnote_from_bracket)", "DString": "ghost sink", "srand/rand": "uninterpreted ghost function R(seed)"},
      native=None, min_obligations=20, nobody_ok=[],
      assumptions=[NOFAIL, "rand() after srand(s) is a function of s only (uninterpreted R), result >= 0", "compiled with the repository's own -DI18N_DISABLED switch (the LC() string table costs 600k SAT variables per arm)"])

# ---- (4) TOC entries link to the headings' ids: label derived with the heading's own index as label counter; entries in document order
for _s, _fn, _tree, _files, _defs in (
        ("html", "mmd_export_toc_entry_html", "mmd_export_token_tree_html", ["html.c"], ["-DTOC_MINMAX"]),
        ("latex", "mmd_export_toc_entry_latex", "mmd_export_token_tree_latex", ["latex.c"], []),
        ("opendocument", "mmd_export_toc_entry_opendocument", "mmd_export_token_tree_opendocument", ["opendocument-content.c"], ["-DTOC_MINMAX"]),
        ("epub", "epub_export_nav_entry", "mmd_export_token_tree_html", ["epub.c", "html.c"], ["-DTOC_MMD_FIRST"])):
    U("toc_labels_" + _s, ["C10"], "h_toc", ["C10/toc.c"], _files + ["writer.c", "stack.c"], enforce=_fn, rec=True, lib=(), kind="bounded",
      drop_bodies=[_tree, "label_from_header", "trim_trailing_whitespace_d_string"],
      defines=["-DI18N_DISABLED=1", "-DTOC_ENTRY=" + _fn, "-DTOC_TREE=" + _tree] + _defs,
      cbmc_flags=["--unwind", "6", "--unwinding-assertions", "--object-bits", "12"],
      bounds={"headings<=": 3, "heading kinds": "H1..H6, Setext 1/2 (symbolic)", "level, min, max, start index": "any", "unwind": 6},
      functions=[_fn],
      callees={"recursive call": "its own contract (--enforce-contract-rec)",
               "label_from_header": "contract stub: requires header_stack[label_counter] == heading and label_counter above every earlier entry's; post-increments label_counter",
               _tree: "contract stub (no effect on the counters)", "d_string_*, trim_trailing_whitespace_d_string": "no-op stubs (output not examined)",
               "raw_level_for_header, stack_*": "body"},
      min_obligations=20, timeout=300, cost=20, assumptions=[NOFAIL, "configuration -DI18N_DISABLED"])

# ---- (5) the lookup behind every note call: the returned number indexes the used-stack of the same kind
for _k, _st, _h in (("footnote", "used_footnotes", "footnote_hash"), ("citation", "used_citations", "citation_hash"),
                    ("glossary", "used_glossaries", "glossary_hash"), ("abbreviation", "used_abbreviations", "abbreviation_hash")):
    for _w, _wn in ((0, "miss"), (1, "direct"), (2, "label")):
        U("extract_%s_%s" % (_k, _wn), ["C10"], "h_extract", ["C10/extract.c"], ["writer.c", "stack.c"], plain=True, lib=(), kind="bounded",
          drop_bodies=["clean_string", "label_from_string", "stack_push"],
          defines=["-DI18N_DISABLED=1", "-DEX_FN=extract_%s_from_stack" % _k, "-DEX_STACK=" + _st, "-DEX_HASH=" + _h, "-DEX_WHERE=%d" % _w],
          cbmc_flags=["--unwind", "70", "--unwinding-assertions", "--object-bits", "12"],
          bounds={"notes of this kind already used<=": 2, "hash": "one entry under the cleaned key / under the label key / empty (constant per unit)"},
          functions=["extract_%s_from_stack" % _k, "mark_%s_as_used" % _k],
          callees={"clean_string / label_from_string": "contract stubs returning the two candidate keys", "HASH_FIND_STR (uthash)": "real macro code over a real one-entry table",
                   "stack_push": "contract stub (C18), no growth", "stack_new": "body"},
          min_obligations=10, timeout=300, cost=10, assumptions=[NOFAIL])

# ---- (7) note lists: the content is rendered with the paragraph counter that makes the last paragraph carry the back-link
for _k, _fn, _st in (("footnote", "mmd_export_footnote_list_html", "used_footnotes"), ("glossary", "mmd_export_glossary_list_html", "used_glossaries"), ("citation", "mmd_export_citation_list_html", "used_citations")):
    U("backlink_counter_" + _k, ["C10"], "h_backlink", ["C10/backlink.c"], ["html.c", "stack.c"], plain=True, lib=(), kind="bounded",
      drop_bodies=["mmd_export_token_tree_html", "mmd_print_string_html", "stack_push"],
      defines=["-DI18N_DISABLED=1", "-DLIST_FN=" + _fn, "-DLIST_STACK=" + _st], cbmc_flags=["--unwind", "6", "--unwinding-assertions", "--object-bits", "12"],
      bounds={"used notes": 1, "blocks in the note's content": "0..3 (types symbolic)", "unwind": 6}, functions=[_fn],
      callees={"mmd_export_token_tree_html": "contract stub: requires footnote_para_counter == number of BLOCK_PARA blocks of the content", "DString, pad, mmd_print_string_html": "no-op stubs", "stack_peek_index/stack_new": "body"},
      min_obligations=8, timeout=300, cost=8, assumptions=[NOFAIL, "srand/rand: stubs (values irrelevant here)"])

# ---- a captioned table's cross-reference is registered under the label the writers print (one shared rule; writers' side: c02_table_caption_*)
U("c10_table_link_label", ["C10"], "h_table_link", ["C10/table_link.c"], ["writer.c", "d_string.c"], plain=True, lib=("lib/libc_models.c",), kind="finite",
  defines=["-DI18N_DISABLED=1"], drop_bodies=["table_has_caption", "label_from_token", "link_new"],
  pre_instrument=["--remove-function-body-regex", "^(?!process_table_to_link$|table_has_caption$|label_from_token$|link_new$|stack_push$|d_string_.*$|ensureStringBufferCanHold$|strlen$|memcpy$|h_table_link$|mk$|verif_.*$|__CPROVER.*$).*"],
  cbmc_flags=["--unwind", "70", "--unwinding-assertions"], bounds={"caption paragraph": "[caption], [caption][label] or [caption] [label]"},
  functions=["process_table_to_link", "d_string_new", "d_string_append", "d_string_free"], callees={"table_has_caption, label_from_token, link_new, stack_push": "contract stubs recording their arguments"},
  min_obligations=10, timeout=300, cost=10, assumptions=[NOFAIL])

# ---- the citation call site: id="cnref:N" iff first use, with or without a locator; the locator goes through the escaper
U("c10_citation_call_id", ["C10", "C08"], "h_citation_call", ["C10/citation_call.c"], ["html.c"], plain=True, lib=("lib/libc_models.c",), kind="finite",
  defines=["-DI18N_DISABLED=1"], drop_bodies=["mmd_print_string_html", "mmd_export_token_tree_html"],
  pre_instrument=["--remove-function-body-regex", "^(?!mmd_export_token_html$|mmd_print_string_html$|mmd_export_token_tree_html$|text_inside_pair$|label_from_string$|citation_from_bracket$|d_string_append.*$|my_strdup$|__CPROVER_file_local_html_c_my_strdup$|has$|strcmp$|strlen$|strcpy$|h_citation_call$|mk$|verif_.*$|__CPROVER.*$).*",
                  "--generate-function-body", "^(?!__CPROVER_|malloc$|free$|verif_).*$", "--generate-function-body-options", "nondet-return"],
  cbmc_flags=["--object-bits", "12", "--unwind", "102", "--unwinding-assertions"], checks=["--no-standard-checks"],
  bounds={"token": "PAIR_BRACKET_CITATION, or PAIR_BRACKET followed by it (locator)", "locator text": "any non-empty string of <= 2 bytes", "citation number": "-1 or 1..999", "first use / re-use": "both"},
  functions=["mmd_export_token_html (arms PAIR_BRACKET_CITATION / PAIR_BRACKET as locator)"],
  callees={"citation_from_bracket": "contract stub: answers N (or -1) and pushes on used_citations on a first use", "text_inside_pair, label_from_string": "contract stubs", "mmd_print_string_html": "contract stub recording its argument (its contract: esc_string_html)",
           "d_string_append_printf": "stub parsing the format: anchor / id / %s arguments", "every other callee": "body removed, nondet return value"},
  min_obligations=5, timeout=300, cost=15, assumptions=[NOFAIL, "configuration -DI18N_DISABLED", "memory safety of the arm is not claimed by this unit (standard checks off: callees are havocked)"])

# ---- the footnote / glossary call sites: id="fnref:N" / "gnref:N" iff first use
for _k, _d, _fb, _tok in (("footnote", [], "footnote_from_bracket", "PAIR_BRACKET_FOOTNOTE"), ("glossary", ["-DKIND_GLOSSARY"], "glossary_from_bracket", "PAIR_BRACKET_GLOSSARY")):
    U("c10_%s_call_id" % _k, ["C10"], "h_footnote_call", ["C10/footnote_call.c"], ["html.c"], plain=True, lib=("lib/libc_models.c",), kind="finite",
      defines=["-DI18N_DISABLED=1"] + _d, drop_bodies=["mmd_print_string_html", "mmd_export_token_tree_html"],
      pre_instrument=["--remove-function-body-regex", "^(?!mmd_export_token_html$|mmd_print_string_html$|mmd_export_token_tree_html$|%s$|stack_peek_index$|d_string_append.*$|has$|h_footnote_call$|mk$|verif_.*$|__CPROVER.*$).*" % _fb,
                      "--generate-function-body", "^(?!__CPROVER_|malloc$|free$|verif_).*$", "--generate-function-body-options", "nondet-return"],
      cbmc_flags=["--object-bits", "12", "--unwind", "102", "--unwinding-assertions"], checks=["--no-standard-checks"],
      bounds={"token": _tok, "note number": "-1 or 1..999", "first use / re-use": "both", "extensions": "EXT_NOTES, not EXT_RANDOM_FOOT"},
      functions=["mmd_export_token_html (arm %s)" % _tok],
      callees={_fb: "contract stub: answers N (or -1) and pushes on the used-notes stack on a first use", "d_string_append_printf": "stub parsing the format: anchor / id / numbers", "stack_peek_index": "stub", "every other callee": "body removed, nondet return value"},
      min_obligations=4, timeout=300, cost=15, assumptions=[NOFAIL, "configuration -DI18N_DISABLED", "memory safety of the arm is not claimed by this unit (standard checks off: callees are havocked)"])
