/* C10 -- "every note entry links back to its call": the three list writers of html.c (mmd_export_footnote_list_html,
 * mmd_export_glossary_list_html, mmd_export_citation_list_html; the real functions).  The back-link is printed by the BLOCK_PARA arm of
 * the tree writer when it has counted scratch->footnote_para_counter down to 0 -- one decrement per paragraph -- so the entry gets
 * its back-link iff the list writer hands the note's content to the tree writer with
 *   footnote_para_counter == the number of BLOCK_PARA blocks at the top level of the content
 * (the contract stub of the tree writer checks exactly that; the BLOCK_PARA arm itself is a writer arm, DESIGN section 2).
 * Bounded: one used note whose content is a chain of 0..3 blocks of symbolic types. */
#include "verif.h"
#include <stdio.h>
#include "d_string.h"
#include "token.h"
#include "writer.h"
#include "html.h"
#include "stack.h"
void LIST_FN(DString * out, const char * source, scratch_pad * scratch);
static token * g_content; static unsigned g_paras; static bool g_rendered;
void mmd_export_token_tree_html(DString * out, const char * source, token * t, scratch_pad * scratch) {
	if (t == g_content) {
		g_rendered = true;
		ASSERT(scratch->footnote_para_counter == (short)g_paras, "C10: the note's content is rendered with the paragraph counter set to the number of its paragraphs (so the last paragraph gets the link back to the call)");
	}
}
void mmd_print_string_html(DString * out, const char * str, bool obfuscate, bool line_breaks) { }
void d_string_append(DString * d, const char * s) { }
void d_string_append_c(DString * d, char c) { }
void d_string_append_c_array(DString * d, const char * s, size_t n) { }
void d_string_append_printf(DString * d, const char * fmt, ...) { }
void pad(DString * d, short num, scratch_pad * scratch) { }
void srand(unsigned seed) { }
int rand(void) { int r; ASSUME(r >= 0); return r; }
void stack_push(stack * s, void * element) { s->element[s->size++] = element; }
void h_backlink(void) {
	scratch_pad * scratch = ALLOC(sizeof(scratch_pad));
	{ IN(unsigned long, ext); scratch->extensions = ext; IN(int, seed); ASSUME(seed >= 0 && seed < 32000); scratch->random_seed_base = seed; }       /* as scratch_pad_new leaves it: rand() % 32000 */
	scratch->used_footnotes = stack_new(0); scratch->used_glossaries = stack_new(0); scratch->used_citations = stack_new(0);
	footnote * f = ALLOC(sizeof(footnote)); f->label = NULL; f->label_text = NULL; f->free_para = false; f->count = 1;
	f->clean_text = ALLOC(2); f->clean_text[0] = 'x'; f->clean_text[1] = 0;
	IN(unsigned, n); ASSUME(n <= 3);
	token * head = NULL, * last = NULL; g_paras = 0;
	for (unsigned i = 0; i < 3; i++) {
		if (i < n) {
			token * b = ALLOC(sizeof(token)); IN(unsigned short, ty); b->type = ty; b->next = NULL; b->prev = last; b->child = NULL; b->start = i; b->len = 1; b->mate = NULL;
			if (ty == BLOCK_PARA) { g_paras++; }
			if (last) { last->next = b; } else { head = b; }
			last = b;
		}
	}
	if (head) { head->tail = last; }
	f->content = head; g_content = head; g_rendered = false;
	stack_push(scratch->LIST_STACK, f);
	DString * out = ALLOC(sizeof(DString)); out->str = ALLOC(8); out->str[0] = 0; out->currentStringLength = 0; out->currentStringBufferSize = 8;
	char * source = ALLOC(4); source[3] = 0;
	LIST_FN(out, source, scratch);
	ASSERT(head == NULL || g_rendered, "the note's content is rendered");
	REACH();
}
