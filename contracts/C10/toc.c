/* C10 -- table-of-contents entries link to the ids of the headings (html.c mmd_export_toc_html, latex.c mmd_export_toc_latex,
 * opendocument-content.c mmd_export_toc_opendocument, epub.c epub_export_nav: the real functions, including the recursive
 * *_toc_entry_* walkers).
 *
 * The id of heading number k (position in scratch->header_stack) is label_from_header(heading k) evaluated with
 * scratch->label_counter == k: that is the state the body writer is in when it reaches the k-th heading (label_from_header
 * post-increments the counter, which seeds the random / unique label of EXT_RANDOM_LABELS).  A TOC entry links to the same id
 * iff it derives its label in the same state.  label_from_header is therefore replaced by a contract stub whose PRECONDITION is
 *   (L) the heading passed is header_stack[label_counter]
 *   (E) the headings are visited in document order, each heading whose level is in [min, max] exactly once
 * and the outer function must leave label_counter as it found it (the body is rendered after the TOC with the same counter).
 * Bounded: <= 3 headings, every combination of heading kinds (H1..H6, Setext 1/2), every min/max. */
#include "verif.h"
#include <stdio.h>
#include "d_string.h"
#include "token.h"
#ifdef TOC_MMD_FIRST
#include "mmd.h"        /* epub.c sees struct asset (mmd.h) complete when it reaches writer.h */
#endif
#include "writer.h"       /* before stack.h: scratch_pad is an anonymous struct whose goto-cc tag encodes whether `stack` is complete at this point; it must match the writers' TUs */
#include "mmd.h"
#include "stack.h"

#ifndef NH
#define NH 3
#endif
#define PASTE2(a, b) a##b
#define PASTE(a, b) PASTE2(a, b)

static token * g_h[NH]; unsigned g_n; int g_last_lc;       /* ghost: the headings, their number, the label counter of the last entry made */

/* ---- callees by contract (plain stubs: they touch nothing but the ghost and the label counter) */
void d_string_append_c_array(DString * d, const char * s, size_t n) { }
void d_string_append_printf(DString * d, const char * fmt, ...) { }
void d_string_append(DString * d, const char * s) { }
void d_string_append_c(DString * d, char c) { }
void trim_trailing_whitespace_d_string(DString * d) { }
void TOC_TREE(DString * out, const char * source, token * t, scratch_pad * scratch) { }      /* renders the heading text: no effect on the counters */
char * label_from_header(const char * source, token * t, scratch_pad * scratch) {
	ASSERT(scratch->label_counter >= 0 && (unsigned)scratch->label_counter < g_n && g_h[scratch->label_counter] == t,
	       "(L) the label of a TOC entry is derived with the heading's own index as label counter -- the state in which the heading's id is derived");
	ASSERT(scratch->label_counter > g_last_lc, "(E) entries are made in document order, no heading twice");
	g_last_lc = scratch->label_counter;
	scratch->label_counter++;                     /* as the real function does under EXT_RANDOM_LABELS */
	char * r = malloc(2); r[0] = 'x'; r[1] = 0; return r;
}

/* ---- the recursive walker under its own contract (--enforce-contract-rec) */
#ifdef TOC_MINMAX
#define EXTRA_PARAMS , short min, short max
#define EXTRA_ARGS , min, max
#else
#define EXTRA_PARAMS
#define EXTRA_ARGS
#endif
void TOC_ENTRY(DString * out, const char * source, scratch_pad * scratch, size_t * counter, short level EXTRA_PARAMS);
#define PRE_entry (scratch->header_stack != NULL && scratch->header_stack->size == g_n && g_n <= NH && *counter <= g_n && level >= 0 && level <= 7 && (level == 0 || *counter >= 1)      /* a nested level starts after its parent heading */ \
	&& g_last_lc < (int)*counter)                 /* every entry made so far belongs to an earlier heading */
/* a level that runs to the end of the headings returns n, and each enclosing level steps once more: n + (7 - level) at most */
#define POST_entry (*counter + 1 >= OLD(*counter) && *counter <= g_n + 7 - level && g_last_lc >= OLD(g_last_lc) \
	&& g_last_lc < (int)(*counter + 1))
#define CONTRACT_X(ret, fn, params, pre, post, frame) CONTRACT(ret, fn, params, pre, post, frame)      /* expands TOC_ENTRY before pasting */
CONTRACT_X(void, TOC_ENTRY, (DString * out, const char * source, scratch_pad * scratch, size_t * counter, short level EXTRA_PARAMS),
	PRE_entry, POST_entry, __CPROVER_assigns(*counter, scratch->label_counter, g_last_lc))

void h_toc(void) {
	scratch_pad * scratch = ALLOC(sizeof(scratch_pad));
	scratch->header_stack = stack_new(0);
	IN(unsigned, n); ASSUME(n <= NH); g_n = n;
	for (unsigned i = 0; i < NH; i++) {
		if (i < n) {
			IN(unsigned short, ty);
			ASSUME((ty >= BLOCK_H1 && ty <= BLOCK_H6) || ty == BLOCK_SETEXT_1 || ty == BLOCK_SETEXT_2);
			token * h = ALLOC(sizeof(token)); h->type = ty; h->child = NULL; h->next = NULL; h->prev = NULL; h->start = i; h->len = 1;
			g_h[i] = h; stack_push(scratch->header_stack, h);
		}
	}
	IN(int, lc); ASSUME(lc >= 0 && lc < 1000); scratch->label_counter = lc;
	IN(short, min); IN(short, max); IN(short, level); IN(size_t, c0); IN(int, last);
	g_last_lc = last;
	DString * out = ALLOC(sizeof(DString)); out->str = ALLOC(8); out->str[0] = 0; out->currentStringLength = 0; out->currentStringBufferSize = 8;
	char * source = ALLOC(8);
	size_t * counter = ALLOC(sizeof(size_t)); *counter = c0;
	CALLV(TOC_ENTRY(out, source, scratch, counter, level EXTRA_ARGS), PRE_entry, POST_entry)
	REACH();
}
