/* C10 -- "notes are numbered 1..n in order of first use, entries and calls agree on the number": the lookup used by the call sites,
 * extract_{footnote,citation,glossary,abbreviation}_from_stack (writer.c, the real functions with the real mark_*_as_used and
 * stack.c), against
 *   ensures  RET == -1 (no such note)  or  1 <= RET <= size of the used-stack OF THE SAME KIND  and  used[RET-1] is the note found
 *            and the other three used-stacks are untouched
 * i.e. the number a call prints indexes the entry the matching list writer will print.  The hash is a real one-entry uthash table
 * (HASH_ADD_KEYPTR with a concrete key, so uthash runs concretely); clean_string / label_from_string are contract stubs returning
 * the two candidate keys, so the direct hit, the label fallback and the miss are all covered; the note may be unused (count -1)
 * or already used at any position. */
#include "verif.h"
#include "d_string.h"
#include "token.h"
#include "writer.h"
#include "mmd.h"
#include "uthash.h"
#include "stack.h"
/* stack_push by contract (C18): growth (realloc) is not needed below the starting capacity and is intractable under a symbolic size */
void stack_push(stack * s, void * element) { ASSERT(s->size < (size_t)s->capacity, "ghost: no growth needed in this unit"); s->element[s->size++] = element; }

char * clean_string(const char * str, bool lowercase, bool url_clean) { char * r = malloc(3); r[0] = 'k'; r[1] = '1'; r[2] = 0; return r; }
char * label_from_string(const char * str) { char * r = malloc(3); r[0] = 'k'; r[1] = '2'; r[2] = 0; return r; }

#define PASTE2(a, b) a##b
#define PASTE(a, b) PASTE2(a, b)
size_t EX_FN(scratch_pad * scratch, const char * target);

void h_extract(void) {
	scratch_pad * scratch = ALLOC(sizeof(scratch_pad));
	scratch->used_footnotes = stack_new(0); scratch->used_citations = stack_new(0); scratch->used_glossaries = stack_new(0); scratch->used_abbreviations = stack_new(0);
	scratch->footnote_hash = NULL; scratch->citation_hash = NULL; scratch->glossary_hash = NULL; scratch->abbreviation_hash = NULL;
	/* notes already in use: 0..2 on the stack of this kind (so that numbers other than 1 occur) */
	IN(unsigned, pre); ASSUME(pre <= 2);
	footnote * others[2];
	for (unsigned i = 0; i < 2; i++) { others[i] = ALLOC(sizeof(footnote)); others[i]->count = -1; if (i < pre) { stack_push(scratch->EX_STACK, others[i]); others[i]->count = i + 1; } }
	footnote * note = ALLOC(sizeof(footnote)); note->count = -1;
	const unsigned char where = EX_WHERE;        /* 0: not in the table; 1: under the cleaned key; 2: under the label key (a constant per unit: uthash then runs concretely) */
	IN(bool, used_already);
	if (where != 0) {
		fn_holder * h = ALLOC(sizeof(fn_holder)); h->note = note;
		char * key = ALLOC(3); key[0] = 'k'; key[1] = (where == 1) ? '1' : '2'; key[2] = 0;
		HASH_ADD_KEYPTR(hh, scratch->EX_HASH, key, 2, h);
		if (used_already) { stack_push(scratch->EX_STACK, note); note->count = scratch->EX_STACK->size; }
	}
	size_t s_fn = scratch->used_footnotes->size, s_ci = scratch->used_citations->size, s_gl = scratch->used_glossaries->size, s_ab = scratch->used_abbreviations->size;
	size_t s_own = scratch->EX_STACK->size;
	char * target = ALLOC(2); target[1] = 0;
	size_t r = EX_FN(scratch, target);
	if (where == 0 || where > 2) { ASSERT(where > 2 || r == (size_t) -1, "no such note: -1"); }
	if (where == 1 || where == 2) {
		ASSERT(r >= 1 && r <= scratch->EX_STACK->size, "C10: the number returned to the call site indexes the used-stack of the same kind");
		ASSERT(r >= 1 && r <= scratch->EX_STACK->size && scratch->EX_STACK->element[r - 1] == note, "C10: ... and that entry is the note that was looked up");
		ASSERT(scratch->EX_STACK->size == s_own + (used_already ? 0 : 1), "first use appends the note, later uses re-use its number");
	}
	size_t d_fn = scratch->used_footnotes->size - s_fn, d_ci = scratch->used_citations->size - s_ci, d_gl = scratch->used_glossaries->size - s_gl, d_ab = scratch->used_abbreviations->size - s_ab;
	size_t d_own = scratch->EX_STACK->size - s_own;
	ASSERT(d_fn + d_ci + d_gl + d_ab == d_own, "C10: the used-stacks of the other kinds are untouched");
	REACH();
}
