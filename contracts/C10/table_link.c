/* C10 -- process_table_to_link (writer.c, the real function) registers the cross-reference target of a captioned table under the
 * SAME label the writers print as the table's id / \label (units c02_table_caption_*: one shared rule): the label is made from the
 * bracket pair DIRECTLY after the caption when there is one ([caption][label]), otherwise from the caption itself -- also for
 * "[caption] [label]" with a space, which table_has_caption accepts but the writers label by the caption.
 *   ensures  label_from_token is called once, for that token; the link registered has that token as its label, the URL
 *            "#" + that label, and is pushed on the engine's link stack; nothing is registered for a table without caption
 * table_has_caption, label_from_token, link_new, stack_push, d_string_* by contract (stubs). */
#include "verif.h"
#include "d_string.h"
#include "stack.h"
#include "mmd.h"
#include "token.h"
#include "writer.h"
void process_table_to_link(mmd_engine * e, token * t);
static bool g_cap; static token * g_lab_tok, * g_link_tok; static unsigned g_lab_calls, g_links, g_pushed; static bool g_url_ok; static link * g_link;
bool table_has_caption(token * t) { return g_cap; }
char * label_from_token(const char * source, token * t) { g_lab_tok = t; g_lab_calls++; char * r = malloc(3); r[0] = 'l'; r[1] = 'b'; r[2] = 0; return r; }
link * link_new(const char * source, token * label, char * url, char * title, char * attributes, short flags) {
	g_links++; g_link_tok = label; g_url_ok = url != NULL && url[0] == '#' && url[1] == 'l' && url[2] == 'b' && url[3] == 0;
	g_link = malloc(sizeof(link)); return g_link;
}
void stack_push(stack * s, void * element) { if (element == g_link) { g_pushed++; } }
static token * mk(unsigned short type, size_t start, size_t len) {
	token * t = ALLOC(sizeof(token));
	t->type = type; t->start = start; t->len = len; t->next = NULL; t->prev = NULL; t->child = NULL; t->tail = t; t->mate = NULL;
	return t;
}
void h_table_link(void) {
	mmd_engine * e = ALLOC(sizeof(mmd_engine));
	DString * d = ALLOC(sizeof(DString)); d->str = ALLOC(16); d->str[15] = 0; d->currentStringLength = 15; d->currentStringBufferSize = 16; e->dstr = d;
	e->link_stack = ALLOC(sizeof(stack));
	token * table = mk(BLOCK_TABLE, 0, 4);
	token * para = mk(BLOCK_PARA, 4, 8); table->next = para; para->prev = table; table->tail = para;
	token * br = mk(PAIR_BRACKET, 4, 3); para->child = br;
	IN(unsigned char, shape); ASSUME(shape <= 2); token * br2 = NULL;
	if (shape == 1) { br2 = mk(PAIR_BRACKET, 7, 3); br->next = br2; br2->prev = br; br->tail = br2; }
	if (shape == 2) { token * sp = mk(TEXT_PLAIN, 7, 1); br2 = mk(PAIR_BRACKET, 8, 3); br->next = sp; sp->prev = br; sp->next = br2; br2->prev = sp; br->tail = br2; }
	token * expect_lab = (shape == 1) ? br2 : br;
	{ IN(bool, cap); g_cap = cap ? true : false; }
	process_table_to_link(e, table);
	if (g_cap) {
		ASSERT(g_lab_calls == 1 && g_lab_tok == expect_lab, "C10: the cross-reference target of a captioned table is labelled by the same token the writers label the table with (adjacent [label], else the caption)");
		ASSERT(g_links == 1 && g_link_tok == expect_lab && g_url_ok && g_pushed == 1, "C10: one link, for that token, with URL '#' + that label, pushed on the link stack");
	} else {
		ASSERT(g_lab_calls == 0 && g_links == 0 && g_pushed == 0, "C10: no cross-reference is registered for a table without caption");
	}
	REACH();
}
