/* C10 (2b) -- the CALL SITE of a footnote (html.c, arm PAIR_BRACKET_FOOTNOTE of the real mmd_export_token_html)
 * uses the same anchor function as the list entry (anchors.c):
 *     ANCHOR(n) = EXT_RANDOM_FOOT ? R(random_seed_base + n) % 32000 + 1 : n
 * for the note's OWN number n, on first use (href="#fn:A" id="fnref:A") and on every re-use (href="#fn:A").
 * footnote_from_bracket (writer.c) is a contract stub: it reports the note number g_num and, on first use,
 * has pushed the note onto used_footnotes (its contract is proved in unit used_footnote_from_bracket).
 * Harness-encoded, one token, concrete type; DString = ghost sink; srand/rand = uninterpreted R(seed). */
#include "writer.h"
#include "stack_spec.h"
#include "html.h"
#include "d_string.h"

#ifndef RANDOM
#define RANDOM 0
#endif
#ifndef VERIF_NATIVE
int __CPROVER_uninterpreted_R(unsigned seed);
static unsigned g_seed;
void srand(unsigned seed) { g_seed = seed; }
int rand(void) { int r = __CPROVER_uninterpreted_R(g_seed); __CPROVER_assume(r >= 0); return r; }
#endif

short g_num; bool g_first; size_t g_others;      /* the note's number; is this its first use; notes used before */
void footnote_from_bracket(const char * source, scratch_pad * scratch, token * t, short * num) {
	if (g_first) { scratch->used_footnotes->size++; }   /* first use: the note has just been appended (its number is the new size) */
	*num = g_num;
}

static int anchor_of(scratch_pad * scratch, int n) {
	if (scratch->extensions & EXT_RANDOM_FOOT) { srand(scratch->random_seed_base + n); return rand() % 32000 + 1; }
	return n;
}
/* numbers are recorded by the sink in emission order (lib/ds_sink.c, -DSINK_NUM_GHOST): formatting digits is libc's job */
extern unsigned long g_sink_num[]; extern size_t g_sink_nnum;
void h_footnote_call(void) {
	scratch_pad * scratch = ALLOC(sizeof(scratch_pad));
	{ IN(int, base); ASSUME(base >= 0 && base < 32000); scratch->random_seed_base = base; }
	scratch->extensions = RANDOM ? (EXT_NOTES | EXT_RANDOM_FOOT) : EXT_NOTES;
	scratch->padded = 2; scratch->recurse_depth = 0; scratch->skip_token = 0;
	scratch->used_footnotes = ALLOC(sizeof(stack)); scratch->used_footnotes->element = ALLOC(8 * sizeof(void *)); scratch->used_footnotes->capacity = 8;
	{ IN(size_t, others); IN(bool, first); IN(short, num); ASSUME(others <= 6); g_others = others; g_first = first;
	  /* contract of footnote_from_bracket: first use -> the note becomes entry others+1; re-use -> some earlier entry */
	  ASSUME(first ? num == (short)(others + 1) : (num >= 1 && (size_t)num <= others)); g_num = num; }
	scratch->used_footnotes->size = g_others;
	token * t = ALLOC(sizeof(token));
	t->type = PAIR_BRACKET_FOOTNOTE; t->start = 0; t->len = 4; t->next = NULL; t->prev = NULL; t->child = NULL; t->tail = t; t->mate = NULL; t->out_start = 0; t->out_len = 0;
	/* opener child with no content after it: the 'malformed' branch (num == -1, excluded by the stub's contract) would export an empty chain */
	{ token * op = ALLOC(sizeof(token)); op->type = BRACKET_FOOTNOTE_LEFT; op->start = 0; op->len = 2; op->next = NULL; op->prev = NULL; op->child = NULL; op->tail = op; op->mate = NULL; t->child = op; }
	g_sink_nnum = 0;
	DString * out = d_string_new("");
	char * source = ALLOC(5); source[4] = 0;
	mmd_export_token_html(out, source, t, scratch);
	int want = anchor_of(scratch, g_num);
	/* first use:  <a href="#fn:A" id="fnref:A" ...><sup>N</sup>   re-use:  <a href="#fn:A" ...><sup>N</sup>  */
	ASSERT(g_sink_nnum == (g_first ? 3 : 2), "the call emits href anchor, (id anchor on first use,) and the visible number");
	ASSERT(g_sink_num[0] == (unsigned long)want, "postcondition C10: the call links to the anchor of the note's OWN number (consistently renamed under EXT_RANDOM_FOOT)");
	ASSERT(!g_first || g_sink_num[1] == (unsigned long)want, "postcondition C10: the first call carries the id the entry's back-link returns to");
	ASSERT(g_sink_num[g_first ? 2 : 1] == (unsigned long)g_num, "postcondition C10: the call shows the note's number");
	REACH();
}
