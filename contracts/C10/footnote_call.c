/* C10 -- the footnote CALL SITE of html.c (arm PAIR_BRACKET_FOOTNOTE of mmd_export_token_html, the real switch function): the
 * footnote list's entry N links back to href="#fnref:N" (mmd_export_footnote_list_html; units backlink_counter_footnote,
 * anchor_footnote_list_*), so the FIRST call that uses footnote N must carry id="fnref:N" and a later call of the same note must not.
 *   requires EXT_NOTES, not EXT_RANDOM_FOOT (the random numbering's derivation is its own unit: anchor_random_*);
 *            footnote_from_bracket (writer.c) BY CONTRACT: it answers the note's number N >= 1 (or -1: malformed) and, when this is the
 *            first use, has pushed it on used_footnotes
 *   ensures  one anchor with href "#fn:N"; it carries id="fnref:N" iff this call was the first use of N */
#include "verif.h"
#include <stdio.h>
#include <stdarg.h>
#include "d_string.h"
#include "token.h"
#include "writer.h"
#include "stack.h"
#include "html.h"
#include "parser.h"
#ifdef KIND_GLOSSARY          /* the glossary call site has the same shape: href "#gn:N", id "gnref:N", used_glossaries, glossary_from_bracket */
#define FROM_BRACKET glossary_from_bracket
#define USED used_glossaries
#define TOK PAIR_BRACKET_GLOSSARY
#define TOK_LEFT BRACKET_GLOSSARY_LEFT
#define HREF "<a href=\"#gn:%d\""
#define IDATTR " id=\"gnref:"
#else
#define FROM_BRACKET footnote_from_bracket
#define USED used_footnotes
#define TOK PAIR_BRACKET_FOOTNOTE
#define TOK_LEFT BRACKET_FOOTNOTE_LEFT
#define HREF "<a href=\"#fn:%d\""
#define IDATTR " id=\"fnref:"
#endif
void mmd_export_token_html(DString * out, const char * source, token * t, scratch_pad * scratch);
static short g_num; static bool g_first; static token * g_note;
static unsigned g_anchor, g_id, g_href_ok, g_id_ok;
void FROM_BRACKET(const char * source, scratch_pad * scratch, token * t, short * num) {
	ASSERT(t == g_note, "the footnote token is classified");
	*num = g_num;
	if (g_first && g_num != -1) { scratch->USED->size++; }
}
void mmd_print_string_html(DString * out, const char * str, bool obfuscate, bool line_breaks) { }
static footnote g_fn;
void * stack_peek_index(stack * s, size_t index) { g_fn.clean_text = "x"; return &g_fn; }      /* the note used (its text is printed through the escaper) */
void mmd_export_token_tree_html(DString * out, const char * source, token * t, scratch_pad * scratch) { }
void d_string_append(DString * d, const char * s) { }
void d_string_append_c(DString * d, char c) { }
void d_string_append_c_array(DString * d, const char * s, size_t n) { }
static bool has(const char * fmt, const char * needle) {
	for (int i = 0; i < 100 && fmt[i]; i++) { int j = 0; while (j < 20 && needle[j] && fmt[i + j] == needle[j]) { j++; } if (needle[j] == 0) { return true; } }
	return false;
}
void d_string_append_printf(DString * d, const char * fmt, ...) {
	va_list ap; va_start(ap, fmt);
	bool anchor = has(fmt, "<a href="), id = has(fmt, IDATTR);
	int nint = 0; int ints[4] = { 0, 0, 0, 0 };
	for (int i = 0; i < 100 && fmt[i]; i++) {
		if (fmt[i] == '%') {
			i++;
			if (fmt[i] == 's') { (void)va_arg(ap, const char *); }
			else if (fmt[i] == 'd') { int v = va_arg(ap, int); if (nint < 4) { ints[nint++] = v; } }      /* shorts promoted to int: only the low 16 bits are compared (CBMC's va_arg leaves the upper half unspecified) */
			else if (fmt[i] == 0) { break; }
		}
	}
	va_end(ap);
	if (anchor) {
		g_anchor++;
		if (has(fmt, HREF) && (short)ints[0] == g_num) { g_href_ok++; }
		if (id) { g_id++; if (nint >= 2 && (short)ints[1] == g_num) { g_id_ok++; } }
	}
}
static token * mk(unsigned short type, size_t start, size_t len) {
	token * t = ALLOC(sizeof(token));
	t->type = type; t->start = start; t->len = len; t->next = NULL; t->prev = NULL; t->child = NULL; t->tail = t; t->mate = NULL;
	t->can_open = 0; t->can_close = 0; t->unmatched = 1; t->out_start = 0; t->out_len = 0;
	return t;
}
void h_footnote_call(void) {
	char * source = ALLOC(16); source[15] = 0;
	scratch_pad * scratch = ALLOC(sizeof(scratch_pad));
	{ IN(unsigned long, ext); ASSUME((ext & EXT_NOTES) && !(ext & EXT_RANDOM_FOOT)); scratch->extensions = ext; }
	scratch->padded = 2; scratch->recurse_depth = 1; scratch->skip_token = 0;
	scratch->USED = ALLOC(sizeof(stack)); { IN(size_t, sz); ASSUME(sz < 100); scratch->USED->size = sz; }
	g_note = mk(TOK, 4, 4); g_note->child = mk(TOK_LEFT, 4, 2); g_note->child->next = mk(TEXT_PLAIN, 6, 1);
	{ IN(short, n); ASSUME(n == -1 || (n >= 1 && n < 1000)); g_num = n; IN(bool, f); g_first = f; }
	DString * out = ALLOC(sizeof(DString)); out->str = ALLOC(8); out->str[0] = 0; out->currentStringLength = 0; out->currentStringBufferSize = 8;
	mmd_export_token_html(out, source, g_note, scratch);
	if (g_num != -1) {
		ASSERT(g_anchor == 1 && g_href_ok == 1, "C10: one anchor, pointing at the note's list entry (#fn:N / #gn:N)");
		ASSERT(g_id == (g_first ? 1u : 0u) && g_id_ok == g_id, "C10: the call carries the back-link target id (fnref:N / gnref:N) iff it is the first use of note N (the list entry links back to the first call)");
	} else {
		ASSERT(g_anchor == 0, "a malformed footnote call prints no anchor");
	}
	REACH();
}
