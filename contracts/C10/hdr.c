/* C10 (3) -- heading id vs. automatic cross-reference target.
 *
 * The id placed on a heading is label_from_header(source, h, scratch) (html.c/latex.c/... BLOCK_H*,
 * BLOCK_SETEXT_*, TOC); the target of the automatic cross-reference `[Title][]` is the url of the
 * LINK_AUTO link that process_header_to_links(e, h) registers for the SAME header token.  Contract of the
 * pair (from the property statement: "every automatic cross-reference to a heading ... points at the id
 * actually placed on that heading"):
 *
 *     requires  h is a header block as the parser builds it (shapes below, observed with
 *               token_tree_describe on the real binary), title bytes arbitrary
 *     ensures   link->url == "#" ++ label_from_header(source, h, scratch)        (byte for byte)
 *
 * Harness-encoded (plain CBMC, bounded): linked token shapes + byte content.  Both functions, and
 * everything they call in writer.c/token.c/stack.c/char.c, are the unmodified repo code; DString is the
 * ghost sink (lib/ds_sink.c, C19), the token allocator is its C18 contract (fresh object per call).
 *
 * SHAPE 0  ATX      h=BLOCK_Hn [ MARKER_Hn "#.. " ][ TEXT_PLAIN title ]{[ PAIR_BRACKET "[lb]" ]}{[ MARKER_Hn "#.." ]}[ TEXT_NL ]
 * SHAPE 1  Setext 1 h=BLOCK_SETEXT_1 [ TEXT_PLAIN title ]{[ PAIR_BRACKET ]}[ TEXT_NL ][ MARKER_SETEXT_1 "==..\n" ]
 * SHAPE 2  Setext 2 h=BLOCK_SETEXT_2 [ TEXT_PLAIN title ]{[ PAIR_BRACKET ]}[ TEXT_NL ][ MARKER_SETEXT_2 "--..\n" ]
 * MANUAL 0: no manual label (the id is derived from the title); 1: manual label [lb] after the title. */
#include "writer.h"
#include "stack_spec.h"
#include "mmd.h"
#include "token.h"
#include "d_string.h"
#include "object_pool.h"

#ifndef SHAPE
#define SHAPE 0
#endif
#ifndef MANUAL
#define MANUAL 0
#endif
/* the LAYOUT (offsets and lengths of every token) is concrete per unit -- symbolic offsets into the source
 * make every byte access a symbolic-index array update, which does not get through propositional reduction
 * (measured: > 9 min); the CONTENT (title and label bytes) is symbolic */
#ifndef OFF
#define OFF 1           /* header starts at offset OFF (non-zero: start-relative arithmetic is exercised) */
#endif
#ifndef LVL
#define LVL 2           /* ATX level = number of leading # */
#endif
#ifndef TL
#define TL 3            /* title bytes */
#endif
#ifndef ML
#define ML 2            /* closing # / underline characters */
#endif
#ifndef CLOSING
#define CLOSING 0       /* ATX closing #s present */
#endif
#define LL 2            /* manual label bytes */
#define NSRC (OFF + LVL + 1 + TL + LL + 2 + ML + 1 + ML + 1 + 1)

#ifndef VERIF_NATIVE
/* C18 contract of the token allocator (proved in unit pool_allocate_object): a fresh writable object of
 * the pool's object size.  object_pool.c is not linked: its 96 KiB slabs exhaust the SAT solver. */
void * pool_allocate_object(pool * p) {
	(void) p;
	return ALLOC(sizeof(token));
}
#define POOL_INIT()
#else
#define POOL_INIT() token_pool_init()
#endif

/* weak UTF-8 well-formedness, the only part the two label paths depend on: a continuation byte 10xxxxxx
 * never directly follows an ASCII byte (label_from_string keeps ANY byte that precedes a continuation byte,
 * clean_string(url) then rewrites a kept tab/space/backslash: on invalid UTF-8 id and href differ -- outside
 * C10's quantifier (valid documents), see C16) */
#define CONT(c) ((((unsigned char)(c)) & 0xC0) == 0x80)
#define ASCII(c) (((unsigned char)(c)) < 0x80)

static bool str_eq(const char * a, const char * b) {
	for (size_t i = 0; i < NSRC + 2; i++) {
		if (a[i] != b[i]) {
			return false;
		}
		if (a[i] == 0) {
			return true;
		}
	}
	return false;
}

void h_hdr(void) {
	POOL_INIT();
	char * src = ALLOC(NSRC);
	IN_ARR(char, title, TL); IN_ARR(char, lb, LL);
	size_t p = 0;
	for (size_t i = 0; i < OFF; i++) { src[p++] = '\n'; }
	size_t h_start = p;
	unsigned short btype = SHAPE == 0 ? (unsigned short)(BLOCK_H1 + (LVL - 1)) : (SHAPE == 1 ? BLOCK_SETEXT_1 : BLOCK_SETEXT_2);
	token * h = token_new(btype, h_start, 0);
	if (SHAPE == 0) {
		size_t s = p;
		for (size_t i = 0; i < LVL; i++) { src[p++] = '#'; }
		src[p++] = ' ';
		token_append_child(h, token_new((unsigned short)(MARKER_H1 + (LVL - 1)), s, p - s));
	}
	{	/* the title: arbitrary bytes of one line (no NUL, no line ending: lexer fact) */
		size_t s = p;
		for (size_t i = 0; i < TL; i++) { ASSUME(title[i] != 0 && title[i] != '\n' && title[i] != '\r'); ASSUME(!CONT(title[i]) || (i > 0 && !ASCII(title[i - 1]))); src[p++] = title[i]; }
		token_append_child(h, token_new(TEXT_PLAIN, s, p - s));
	}
	if (MANUAL) {	/* manual label "[lb]": PAIR_BRACKET with BRACKET_LEFT ... BRACKET_RIGHT mates */
		size_t s = p;
		src[p++] = '[';
		for (size_t i = 0; i < LL; i++) { ASSUME(lb[i] != 0 && lb[i] != '\n' && lb[i] != '\r' && lb[i] != ']' && lb[i] != '['); ASSUME(!CONT(lb[i]) || (i > 0 && !ASCII(lb[i - 1]))); src[p++] = lb[i]; }
		src[p++] = ']';
		token * pb = token_new(PAIR_BRACKET, s, p - s);
		token * l = token_new(BRACKET_LEFT, s, 1); token * m = token_new(TEXT_PLAIN, s + 1, LL); token * r = token_new(BRACKET_RIGHT, p - 1, 1);
		l->mate = r; r->mate = l;
		token_append_child(pb, l); token_append_child(pb, m); token_append_child(pb, r);
		token_append_child(h, pb);
	}
	if (SHAPE == 0 && CLOSING) {
		size_t s = p;
		for (size_t i = 0; i < ML; i++) { src[p++] = '#'; }
		token_append_child(h, token_new((unsigned short)(MARKER_H1 + (LVL - 1)), s, p - s));
	}
	src[p++] = '\n';
	token_append_child(h, token_new(TEXT_NL, p - 1, 1));
	if (SHAPE != 0) {	/* underline: one marker token spanning the underline characters and the line ending */
		size_t s = p;
		for (size_t i = 0; i < ML; i++) { src[p++] = (SHAPE == 1 ? '=' : '-'); }
		src[p++] = '\n';
		token_append_child(h, token_new(SHAPE == 1 ? MARKER_SETEXT_1 : MARKER_SETEXT_2, s, p - s));
	}
	src[p] = 0;
	ASSERT(p < NSRC && h->len == p - h_start, "harness: header spans its children");

	mmd_engine * e = ALLOC(sizeof(mmd_engine));
	DString * ds = ALLOC(sizeof(DString)); ds->str = src; ds->currentStringLength = p; ds->currentStringBufferSize = NSRC;
	e->dstr = ds; e->link_stack = stack_new(0); e->extensions = 0;
	scratch_pad * scratch = ALLOC(sizeof(scratch_pad));
	{ IN(unsigned long, ext); ASSUME((ext & EXT_RANDOM_LABELS) == 0); scratch->extensions = ext; }
	scratch->label_counter = 0; scratch->random_seed_base_labels = 0;

	char src0[NSRC];                                         /* ghost copy of the caller's source (C05: source unchanged) */
	for (size_t i = 0; i <= p; i++) { src0[i] = src[i]; }

	process_header_to_links(e, h);                           /* auto-link target (parse time) */
	ASSERT(e->link_stack->size == 1, "process_header_to_links registers exactly one link for the header");
	link * l = stack_peek(e->link_stack);
	char * id = label_from_header(src, h, scratch);          /* id placed on the heading (export time) */
	ASSERT(l != NULL && l->url != NULL && id != NULL, "link url and heading id exist");
	ASSERT((l->flags & LINK_AUTO) != 0, "the registered link is an automatic cross-reference");
	ASSERT(l->url[0] == '#', "auto-link url starts with #");
	ASSERT(str_eq(l->url + 1, id), "postcondition C10: the automatic cross-reference target of a heading equals the id placed on that heading (link->url == '#' ++ label_from_header)");
	bool unchanged = true;
	for (size_t i = 0; i <= p; i++) { if (src[i] != src0[i]) { unchanged = false; } }
	ASSERT(unchanged, "postcondition C05: the caller's source text is unchanged by process_header_to_links / label_from_header and their callees");
	REACH();
}
