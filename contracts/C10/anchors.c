/* C10 (2) -- random footnote anchors (EXT_RANDOM_FOOT): "... or consistently renamed when random anchors are requested".
 *
 * The anchor of note number n is ONE function of n wherever it is printed:
 *
 *     ANCHOR(n) = EXT_RANDOM_FOOT ? R(random_seed_base + n) % 32000 + 1 : n
 *
 * with R the value rand() returns after srand(seed) -- an UNINTERPRETED ghost function of the seed (srand/rand are stubs
 * over __CPROVER_uninterpreted_R; the real libc pair in the native replay).  The call site (html.c PAIR_BRACKET_FOOTNOTE:
 * href="#fn:ANCHOR(n)" id="fnref:ANCHOR(n)") and the back-link (BLOCK_PARA: href="#fnref:ANCHOR(n)") are arms of the
 * 200-arm mmd_export_token_html and out of this unit's reach (DESIGN section 2); what IS in reach is the third place, the
 * ENTRY written by mmd_export_footnote_list_html:
 *
 *     requires  used_footnotes holds NNOTES notes without content (USED_WF: count == position)
 *     ensures   the k-th entry is introduced by  <li id="fn:ANCHOR(k)">
 *
 * -DRANDOM=0 holds.  -DRANDOM=1 FAILS on the unchanged tree: the list prints id="fn:%d" with i + 1, never the renamed
 * anchor, so with --random every footnote call href="#fn:<random>" points at an id that does not exist (confirmed on
 * /repo/_build/multimarkdown --random).  Harness-encoded, bounded (NNOTES notes), DString = ghost sink. */
#include "writer.h"
#include "stack_spec.h"
#include "html.h"
#include "d_string.h"

#ifndef RANDOM
#define RANDOM 0
#endif
#ifndef NNOTES
#define NNOTES 1
#endif

#ifndef VERIF_NATIVE
int __CPROVER_uninterpreted_R(unsigned seed);
static unsigned g_seed;
void srand(unsigned seed) { g_seed = seed; }
int rand(void) { int r = __CPROVER_uninterpreted_R(g_seed); __CPROVER_assume(r >= 0); return r; }
#endif

static int anchor_of(scratch_pad * scratch, int n) {
	if (scratch->extensions & EXT_RANDOM_FOOT) {
		srand(scratch->random_seed_base + n);
		return rand() % 32000 + 1;
	}
	return n;
}

/* the decimal number that follows the k-th occurrence (k = 1..) of `<li id="fn:` in s, or -1 */
static int entry_anchor(const char * s, size_t len, int k) {
	static const char pat[] = "<li id=\"fn:";
	int seen = 0;
	for (size_t i = 0; i + sizeof(pat) - 1 <= len; i++) {
		bool m = true;
		for (size_t j = 0; j < sizeof(pat) - 1; j++) { if (s[i + j] != pat[j]) { m = false; } }
		if (m && ++seen == k) {
			int v = 0; size_t p = i + sizeof(pat) - 1; bool any = false;
			for (int d = 0; d < 6; d++) { if (p < len && s[p] >= '0' && s[p] <= '9') { v = v * 10 + (s[p] - '0'); p++; any = true; } }
			return (any && p < len && s[p] == '"') ? v : -1;
		}
	}
	return -1;
}

#ifdef GROW
/* the -DGROW unit does not look at the text: DString by no-op contract stubs; the one formatted number this function prints -- the
 * entry id in "<li id=\"fn:%d\">" -- is recorded in emission order (formatting digits is libc's job) */
#include <stdarg.h>
unsigned long g_sink_num[8]; size_t g_sink_nnum;
DString * d_string_new(const char * s) { DString * d = ALLOC(sizeof(DString)); d->str = ALLOC(8); d->str[0] = 0; d->currentStringLength = 0; d->currentStringBufferSize = 8; return d; }
void d_string_append(DString * d, const char * s) { }
void d_string_append_c(DString * d, char c) { }
void d_string_append_c_array(DString * d, const char * s, size_t n) { }
void d_string_append_printf(DString * d, const char * fmt, ...) {
	if (fmt[0] == '<' && fmt[1] == 'l' && fmt[2] == 'i' && fmt[3] == ' ' && fmt[4] == 'i' && fmt[5] == 'd') {
		va_list ap; va_start(ap, fmt); int v = va_arg(ap, int); va_end(ap);
		ASSERT(g_sink_nnum < 8, "ghost: number list (harness bound) not exceeded");
		if (g_sink_nnum < 8) { g_sink_num[g_sink_nnum++] = (unsigned long)v; }
	}
}
#define SINK_NUM_GHOST 1
/* stack_push by contract (C18): the growth path (realloc) is not needed below the starting capacity and is intractable for CBMC under a symbolic size */
void stack_push(stack * s, void * element) { ASSERT(s->size < (size_t)s->capacity, "ghost: no growth needed in this unit"); s->element[s->size++] = element; }
/* -DGROW: the note content is rendered BY CONTRACT -- mmd_export_token_tree_html (same file; body removed from the compiled repo object, see
 * drop_bodies) may mark one more note as used while a note is being printed (a footnote referenced from inside a footnote: the
 * PAIR_BRACKET_FOOTNOTE arm calls footnote_from_bracket -> mark_footnote_as_used -> stack_push(used_footnotes)).  The list must still
 * have an entry for EVERY note used by the time it ends. */
static int g_grown;
void mmd_export_token_tree_html(DString * out, const char * source, token * t, scratch_pad * scratch) {
	bool more;
	if (more && g_grown < GROW) {
		footnote * f = ALLOC(sizeof(footnote));
		f->content = NULL; f->label = NULL; f->label_text = NULL; f->clean_text = NULL; f->free_para = false;
		stack_push(scratch->used_footnotes, f); f->count = scratch->used_footnotes->size;
		g_grown++;
	}
}
#endif

void h_footnote_list(void) {
	scratch_pad * scratch = ALLOC(sizeof(scratch_pad));
	{ IN(int, base); ASSUME(base >= 0 && base < 32000); scratch->random_seed_base = base; }
	scratch->extensions = RANDOM ? (EXT_NOTES | EXT_RANDOM_FOOT) : EXT_NOTES;
	scratch->padded = 2; scratch->recurse_depth = 0; scratch->skip_token = 0; scratch->footnote_being_printed = 0; scratch->footnote_para_counter = 0;
	scratch->used_footnotes = stack_new(0);
	for (int i = 0; i < NNOTES; i++) {
		footnote * f = ALLOC(sizeof(footnote));
		f->content = NULL; f->label = NULL; f->label_text = NULL; f->clean_text = NULL; f->free_para = false;
		stack_push(scratch->used_footnotes, f); f->count = scratch->used_footnotes->size;      /* as mark_footnote_as_used leaves it */
	}
#ifdef GROW
	/* slots above the current size hold valid (unused) notes, so that symbolic execution of the loop body under an infeasible guard
	 * (i >= size) does not walk through uninitialised pointers */
	for (int i = NNOTES; i < NNOTES + GROW + 2; i++) {
		footnote * f = ALLOC(sizeof(footnote));
		f->content = NULL; f->label = NULL; f->label_text = NULL; f->clean_text = NULL; f->free_para = false; f->count = 0;
		scratch->used_footnotes->element[i] = f;
	}
#endif
	DString * out = d_string_new("");
	char * source = ALLOC(1); source[0] = 0;
#ifdef SINK_NUM_GHOST
	g_sink_nnum = 0;
#endif
	mmd_export_footnote_list_html(out, source, scratch);
#ifdef GROW
	ASSERT(scratch->used_footnotes->size <= NNOTES + GROW, "ghost: at most GROW notes were added");
	for (int k = 1; k <= NNOTES + GROW; k++) if (k <= (int)scratch->used_footnotes->size) {
#else
	for (int k = 1; k <= NNOTES; k++) {
#endif
#if defined(GROW) && defined(SINK_NUM_GHOST)
		/* the only numbers this function prints are the entry ids (the content is rendered by the stub): compare VALUES, in order */
		int got = ((size_t)k <= g_sink_nnum) ? (int)g_sink_num[k - 1] : -1;
#else
		int got = entry_anchor(out->str, out->currentStringLength, k);
#endif
		int want = anchor_of(scratch, k);
		ASSERT(got != -1, "the list has an entry <li id=\"fn:N\"> for every used note");
		ASSERT(got == want, "postcondition C10: the id of footnote entry k is the anchor the calls link to (k, or its consistent renaming R(seed_base + k) % 32000 + 1 under EXT_RANDOM_FOOT)");
	}
	REACH();
}
