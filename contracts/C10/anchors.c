/* C10 (2) -- random footnote anchors (EXT_RANDOM_FOOT): "... or consistently renamed when random anchors are requested".
 *
 * The anchor of note number n is ONE function of n wherever it is printed:
 *
 *     ANCHOR(n) = EXT_RANDOM_FOOT ? R(random_seed_base + n) % 32000 + 1 : n
 *
 * with R the value rand() returns after srand(seed) -- an UNINTERPRETED ghost function of the seed (srand/rand are stubs
 * over __CPROVER_uninterpreted_R; the real libc pair in the native replay).  The call site (html.c PAIR_BRACKET_FOOTNOTE:
 * href="#fn:ANCHOR(n)" id="fnref:ANCHOR(n)") and the back-link (BLOCK_PARA: href="#fnref:ANCHOR(n)") are arms of the
 * 200-arm mmd_export_token_html and out of this unit's reach (DESIGN section 2); what IS in reach is the third place, the
 * ENTRY written by mmd_export_footnote_list_html:
 *
 *     requires  used_footnotes holds NNOTES notes without content (USED_WF: count == position)
 *     ensures   the k-th entry is introduced by  <li id="fn:ANCHOR(k)">
 *
 * -DRANDOM=0 holds.  -DRANDOM=1 FAILS on the unchanged tree: the list prints id="fn:%d" with i + 1, never the renamed
 * anchor, so with --random every footnote call href="#fn:<random>" points at an id that does not exist (confirmed on
 * /repo/_build/multimarkdown --random).  Harness-encoded, bounded (NNOTES notes), DString = ghost sink. */
#include "writer.h"
#include "stack_spec.h"
#include "html.h"
#include "d_string.h"

#ifndef RANDOM
#define RANDOM 0
#endif
#ifndef NNOTES
#define NNOTES 1
#endif

#ifndef VERIF_NATIVE
int __CPROVER_uninterpreted_R(unsigned seed);
static unsigned g_seed;
void srand(unsigned seed) { g_seed = seed; }
int rand(void) { int r = __CPROVER_uninterpreted_R(g_seed); __CPROVER_assume(r >= 0); return r; }
#endif

static int anchor_of(scratch_pad * scratch, int n) {
	if (scratch->extensions & EXT_RANDOM_FOOT) {
		srand(scratch->random_seed_base + n);
		return rand() % 32000 + 1;
	}
	return n;
}

/* the decimal number that follows the k-th occurrence (k = 1..) of `<li id="fn:` in s, or -1 */
static int entry_anchor(const char * s, size_t len, int k) {
	static const char pat[] = "<li id=\"fn:";
	int seen = 0;
	for (size_t i = 0; i + sizeof(pat) - 1 <= len; i++) {
		bool m = true;
		for (size_t j = 0; j < sizeof(pat) - 1; j++) { if (s[i + j] != pat[j]) { m = false; } }
		if (m && ++seen == k) {
			int v = 0; size_t p = i + sizeof(pat) - 1; bool any = false;
			for (int d = 0; d < 6; d++) { if (p < len && s[p] >= '0' && s[p] <= '9') { v = v * 10 + (s[p] - '0'); p++; any = true; } }
			return (any && p < len && s[p] == '"') ? v : -1;
		}
	}
	return -1;
}

void h_footnote_list(void) {
	scratch_pad * scratch = ALLOC(sizeof(scratch_pad));
	{ IN(int, base); ASSUME(base >= 0 && base < 32000); scratch->random_seed_base = base; }
	scratch->extensions = RANDOM ? (EXT_NOTES | EXT_RANDOM_FOOT) : EXT_NOTES;
	scratch->padded = 2; scratch->recurse_depth = 0; scratch->skip_token = 0; scratch->footnote_being_printed = 0; scratch->footnote_para_counter = 0;
	scratch->used_footnotes = stack_new(0);
	for (int i = 0; i < NNOTES; i++) {
		footnote * f = ALLOC(sizeof(footnote));
		f->content = NULL; f->label = NULL; f->label_text = NULL; f->clean_text = NULL; f->free_para = false;
		stack_push(scratch->used_footnotes, f); f->count = scratch->used_footnotes->size;      /* as mark_footnote_as_used leaves it */
	}
	DString * out = d_string_new("");
	char * source = ALLOC(1); source[0] = 0;
	mmd_export_footnote_list_html(out, source, scratch);
	for (int k = 1; k <= NNOTES; k++) {
		int got = entry_anchor(out->str, out->currentStringLength, k);
		int want = anchor_of(scratch, k);
		ASSERT(got != -1, "the list has an entry <li id=\"fn:N\"> for every used note");
		ASSERT(got == want, "postcondition C10: the id of footnote entry k is the anchor the calls link to (k, or its consistent renaming R(seed_base + k) % 32000 + 1 under EXT_RANDOM_FOOT)");
	}
	REACH();
}
