/* C06 -- "every documented entry point produces the same result": the wrapper layer of
 * /repo/src/mmd.c (mmd_string_*, mmd_d_string_*) against the engine functions it delegates to.
 *
 * Technique: GHOST CALL TRACE.  Every engine-level callee is used BY CONTRACT
 * (--replace-call-with-contract); its contract appends one event (function id, arguments) to the
 * ghost trace g_tr[0..g_len) and returns an UNINTERPRETED result: a ghost value the harness picks
 * nondeterministically before the call (so "the wrapper returns exactly what the engine function
 * returned" is proved for every possible engine result).  The wrapper itself is the real, unmodified
 * function, verified by --enforce-contract for ALL argument values (pointers are never dereferenced by
 * the wrappers, so they are arbitrary nondeterministic pointers; the wrappers are loop-free).
 *
 * The postconditions are the property statement spelled out on the trace:
 *   mmd_string_X(src, ext, fmt, lang, ...)  ==  create_with_string(src, ext) . set_language(lang) .
 *        engine_X(fmt, dir, path) . free(engine, true)          and returns engine_X's result
 *   mmd_d_string_X(d, ...)                  ==  create_with_dstring(d, ext) . set_language(lang) .
 *        engine_X(...) . free(engine, false)                    and returns engine_X's result
 * i.e. both variants reach the SAME engine function with the SAME scalar arguments, so they agree with
 * each other and with a caller using the engine API directly.  The caller's DString is outside every
 * d_string wrapper's frame (no assigns/frees target), the engine object is released exactly once and
 * never touched afterwards (mmd_engine_free's contract really frees it).                              */
#include "verif.h"
#include "libMultiMarkdown.h"
#include "d_string.h"
#include "mmd.h"

/* ------------------------------------------------------------------ ghost trace */
enum { F_NONE, F_CREATE_STR, F_CREATE_DSTR, F_SET_LANG, F_CONVERT, F_TO_DATA, F_TO_FILE, F_HAS_META, F_KEYS,
       F_VALUE, F_UPDATE, F_MANIFEST, F_OPML, F_ITMZ, F_FREE, F_DS_FREE, F_STRDUP, F_PARSE
     };
typedef struct {
	int fn;
	const void * p, * q, * r;	/* pointer arguments, in order */
	unsigned long x;			/* extensions */
	long y;						/* format / language / bool */
} ev;
#define TR_MAX 8
ev g_tr[TR_MAX];
unsigned g_len;

/* the engine object every create call hands out; the DString it works on (the caller's for the
 * d_string variants, the private copy for the string variants) */
mmd_engine * g_e;
DString * g_priv;
/* uninterpreted results of the engine functions, chosen by the harness */
char * g_r_str;
DString * g_r_ds;
bool g_r_bool;
stack * g_r_stack;
char * g_r_dup;
char * g_upd_str;			/* text buffer after mmd_engine_update_metavalue_for_key */

#define EV(i, F, P, Q, R, X, Y) (g_tr[i].fn == (F) && g_tr[i].p == (const void *)(P) && g_tr[i].q == (const void *)(Q) \
	&& g_tr[i].r == (const void *)(R) && g_tr[i].x == (unsigned long)(X) && g_tr[i].y == (long)(Y))
#define LOGS(F, P, Q, R, X, Y) (g_len == OLD(g_len) + 1 && EV(OLD(g_len), F, P, Q, R, X, Y))
#define LOG_PRE (g_len < TR_MAX)
#define LOG_FRAME g_len, g_tr[g_len]

#ifndef VERIF_NATIVE
/* ------------------------------------------------------------------ callee contracts (assumed; each
 * is the DOCUMENTED interface of the engine function reduced to "was called with these arguments,
 * returned this value") */
mmd_engine * mmd_engine_create_with_string__contract(const char * str, unsigned long extensions)
__CPROVER_requires(LOG_PRE)
__CPROVER_ensures(LOGS(F_CREATE_STR, str, 0, 0, extensions, 0) && RET == g_e && g_e->dstr == g_priv)
__CPROVER_assigns(LOG_FRAME, g_e->dstr);

mmd_engine * mmd_engine_create_with_dstring__contract(DString * d, unsigned long extensions)
__CPROVER_requires(LOG_PRE)
__CPROVER_ensures(LOGS(F_CREATE_DSTR, d, 0, 0, extensions, 0) && RET == g_e && g_e->dstr == d)
__CPROVER_assigns(LOG_FRAME, g_e->dstr);

void mmd_engine_set_language__contract(mmd_engine * e, short language)
__CPROVER_requires(LOG_PRE)
__CPROVER_ensures(LOGS(F_SET_LANG, e, 0, 0, 0, language))
__CPROVER_assigns(LOG_FRAME);

/* releases the engine object: the frees clause makes DFCC deallocate e nondeterministically, so a wrapper
 * that touches the engine after this call fails a pointer check (__CPROVER_was_freed in a REPLACED
 * contract trips an internal precondition of CBMC 6.11's contract library, so it is not asserted) */
void mmd_engine_free__contract(mmd_engine * e, bool freeDString)
__CPROVER_requires(LOG_PRE && e == g_e)
__CPROVER_ensures(LOGS(F_FREE, e, 0, 0, 0, freeDString))
__CPROVER_assigns(LOG_FRAME)
__CPROVER_frees(e);

char * mmd_engine_convert__contract(mmd_engine * e, short format)
__CPROVER_requires(LOG_PRE)
__CPROVER_ensures(LOGS(F_CONVERT, e, 0, 0, 0, format) && RET == g_r_str)
__CPROVER_assigns(LOG_FRAME);

DString * mmd_engine_convert_to_data__contract(mmd_engine * e, short format, const char * directory)
__CPROVER_requires(LOG_PRE)
__CPROVER_ensures(LOGS(F_TO_DATA, e, directory, 0, 0, format) && RET == g_r_ds)
__CPROVER_assigns(LOG_FRAME);

void mmd_engine_convert_to_file__contract(mmd_engine * e, short format, const char * directory, const char * filepath)
__CPROVER_requires(LOG_PRE)
__CPROVER_ensures(LOGS(F_TO_FILE, e, directory, filepath, 0, format))
__CPROVER_assigns(LOG_FRAME);

/* parsing alone produces no output: it is logged so that a wrapper that only parses is visible */
void mmd_engine_parse_string__contract(mmd_engine * e)
__CPROVER_requires(LOG_PRE)
__CPROVER_ensures(LOGS(F_PARSE, e, 0, 0, 0, 0))
__CPROVER_assigns(LOG_FRAME);

bool mmd_engine_has_metadata__contract(mmd_engine * e, size_t * end)
__CPROVER_requires(LOG_PRE)
__CPROVER_ensures(LOGS(F_HAS_META, e, end, 0, 0, 0) && RET == g_r_bool)
__CPROVER_assigns(LOG_FRAME);

char * mmd_engine_metadata_keys__contract(mmd_engine * e)
__CPROVER_requires(LOG_PRE)
__CPROVER_ensures(LOGS(F_KEYS, e, 0, 0, 0, 0) && RET == g_r_str)
__CPROVER_assigns(LOG_FRAME);

char * mmd_engine_metavalue_for_key__contract(mmd_engine * e, const char * key)
__CPROVER_requires(LOG_PRE)
__CPROVER_ensures(LOGS(F_VALUE, e, key, 0, 0, 0) && RET == g_r_str)
__CPROVER_assigns(LOG_FRAME);

/* the update rewrites the text held by the engine's DString: the buffer afterwards is g_upd_str */
void mmd_engine_update_metavalue_for_key__contract(mmd_engine * e, const char * key, const char * value)
__CPROVER_requires(LOG_PRE && e == g_e)
__CPROVER_ensures(LOGS(F_UPDATE, e, key, value, 0, 0) && e->dstr->str == g_upd_str)
__CPROVER_assigns(LOG_FRAME, e->dstr->str);

stack * mmd_engine_transclusion_manifest__contract(mmd_engine * e, const char * search_path, const char * source_path)
__CPROVER_requires(LOG_PRE)
__CPROVER_ensures(LOGS(F_MANIFEST, e, search_path, source_path, 0, 0) && RET == g_r_stack)
__CPROVER_assigns(LOG_FRAME);

DString * mmd_engine_convert_opml_to_text__contract(mmd_engine * e)
__CPROVER_requires(LOG_PRE)
__CPROVER_ensures(LOGS(F_OPML, e, 0, 0, 0, 0) && RET == g_r_ds)
__CPROVER_assigns(LOG_FRAME);

DString * mmd_engine_convert_itmz_to_text__contract(mmd_engine * e)
__CPROVER_requires(LOG_PRE)
__CPROVER_ensures(LOGS(F_ITMZ, e, 0, 0, 0, 0) && RET == g_r_ds)
__CPROVER_assigns(LOG_FRAME);

/* d_string_free(d, false): container released, character data handed to the caller (C19) */
char * d_string_free__contract(DString * d, bool freeCharacterData)
__CPROVER_requires(LOG_PRE && d == g_priv)
__CPROVER_ensures(LOGS(F_DS_FREE, d, 0, 0, 0, freeCharacterData))
__CPROVER_assigns(LOG_FRAME)
__CPROVER_frees(d);

/* my_strdup (file-local): fresh copy of its argument -- proved in unit c06_my_strdup */
char * my_strdup__contract(const char * source)
__CPROVER_requires(LOG_PRE)
__CPROVER_ensures(LOGS(F_STRDUP, source, 0, 0, 0, 0) && RET == (source ? g_r_dup : (char *)0))
__CPROVER_assigns(LOG_FRAME);
#endif

/* ------------------------------------------------------------------ wrapper contracts */
#define WRAP_FRAME __CPROVER_assigns(g_len, __CPROVER_object_whole(g_tr), g_e->dstr)
#define FREES_E __CPROVER_frees(g_e)
#define PRE_W (g_len == 0)

/* --- convert ---------------------------------------------------------------------------------- */
#define POST_conv(F_CREATE, SRC, OWN) (g_len == 4 && EV(0, F_CREATE, SRC, 0, 0, extensions, 0) && EV(1, F_SET_LANG, g_e, 0, 0, 0, language) \
	&& EV(2, F_CONVERT, g_e, 0, 0, 0, format) && EV(3, F_FREE, g_e, 0, 0, 0, OWN) && RET == g_r_str)
#define POST_string_convert POST_conv(F_CREATE_STR, source, 1)
#define POST_d_string_convert POST_conv(F_CREATE_DSTR, source, 0)
CONTRACT(char *, mmd_string_convert, (const char * source, unsigned long extensions, short format, short language), PRE_W, POST_string_convert, WRAP_FRAME FREES_E)
CONTRACT(char *, mmd_d_string_convert, (DString * source, unsigned long extensions, short format, short language), PRE_W, POST_d_string_convert, WRAP_FRAME FREES_E)

/* --- convert_to_data -------------------------------------------------------------------------- */
#define POST_data(F_CREATE, SRC, OWN) (g_len == 4 && EV(0, F_CREATE, SRC, 0, 0, extensions, 0) && EV(1, F_SET_LANG, g_e, 0, 0, 0, language) \
	&& EV(2, F_TO_DATA, g_e, directory, 0, 0, format) && EV(3, F_FREE, g_e, 0, 0, 0, OWN) && RET == g_r_ds)
#define POST_string_convert_to_data POST_data(F_CREATE_STR, source, 1)
#define POST_d_string_convert_to_data POST_data(F_CREATE_DSTR, source, 0)
CONTRACT(DString *, mmd_string_convert_to_data, (const char * source, unsigned long extensions, short format, short language, const char * directory), PRE_W, POST_string_convert_to_data, WRAP_FRAME FREES_E)
CONTRACT(DString *, mmd_d_string_convert_to_data, (DString * source, unsigned long extensions, short format, short language, const char * directory), PRE_W, POST_d_string_convert_to_data, WRAP_FRAME FREES_E)

/* --- convert_to_file: "write results to specified file" -- the engine function that writes must be
 * reached, for every format --------------------------------------------------------------------- */
#define POST_file(F_CREATE, SRC, OWN) (g_len == 4 && EV(0, F_CREATE, SRC, 0, 0, extensions, 0) && EV(1, F_SET_LANG, g_e, 0, 0, 0, language) \
	&& EV(2, F_TO_FILE, g_e, directory, filepath, 0, format) && EV(3, F_FREE, g_e, 0, 0, 0, OWN))
#define POST_string_convert_to_file POST_file(F_CREATE_STR, source, 1)
#define POST_d_string_convert_to_file POST_file(F_CREATE_DSTR, source, 0)
CONTRACT(void, mmd_string_convert_to_file, (const char * source, unsigned long extensions, short format, short language, const char * directory, const char * filepath), PRE_W, POST_string_convert_to_file, WRAP_FRAME FREES_E)
CONTRACT(void, mmd_d_string_convert_to_file, (DString * source, unsigned long extensions, short format, short language, const char * directory, const char * filepath), PRE_W, POST_d_string_convert_to_file, WRAP_FRAME FREES_E)

/* --- has_metadata / metadata_keys / metavalue_for_key / transclusion_manifest ------------------- */
#define POST_q(F_CREATE, SRC, OWN, F_Q, Q1, Q2, RES) (g_len == 3 && EV(0, F_CREATE, SRC, 0, 0, 0, 0) \
	&& EV(1, F_Q, g_e, Q1, Q2, 0, 0) && EV(2, F_FREE, g_e, 0, 0, 0, OWN) && (RES))
#define POST_string_has_metadata POST_q(F_CREATE_STR, source, 1, F_HAS_META, end, 0, RET == g_r_bool)
#define POST_d_string_has_metadata POST_q(F_CREATE_DSTR, source, 0, F_HAS_META, end, 0, RET == g_r_bool)
CONTRACT(bool, mmd_string_has_metadata, (char * source, size_t * end), PRE_W, POST_string_has_metadata, WRAP_FRAME FREES_E)
CONTRACT(bool, mmd_d_string_has_metadata, (DString * source, size_t * end), PRE_W, POST_d_string_has_metadata, WRAP_FRAME FREES_E)

#define POST_string_metadata_keys POST_q(F_CREATE_STR, source, 1, F_KEYS, 0, 0, RET == g_r_str)
#define POST_d_string_metadata_keys POST_q(F_CREATE_DSTR, source, 0, F_KEYS, 0, 0, RET == g_r_str)
CONTRACT(char *, mmd_string_metadata_keys, (char * source), PRE_W, POST_string_metadata_keys, WRAP_FRAME FREES_E)
CONTRACT(char *, mmd_d_string_metadata_keys, (DString * source), PRE_W, POST_d_string_metadata_keys, WRAP_FRAME FREES_E)

#define POST_string_transclusion_manifest POST_q(F_CREATE_STR, source, 1, F_MANIFEST, search_path, source_path, RET == g_r_stack)
#define POST_d_string_transclusion_manifest POST_q(F_CREATE_DSTR, source, 0, F_MANIFEST, search_path, source_path, RET == g_r_stack)
CONTRACT(stack *, mmd_string_transclusion_manifest, (const char * source, const char * search_path, const char * source_path), PRE_W, POST_string_transclusion_manifest, WRAP_FRAME FREES_E)
CONTRACT(stack *, mmd_d_string_transclusion_manifest, (DString * source, const char * search_path, const char * source_path), PRE_W, POST_d_string_transclusion_manifest, WRAP_FRAME FREES_E)

/* metavalue: the engine's answer points into engine-owned memory ("does not need to be freed"), the
 * wrappers' answer "must be freed": it is a copy (my_strdup) taken BEFORE the engine is released, NULL
 * exactly when the engine's answer is NULL */
#define POST_value(F_CREATE, SRC, OWN) (EV(0, F_CREATE, SRC, 0, 0, 0, 0) && EV(1, F_VALUE, g_e, key, 0, 0, 0) \
	&& (g_r_str == NULL ? (g_len == 3 && EV(2, F_FREE, g_e, 0, 0, 0, OWN) && RET == NULL) \
		: (g_len == 4 && EV(2, F_STRDUP, g_r_str, 0, 0, 0, 0) && EV(3, F_FREE, g_e, 0, 0, 0, OWN) && RET == g_r_dup)))
#define POST_string_metavalue_for_key POST_value(F_CREATE_STR, source, 1)
#define POST_d_string_metavalue_for_key POST_value(F_CREATE_DSTR, source, 0)
CONTRACT(char *, mmd_string_metavalue_for_key, (char * source, const char * key), PRE_W, POST_string_metavalue_for_key, WRAP_FRAME FREES_E)
CONTRACT(char *, mmd_d_string_metavalue_for_key, (DString * source, const char * key), PRE_W, POST_d_string_metavalue_for_key, WRAP_FRAME FREES_E)

/* update: the DString variant updates the caller's DString in place (through the engine) and keeps it;
 * the string variant returns the updated text of its private copy and releases only the container */
#define POST_string_update_metavalue_for_key (g_len == 4 && EV(0, F_CREATE_STR, source, 0, 0, 0, 0) && EV(1, F_UPDATE, g_e, key, value, 0, 0) \
	&& EV(2, F_FREE, g_e, 0, 0, 0, 0) && EV(3, F_DS_FREE, g_priv, 0, 0, 0, 0) && RET == g_upd_str)
#define POST_d_string_update_metavalue_for_key (g_len == 3 && EV(0, F_CREATE_DSTR, source, 0, 0, 0, 0) && EV(1, F_UPDATE, g_e, key, value, 0, 0) \
	&& EV(2, F_FREE, g_e, 0, 0, 0, 0) && source->str == g_upd_str)
CONTRACT(char *, mmd_string_update_metavalue_for_key, (const char * source, const char * key, const char * value), PRE_W, POST_string_update_metavalue_for_key,
	__CPROVER_assigns(g_len, __CPROVER_object_whole(g_tr), g_e->dstr, g_priv->str) __CPROVER_frees(g_e, g_priv))
CONTRACT(void, mmd_d_string_update_metavalue_for_key, (DString * source, const char * key, const char * value), PRE_W, POST_d_string_update_metavalue_for_key,
	__CPROVER_assigns(g_len, __CPROVER_object_whole(g_tr), g_e->dstr, source->str) FREES_E)

/* OPML / ITMZ to text */
#define POST_totext(F_CREATE, SRC, OWN, F_X) (g_len == 3 && EV(0, F_CREATE, SRC, 0, 0, 0, 0) \
	&& EV(1, F_X, g_e, 0, 0, 0, 0) && EV(2, F_FREE, g_e, 0, 0, 0, OWN) && RET == g_r_ds)
#define TOTEXT_FRAME __CPROVER_assigns(g_len, __CPROVER_object_whole(g_tr), g_e->dstr, g_e->root) FREES_E
#define POST_string_convert_opml_to_text POST_totext(F_CREATE_STR, source, 1, F_OPML)
#define POST_d_string_convert_opml_to_text POST_totext(F_CREATE_DSTR, source, 0, F_OPML)
#define POST_string_convert_itmz_to_text POST_totext(F_CREATE_STR, source, 1, F_ITMZ)
#define POST_d_string_convert_itmz_to_text POST_totext(F_CREATE_DSTR, source, 0, F_ITMZ)
CONTRACT(DString *, mmd_string_convert_opml_to_text, (const char * source), PRE_W, POST_string_convert_opml_to_text, TOTEXT_FRAME)
CONTRACT(DString *, mmd_d_string_convert_opml_to_text, (DString * source), PRE_W, POST_d_string_convert_opml_to_text, TOTEXT_FRAME)
CONTRACT(DString *, mmd_string_convert_itmz_to_text, (const char * source), PRE_W, POST_string_convert_itmz_to_text, TOTEXT_FRAME)
CONTRACT(DString *, mmd_d_string_convert_itmz_to_text, (DString * source), PRE_W, POST_d_string_convert_itmz_to_text, TOTEXT_FRAME)

/* ------------------------------------------------------------------ harnesses */
/* ghost state: empty trace, one engine object, the private copy, arbitrary engine results */
#define GHOST_INIT \
	g_len = 0; \
	g_e = ALLOC(sizeof(mmd_engine)); \
	g_priv = ALLOC(sizeof(DString)); \
	{ IN(char *, r1); g_r_str = r1; IN(DString *, r2); g_r_ds = r2; IN(bool, r3); g_r_bool = r3; IN(stack *, r4); g_r_stack = r4; \
	  IN(char *, r5); g_r_dup = r5; IN(char *, r6); g_upd_str = r6; IN(char *, r7); g_priv->str = r7; }

/* the caller's DString of the d_string variants: a real object, so that "never freed, never written"
 * is decided by the frame check (it is not in any assigns/frees clause) and by D_KEPT afterwards */
#define MK_SRC_D \
	DString * source = ALLOC(sizeof(DString)); \
	{ IN(char *, s1); source->str = s1; IN(size_t, s2); source->currentStringLength = s2; IN(size_t, s3); source->currentStringBufferSize = s3; } \
	char * src_str = source->str; size_t src_len = source->currentStringLength, src_cap = source->currentStringBufferSize;
#define D_KEPT ASSERT(__CPROVER_rw_ok(source, sizeof(DString)) && source->str == src_str && source->currentStringLength == src_len && source->currentStringBufferSize == src_cap, \
	"the caller's DString is neither freed nor replaced nor modified by the d_string variant");
#define D_KEPT_UPD ASSERT(__CPROVER_rw_ok(source, sizeof(DString)) && source->currentStringLength == src_len && source->currentStringBufferSize == src_cap, \
	"the caller's DString object is kept by the d_string variant (only its text is updated, by the engine)");

void h_string_convert(void) {
	GHOST_INIT
	IN(const char *, source); IN(unsigned long, extensions); IN(short, format); IN(short, language);
	CALLR(char *, mmd_string_convert(source, extensions, format, language), PRE_W, POST_string_convert)
	REACH();
}
void h_d_string_convert(void) {
	GHOST_INIT
	MK_SRC_D IN(unsigned long, extensions); IN(short, format); IN(short, language);
	CALLR(char *, mmd_d_string_convert(source, extensions, format, language), PRE_W, POST_d_string_convert)
	D_KEPT
	REACH();
}
void h_string_convert_to_data(void) {
	GHOST_INIT
	IN(const char *, source); IN(unsigned long, extensions); IN(short, format); IN(short, language); IN(const char *, directory);
	CALLR(DString *, mmd_string_convert_to_data(source, extensions, format, language, directory), PRE_W, POST_string_convert_to_data)
	REACH();
}
void h_d_string_convert_to_data(void) {
	GHOST_INIT
	MK_SRC_D IN(unsigned long, extensions); IN(short, format); IN(short, language); IN(const char *, directory);
	CALLR(DString *, mmd_d_string_convert_to_data(source, extensions, format, language, directory), PRE_W, POST_d_string_convert_to_data)
	D_KEPT
	REACH();
}
void h_string_convert_to_file(void) {
	GHOST_INIT
	IN(const char *, source); IN(unsigned long, extensions); IN(short, format); IN(short, language); IN(const char *, directory); IN(const char *, filepath);
	CALLV(mmd_string_convert_to_file(source, extensions, format, language, directory, filepath), PRE_W, POST_string_convert_to_file)
	REACH();
}
void h_d_string_convert_to_file(void) {
	GHOST_INIT
	MK_SRC_D IN(unsigned long, extensions); IN(short, format); IN(short, language); IN(const char *, directory); IN(const char *, filepath);
	CALLV(mmd_d_string_convert_to_file(source, extensions, format, language, directory, filepath), PRE_W, POST_d_string_convert_to_file)
	D_KEPT
	REACH();
}
void h_string_has_metadata(void) {
	GHOST_INIT
	IN(char *, source); IN(size_t *, end);
	CALLR(bool, mmd_string_has_metadata(source, end), PRE_W, POST_string_has_metadata)
	REACH();
}
void h_d_string_has_metadata(void) {
	GHOST_INIT
	MK_SRC_D IN(size_t *, end);
	CALLR(bool, mmd_d_string_has_metadata(source, end), PRE_W, POST_d_string_has_metadata)
	D_KEPT
	REACH();
}
void h_string_metadata_keys(void) {
	GHOST_INIT
	IN(char *, source);
	CALLR(char *, mmd_string_metadata_keys(source), PRE_W, POST_string_metadata_keys)
	REACH();
}
void h_d_string_metadata_keys(void) {
	GHOST_INIT
	MK_SRC_D
	CALLR(char *, mmd_d_string_metadata_keys(source), PRE_W, POST_d_string_metadata_keys)
	D_KEPT
	REACH();
}
void h_string_metavalue_for_key(void) {
	GHOST_INIT
	IN(char *, source); IN(const char *, key);
	CALLR(char *, mmd_string_metavalue_for_key(source, key), PRE_W, POST_string_metavalue_for_key)
	REACH();
}
void h_d_string_metavalue_for_key(void) {
	GHOST_INIT
	MK_SRC_D IN(const char *, key);
	CALLR(char *, mmd_d_string_metavalue_for_key(source, key), PRE_W, POST_d_string_metavalue_for_key)
	D_KEPT
	REACH();
}
void h_string_update_metavalue_for_key(void) {
	GHOST_INIT
	IN(const char *, source); IN(const char *, key); IN(const char *, value);
	CALLR(char *, mmd_string_update_metavalue_for_key(source, key, value), PRE_W, POST_string_update_metavalue_for_key)
	REACH();
}
void h_d_string_update_metavalue_for_key(void) {
	GHOST_INIT
	MK_SRC_D IN(const char *, key); IN(const char *, value);
	CALLV(mmd_d_string_update_metavalue_for_key(source, key, value), PRE_W, POST_d_string_update_metavalue_for_key)
	D_KEPT_UPD
	REACH();
}
void h_string_transclusion_manifest(void) {
	GHOST_INIT
	IN(const char *, source); IN(const char *, search_path); IN(const char *, source_path);
	CALLR(stack *, mmd_string_transclusion_manifest(source, search_path, source_path), PRE_W, POST_string_transclusion_manifest)
	REACH();
}
void h_d_string_transclusion_manifest(void) {
	GHOST_INIT
	MK_SRC_D IN(const char *, search_path); IN(const char *, source_path);
	CALLR(stack *, mmd_d_string_transclusion_manifest(source, search_path, source_path), PRE_W, POST_d_string_transclusion_manifest)
	D_KEPT
	REACH();
}
void h_string_convert_opml_to_text(void) {
	GHOST_INIT
	IN(const char *, source);
	CALLR(DString *, mmd_string_convert_opml_to_text(source), PRE_W, POST_string_convert_opml_to_text)
	REACH();
}
void h_d_string_convert_opml_to_text(void) {
	GHOST_INIT
	MK_SRC_D
	CALLR(DString *, mmd_d_string_convert_opml_to_text(source), PRE_W, POST_d_string_convert_opml_to_text)
	D_KEPT
	REACH();
}
void h_string_convert_itmz_to_text(void) {
	GHOST_INIT
	IN(const char *, source);
	CALLR(DString *, mmd_string_convert_itmz_to_text(source), PRE_W, POST_string_convert_itmz_to_text)
	REACH();
}
void h_d_string_convert_itmz_to_text(void) {
	GHOST_INIT
	MK_SRC_D
	CALLR(DString *, mmd_d_string_convert_itmz_to_text(source), PRE_W, POST_d_string_convert_itmz_to_text)
	D_KEPT
	REACH();
}
