/* C06 (+ C05, C12) -- the command line front end: main() of src/main.c (the real function) with the argtable3 parser, the C
 * library's streams, dirname / realpath and the library entry points USED BY CONTRACT (stubs that record what they are given).
 * What the contract of main() says, for the BATCH mode (-b file1 file2, -t html) and for the STREAM mode (stdin or one file to stdout):
 *   (E) the extensions handed to mmd_d_string_convert_to_data are exactly the documented function of the options given
 *       (spec_extensions below: -c, --nosmart, --nolabels, --notransclude, --opml/--itmz, -a, -r, -f, -s, --random, --unique) -- the
 *       same for EVERY file of a batch (no option is consumed or cleared by an earlier file)
 *   (S) the source handed over is the file's text as scan_file / stdin_buffer returned it, after the header/footer, transclusion and
 *       CriticMarkup accept/reject steps that the extensions ask for, in that order
 *   (O) the result is written with ONE fwrite of exactly result->currentStringLength bytes (a package contains NUL bytes) to the
 *       right stream: in batch mode the file named <input without its extension> + the format's extension, the input name being the
 *       one given on the command line (dirname() may cut its argument in place: glibc does); otherwise stdout / the -o file
 *   (F) the folder handed over for assets is dirname(input file) (batch, one file) or NULL (stdin)
 * argtable: arg_lit0/arg_str0/arg_file0/arg_filen hand out harness-owned records whose counts are symbolic (any combination of the
 * flag options); arg_parse reports no error.  Bounded only by the fixed file names of the unit. */
#include "verif.h"
#include <stdio.h>
#include <string.h>
#include "argtable3.h"
#include "d_string.h"
#include "libMultiMarkdown.h"
#include "token.h"
int main(int argc, char ** argv);
#define NLIT 20
static struct arg_lit g_lit[NLIT]; static const char * g_lit_name[NLIT]; static int g_nlit;
static struct arg_str g_str[4]; static const char * g_str_name[4]; static int g_nstr; static const char * g_sval[4][1];
static struct arg_file g_o, g_files; static const char * g_o_name[1]; static const char * g_file_names[2];
static struct arg_rem g_rem; static struct arg_end g_end;
struct arg_lit * arg_lit0(const char * s, const char * l, const char * g) { ASSERT(g_nlit < NLIT, "ghost: literal options"); g_lit_name[g_nlit] = l; return &g_lit[g_nlit++]; }
struct arg_str * arg_str0(const char * s, const char * l, const char * d, const char * g) { ASSERT(g_nstr < 4, "ghost: string options"); g_str_name[g_nstr] = l; g_str[g_nstr].sval = g_sval[g_nstr]; return &g_str[g_nstr++]; }
struct arg_file * arg_file0(const char * s, const char * l, const char * d, const char * g) { g_o.filename = g_o_name; return &g_o; }
struct arg_file * arg_filen(const char * s, const char * l, const char * d, int mn, int mx, const char * g) { g_files.filename = g_file_names; return &g_files; }
struct arg_rem * arg_rem(const char * d, const char * g) { return &g_rem; }
struct arg_end * arg_end(int maxerrors) { return &g_end; }
int arg_nullcheck(void ** argtable) { return 0; }
static void fix_controls(bool batch); static bool g_batch;
int arg_parse(int argc, char ** argv, void ** argtable) { fix_controls(g_batch); return 0; }
void arg_freetable(void ** argtable, size_t n) { }
void arg_print_syntax(FILE * fp, void ** argtable, const char * suffix) { }
void arg_print_glossary(FILE * fp, void ** argtable, const char * format) { }
void arg_print_errors(FILE * fp, struct arg_end * end, const char * progname) { }
static int lit(const char * name) { for (int i = 0; i < NLIT; i++) { if (i < g_nlit && g_lit_name[i] && strcmp(g_lit_name[i], name) == 0) { return g_lit[i].count; } } ASSERT(0, "ghost: the option exists"); return 0; }
/* ---- the documented option -> extension mapping (QuickStart / --help) */
static unsigned long spec_extensions(void) {
	unsigned long x = EXT_SMART | EXT_NOTES | EXT_CRITIC | EXT_TRANSCLUDE;
	if (lit("compatibility") > 0) { x = EXT_COMPATIBILITY | EXT_NO_LABELS | EXT_OBFUSCATE | EXT_NO_METADATA; }
	if (lit("nosmart") > 0) { x &= ~EXT_SMART; }
	if (lit("nolabels") > 0) { x |= EXT_NO_LABELS; }
	if (lit("notransclude") > 0) { x &= ~EXT_TRANSCLUDE; }
	if (lit("opml") > 0) { x |= EXT_PARSE_OPML; } else if (lit("itmz") > 0) { x |= EXT_PARSE_ITMZ; }
	if (lit("accept") > 0) { x |= EXT_CRITIC_ACCEPT | EXT_CRITIC; }
	if (lit("reject") > 0) { x |= EXT_CRITIC_REJECT | EXT_CRITIC; }
	if (lit("accept") > 0 && lit("reject") > 0) { x &= ~(EXT_CRITIC_REJECT | EXT_CRITIC_ACCEPT); }
	if (lit("full") > 0) { x |= EXT_COMPLETE; }
	if (lit("snippet") > 0) { x |= EXT_SNIPPET; }
	if (lit("random") > 0) { x |= EXT_RANDOM_FOOT; }
	if (lit("unique") > 0) { x |= EXT_RANDOM_LABELS; }
	return x;
}
/* ---- library and libc by contract: a per-file record of what happened, in order */
#define NF 2
typedef struct { DString * buf; const char * buf_str; int step; bool header, footer, trans, accept, reject, conv; unsigned long ext; short format, lang; const char * folder; const char * trans_folder; DString * result;
                 const char * opened; FILE * stream; int writes; bool write_ok; int closed; } rec;
#ifndef FMT_STR
#define FMT_ENUM FORMAT_HTML
#define FMT_EXT ".html"
#endif
static rec g_r[NF]; static int g_cur = -1; static char g_name[NF][8]; static char g_orig[NF][8]; static FILE * g_out[NF]; static FILE * g_stdout_obj; static int g_scans, g_stdin; static bool g_stdin_mode;
static bool g_concat; static DString * g_work; static char g_content[8]; static size_t g_clen;
static rec * cur(void);
/* which DString the steps must work on: the text scan_file/stdin_buffer returned; in the concatenation mode (files without -b) the
 * buffer main() builds from the files -- one and the same object through all steps */
static bool src_ok(rec * r, DString * s) { if (!g_concat) { return s == r->buf; } if (!g_work) { g_work = s; } return s != NULL && s == g_work; }
static rec * cur(void) { ASSERT(g_cur >= 0 && g_cur < NF, "ghost: a file is being processed"); return &g_r[g_cur]; }
static DString * mkds(size_t n) { DString * d = malloc(sizeof(DString)); d->str = malloc(n + 1); d->str[n] = 0; d->currentStringLength = n; d->currentStringBufferSize = n + 1; return d; }
DString * scan_file(const char * fname) {
	g_cur++; ASSERT(g_cur < NF && fname == g_file_names[g_cur], "(S) the files are read in command-line order, each once");
	g_scans++; g_r[g_cur].buf = mkds(3); for (int i = 0; i < 3; i++) { char c; ASSUME(c != 0); g_r[g_cur].buf->str[i] = c; if (g_clen < 8) { g_content[g_clen++] = c; } } return g_r[g_cur].buf;
}
DString * stdin_buffer(void) { g_cur++; g_stdin++; ASSERT(g_cur == 0, "stdin is read once"); g_r[0].buf = mkds(3); g_r[0].buf_str = g_r[0].buf->str; return g_r[0].buf; }
void mmd_prepend_mmd_header(DString * s) { rec * r = cur(); ASSERT(src_ok(r, s) && r->step == 0, "(S) header first"); r->header = true; r->step = 1; }
void mmd_append_mmd_footer(DString * s) { rec * r = cur(); ASSERT(src_ok(r, s) && r->step == 1, "(S) then footer"); r->footer = true; r->step = 2; }
void mmd_transclude_source(DString * s, const char * search, const char * path, short format, void * a, void * b) { rec * r = cur(); ASSERT(src_ok(r, s) && r->step <= 2 && !r->trans, "(S) then transclusion, once"); r->trans = true; r->trans_folder = search; r->step = 3; }
void mmd_critic_markup_accept(DString * s) { rec * r = cur(); ASSERT(src_ok(r, s) && r->step <= 3 && !r->conv, "(S) CriticMarkup accept before the conversion"); r->accept = true; r->step = 4; }
void mmd_critic_markup_reject(DString * s) { rec * r = cur(); ASSERT(src_ok(r, s) && r->step <= 4 && !r->conv, "(S) CriticMarkup reject before the conversion"); r->reject = true; r->step = 5; }
DString * mmd_d_string_convert_to_data(DString * source, unsigned long extensions, short format, short language, const char * directory) {
	rec * r = cur(); ASSERT(src_ok(r, source) && !r->conv, "(S) the text read for this file is converted, once");
	if (g_concat) { bool same = source->currentStringLength == g_clen; for (size_t i = 0; i < 8; i++) { if (i < g_clen && same && source->str[i] != g_content[i]) { same = false; } } ASSERT(same, "(S) the text converted is the files' texts, concatenated in command-line order"); }
	r->conv = true; r->ext = extensions; r->format = format; r->lang = language; r->folder = directory;
	IN(size_t, n); ASSUME(n <= 4); r->result = mkds(n); return r->result;
}
#ifndef CLI_META
char * mmd_string_metadata_keys(const char * s) { return NULL; }
char * mmd_string_metavalue_for_key(const char * s, const char * k) { return NULL; }
#endif
void token_pool_init(void) { } void token_pool_drain(void) { } void token_pool_free(void) { } void custom_seed_rand(void) { }
static int g_unzips; static bool g_unzip_ok; static char g_unzip_path[NF][24];
int unzip_data_to_path(const void * data, size_t size, const char * path) { rec * r = cur(); g_unzips++; g_unzip_ok = r->conv && data == (const void *)r->result->str && size == r->result->currentStringLength; for (int i = 0; i < 23; i++) { g_unzip_path[g_cur][i] = path[i]; if (!path[i]) { break; } } return 1; }
/* glibc's dirname: cuts its argument at the last '/' IN PLACE and returns it ("." when there is none) */
static char g_dot[2] = ".";
char * dirname(char * path) { int last = -1; for (int i = 0; i < 8 && path[i]; i++) { if (path[i] == '/') { last = i; } } if (last < 0) { return g_dot; } path[last] = 0; return path; }
char * realpath(const char * path, char * resolved) { if (resolved) { resolved[0] = '/'; resolved[1] = 0; } return resolved; }
FILE * fopen(const char * name, const char * mode) { rec * r = cur(); ASSERT(r->opened == NULL, "(O) one output file per input"); { static char copy[NF][24]; for (int i = 0; i < 23; i++) { copy[g_cur][i] = name[i]; if (!name[i]) { break; } } copy[g_cur][23] = 0; r->opened = copy[g_cur]; }      /* main() frees the name after use: keep a copy */ r->stream = g_out[g_cur]; ASSERT(mode[0] == 'w', "(O) opened for writing"); return r->stream; }
size_t fwrite(const void * p, size_t size, size_t n, FILE * f) {
	rec * r = cur(); r->writes++;
	r->write_ok = r->conv && p == (const void *)r->result->str && size * n == r->result->currentStringLength && (g_stdin_mode ? (f == g_stdout_obj || f == r->stream) : f == r->stream);
	return n;
}
static char * g_answer; static int g_puts_answer;
int fputs(const char * s, FILE * f) { if (g_answer && s == g_answer && f == g_stdout_obj) { g_puts_answer++; } if (g_cur >= 0 && g_cur < NF && g_r[g_cur].conv && s == g_r[g_cur].result->str) { g_r[g_cur].writes++; g_r[g_cur].write_ok = false; } return 0; }       /* a result written as a C string stops at its first NUL */
int fputc(int c, FILE * f) { return c; }
int fclose(FILE * f) { rec * r = cur(); if (f == r->stream) { r->closed++; } return 0; }
void perror(const char * s) { }
static void setup_options(bool batch) {
	for (int i = 0; i < NLIT; i++) { IN(bool, on); g_lit[i].count = on ? 1 : 0; }
	for (int i = 0; i < 4; i++) { g_str[i].count = 0; }
	g_o.count = 0; g_stdout_obj = (FILE *)ALLOC(8); stdout = g_stdout_obj;
	for (int i = 0; i < NF; i++) { g_out[i] = (FILE *)ALLOC(8); }
}
static bool g_fmt_given, g_o_given, g_meta_on, g_extract_on;
static void fix_controls(bool batch) {
	g_o.count = g_o_given ? 1 : 0; if (g_o_given) { g_o_name[0] = "o.x"; }         /* main() has just stored the default "-": the parser overwrites it when -o is given */
	for (int i = 0; i < 4; i++) { if (i < g_nstr && strcmp(g_str_name[i], "extract") == 0) { g_str[i].count = g_extract_on ? 1 : 0; g_sval[i][0] = "title"; } }
	for (int i = 0; i < 4; i++) { if (i < g_nstr && strcmp(g_str_name[i], "to") == 0) { g_str[i].count = g_fmt_given ? 1 : 0; g_sval[i][0] = g_sval[0][0]; } }
	/* main() has now created the option records: switch off the ones that end the run early, fix the mode */
	for (int i = 0; i < NLIT; i++) {
		if (i < g_nlit) {
			if (strcmp(g_lit_name[i], "help") == 0 || strcmp(g_lit_name[i], "version") == 0) { g_lit[i].count = 0; }
			if (strcmp(g_lit_name[i], "metadata-keys") == 0) { g_lit[i].count = g_meta_on ? 1 : 0; }
			if (strcmp(g_lit_name[i], "batch") == 0) { g_lit[i].count = batch ? 1 : 0; }
		}
	}
}

static void check_common(rec * r, unsigned long want) {
	ASSERT(r->conv, "(S) the file is converted");
	ASSERT(r->ext == want, "(E) the extensions handed to the library are the documented function of the options -- for every file of a batch");
	ASSERT(r->lang == 0, "(E) default language when -l is not given");
	bool compat = (want & EXT_COMPATIBILITY) != 0;
	ASSERT((r->header ? 1 : 0) == (compat ? 0 : 1) && (r->footer ? 1 : 0) == (compat ? 0 : 1), "(S) MMD header / footer are applied unless in compatibility mode");
	ASSERT((r->accept ? 1 : 0) == ((want & EXT_CRITIC_ACCEPT) ? 1 : 0) && (r->reject ? 1 : 0) == ((want & EXT_CRITIC_REJECT) ? 1 : 0), "(S) CriticMarkup is accepted / rejected in the source iff the options ask for it");
	if (r->format != FORMAT_TEXTBUNDLE || g_stdin_mode) { ASSERT(r->writes == 1 && r->write_ok, "(O) the result is written once, with fwrite, all currentStringLength bytes of it, to the right stream"); }
}
void h_cli_batch(void) {
	g_batch = true; setup_options(true);
	/* two input files; -t html */
	{ const char a[8] = "a/x.md", b[8] = "bb/y.t"; for (int i = 0; i < 8; i++) { g_name[0][i] = a[i]; g_orig[0][i] = a[i]; g_name[1][i] = b[i]; g_orig[1][i] = b[i]; } }
	g_file_names[0] = g_name[0]; g_file_names[1] = g_name[1]; g_files.count = 2;
	g_o_name[0] = NULL;
#ifdef FMT_STR
	g_sval[0][0] = FMT_STR; g_fmt_given = true;          /* -t FMT_STR (one unit per format name) */
#endif
	char * argv[1] = { "mmd" };
	int rc = main(1, argv);
	unsigned long want = spec_extensions();
	ASSERT(rc == 0 && g_scans == 2 && g_cur == 1, "both files are processed");
	for (int i = 0; i < NF; i++) {
		rec * r = &g_r[i];
		check_common(r, want);
		ASSERT(r->format == FMT_ENUM, "(E) the format handed to the library is the one named by -t (html when -t is not given)");
		ASSERT((r->trans ? 1 : 0) == ((want & EXT_TRANSCLUDE) ? 1 : 0), "(S) transclusion iff enabled");
		/* (O) output name: the ORIGINAL input name without its extension + ".html" */
		const char * exp = (i == 0) ? "a/x" FMT_EXT : "bb/y" FMT_EXT;
		if (FMT_ENUM == FORMAT_TEXTBUNDLE) {
			ASSERT(g_unzips == 2 && g_unzip_ok && strcmp(g_unzip_path[i], exp) == 0 && r->opened == NULL, "(O) an uncompressed TextBundle is unpacked to <input name>.textbundle, all of it");
		} else {
			ASSERT(r->opened != NULL && strcmp(r->opened, exp) == 0, "(O) batch output goes to <input name as given, without its extension> + the format's extension (dirname() cutting its argument in place must not shorten it)");
			ASSERT(r->closed == 1, "(O) the output file is closed");
		}
		/* (F) folder = dirname of the input */
		ASSERT(r->folder != NULL && strcmp(r->folder, i == 0 ? "a" : "bb") == 0, "(F) the asset / transclusion folder is the input file's directory");
	}
	REACH();
}
void h_cli_stream(void) {
	g_batch = false; g_stdin_mode = true; setup_options(false);
	g_files.count = 0; g_o_name[0] = NULL;
	char * argv[1] = { "mmd" };
	int rc = main(1, argv);
	unsigned long want = spec_extensions();
	ASSERT(rc == 0 && g_stdin == 1 && g_scans == 0, "stdin is read");
	rec * r = &g_r[0];
	check_common(r, want);
	ASSERT(!r->trans, "(S) no transclusion without a file name");
	ASSERT(r->folder == NULL, "(F) no folder for stdin");
	ASSERT(r->opened == NULL, "(O) output goes to stdout when -o is not given");
	REACH();
}
/* one input file, concatenation mode, output to -o FILE */
void h_cli_onefile(void) {
	g_batch = false; g_stdin_mode = true; g_concat = true; setup_options(false);
	{ const char a[8] = "a/x.md"; for (int i = 0; i < 8; i++) { g_name[0][i] = a[i]; g_orig[0][i] = a[i]; } }
	g_file_names[0] = g_name[0]; g_files.count = 1;
	g_o_name[0] = "o.x"; g_o_given = true;
	char * argv[1] = { "mmd" };
	int rc = main(1, argv);
	unsigned long want = spec_extensions();
	ASSERT(rc == 0 && g_scans == 1 && g_stdin == 0, "the file is read");
	rec * r = &g_r[0];
	ASSERT(r->conv, "(S) the text is converted");
	ASSERT(r->ext == want, "(E) the extensions handed to the library are the documented function of the options");
	ASSERT((r->trans ? 1 : 0) == ((want & EXT_TRANSCLUDE) ? 1 : 0), "(S) with exactly one input file, transclusion runs iff enabled");
	ASSERT(!r->trans || (r->trans_folder != NULL && strcmp(r->trans_folder, "a") == 0), "(F) transclusion searches the input file's directory");
	ASSERT(r->folder != NULL && strcmp(r->folder, "a") == 0, "(F) the asset folder is the input file's directory");
	ASSERT(r->opened != NULL && strcmp(r->opened, "o.x") == 0 && r->writes == 1 && r->write_ok && r->closed == 1, "(O) the result goes to the -o file: opened, written once in full with fwrite, closed");
	REACH();
}
/* -m (list metadata keys) and -e KEY (extract one value) on standard input: the CLI answers with what the library's string entry
 * points answer for the text read (after the same source steps), and converts nothing */
static int g_keys_calls, g_val_calls; static const char * g_keys_arg, * g_val_arg, * g_val_key;
#ifdef CLI_META
char * mmd_string_metadata_keys(const char * s) { g_keys_calls++; g_keys_arg = s; return g_answer; }
char * mmd_string_metavalue_for_key(const char * s, const char * k) { g_val_calls++; g_val_arg = s; g_val_key = k; return g_answer; }
void h_cli_meta(void) {
	g_batch = false; g_stdin_mode = true; setup_options(false);
	g_files.count = 0; g_o_name[0] = NULL;
	IN(bool, keys); g_meta_on = keys; g_extract_on = !keys;
	{ IN(bool, some); g_answer = some ? (char *)ALLOC(2) : NULL; if (g_answer) { g_answer[0] = 'k'; g_answer[1] = 0; } }
	char * argv[1] = { "mmd" };
	int rc = main(1, argv);
	ASSERT(rc == 0 && g_stdin == 1, "stdin is read");
	rec * r = &g_r[0];
	ASSERT(!r->conv && r->writes == 0, "(-m / -e) nothing is converted or written as a document");
	if (keys) {
		ASSERT(g_keys_calls == 1 && g_val_calls == 0 && g_keys_arg == r->buf_str, "(-m) the keys are those mmd_string_metadata_keys reports for the text read");
	} else {
		ASSERT(g_val_calls == 1 && g_keys_calls == 0 && g_val_arg == r->buf_str && g_val_key != NULL && strcmp(g_val_key, "title") == 0, "(-e KEY) the value is the one mmd_string_metavalue_for_key reports for the text read and the key given");
	}
	ASSERT(g_puts_answer == (g_answer ? 1 : 0), "(-m / -e) the library's answer is printed to stdout, once, iff there is one");
	REACH();
}
#endif

/* two input files without -b: their texts are concatenated in command-line order and converted as ONE document to stdout */
void h_cli_concat2(void) {
	g_batch = false; g_stdin_mode = true; g_concat = true; setup_options(false);
	{ const char a[8] = "a/x.md", b[8] = "bb/y.t"; for (int i = 0; i < 8; i++) { g_name[0][i] = a[i]; g_name[1][i] = b[i]; } }
	g_file_names[0] = g_name[0]; g_file_names[1] = g_name[1]; g_files.count = 2; g_o_name[0] = NULL;
	char * argv[1] = { "mmd" };
	int rc = main(1, argv);
	unsigned long want = spec_extensions();
	ASSERT(rc == 0 && g_scans == 2 && g_stdin == 0, "both files are read");
	rec * r = &g_r[1];
	ASSERT(r->conv && !g_r[0].conv, "(S) ONE conversion, of the concatenated text");
	ASSERT(r->ext == want, "(E) the extensions handed to the library are the documented function of the options");
	ASSERT(!r->trans, "(S) no transclusion when more than one file is given (there is no single base directory)");
	ASSERT(r->folder == NULL, "(F) no asset folder for several files");
	ASSERT(r->opened == NULL && r->writes == 1 && r->write_ok, "(O) the result goes to stdout, written once in full with fwrite");
	REACH();
}
