/* C06 -- the two engine constructors and the small helpers the wrappers rely on.
 *  - mmd_engine_create_with_string makes a PRIVATE COPY of the text (d_string_new(str)) and builds the
 *    engine on it; mmd_engine_create_with_dstring builds it on the caller's DString itself ("A new copy is
 *    *not* made") -- this is what makes free(e, true) / free(e, false) in the wrappers right;
 *  - mmd_engine_set_language stores the language and derives the quotes language from it alone;
 *  - my_strdup (file-local) returns a fresh copy (bounded content unit).                              */
#include "verif.h"
#include "libMultiMarkdown.h"
#include "d_string.h"
#include "mmd.h"
#include "i18n.h"

mmd_engine * mmd_engine_create(DString * d, unsigned long extensions);

enum { F_NONE, F_DS_NEW, F_ENGINE_CREATE };
typedef struct { int fn; const void * p; unsigned long x; } ev;
#define TR_MAX 4
ev g_tr[TR_MAX];
unsigned g_len;
DString * g_copy;		/* what d_string_new returns */
mmd_engine * g_e;		/* what mmd_engine_create returns */
#define EV(i, F, P, X) (g_tr[i].fn == (F) && g_tr[i].p == (const void *)(P) && g_tr[i].x == (unsigned long)(X))
#define LOGS(F, P, X) (g_len == OLD(g_len) + 1 && EV(OLD(g_len), F, P, X))
#define LOG_PRE (g_len < TR_MAX)
#define LOG_FRAME g_len, g_tr[g_len]

#if !defined(VERIF_NATIVE) && !defined(VERIF_PLAIN)
DString * d_string_new__contract(const char * startingString)
__CPROVER_requires(LOG_PRE) __CPROVER_ensures(LOGS(F_DS_NEW, startingString, 0) && RET == g_copy) __CPROVER_assigns(LOG_FRAME);
mmd_engine * mmd_engine_create__contract(DString * d, unsigned long extensions)
__CPROVER_requires(LOG_PRE) __CPROVER_ensures(LOGS(F_ENGINE_CREATE, d, extensions) && RET == g_e) __CPROVER_assigns(LOG_FRAME);
#endif

#define C_FRAME __CPROVER_assigns(g_len, __CPROVER_object_whole(g_tr))
#define PRE_create (g_len == 0)
#define POST_create_with_string (g_len == 2 && EV(0, F_DS_NEW, str, 0) && EV(1, F_ENGINE_CREATE, g_copy, extensions) && RET == g_e)
#define POST_create_with_dstring (g_len == 1 && EV(0, F_ENGINE_CREATE, d, extensions) && RET == g_e)
CONTRACT(mmd_engine *, mmd_engine_create_with_string, (const char * str, unsigned long extensions), PRE_create, POST_create_with_string, C_FRAME)
CONTRACT(mmd_engine *, mmd_engine_create_with_dstring, (DString * d, unsigned long extensions), PRE_create, POST_create_with_dstring, C_FRAME)

/* language codes -> quotes language, from the enum names in libMultiMarkdown.h (everything else: English) */
#define QUOTES_OF(l) ((l) == LC_DE ? GERMAN : (l) == LC_ES ? SPANISH : (l) == LC_FR ? FRENCH : (l) == LC_NL ? DUTCH : (l) == LC_SV ? SWEDISH : ENGLISH)
#define PRE_set_language 1
#define POST_set_language (e == NULL || (e->language == language && e->quotes_lang == QUOTES_OF(language)))
CONTRACT(void, mmd_engine_set_language, (mmd_engine * e, short language), PRE_set_language, POST_set_language, __CPROVER_assigns(e != NULL: e->language, e->quotes_lang))

#define GHOST_INIT g_len = 0; { IN(DString *, c); g_copy = c; IN(mmd_engine *, ge); g_e = ge; }
void h_create_with_string(void) {
	GHOST_INIT
	IN(const char *, str); IN(unsigned long, extensions);
	CALLR(mmd_engine *, mmd_engine_create_with_string(str, extensions), PRE_create, POST_create_with_string)
	REACH();
}
void h_create_with_dstring(void) {
	GHOST_INIT
	IN(DString *, d); IN(unsigned long, extensions);
	CALLR(mmd_engine *, mmd_engine_create_with_dstring(d, extensions), PRE_create, POST_create_with_dstring)
	REACH();
}
void h_set_language(void) {
	IN(bool, isnull); IN(short, language);
	mmd_engine * e = isnull ? NULL : ALLOC(sizeof(mmd_engine));
	if (e) { IN(short, l0); IN(short, q0); e->language = l0; e->quotes_lang = q0; }
	CALLV(mmd_engine_set_language(e, language), PRE_set_language, POST_set_language)
	REACH();
}

#ifdef VERIF_PLAIN
/* my_strdup is static in mmd.c; the repo object is compiled with --export-file-local-symbols */
char * __CPROVER_file_local_mmd_c_my_strdup(const char * source);
#ifndef DUP_MAX
#define DUP_MAX 6
#endif
void h_my_strdup(void) {
	IN(bool, isnull); IN(size_t, n); ASSUME(n < DUP_MAX);
	IN_ARR(char, txt, DUP_MAX);
	char * source = isnull ? NULL : ALLOC(n + 1);
	if (source) { for (size_t i = 0; i < DUP_MAX; i++) { if (i < n) { ASSUME(txt[i] != 0); source[i] = txt[i]; } } source[n] = 0; }
	IN(size_t, k);
	char * r = __CPROVER_file_local_mmd_c_my_strdup(source);
	ASSERT((source == NULL) == (r == NULL), "my_strdup: NULL exactly for NULL");
	if (r) {
		ASSERT(r != source && __CPROVER_r_ok(r, n + 1), "my_strdup: a fresh object holding the whole string");
		ASSERT(k > n || r[k] == source[k], "my_strdup: same bytes including the terminator");
	}
	REACH();
}
#endif
