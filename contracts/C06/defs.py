# ---------------------------------------------------------------- C06 entry points agree
PROPS["C06"] = {
    "level": "proof",
    "explanation": "Every mmd_string_* / mmd_d_string_* wrapper of /repo/src/mmd.c and the engine-level mmd_engine_convert / _convert_to_data / _convert_to_file (plus epub_write_wrapper, textbundle_write_wrapper) are verified (goto-instrument --dfcc, real unmodified function enforced) against contracts over a ghost call trace: the callees one level down are used by contract, each appends (function id, arguments) to the trace and returns an uninterpreted result chosen by the harness. For all argument values the string and DString variants reach the same engine function with the same scalar arguments in the order create . set_language . engine_X . free(owns copy?) and return exactly its result; the caller's DString is outside every d_string wrapper's frame; for the plain-text formats convert, convert_to_data and convert_to_file all deliver body + one newline; for the packaged formats convert_to_data returns the format's package and convert_to_file must write the same package.",
    "slice": "mmd_string_* and mmd_d_string_* {convert, convert_to_data, convert_to_file, has_metadata, metadata_keys, metavalue_for_key, update_metavalue_for_key, transclusion_manifest, convert_opml_to_text, convert_itmz_to_text}; mmd_engine_convert, mmd_engine_convert_to_data, mmd_engine_convert_to_file, mmd_engine_create_with_string/_dstring, mmd_engine_set_language, my_strdup; epub_write_wrapper, textbundle_write_wrapper; main() of src/main.c (option -> extension mapping, per-file steps of the batch and stream modes, output stream and name), filename_with_extension",
    "not_reached": "argument PARSING of the command-line tool (argtable3 is trusted; main() itself is under contract from parsed option records on: units c06_cli_main_batch / _stream), the -o / -l / -t / -e / -m option paths and more than two batch files; byte equality of packaged outputs (package creators are uninterpreted); the engine core below the mmd_engine_* interface (parser, writers); agreement of the variants for FORMAT_MMD (convert_to_data returns the source text, convert/convert_to_file export an empty body) is not claimed -- the property lists HTML, LaTeX, Beamer, Memoir, OPML",
    "trusted_base": ["cbmc/goto-cc/goto-instrument 6.11.0 (DFCC instrumentation, MiniSat2)", "x86-64 LP64 machine model", "lib/ds_sink.c (DString specification, refined by d_string.c per C19)"],
    "assumptions": ["callees one level below each function under contract are logging contracts: called-with / returned only; their frames are {ghost trace, the text buffer for update_metavalue, the output string for the exporter}",
                    "exported body shorter than 62 bytes in the engine-level units (no loop or branch of the functions under contract depends on it)",
                    "the FORMAT_MMD arm of mmd_engine_convert_to_data and my_strdup are bounded units (text < 10 / 6 bytes)"],
}

_C06_ENGINE = ["mmd_engine_create_with_string", "mmd_engine_create_with_dstring", "mmd_engine_set_language", "mmd_engine_free",
               "mmd_engine_convert", "mmd_engine_convert_to_data", "mmd_engine_convert_to_file", "mmd_engine_parse_string",
               "mmd_engine_has_metadata", "mmd_engine_metadata_keys", "mmd_engine_metavalue_for_key",
               "mmd_engine_update_metavalue_for_key", "mmd_engine_transclusion_manifest",
               "mmd_engine_convert_opml_to_text", "mmd_engine_convert_itmz_to_text", "d_string_free",
               "__CPROVER_file_local_mmd_c_my_strdup"]
_C06_NAMES = {"__CPROVER_file_local_mmd_c_my_strdup": "my_strdup__contract"}
_C06_CALLEES = {"mmd_engine_*": "logging contract (ghost call trace, uninterpreted result)",
                "d_string_free": "logging contract (releases the container)", "my_strdup": "logging contract (proved in c06_my_strdup)"}
_C06_KNOWN_BAD = set()   # mmd_string_convert_to_file never wrote: fixed in /repo 61e9684
for _v in ("string", "d_string"):
    for _x in ("convert", "convert_to_data", "convert_to_file", "has_metadata", "metadata_keys", "metavalue_for_key",
               "update_metavalue_for_key", "transclusion_manifest", "convert_opml_to_text", "convert_itmz_to_text"):
        _n = "%s_%s" % (_v, _x)
        U("c06_" + _n, ["C06"], "h_" + _n, ["C06/wrap.c"], ["mmd.c"], enforce="mmd_" + _n,
          replace=_C06_ENGINE, contracts=_C06_NAMES, lib=(), native=None, callees=_C06_CALLEES, min_obligations=5,
          tier=("thorough" if _n in _C06_KNOWN_BAD else "quick"),
          assumptions=["engine-level callees by logging contract (uninterpreted results)"])

# ---- engine-level entry points: same bytes for the plain-text formats, same package for the packaged ones
_C06_E_REPL = ["mmd_engine_parse_string", "mmd_engine_export_token_tree", "epub_create", "textbundle_create",
               "opendocument_text_create", "opendocument_flat_text_create", "itmz_create", "epub_write_wrapper",
               "textbundle_write_wrapper", "mmd_convert_opml_string", "mmd_convert_itmz_string",
               "fopen", "fputs", "fputc", "fclose", "perror", "d_string_append_c_array"]
_C06_E_CALLEES = {"mmd_engine_parse_string": "logging contract", "mmd_engine_export_token_tree": "contract: writes an uninterpreted body into the EMPTY output string",
                  "epub_create/textbundle_create/opendocument_*_create/itmz_create, *_write_wrapper": "logging contract (uninterpreted package)",
                  "fopen/fputs/fputc/fclose/perror": "logging contract", "d_string_*": "executable specification lib/ds_sink.c (C19)"}
_C06_E_ASSUME = ["exported body shorter than 62 bytes (SINK_CAP of the ghost sink; the functions under contract never look at the body, no loop depends on it)",
                 "engine core (parser, exporter, package creators, stdio) by logging contract"]
_PLAIN_OR_WRAPPED = "(!IS_PACKAGED(format)||format==FORMAT_EPUB||format==FORMAT_TEXTBUNDLE_COMPRESSED)"
U("c06_engine_convert", ["C06", "C05"], "h_engine_convert", ["C06/engine.c"], ["mmd.c"], enforce="mmd_engine_convert",
  replace=_C06_E_REPL, lib=("lib/ds_sink.c",), native=None, timeout=120, cbmc_flags=["--object-bits", "10"], callees=_C06_E_CALLEES, assumptions=_C06_E_ASSUME)
U("c06_engine_convert_to_data", ["C06", "C05"], "h_engine_convert_to_data", ["C06/engine.c"], ["mmd.c"], enforce="mmd_engine_convert_to_data",
  replace=_C06_E_REPL, lib=("lib/ds_sink.c",), native=None, timeout=120, cbmc_flags=["--object-bits", "10"], callees=_C06_E_CALLEES, assumptions=_C06_E_ASSUME + ["format != FORMAT_MMD (that arm: bounded unit c06_engine_convert_to_data_mmd)"])
U("c06_engine_convert_to_file", ["C06", "C05"], "h_engine_convert_to_file", ["C06/engine.c"], ["mmd.c"], enforce="mmd_engine_convert_to_file",
  defines=["-DFILE_FORMATS=" + _PLAIN_OR_WRAPPED],
  replace=_C06_E_REPL, lib=("lib/ds_sink.c",), native=None, timeout=120, cbmc_flags=["--object-bits", "10"], callees=_C06_E_CALLEES,
  assumptions=_C06_E_ASSUME + ["formats: every short except FORMAT_TEXTBUNDLE, FORMAT_ODT, FORMAT_FODT, FORMAT_ITMZ (those: unit c06_engine_convert_to_file_pkg)"])
# GENUINE DEFECT on the unchanged tree (reported): for FORMAT_ODT/FODT/ITMZ mmd_engine_convert_to_file writes the raw exported body
# (default arm) instead of the package convert_to_data returns; for FORMAT_TEXTBUNDLE it writes nothing.  tier=thorough keeps quick green.
U("c06_engine_convert_to_file_pkg", ["C06"], "h_engine_convert_to_file", ["C06/engine.c"], ["mmd.c"], enforce="mmd_engine_convert_to_file",
  defines=["-DFILE_FORMATS=(!" + _PLAIN_OR_WRAPPED + ")"], tier="thorough",
  replace=_C06_E_REPL, lib=("lib/ds_sink.c",), native=None, timeout=120, cbmc_flags=["--object-bits", "10"], callees=_C06_E_CALLEES, assumptions=_C06_E_ASSUME)
U("c06_engine_convert_to_data_mmd", ["C06"], "h_engine_convert_to_data_mmd", ["C06/engine.c"], ["mmd.c"], plain=True, kind="bounded",
  functions=["mmd_engine_convert_to_data"], defines=["-DSINK_CAP=12"], bounds={"text length<": 10, "unwind": 14},
  cbmc_flags=["--unwind", "14", "--unwinding-assertions"], lib=("lib/ds_sink.c",), native=None, timeout=100,
  callees={"mmd_convert_opml_string/mmd_convert_itmz_string": "logging stub", "d_string_*": "executable specification lib/ds_sink.c"})

# ---- package write wrappers (reached by mmd_engine_convert_to_file for EPUB / compressed TextBundle)
# (both called fwrite(&(result->str), ...), writing the DString STRUCT and the heap behind it instead of the package: fixed in /repo faa7273)
for _fn, _file in (("epub_write_wrapper", "epub.c"), ("textbundle_write_wrapper", "textbundle.c")):
    U("c06_" + _fn, ["C06"], "h_" + _fn, ["C06/pkgwrite.c"], [_file], enforce=_fn, timeout=100,
      replace=["epub_create" if _fn.startswith("epub") else "textbundle_create", "fopen", "fwrite", "fclose", "perror"],
      lib=("lib/ds_sink.c",), native=None, cbmc_flags=["--object-bits", "10"],
      callees={"epub_create/textbundle_create": "contract: uninterpreted package of symbolic length", "fopen/fwrite/fclose/perror": "logging contract restating the C standard's preconditions", "d_string_free": "lib/ds_sink.c"},
      assumptions=["package shorter than 2^32 bytes"])

# ---- constructors / helpers the wrappers rely on
for _fn in ("create_with_string", "create_with_dstring"):
    U("c06_" + _fn, ["C06"], "h_" + _fn, ["C06/create.c"], ["mmd.c"], enforce="mmd_engine_" + _fn, replace=["d_string_new", "mmd_engine_create"],
      lib=(), native=None, timeout=100, callees={"d_string_new": "logging contract", "mmd_engine_create": "logging contract (uninterpreted engine)"})
U("c06_set_language", ["C06"], "h_set_language", ["C06/create.c"], ["mmd.c"], enforce="mmd_engine_set_language", lib=(), native=None, timeout=100)
U("c06_my_strdup", ["C06"], "h_my_strdup", ["C06/create.c"], ["mmd.c"], plain=True, kind="bounded", lib=(), native=None, timeout=100,
  functions=["my_strdup"], bounds={"string length<": 6, "unwind": 8}, cbmc_flags=["--unwind", "8", "--unwinding-assertions"],
  callees={"strlen/strcpy/malloc": "CBMC built-in models"}, assumptions=[NOFAIL])

# ---- the command line front end: main() of src/main.c with argtable3, streams and the library by contract
for _nm, _h in (("batch", "h_cli_batch"), ("stream", "h_cli_stream")):
    U("c06_cli_main_" + _nm, ["C06", "C05", "C12"], _h, ["C06/cli.c"], ["main.c"], plain=True, lib=("lib/ds_sink.c",), kind="bounded",
      defines=["-DSINK_CAP=16"],
      pre_instrument=["--generate-function-body", "^(?!__CPROVER_|malloc$|free$|calloc$|strcmp$|strlen$|strcpy$|strrchr$|memcpy$|verif_).*$", "--generate-function-body-options", "nondet-return"],
      cbmc_flags=["--unwind", "22", "--unwinding-assertions", "--object-bits", "10"],
      bounds={"mode": ("-b with two files 'a/x.md' 'bb/y.t'" if _nm == "batch" else "stdin to stdout"), "format": "html (default)", "flag options": "every combination (symbolic counts)", "unwind": 22},
      functions=["main", "filename_with_extension", "my_strdup (main.c)"],
      callees={"argtable3 (arg_lit0 ... arg_parse)": "contract stubs: harness-owned option records with symbolic counts, no parse error", "scan_file, stdin_buffer, mmd_* entry points, token_pool_*": "contract stubs recording their arguments in order",
               "fopen/fwrite/fputs/fclose, dirname (cuts its argument in place, as glibc), realpath": "contract stubs", "d_string_*": "executable specification lib/ds_sink.c"},
      min_obligations=20, timeout=600, cost=40, assumptions=[NOFAIL, "argument parsing itself (argtable3, 5 kLOC third-party) is trusted: the unit starts from parsed option records"])

# ---- -t FORMAT: the format handed to the library and the batch output extension, one unit per format name
for _fs, _fe, _fx in (("latex", "FORMAT_LATEX", ".tex"), ("beamer", "FORMAT_BEAMER", ".tex"), ("memoir", "FORMAT_MEMOIR", ".tex"), ("mmd", "FORMAT_MMD", ".mmdtext"), ("odt", "FORMAT_ODT", ".odt"), ("fodt", "FORMAT_FODT", ".fodt"),
                      ("epub", "FORMAT_EPUB", ".epub"), ("bundle", "FORMAT_TEXTBUNDLE", ".textbundle"), ("bundlezip", "FORMAT_TEXTBUNDLE_COMPRESSED", ".textpack"), ("opml", "FORMAT_OPML", ".opml"), ("itmz", "FORMAT_ITMZ", ".itmz")):
    U("c06_cli_main_batch_to_" + _fs, ["C06"], "h_cli_batch", ["C06/cli.c"], ["main.c"], plain=True, lib=("lib/ds_sink.c",), kind="bounded",
      defines=["-DSINK_CAP=24", '-DFMT_STR="%s"' % _fs, "-DFMT_ENUM=" + _fe, '-DFMT_EXT="%s"' % _fx],
      pre_instrument=["--generate-function-body", "^(?!__CPROVER_|malloc$|free$|calloc$|strcmp$|strlen$|strcpy$|strrchr$|memcpy$|verif_).*$", "--generate-function-body-options", "nondet-return"],
      cbmc_flags=["--unwind", "26", "--unwinding-assertions", "--object-bits", "10"],
      bounds={"mode": "-b -t %s with two files 'a/x.md' 'bb/y.t'" % _fs, "flag options": "every combination (symbolic counts)", "unwind": 22},
      functions=["main", "filename_with_extension"], callees={"as c06_cli_main_batch": "argtable3, streams, dirname, library entry points by contract"},
      min_obligations=20, timeout=600, cost=10, assumptions=[NOFAIL, "argument parsing itself (argtable3) is trusted"])

U("c06_cli_main_onefile_to_o", ["C06"], "h_cli_onefile", ["C06/cli.c"], ["main.c"], plain=True, lib=("lib/ds_sink.c",), kind="bounded",
  defines=["-DSINK_CAP=16"],
  pre_instrument=["--generate-function-body", "^(?!__CPROVER_|malloc$|free$|calloc$|strcmp$|strlen$|strcpy$|strrchr$|memcpy$|verif_).*$", "--generate-function-body-options", "nondet-return"],
  cbmc_flags=["--unwind", "22", "--unwinding-assertions", "--object-bits", "10"],
  bounds={"mode": "one file 'a/x.md', -o o.x", "flag options": "every combination (symbolic counts)", "unwind": 22},
  functions=["main"], callees={"as c06_cli_main_batch": "argtable3, streams, dirname, realpath, library entry points by contract"},
  min_obligations=20, timeout=600, cost=10, assumptions=[NOFAIL, "argument parsing itself (argtable3) is trusted"])

U("c06_cli_main_meta_queries", ["C06", "C11"], "h_cli_meta", ["C06/cli.c"], ["main.c"], plain=True, lib=("lib/ds_sink.c",), kind="bounded",
  defines=["-DSINK_CAP=16", "-DCLI_META"],
  pre_instrument=["--generate-function-body", "^(?!__CPROVER_|malloc$|free$|calloc$|strcmp$|strlen$|strcpy$|strrchr$|memcpy$|verif_).*$", "--generate-function-body-options", "nondet-return"],
  cbmc_flags=["--unwind", "22", "--unwinding-assertions", "--object-bits", "10"],
  bounds={"mode": "stdin, -m or -e title", "flag options": "every combination (symbolic counts)", "unwind": 22},
  functions=["main"], callees={"mmd_string_metadata_keys, mmd_string_metavalue_for_key": "contract stubs recording their arguments (their contracts: c06 wrapper units, c11_metavalue_*)", "as c06_cli_main_stream": "argtable3, streams, library entry points by contract"},
  min_obligations=20, timeout=600, cost=10, assumptions=[NOFAIL, "argument parsing itself (argtable3) is trusted"])

U("c06_cli_main_concat_two_files", ["C06"], "h_cli_concat2", ["C06/cli.c"], ["main.c"], plain=True, lib=("lib/ds_sink.c",), kind="bounded",
  defines=["-DSINK_CAP=16"],
  pre_instrument=["--generate-function-body", "^(?!__CPROVER_|malloc$|free$|calloc$|strcmp$|strlen$|strcpy$|strrchr$|memcpy$|verif_).*$", "--generate-function-body-options", "nondet-return"],
  cbmc_flags=["--unwind", "22", "--unwinding-assertions", "--object-bits", "10"],
  bounds={"mode": "two files of 3 symbolic bytes each, no -b, output to stdout", "flag options": "every combination (symbolic counts)", "unwind": 22},
  functions=["main"], callees={"as c06_cli_main_batch": "argtable3, streams, library entry points by contract", "d_string_*": "executable specification lib/ds_sink.c (the concatenation is checked byte for byte)"},
  min_obligations=20, timeout=600, cost=10, assumptions=[NOFAIL, "argument parsing itself (argtable3) is trusted"])
