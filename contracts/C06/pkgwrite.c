/* C06 -- the package write wrappers epub_write_wrapper (/repo/src/epub.c) and textbundle_write_wrapper
 * (/repo/src/textbundle.c), reached by mmd_engine_convert_to_file for FORMAT_EPUB and
 * FORMAT_TEXTBUNDLE_COMPRESSED.  "convert-to-data and convert-to-file agree": the bytes written to the
 * file are exactly the bytes of the DString the creator returned (what convert_to_data hands back):
 * fwrite is called once on the package buffer with its length.  The creator is an uninterpreted
 * contract returning a package of g_n bytes at g_pkg; stdio calls are logging contracts whose requires
 * clauses restate the C standard (fwrite's source region must be readable).                          */
#include "verif.h"
#include <stdio.h>
#include "libMultiMarkdown.h"
#include "d_string.h"
#include "mmd.h"
#include "epub.h"
#include "textbundle.h"

enum { F_NONE, F_CREATE, F_FOPEN, F_FWRITE, F_FCLOSE, F_PERROR };
typedef struct {
	int fn;
	const void * p, * q, * r;
	unsigned long x;
	long y;
} ev;
#define TR_MAX 6
ev g_tr[TR_MAX];
unsigned g_len;
DString * g_r_ds;	/* the package the creator returns */
char * g_pkg;		/* its bytes */
size_t g_n;			/* its length */
FILE * g_file;

#define EV(i, F, P, Q, R, X, Y) (g_tr[i].fn == (F) && g_tr[i].p == (const void *)(P) && g_tr[i].q == (const void *)(Q) \
	&& g_tr[i].r == (const void *)(R) && g_tr[i].x == (unsigned long)(X) && g_tr[i].y == (long)(Y))
#define LOGS(F, P, Q, R, X, Y) (g_len == OLD(g_len) + 1 && EV(OLD(g_len), F, P, Q, R, X, Y))
#define LOG_PRE (g_len < TR_MAX)
#define LOG_FRAME g_len, g_tr[g_len]

#ifndef VERIF_NATIVE
#define CREATOR(name) DString * name##__contract(DString * body, mmd_engine * e, const char * directory) \
	__CPROVER_requires(LOG_PRE) __CPROVER_ensures(LOGS(F_CREATE, body, e, directory, 0, 0) && RET == g_r_ds) __CPROVER_assigns(LOG_FRAME);
CREATOR(epub_create)
CREATOR(textbundle_create)
FILE * fopen__contract(const char * filename, const char * mode)
__CPROVER_requires(LOG_PRE && __CPROVER_r_ok(mode, 2))
__CPROVER_ensures(LOGS(F_FOPEN, filename, 0, 0, 0, (mode[0] == 'w' && (mode[1] == 0 || (mode[1] == 'b' && mode[2] == 0)))) && RET == g_file) __CPROVER_assigns(LOG_FRAME);
/* C standard: reads size*nmemb bytes starting at ptr */
size_t fwrite__contract(const void * ptr, size_t size, size_t nmemb, FILE * stream)
__CPROVER_requires(LOG_PRE && stream != NULL && (size == 1 || nmemb == 1) && __CPROVER_r_ok(ptr, size == 1 ? nmemb : size))
__CPROVER_ensures(LOGS(F_FWRITE, ptr, stream, 0, (size == 1 ? nmemb : size), 0)) __CPROVER_assigns(LOG_FRAME);
int fclose__contract(FILE * stream)
__CPROVER_requires(LOG_PRE && stream != NULL) __CPROVER_ensures(LOGS(F_FCLOSE, stream, 0, 0, 0, 0)) __CPROVER_assigns(LOG_FRAME);
void perror__contract(const char * s)
__CPROVER_requires(LOG_PRE) __CPROVER_ensures(LOGS(F_PERROR, s, 0, 0, 0, 0)) __CPROVER_assigns(LOG_FRAME);
#endif

#define PRE_write (g_len == 0)
#define POST_write (EV(0, F_CREATE, body, e, directory, 0, 0) && EV(1, F_FOPEN, filepath, 0, 0, 0, 1) && (g_file != NULL \
	? (g_len == 4 && EV(2, F_FWRITE, g_pkg, g_file, 0, g_n, 0) && EV(3, F_FCLOSE, g_file, 0, 0, 0, 0)) \
	: (g_len == 3 && g_tr[2].fn == F_PERROR)))
#define WRITE_FRAME __CPROVER_assigns(g_len, __CPROVER_object_whole(g_tr)) __CPROVER_frees(g_r_ds, g_pkg)
CONTRACT(void, epub_write_wrapper, (const char * filepath, DString * body, mmd_engine * e, const char * directory), PRE_write, POST_write, WRITE_FRAME)
CONTRACT(void, textbundle_write_wrapper, (const char * filepath, DString * body, mmd_engine * e, const char * directory), PRE_write, POST_write, WRITE_FRAME)


/* never called: keeps every replaced callee in the goto binary's symbol table, so that a changed tree which stops
 * calling one of them fails a postcondition instead of making the unit SPEC-STALE (goto-cc drops unreferenced
 * declarations) */
void c06p_keep_symbols(void) { void (*volatile k)(void); k = (void (*)(void))epub_create; k = (void (*)(void))textbundle_create; k = (void (*)(void))fopen; k = (void (*)(void))fwrite; k = (void (*)(void))fclose; k = (void (*)(void))perror; (void)k; }

#ifndef PKG_MAX
#define PKG_MAX (1UL << 32)
#endif
#define GHOST_INIT \
	g_len = 0; \
	{ IN(size_t, n); ASSUME(n < PKG_MAX); g_n = n; g_pkg = ALLOC(n + 1); g_r_ds = ALLOC(sizeof(DString)); \
	  g_r_ds->str = g_pkg; g_r_ds->currentStringLength = n; g_r_ds->currentStringBufferSize = n + 1; \
	  IN(bool, fails); g_file = fails ? NULL : (FILE *)ALLOC(1); }

void h_epub_write_wrapper(void) {
	GHOST_INIT
	IN(const char *, filepath); IN(DString *, body); IN(mmd_engine *, e); IN(const char *, directory);
	CALLV(epub_write_wrapper(filepath, body, e, directory), PRE_write, POST_write)
	REACH();
}
void h_textbundle_write_wrapper(void) {
	GHOST_INIT
	IN(const char *, filepath); IN(DString *, body); IN(mmd_engine *, e); IN(const char *, directory);
	CALLV(textbundle_write_wrapper(filepath, body, e, directory), PRE_write, POST_write)
	REACH();
}
