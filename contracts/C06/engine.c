/* C06 -- the engine-level entry points mmd_engine_convert / _convert_to_data / _convert_to_file of
 * /repo/src/mmd.c (real, unmodified, enforced) over the same kind of ghost call trace as wrap.c.
 * Callees by contract: mmd_engine_parse_string, mmd_engine_export_token_tree (writes an UNINTERPRETED
 * body of g_blen bytes g_body[] into the empty output string), the package creators / write wrappers
 * and the stdio calls.  DString is the executable specification lib/ds_sink.c (C19).
 *
 * Obligations (property statement):
 *  - plain-text formats: convert, convert_to_data and convert_to_file produce THE SAME BYTES: the
 *    exported body followed by exactly one '\n' (returned string / returned DString / bytes written);
 *  - packaged formats: convert_to_data returns what the format's package creator built from the
 *    exported body; convert_to_file must produce the same package (reach the same creator, directly or
 *    through the creator's write wrapper) -- "agree with one another";
 *  - every function documented as writing a result does so for every format it accepts.            */
#include "verif.h"
#include <stdio.h>
#include "libMultiMarkdown.h"
#include "d_string.h"
#include "mmd.h"
#include "epub.h"
#include "textbundle.h"
#include "opendocument.h"
#include "itmz.h"
#include "opml-reader.h"
#include "itmz-reader.h"

#ifndef SINK_CAP
#define SINK_CAP 64
#endif

enum { F_NONE, F_PARSE, F_EXPORT, F_EPUB_CREATE, F_TB_CREATE, F_ODT_CREATE, F_FODT_CREATE, F_ITMZ_CREATE, F_EPUB_WRITE, F_TB_WRITE,
       F_OPML_STR, F_ITMZ_STR, F_FOPEN, F_FPUTS, F_FPUTC, F_FWRITE, F_FCLOSE, F_PERROR
     };
typedef struct {
	int fn;
	const void * p, * q, * r, * s;
	unsigned long x;
	long y;
} ev;
#define TR_MAX 8
ev g_tr[TR_MAX];
unsigned g_len;

char g_body[SINK_CAP];		/* the uninterpreted body the exporter produces */
size_t g_blen;				/* its length */
size_t g_k;					/* ghost index: "byte g_k of ..." is a universally quantified statement */
DString * g_r_ds;			/* uninterpreted result of a package creator */
FILE * g_file;				/* result of fopen (may be NULL) */

#define EV(i, F, P, Q, R, S, X, Y) (g_tr[i].fn == (F) && g_tr[i].p == (const void *)(P) && g_tr[i].q == (const void *)(Q) \
	&& g_tr[i].r == (const void *)(R) && g_tr[i].s == (const void *)(S) && g_tr[i].x == (unsigned long)(X) && g_tr[i].y == (long)(Y))
#define LOGS(F, P, Q, R, S, X, Y) (g_len == OLD(g_len) + 1 && EV(OLD(g_len), F, P, Q, R, S, X, Y))
#define LOG_PRE (g_len < TR_MAX)
#define LOG_FRAME g_len, g_tr[g_len]
/* "the string at s is the body followed by NUL" / "... body, '\n', NUL", at the ghost index */
#define IS_BODY(s) ((s)[g_blen] == 0 && (g_k >= g_blen || (s)[g_k] == g_body[g_k]))
#define IS_BODY_NL(s) ((s)[g_blen] == '\n' && (s)[g_blen + 1] == 0 && (g_k >= g_blen || (s)[g_k] == g_body[g_k]))

#if !defined(VERIF_NATIVE) && !defined(VERIF_PLAIN)
void mmd_engine_parse_string__contract(mmd_engine * e)
__CPROVER_requires(LOG_PRE) __CPROVER_ensures(LOGS(F_PARSE, e, 0, 0, 0, 0, 0)) __CPROVER_assigns(LOG_FRAME);

/* requires an EMPTY output string (nothing may be emitted before the exporter runs) */
void mmd_engine_export_token_tree__contract(DString * out, mmd_engine * e, short format)
__CPROVER_requires(LOG_PRE && out->currentStringLength == 0 && out->currentStringBufferSize == SINK_CAP && out->str[0] == 0)
__CPROVER_ensures(LOGS(F_EXPORT, out, e, 0, 0, 0, format) && out->currentStringLength == g_blen && IS_BODY(out->str))
__CPROVER_assigns(LOG_FRAME, out->currentStringLength, __CPROVER_object_whole(out->str));

#define CREATOR(name, F) DString * name##__contract(DString * body, mmd_engine * e, const char * directory) \
	__CPROVER_requires(LOG_PRE && body->currentStringLength == g_blen && IS_BODY(body->str)) \
	__CPROVER_ensures(LOGS(F, body, e, directory, 0, 0, 0) && RET == g_r_ds) __CPROVER_assigns(LOG_FRAME);
CREATOR(epub_create, F_EPUB_CREATE)
CREATOR(textbundle_create, F_TB_CREATE)
CREATOR(opendocument_text_create, F_ODT_CREATE)
CREATOR(opendocument_flat_text_create, F_FODT_CREATE)
CREATOR(itmz_create, F_ITMZ_CREATE)

#define WRITER(name, F) void name##__contract(const char * filepath, DString * body, mmd_engine * e, const char * directory) \
	__CPROVER_requires(LOG_PRE && body->currentStringLength == g_blen && IS_BODY(body->str)) \
	__CPROVER_ensures(LOGS(F, filepath, body, e, directory, 0, 0)) __CPROVER_assigns(LOG_FRAME);
WRITER(epub_write_wrapper, F_EPUB_WRITE)
WRITER(textbundle_write_wrapper, F_TB_WRITE)

void mmd_convert_opml_string__contract(mmd_engine * e, size_t start, size_t len)
__CPROVER_requires(LOG_PRE) __CPROVER_ensures(LOGS(F_OPML_STR, e, 0, 0, 0, start, len)) __CPROVER_assigns(LOG_FRAME);
void mmd_convert_itmz_string__contract(mmd_engine * e, size_t start, size_t len)
__CPROVER_requires(LOG_PRE) __CPROVER_ensures(LOGS(F_ITMZ_STR, e, 0, 0, 0, start, len)) __CPROVER_assigns(LOG_FRAME);

/* stdio: y of F_FOPEN is 1 iff the mode is "w"; y of F_FPUTS is 1 iff the string is exactly the body */
FILE * fopen__contract(const char * filename, const char * mode)
__CPROVER_requires(LOG_PRE && __CPROVER_r_ok(mode, 2))
__CPROVER_ensures(LOGS(F_FOPEN, filename, 0, 0, 0, 0, (mode[0] == 'w' && mode[1] == 0)) && RET == g_file) __CPROVER_assigns(LOG_FRAME);
int fputs__contract(const char * s, FILE * stream)
__CPROVER_requires(LOG_PRE && stream != NULL && __CPROVER_r_ok(s, g_blen + 1))
__CPROVER_ensures(LOGS(F_FPUTS, s, stream, 0, 0, 0, IS_BODY(s))) __CPROVER_assigns(LOG_FRAME);
int fputc__contract(int c, FILE * stream)
__CPROVER_requires(LOG_PRE && stream != NULL)
__CPROVER_ensures(LOGS(F_FPUTC, stream, 0, 0, 0, 0, c)) __CPROVER_assigns(LOG_FRAME);
int fclose__contract(FILE * stream)
__CPROVER_requires(LOG_PRE && stream != NULL)
__CPROVER_ensures(LOGS(F_FCLOSE, stream, 0, 0, 0, 0, 0)) __CPROVER_assigns(LOG_FRAME);
/* the FORMAT_MMD arm (the only caller of d_string_append_c_array) is excluded by the unit's precondition and
 * decided in the bounded unit c06_engine_convert_to_data_mmd: reaching it here is an error, not an unwinding */
void d_string_append_c_array__contract(DString * baseString, const char * appendedChars, size_t bytes)
__CPROVER_requires(0) __CPROVER_ensures(1) __CPROVER_assigns();
void perror__contract(const char * s)
__CPROVER_requires(LOG_PRE) __CPROVER_ensures(LOGS(F_PERROR, s, 0, 0, 0, 0, 0)) __CPROVER_assigns(LOG_FRAME);
#endif

#define ENG_FRAME __CPROVER_assigns(g_len, __CPROVER_object_whole(g_tr))
#define PRE_E (g_len == 0 && g_blen < SINK_CAP - 2)
/* parse, then export into an empty string, with the caller's engine and format */
#define PARSE_EXPORT (g_len >= 2 && EV(0, F_PARSE, e, 0, 0, 0, 0, 0) && g_tr[1].fn == F_EXPORT && g_tr[1].q == (const void *)e && g_tr[1].y == (long)format)
#define IS_PACKAGED(f) ((f) == FORMAT_EPUB || (f) == FORMAT_TEXTBUNDLE || (f) == FORMAT_TEXTBUNDLE_COMPRESSED || (f) == FORMAT_ODT || (f) == FORMAT_FODT || (f) == FORMAT_ITMZ)
/* the package creator of a packaged format (the one thing convert_to_data and convert_to_file must share) */
#define CREATOR_OF(f) ((f) == FORMAT_EPUB ? F_EPUB_CREATE : ((f) == FORMAT_TEXTBUNDLE || (f) == FORMAT_TEXTBUNDLE_COMPRESSED) ? F_TB_CREATE \
	: (f) == FORMAT_ODT ? F_ODT_CREATE : (f) == FORMAT_FODT ? F_FODT_CREATE : F_ITMZ_CREATE)

/* ---- mmd_engine_convert: body + "\n" ---------------------------------------------------------- */
#define PRE_engine_convert PRE_E
#define POST_engine_convert (g_len == 2 && PARSE_EXPORT && IS_BODY_NL(RET))
CONTRACT(char *, mmd_engine_convert, (mmd_engine * e, short format), PRE_engine_convert, POST_engine_convert, ENG_FRAME)

/* ---- mmd_engine_convert_to_data ---------------------------------------------------------------- */
#define PRE_engine_convert_to_data (PRE_E && format != FORMAT_MMD)
#define POST_engine_convert_to_data (PARSE_EXPORT && (IS_PACKAGED(format) \
	? (g_len == 3 && EV(2, CREATOR_OF(format), g_tr[1].p, e, directory, 0, 0, 0) && RET == g_r_ds) \
	: (g_len == 2 && RET == (DString *)g_tr[1].p && RET->currentStringLength == g_blen + 1 && IS_BODY_NL(RET->str))))
CONTRACT(DString *, mmd_engine_convert_to_data, (mmd_engine * e, short format, const char * directory), PRE_engine_convert_to_data, POST_engine_convert_to_data, ENG_FRAME)

/* FORMAT_MMD: "simply return text": a copy of the engine's text, no newline added, nothing exported */
#define PRE_engine_convert_to_data_mmd (g_len == 0 && format == FORMAT_MMD && e->dstr->currentStringLength == g_blen && g_blen < SINK_CAP - 2 && IS_BODY(e->dstr->str))
#define POST_engine_convert_to_data_mmd (RET->currentStringLength == g_blen && IS_BODY(RET->str) && RET != e->dstr \
	&& ((e->extensions & EXT_PARSE_OPML) ? (g_len == 1 && EV(0, F_OPML_STR, e, 0, 0, 0, 0, g_blen)) \
		: (e->extensions & EXT_PARSE_ITMZ) ? (g_len == 1 && EV(0, F_ITMZ_STR, e, 0, 0, 0, 0, g_blen)) : g_len == 0))

/* ---- mmd_engine_convert_to_file ---------------------------------------------------------------- */
/* plain-text formats: the file receives body + "\n" (fopen "w" . fputs(body) . fputc('\n') . fclose);
 * if the file cannot be opened nothing is written and the error is reported */
#define FILE_PLAIN ((g_file != NULL) \
	? (g_len == 6 && EV(2, F_FOPEN, filepath, 0, 0, 0, 0, 1) && EV(3, F_FPUTS, g_tr[3].p, g_file, 0, 0, 0, 1) \
		&& EV(4, F_FPUTC, g_file, 0, 0, 0, 0, '\n') && EV(5, F_FCLOSE, g_file, 0, 0, 0, 0, 0)) \
	: (g_len == 4 && EV(2, F_FOPEN, filepath, 0, 0, 0, 0, 1) && g_tr[3].fn == F_PERROR))
/* packaged formats: the package written is the one convert_to_data returns: the format's creator is
 * reached with the exported body, the engine and the directory -- through its write wrapper where the
 * tree has one (epub_write_wrapper / textbundle_write_wrapper, see units c06_*_write_wrapper) */
#define FILE_PACKAGED (g_len >= 3 && ( \
	(format == FORMAT_EPUB && EV(2, F_EPUB_WRITE, filepath, g_tr[1].p, e, directory, 0, 0)) \
	|| ((format == FORMAT_TEXTBUNDLE || format == FORMAT_TEXTBUNDLE_COMPRESSED) && EV(2, F_TB_WRITE, filepath, g_tr[1].p, e, directory, 0, 0)) \
	|| EV(2, CREATOR_OF(format), g_tr[1].p, e, directory, 0, 0, 0)))
#ifndef FILE_FORMATS
#define FILE_FORMATS 1
#endif
#define PRE_engine_convert_to_file (PRE_E && (FILE_FORMATS))
#define POST_engine_convert_to_file (PARSE_EXPORT && (IS_PACKAGED(format) ? FILE_PACKAGED : FILE_PLAIN))
CONTRACT(void, mmd_engine_convert_to_file, (mmd_engine * e, short format, const char * directory, const char * filepath), PRE_engine_convert_to_file, POST_engine_convert_to_file, ENG_FRAME)


/* never called: keeps every replaced callee in the goto binary's symbol table, so that a changed tree which stops
 * calling one of them fails a postcondition instead of making the unit SPEC-STALE (goto-cc drops unreferenced
 * declarations) */
void c06e_keep_symbols(void) { void (*volatile k)(void); k = (void (*)(void))mmd_engine_parse_string; k = (void (*)(void))mmd_engine_export_token_tree; k = (void (*)(void))epub_create; k = (void (*)(void))textbundle_create; k = (void (*)(void))opendocument_text_create; k = (void (*)(void))opendocument_flat_text_create; k = (void (*)(void))itmz_create; k = (void (*)(void))epub_write_wrapper; k = (void (*)(void))textbundle_write_wrapper; k = (void (*)(void))mmd_convert_opml_string; k = (void (*)(void))mmd_convert_itmz_string; k = (void (*)(void))fopen; k = (void (*)(void))fputs; k = (void (*)(void))fputc; k = (void (*)(void))fclose; k = (void (*)(void))perror; k = (void (*)(void))d_string_append_c_array; (void)k; }

/* ------------------------------------------------------------------ harnesses */
#define GHOST_INIT \
	g_len = 0; \
	{ IN(size_t, bl); g_blen = bl; IN(size_t, k); g_k = k; g_r_ds = ALLOC(sizeof(DString)); IN(bool, fails); g_file = fails ? NULL : (FILE *)ALLOC(1); } \
	{ IN_ARR(char, body, SINK_CAP); for (int i = 0; i < SINK_CAP; i++) { g_body[i] = body[i]; } }
#define MK_ENGINE \
	mmd_engine * e = ALLOC(sizeof(mmd_engine)); \
	{ IN(unsigned long, ext); e->extensions = ext; \
	  /* the engine's text: a real object that is NOT in the assigns clause -- the entry points convert it, they do not edit it (C05: source unchanged) */ \
	  DString * ds = ALLOC(sizeof(DString)); ds->str = ALLOC(4); ds->str[3] = 0; ds->currentStringLength = 3; ds->currentStringBufferSize = 4; e->dstr = ds; }

void h_engine_convert(void) {
	GHOST_INIT MK_ENGINE
	IN(short, format);
	CALLR(char *, mmd_engine_convert(e, format), PRE_engine_convert, POST_engine_convert)
	REACH();
}
void h_engine_convert_to_data(void) {
	GHOST_INIT MK_ENGINE
	IN(short, format); IN(const char *, directory);
	CALLR(DString *, mmd_engine_convert_to_data(e, format, directory), PRE_engine_convert_to_data, POST_engine_convert_to_data)
	REACH();
}
void h_engine_convert_to_file(void) {
	GHOST_INIT MK_ENGINE
	IN(short, format); IN(const char *, directory); IN(const char *, filepath);
	CALLV(mmd_engine_convert_to_file(e, format, directory, filepath), PRE_engine_convert_to_file, POST_engine_convert_to_file)
	REACH();
}
#ifdef VERIF_PLAIN
/* bounded (text length < SINK_CAP - 2): harness-encoded contract, callee stubs logging into the trace */
void mmd_convert_opml_string(mmd_engine * e, size_t start, size_t len) { ASSERT(g_len < TR_MAX, "trace"); g_tr[g_len].fn = F_OPML_STR; g_tr[g_len].p = e; g_tr[g_len].x = start; g_tr[g_len].y = (long)len; g_len++; }
void mmd_convert_itmz_string(mmd_engine * e, size_t start, size_t len) { ASSERT(g_len < TR_MAX, "trace"); g_tr[g_len].fn = F_ITMZ_STR; g_tr[g_len].p = e; g_tr[g_len].x = start; g_tr[g_len].y = (long)len; g_len++; }
void h_engine_convert_to_data_mmd(void) {
	GHOST_INIT MK_ENGINE
	for (int i = 0; i < TR_MAX; i++) { g_tr[i].fn = 0; g_tr[i].p = g_tr[i].q = g_tr[i].r = g_tr[i].s = 0; g_tr[i].x = 0; g_tr[i].y = 0; }
	e->dstr = ALLOC(sizeof(DString)); e->dstr->str = ALLOC(SINK_CAP); e->dstr->currentStringBufferSize = SINK_CAP;
	{ IN(size_t, sl); e->dstr->currentStringLength = sl; for (int i = 0; i < SINK_CAP; i++) { e->dstr->str[i] = (i < g_blen) ? g_body[i] : 0; } }
	short format = FORMAT_MMD; IN(const char *, directory);	/* concrete: symex must not enter the parser */
	CALLR(DString *, mmd_engine_convert_to_data(e, format, directory), PRE_engine_convert_to_data_mmd, POST_engine_convert_to_data_mmd)
	REACH();
}
#endif
