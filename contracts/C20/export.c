/* C20 (b) -- mmd_engine_export_token_tree (/repo/src/writer.c, real, unmodified, enforced under DFCC):
 * "wrapper emitted strictly before and after the body export".  Every callee is used by a logging
 * contract (ghost call trace); process_metadata_stack (unit c20_process_metadata_stack_*) leaves the
 * scratch pad with ARBITRARY post-metadata extensions g_ext2 and output format g_fmt2, so the unit
 * covers every outcome of the complete/snippet decision and every output format (symbolic short).
 *
 * Obligations, with C := (g_ext2 & EXT_COMPLETE), or always for the EPUB/TextBundle family:
 *   - the format's document header routine is called iff C, and IMMEDIATELY before the body exporter
 *     (nothing is emitted between the header and the body, nothing before the header);
 *   - the body exporter of the format is called exactly once, on (out, e->dstr->str, e->root, scratch);
 *   - the note / citation lists follow the body; the footer routine is called iff C, after them, and
 *     nothing that can emit follows it (only scratch_pad_free, which has no output argument);
 *   - header and footer are decided by the same bit (a header is never left unclosed).
 * writer.c is included textually (see meta.c for why).                                             */
#include "writer.c"
#include "verif.h"

enum { F_NONE, F_DEFS, F_HEADERS, F_TABLES, F_SCRATCH_NEW, F_PMS, F_SEARCH_TERMS, F_SCRATCH_FREE,
       F_START_HTML, F_END_HTML, F_START_LATEX, F_END_LATEX, F_END_BEAMER,
       F_BODY_HTML, F_BODY_LATEX, F_BODY_BEAMER, F_BODY_MEMOIR, F_BODY_ODF, F_BODY_OPML, F_BODY_ITMZ,
       F_FN_HTML, F_GL_HTML, F_CIT_HTML, F_CIT_LATEX, F_CIT_BEAMER, F_OUTLINE_BEAMER
     };
typedef struct { int fn; const void * p, * q, * r, * s; long y; } ev;
#define TR_MAX 16
ev g_tr[TR_MAX];
unsigned g_len;
scratch_pad * g_scratch;		/* what scratch_pad_new returns */
unsigned long g_ext2;			/* scratch->extensions after process_metadata_stack */
short g_fmt2;					/* scratch->output_format after process_metadata_stack */

#define EV(i, F, P, Q, R, S, Y) (g_tr[i].fn == (F) && g_tr[i].p == (const void *)(P) && g_tr[i].q == (const void *)(Q) \
	&& g_tr[i].r == (const void *)(R) && g_tr[i].s == (const void *)(S) && g_tr[i].y == (long)(Y))
#define LOGS(F, P, Q, R, S, Y) (g_len == OLD(g_len) + 1 && EV(OLD(g_len), F, P, Q, R, S, Y))
#define LOG_PRE (g_len < TR_MAX)
#define LOG_FRAME g_len, g_tr[g_len]

#if !defined(VERIF_NATIVE) && !defined(VERIF_PLAIN)
#define ENG1(name, F) void name##__contract(mmd_engine * e) __CPROVER_requires(LOG_PRE) __CPROVER_ensures(LOGS(F, e, 0, 0, 0, 0)) __CPROVER_assigns(LOG_FRAME);
ENG1(process_definition_stack, F_DEFS)
ENG1(process_header_stack, F_HEADERS)
ENG1(process_table_stack, F_TABLES)
scratch_pad * scratch_pad_new__contract(mmd_engine * e, short format)
__CPROVER_requires(LOG_PRE) __CPROVER_ensures(LOGS(F_SCRATCH_NEW, e, 0, 0, 0, format) && RET == g_scratch) __CPROVER_assigns(LOG_FRAME);
/* the decision (unit c20_process_metadata_stack_*): afterwards extensions / format are g_ext2 / g_fmt2 */
void process_metadata_stack__contract(mmd_engine * e, scratch_pad * scratch)
__CPROVER_requires(LOG_PRE && scratch == g_scratch)
__CPROVER_ensures(LOGS(F_PMS, e, scratch, 0, 0, 0) && scratch->extensions == g_ext2 && scratch->output_format == g_fmt2)
__CPROVER_assigns(LOG_FRAME, scratch->extensions, scratch->base_header_level, scratch->language, scratch->quotes_lang, scratch->output_format, scratch->bibtex_file);
void identify_global_search_terms__contract(mmd_engine * e, scratch_pad * scratch)
__CPROVER_requires(LOG_PRE) __CPROVER_ensures(LOGS(F_SEARCH_TERMS, e, scratch, 0, 0, 0)) __CPROVER_assigns(LOG_FRAME);
void scratch_pad_free__contract(scratch_pad * scratch)
__CPROVER_requires(LOG_PRE && scratch == g_scratch) __CPROVER_ensures(LOGS(F_SCRATCH_FREE, scratch, 0, 0, 0, 0)) __CPROVER_assigns(LOG_FRAME) __CPROVER_frees(scratch);
/* routines that can emit: (out, source, scratch) and (out, source, token, scratch) */
#define OUT3(name, F) void name##__contract(DString * out, const char * source, scratch_pad * scratch) \
	__CPROVER_requires(LOG_PRE) __CPROVER_ensures(LOGS(F, out, source, 0, scratch, 0)) __CPROVER_assigns(LOG_FRAME);
#define OUT4(name, F) void name##__contract(DString * out, const char * source, token * t, scratch_pad * scratch) \
	__CPROVER_requires(LOG_PRE) __CPROVER_ensures(LOGS(F, out, source, t, scratch, 0)) __CPROVER_assigns(LOG_FRAME);
OUT3(mmd_start_complete_html, F_START_HTML)
OUT3(mmd_end_complete_html, F_END_HTML)
OUT3(mmd_start_complete_latex, F_START_LATEX)
OUT3(mmd_end_complete_latex, F_END_LATEX)
OUT3(mmd_end_complete_beamer, F_END_BEAMER)
OUT3(mmd_export_footnote_list_html, F_FN_HTML)
OUT3(mmd_export_glossary_list_html, F_GL_HTML)
OUT3(mmd_export_citation_list_html, F_CIT_HTML)
OUT3(mmd_export_citation_list_latex, F_CIT_LATEX)
OUT3(mmd_export_citation_list_beamer, F_CIT_BEAMER)
OUT4(mmd_export_token_tree_html, F_BODY_HTML)
OUT4(mmd_export_token_tree_latex, F_BODY_LATEX)
OUT4(mmd_export_token_tree_beamer, F_BODY_BEAMER)
OUT4(mmd_export_token_tree_memoir, F_BODY_MEMOIR)
OUT4(mmd_export_token_tree_opendocument, F_BODY_ODF)
OUT4(mmd_export_token_tree_opml, F_BODY_OPML)
OUT4(mmd_export_token_tree_itmz, F_BODY_ITMZ)
void mmd_outline_add_beamer__contract(DString * out, token * current, scratch_pad * scratch)
__CPROVER_requires(LOG_PRE) __CPROVER_ensures(LOGS(F_OUTLINE_BEAMER, out, 0, current, scratch, 0)) __CPROVER_assigns(LOG_FRAME);
#endif

/* ---- the specification of the trace ---- */
#define SRC (e->dstr->str)
/* prelude: reference tables, scratch pad, metadata decision, search terms (unless compatibility mode); none of
 * these routines has an output argument */
#define NPRE (5u + ((e->extensions & EXT_COMPATIBILITY) ? 0u : 1u))
#define PRELUDE (g_len >= NPRE + 1 && EV(0, F_DEFS, e, 0, 0, 0, 0) && EV(1, F_HEADERS, e, 0, 0, 0, 0) && EV(2, F_TABLES, e, 0, 0, 0, 0) \
	&& EV(3, F_SCRATCH_NEW, e, 0, 0, 0, format) && EV(4, F_PMS, e, g_scratch, 0, 0, 0) \
	&& ((e->extensions & EXT_COMPATIBILITY) || EV(5, F_SEARCH_TERMS, e, g_scratch, 0, 0, 0)))
#define FAMILY_HTML(f) ((f) == FORMAT_HTML || (f) == FORMAT_HTML_WITH_ASSETS)
#define FAMILY_PKG(f) ((f) == FORMAT_EPUB || (f) == FORMAT_TEXTBUNDLE || (f) == FORMAT_TEXTBUNDLE_COMPRESSED)
#define HAS_WRAPPER(f) (FAMILY_HTML(f) || FAMILY_PKG(f) || (f) == FORMAT_LATEX || (f) == FORMAT_BEAMER || (f) == FORMAT_MEMOIR)
/* complete? (the packaged HTML formats are always complete documents) */
#define CPL (FAMILY_PKG(g_fmt2) || (HAS_WRAPPER(g_fmt2) && (g_ext2 & EXT_COMPLETE)))
#define c_ (CPL ? 1u : 0u)
#define B_ (NPRE + c_)					/* index of the body event */
#define START_OF(f) ((f) == FORMAT_LATEX || (f) == FORMAT_BEAMER || (f) == FORMAT_MEMOIR ? F_START_LATEX : F_START_HTML)
#define END_OF(f) ((f) == FORMAT_BEAMER ? F_END_BEAMER : ((f) == FORMAT_LATEX || (f) == FORMAT_MEMOIR) ? F_END_LATEX : F_END_HTML)
#define BODY_OF(f) ((FAMILY_HTML(f) || FAMILY_PKG(f)) ? F_BODY_HTML : (f) == FORMAT_LATEX ? F_BODY_LATEX : (f) == FORMAT_BEAMER ? F_BODY_BEAMER : (f) == FORMAT_MEMOIR ? F_BODY_MEMOIR \
	: ((f) == FORMAT_ODT || (f) == FORMAT_FODT) ? F_BODY_ODF : (f) == FORMAT_OPML ? F_BODY_OPML : F_BODY_ITMZ)
#define HAS_BODY(f) (HAS_WRAPPER(f) || (f) == FORMAT_ODT || (f) == FORMAT_FODT || (f) == FORMAT_OPML || (f) == FORMAT_ITMZ)
/* number of list routines after the body, and which */
#define NLISTS(f) ((FAMILY_HTML(f) || FAMILY_PKG(f)) ? 3u : ((f) == FORMAT_LATEX || (f) == FORMAT_MEMOIR) ? 1u : (f) == FORMAT_BEAMER ? 2u : 0u)
#define LISTS(f, i) ((FAMILY_HTML(f) || FAMILY_PKG(f)) ? (EV(i, F_FN_HTML, out, SRC, 0, g_scratch, 0) && EV((i) + 1, F_GL_HTML, out, SRC, 0, g_scratch, 0) && EV((i) + 2, F_CIT_HTML, out, SRC, 0, g_scratch, 0)) \
	: ((f) == FORMAT_LATEX || (f) == FORMAT_MEMOIR) ? EV(i, F_CIT_LATEX, out, SRC, 0, g_scratch, 0) \
	: (f) == FORMAT_BEAMER ? (EV(i, F_OUTLINE_BEAMER, out, 0, 0, g_scratch, 0) && EV((i) + 1, F_CIT_BEAMER, out, SRC, 0, g_scratch, 0)) : 1)
#define E_ (B_ + 1u + NLISTS(g_fmt2))	/* index of the footer event (if complete), else of scratch_pad_free */

#define PRE_export (g_len == 0 && e != NULL && e->dstr != NULL)
#define POST_export (PRELUDE && (HAS_BODY(g_fmt2) \
	? (g_len == E_ + c_ + 1u \
		/* header iff complete, immediately before the body, nothing emitted before it */ \
		&& (!CPL || EV(NPRE, START_OF(g_fmt2), out, SRC, 0, g_scratch, 0)) \
		/* the body, once, on the engine's tree */ \
		&& EV(B_, BODY_OF(g_fmt2), out, SRC, e->root, g_scratch, 0) \
		&& LISTS(g_fmt2, B_ + 1u) \
		/* footer iff complete, after everything else that can emit */ \
		&& (!CPL || EV(E_, END_OF(g_fmt2), out, SRC, 0, g_scratch, 0)) \
		&& EV(E_ + c_, F_SCRATCH_FREE, g_scratch, 0, 0, 0, 0)) \
	: (g_len == NPRE + 1u && EV(NPRE, F_SCRATCH_FREE, g_scratch, 0, 0, 0, 0))))
CONTRACT(void, mmd_engine_export_token_tree, (DString * out, mmd_engine * e, short format), PRE_export, POST_export,
	__CPROVER_assigns(g_len, __CPROVER_object_whole(g_tr), e->asset_hash, e->random_seed_base_labels, g_scratch->extensions, g_scratch->base_header_level, g_scratch->language,
		g_scratch->quotes_lang, g_scratch->output_format, g_scratch->bibtex_file, g_scratch->store_assets, g_scratch->remember_assets) __CPROVER_frees(g_scratch))


/* never called: keeps every replaced callee in the goto binary's symbol table, so that a changed tree which stops
 * calling one of them fails a postcondition instead of making the unit SPEC-STALE (goto-cc drops unreferenced
 * declarations) */
void c20x_keep_symbols(void) { void (*volatile k)(void); k = (void (*)(void))process_definition_stack; k = (void (*)(void))process_header_stack; k = (void (*)(void))process_table_stack; k = (void (*)(void))scratch_pad_new; k = (void (*)(void))process_metadata_stack; k = (void (*)(void))identify_global_search_terms; k = (void (*)(void))scratch_pad_free; k = (void (*)(void))mmd_start_complete_html; k = (void (*)(void))mmd_end_complete_html; k = (void (*)(void))mmd_start_complete_latex; k = (void (*)(void))mmd_end_complete_latex; k = (void (*)(void))mmd_end_complete_beamer; k = (void (*)(void))mmd_export_footnote_list_html; k = (void (*)(void))mmd_export_glossary_list_html; k = (void (*)(void))mmd_export_citation_list_html; k = (void (*)(void))mmd_export_citation_list_latex; k = (void (*)(void))mmd_export_citation_list_beamer; k = (void (*)(void))mmd_export_token_tree_html; k = (void (*)(void))mmd_export_token_tree_latex; k = (void (*)(void))mmd_export_token_tree_beamer; k = (void (*)(void))mmd_export_token_tree_memoir; k = (void (*)(void))mmd_export_token_tree_opendocument; k = (void (*)(void))mmd_export_token_tree_opml; k = (void (*)(void))mmd_export_token_tree_itmz; k = (void (*)(void))mmd_outline_add_beamer; (void)k; }

void h_export(void) {
	g_len = 0;
	{ IN(unsigned long, x2); g_ext2 = x2; IN(short, f2); g_fmt2 = f2; }
	g_scratch = ALLOC(sizeof(scratch_pad));
	{ IN(unsigned long, sx); g_scratch->extensions = sx; IN(short, sf); g_scratch->output_format = sf; IN(struct asset *, ah); g_scratch->asset_hash = ah; IN(int, seed); g_scratch->random_seed_base_labels = seed; }
	mmd_engine * e = ALLOC(sizeof(mmd_engine));
	e->dstr = ALLOC(sizeof(DString));
	{ IN(char *, src); e->dstr->str = src; IN(token *, root); e->root = root; IN(unsigned long, ext); e->extensions = ext; }
	IN(DString *, out); IN(short, format);
	CALLV(mmd_engine_export_token_tree(out, e, format), PRE_export, POST_export)
	REACH();
}
