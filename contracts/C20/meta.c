/* C20 (a) -- process_metadata_stack (/repo/src/writer.c, real, unmodified, enforced under DFCC): the
 * complete-vs-snippet decision and the "only listed keys feed the scratch pad" frame.
 *
 * From the property statement: "without either switch the output is exactly one of the two -- complete
 * precisely when the document carries metadata beyond the rendering-control keys".  The rendering-control
 * keys are the ones that only tune the rendering of the body: the base header level family
 * (baseheaderlevel, epub/html/xhtml/latex/odf headerlevel), language, quoteslanguage and latexmode.
 * `bibtex` names a bibliography FILE, i.e. document content that only a complete (LaTeX) document can
 * carry: it is metadata "beyond" the control keys and forces a complete document (this is also what the
 * tree does; the property's second list -- keys through which metadata may change the BODY -- is a
 * different set: it also contains mmd header/footer and variable values, which nobody reads as control keys).
 *
 *   EXT_NO_METADATA / EXT_COMPATIBILITY  => nothing is touched
 *   EXT_SNIPPET set                      => extensions unchanged
 *   otherwise   extensions' == extensions | (some key outside CONTROL ? EXT_COMPLETE : 0)
 * The postcondition mentions the keys only through the symmetric ghost g_seen_other (an OR over the
 * keys), so it is independent of key order.  The assigns clause lists the six scratch fields the
 * metadata may feed; DFCC checks every write of the real function against it (the engine, the metadata
 * stack, the meta records and every other scratch field are outside the frame).
 *
 * Bounded: <= META_MAX metadata records, keys drawn from a table of concrete strings (all control keys,
 * bibtex, and two ordinary keys); values are uninterpreted (label_from_string / atoi / my_strdup by
 * contract).                                                                                       */
/* writer.c is INCLUDED textually (real, unmodified): scratch_pad is a typedef of an anonymous struct, whose
 * CBMC type tag differs between translation units (goto-instrument --dfcc aborts on the mismatch between the
 * contract's and the function's parameter types), and my_strdup is a static of writer.c */
#include "writer.c"
#include "verif.h"

#ifndef META_MAX
#define META_MAX 3
#endif

static const char * const KEYS[] = {
	"baseheaderlevel", "epubheaderlevel", "htmlheaderlevel", "xhtmlheaderlevel", "latexheaderlevel", "odfheaderlevel",
	"language", "quoteslanguage", "latexmode",
	/* everything from here on is metadata beyond the control keys */
	"bibtex", "title", "baseheaderlevels"
};
#define N_KEYS 12
#define N_CONTROL 9
#define K_BASE 0
#define K_EPUB 1
#define K_HTML 2
#define K_XHTML 3
#define K_LATEX 4
#define K_ODF 5
#define K_LANGUAGE 6
#define K_QUOTES 7
#define K_LATEXMODE 8
#define K_BIBTEX 9

/* ghosts computed by the harness from the chosen keys (symmetric in the keys) */
bool g_seen_other;		/* some key outside CONTROL */
bool g_seen[N_KEYS];	/* key i occurs */
char g_lab[4];			/* what label_from_string returns (uninterpreted, 3 chars + NUL) */
int g_int;				/* what atoi returns */
char * g_dup;			/* what my_strdup returns */

#if !defined(VERIF_NATIVE) && !defined(VERIF_PLAIN)
char * label_from_string__contract(const char * str)
__CPROVER_requires(str != NULL)
__CPROVER_ensures(__CPROVER_is_fresh(RET, 4) && RET[0] == g_lab[0] && RET[1] == g_lab[1] && RET[2] == g_lab[2] && RET[3] == 0)
__CPROVER_assigns();
int atoi__contract(const char * nptr)
__CPROVER_requires(nptr != NULL) __CPROVER_ensures(RET == g_int) __CPROVER_assigns();
char * my_strdup__contract(const char * source)
__CPROVER_requires(1) __CPROVER_ensures(RET == g_dup) __CPROVER_assigns();
#endif

#define SKIPS(x) (((x) & EXT_NO_METADATA) || ((x) & EXT_COMPATIBILITY))
#define LATEX_FAMILY(f) ((f) == FORMAT_LATEX || (f) == FORMAT_BEAMER || (f) == FORMAT_MEMOIR)
/* a header level key that applies to the output format was seen */
#define HDR_APPLIES(f) (g_seen[K_BASE] || (g_seen[K_EPUB] && (f) == FORMAT_EPUB) || ((g_seen[K_HTML] || g_seen[K_XHTML]) && (f) == FORMAT_HTML) \
	|| (g_seen[K_LATEX] && LATEX_FAMILY(f)) || (g_seen[K_ODF] && ((f) == FORMAT_ODT || (f) == FORMAT_FODT)))

#define PRE_pms (e != NULL && scratch != NULL)
#define POST_pms ( \
	/* the decision */ \
	scratch->extensions == (OLD(scratch->extensions) | ((!SKIPS(OLD(scratch->extensions)) && !(OLD(scratch->extensions) & EXT_SNIPPET) && g_seen_other) ? (unsigned long)EXT_COMPLETE : 0ul)) \
	/* metadata switched off: nothing is fed into the scratch pad */ \
	&& (!SKIPS(OLD(scratch->extensions)) || (scratch->base_header_level == OLD(scratch->base_header_level) && scratch->language == OLD(scratch->language) \
		&& scratch->quotes_lang == OLD(scratch->quotes_lang) && scratch->output_format == OLD(scratch->output_format) && scratch->bibtex_file == OLD(scratch->bibtex_file))) \
	/* each field changes only through its own key(s) */ \
	&& (g_seen[K_LANGUAGE] || scratch->language == OLD(scratch->language)) \
	&& (g_seen[K_LANGUAGE] || g_seen[K_QUOTES] || scratch->quotes_lang == OLD(scratch->quotes_lang)) \
	&& (g_seen[K_BIBTEX] || scratch->bibtex_file == OLD(scratch->bibtex_file)) \
	&& (scratch->output_format == OLD(scratch->output_format) || (g_seen[K_LATEXMODE] && OLD(scratch->output_format) == FORMAT_LATEX && LATEX_FAMILY(scratch->output_format))) \
	&& ((!SKIPS(OLD(scratch->extensions)) && HDR_APPLIES(OLD(scratch->output_format))) \
		? (scratch->base_header_level == (short)g_int || ((short)g_int == -10 && scratch->base_header_level == OLD(scratch->base_header_level)))  /* -10 is the "unset" sentinel of the code */ \
		: scratch->base_header_level == OLD(scratch->base_header_level)))
CONTRACT(void, process_metadata_stack, (mmd_engine * e, scratch_pad * scratch), PRE_pms, POST_pms,
	__CPROVER_assigns(scratch->extensions, scratch->base_header_level, scratch->language, scratch->quotes_lang, scratch->output_format, scratch->bibtex_file))

void h_pms(void) {
	mmd_engine * e = ALLOC(sizeof(mmd_engine));
	scratch_pad * scratch = ALLOC(sizeof(scratch_pad));
	{ IN(unsigned long, ext); scratch->extensions = ext; IN(short, fmt); scratch->output_format = fmt; IN(short, bhl); scratch->base_header_level = bhl;
	  IN(short, lang); scratch->language = lang; IN(short, ql); scratch->quotes_lang = ql; IN(char *, bib); scratch->bibtex_file = bib; }
	{ IN(int, gi); g_int = gi; IN(char *, gd); g_dup = gd; IN_ARR(char, lab, 3); g_lab[0] = lab[0]; g_lab[1] = lab[1]; g_lab[2] = lab[2]; g_lab[3] = 0; }
	IN(int, n); ASSUME(n >= 0 && n <= META_MAX);
	stack * st = ALLOC(sizeof(stack));
	st->element = ALLOC(sizeof(void *) * META_MAX); st->capacity = META_MAX; st->size = (size_t)n;
	e->metadata_stack = st;
	g_seen_other = false;
	for (int i = 0; i < N_KEYS; i++) { g_seen[i] = false; }
	IN_ARR(unsigned char, which, META_MAX);
	for (int i = 0; i < META_MAX; i++) {
		if (i < n) {
			ASSUME(which[i] < N_KEYS);
			meta * m = ALLOC(sizeof(meta));
			m->key = (char *)KEYS[which[i]];
			m->value = ALLOC(1); m->value[0] = 0;	/* never read: its consumers are contracts */
			st->element[i] = m;
			g_seen[which[i]] = true;
			if (which[i] >= N_CONTROL) { g_seen_other = true; }
		}
	}
	CALLV(process_metadata_stack(e, scratch), PRE_pms, POST_pms)
	REACH();
}
