/* C20 -- "the wrapper never changes the body rendering": mmd_start_complete_latex / mmd_start_complete_html (the real functions) only
 * READ the metadata table: key text, value text and the hash key pointer of a record are the same after the call as before.  The
 * body's [%key] variables are resolved through that table (HASH_FIND_STR on the same records) after the wrapper was written, so a
 * wrapper that normalised a key in place would make the complete rendering differ from the snippet.  One metadata record per unit
 * (-DWF_KEY: concrete key, uthash runs concretely), value of any content. */
#include "verif.h"
#include <stdio.h>
#include "d_string.h"
#include "token.h"
#include "writer.h"
#include "mmd.h"
#include "uthash.h"
void WF_FN(DString * out, const char * source, scratch_pad * scratch);
void d_string_append(DString * d, const char * s) { }
void d_string_append_c_array(DString * d, const char * s, size_t n) { }
void d_string_append_c(DString * d, char c) { }
void d_string_append_printf(DString * d, const char * fmt, ...) { }
void WF_PRINT_STRING { }
#ifdef WF_GLOSS
void WF_GLOSS(DString * out, const char * source, scratch_pad * scratch) { }
#endif
/* extract_meta_from_stack (writer.c): the record for a key, found in the same table -- by contract: NULL or the harness record, read-only */
static meta * g_rec;
meta * extract_meta_from_stack(scratch_pad * scratch, const char * target) { bool found; return found ? g_rec : NULL; }
asset * extract_asset(scratch_pad * scratch, char * url) { asset * a = malloc(sizeof(asset)); a->asset_path = malloc(2); a->asset_path[0] = 'u'; a->asset_path[1] = 0; return a; }
void store_asset(scratch_pad * scratch_pad, char * url) { }
void h_wframe(void) {
	scratch_pad * scratch = ALLOC(sizeof(scratch_pad));
	scratch->meta_hash = NULL; { IN(short, lang); scratch->language = lang; IN(bool, sa); scratch->store_assets = sa; IN(bool, ra); scratch->remember_assets = ra; IN(unsigned long, ext); scratch->extensions = ext; }
	static const char key[] = WF_KEY;
	meta * m = ALLOC(sizeof(meta));
	m->key = ALLOC(sizeof(key)); for (size_t j = 0; j < sizeof(key); j++) { m->key[j] = key[j]; }
	char * v = ALLOC(3); char a, b; v[0] = a; v[1] = b; v[2] = 0; m->value = v;
	HASH_ADD_KEYPTR(hh, scratch->meta_hash, m->key, sizeof(key) - 1, m); g_rec = m;
	DString * out = ALLOC(sizeof(DString)); out->str = ALLOC(8); out->str[0] = 0; out->currentStringLength = 0; out->currentStringBufferSize = 8;
	char * source = ALLOC(4); source[3] = 0;
	char * key0 = m->key; char * val0 = m->value;
	WF_FN(out, source, scratch);
	ASSERT(scratch->meta_hash == m && m->key == key0 && m->value == val0 && m->hh.key == (void *)key0, "C20: the wrapper leaves the metadata record in place");
	IN(size_t, k); ASSUME(k < sizeof(key));
	ASSERT(m->key[k] == key[k], "C20: the wrapper does not rewrite a metadata key (the body's [%key] lookups use the same table afterwards)");
	ASSERT(m->value[0] == a && m->value[1] == b && m->value[2] == 0, "C20: the wrapper does not rewrite a metadata value");
	REACH();
}
