/* C20 (c) -- "the metadata block is a block of its own that writers skip": the BLOCK_META arm of each
 * writer's token dispatcher emits nothing and leaves the writer state (scratch pad) untouched.  Plain
 * (harness-encoded) unit: the real dispatcher is called on a one-token tree whose type is the CONCRETE
 * BLOCK_META (a symbolic type makes CBMC explore every arm of a 1500-line switch); the output string is
 * the executable DString specification lib/ds_sink.c.                                             */
#include "verif.h"
#include "libMultiMarkdown.h"
#include "d_string.h"
#include "mmd.h"
#include "token.h"
#include "writer.h"

void mmd_export_token_html(DString * out, const char * source, token * t, scratch_pad * scratch);
void mmd_export_token_latex(DString * out, const char * source, token * t, scratch_pad * scratch);
void mmd_export_token_beamer(DString * out, const char * source, token * t, scratch_pad * scratch);
void mmd_export_token_memoir(DString * out, const char * source, token * t, scratch_pad * scratch);
void mmd_export_token_opendocument(DString * out, const char * source, token * t, scratch_pad * scratch);
#ifndef WRITER
#define WRITER mmd_export_token_html
#endif
#define OUT_LEN 3

void h_block_meta(void) {
	/* output so far: OUT_LEN arbitrary bytes */
	IN_ARR(char, sofar, OUT_LEN + 1);
	for (int i = 0; i < OUT_LEN; i++) { ASSUME(sofar[i] != 0); }
	sofar[OUT_LEN] = 0;
	DString * out = d_string_new(sofar);
	char * buf = out->str; size_t cap = out->currentStringBufferSize;
	/* arbitrary writer state */
	scratch_pad * scratch = ALLOC(sizeof(scratch_pad));
	IN_FILL(scratch, sizeof(scratch_pad));
	IN(size_t, k); ASSUME(k < sizeof(scratch_pad));
	unsigned char before = ((unsigned char *)scratch)[k];
	/* the metadata block token: everything but the type is arbitrary */
	token * t = ALLOC(sizeof(token));
	IN_FILL(t, sizeof(token));
	t->type = BLOCK_META;
	IN(const char *, source);
	IN(size_t, j); ASSUME(j <= OUT_LEN);
	WRITER(out, source, t, scratch);
	ASSERT(out->currentStringLength == OUT_LEN && out->str == buf && out->currentStringBufferSize == cap, "BLOCK_META: nothing is appended to the output");
	ASSERT(out->str[j] == sofar[j], "BLOCK_META: the output so far is not modified");
	ASSERT(((unsigned char *)scratch)[k] == before, "BLOCK_META: the writer state (scratch pad) is not modified");
	REACH();
}
