# ---------------------------------------------------------------- C20 wrapper and metadata never change the body
PROPS["C20"] = {
    "level": "other",
    "explanation": "process_metadata_stack (complete-vs-snippet decision; only six listed scratch fields may be written -- DFCC assigns clause) is verified for metadata stacks of up to 2 (quick) / 3 (thorough) records over a table of concrete keys; mmd_engine_export_token_tree is verified for ALL formats and ALL post-metadata extension sets against a ghost call trace (document header iff complete and immediately before the body export, body exporter once on e->root, footer iff complete after the note lists, nothing that can emit after it); the BLOCK_META arm of the html/latex/beamer/memoir/opendocument token dispatchers emits nothing and leaves the scratch pad untouched.",
    "slice": "process_metadata_stack, mmd_engine_export_token_tree, BLOCK_META arm of mmd_export_token_{html,latex,beamer,memoir,opendocument}",
    "not_reached": "the snippet rendering appearing verbatim inside the complete rendering (relation between two whole runs); body bytes under metadata edits; mmd header/footer and variable substitution; that mmd_start_complete_* / mmd_end_complete_* do not consume the body",
    "trusted_base": ["cbmc/goto-cc/goto-instrument 6.11.0 (DFCC instrumentation, MiniSat2)", "CBMC built-in strcmp model", "lib/ds_sink.c (DString specification)"],
    "assumptions": ["metadata stack of at most 3 records, keys from a 12-entry table (9 control keys, bibtex, 2 ordinary keys); metadata values uninterpreted (label_from_string / atoi / my_strdup by contract)",
                    "control keys = base header level family, language, quoteslanguage, latexmode; bibtex counts as metadata beyond them (forces complete), which is the reading the tree implements",
                    "export unit: every callee by logging contract; writer.c included textually in the spec TU (anonymous-struct typedef scratch_pad)"],
}

_PMS_REPL = ["label_from_string", "atoi", "my_strdup"]
for _mm, _tier in ((2, "quick"), (3, "thorough")):
    U("c20_process_metadata_stack_%d" % _mm, (["C20", "C05"] if _mm == 2 else ["C20"]), "h_pms", ["C20/meta.c"], ["stack.c"], enforce="process_metadata_stack",
      replace=_PMS_REPL, lib=(), native=None,
      kind="bounded", tier=_tier, timeout=150, defines=["-DMETA_MAX=%d" % _mm], bounds={"metadata records<=": _mm, "key table": 12, "unwind": 19},
      cbmc_flags=["--unwind", "19", "--unwindset", "process_metadata_stack_wrapped_for_contract_checking.0:%d" % (_mm + 1), "--unwinding-assertions", "--object-bits", "10"],
      callees={"label_from_string/atoi/my_strdup": "contract (uninterpreted result)", "strcmp": "CBMC built-in model (unwound)", "stack_peek_index": "body"},
      assumptions=["metadata values uninterpreted; keys from a concrete table"])

_EXP_REPL = ["process_definition_stack", "process_header_stack", "process_table_stack", "scratch_pad_new", "process_metadata_stack",
             "identify_global_search_terms", "scratch_pad_free", "mmd_start_complete_html", "mmd_end_complete_html", "mmd_start_complete_latex",
             "mmd_end_complete_latex", "mmd_end_complete_beamer", "mmd_export_footnote_list_html", "mmd_export_glossary_list_html",
             "mmd_export_citation_list_html", "mmd_export_citation_list_latex", "mmd_export_citation_list_beamer", "mmd_export_token_tree_html",
             "mmd_export_token_tree_latex", "mmd_export_token_tree_beamer", "mmd_export_token_tree_memoir", "mmd_export_token_tree_opendocument",
             "mmd_export_token_tree_opml", "mmd_export_token_tree_itmz", "mmd_outline_add_beamer"]
U("c20_export_token_tree", ["C20", "C09"], "h_export", ["C20/export.c"], [], enforce="mmd_engine_export_token_tree", replace=_EXP_REPL, lib=(), native=None, timeout=150,
  cbmc_flags=["--object-bits", "10"],
  callees={"every callee": "logging contract (ghost call trace); process_metadata_stack leaves arbitrary extensions/format"},
  assumptions=["all formats (symbolic short) and all post-metadata extension sets; callees by logging contract"])

for _w, _files in (("html", ["html.c"]), ("latex", ["latex.c"]), ("beamer", ["beamer.c", "latex.c"]), ("memoir", ["memoir.c", "latex.c"]), ("opendocument", ["opendocument-content.c"])):
    U("c20_block_meta_" + _w, ["C20"], "h_block_meta", ["C20/blockmeta.c"], _files, plain=True, lib=("lib/ds_sink.c",), native=None, timeout=100, kind="bounded", bounds={"token type": "BLOCK_META (concrete)", "output so far (bytes)": 3},
      defines=["-DWRITER=mmd_export_token_" + _w], functions=["mmd_export_token_" + _w], min_obligations=3,
      cbmc_flags=["--unwind", "300", "--unwinding-assertions"],
      callees={"d_string_*": "lib/ds_sink.c"}, assumptions=["token type concrete BLOCK_META; output so far 3 arbitrary bytes"])

# ---- the document wrappers only read the metadata table
for _s, _fn, _file, _ps, _psd, _gl in (
        ("latex", "mmd_start_complete_latex", "latex.c", "mmd_print_string_latex", "mmd_print_string_latex(DString * out, const char * str)", "mmd_define_glossaries_latex"),
        ("html", "mmd_start_complete_html", "html.c", "mmd_print_string_html", "mmd_print_string_html(DString * out, const char * str, bool obfuscate, bool line_breaks)", None)):
    for _kn in ("isbn-13", "title", "my_key"):
        U("c20_wrapper_frame_%s_%s" % (_s, _kn.replace("-", "").replace("_", "")), ["C20"], "h_wframe", ["C20/wrapper_frame.c"], [_file], plain=True, lib=(), kind="bounded",
          drop_bodies=[_ps] + ([_gl] if _gl else []),
          defines=["-DI18N_DISABLED=1", "-DWF_FN=" + _fn, "-DWF_PRINT_STRING=" + _psd, '-DWF_KEY="%s"' % _kn] + (["-DWF_GLOSS=" + _gl] if _gl else []),
          cbmc_flags=["--unwind", "40", "--unwinding-assertions", "--object-bits", "12"],
          bounds={"metadata": "the one key '%s'" % _kn, "value": "any (2 bytes)"}, functions=[_fn],
          callees={"d_string_append*, " + _ps: "no-op contract stubs (output not examined)", "HASH_FIND_STR / hash iteration (uthash)": "real macro code over a real one-entry table"},
          min_obligations=10, timeout=300, cost=8, assumptions=[NOFAIL, "configuration -DI18N_DISABLED"])
