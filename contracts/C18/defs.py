PROPS["C18"] = {
    "level": "proof",
    "explanation": "Every pool and stack operation (object_pool.c, stack.c) and the token_pool_init/drain/free protocol functions (token.c) are verified against contracts over POOL_WF / ST_WF for all slab positions, all stack sizes and all counter values; bounded histories of the protocol are a separate bounded unit.",
    "slice": "stack_push/pop/peek/peek_index, pool_add_slab, pool_allocate_object, pool_drain, pool_new, pool_free, token_pool_init/drain/free",
    "not_reached": "conversions running between init and drain (the property's 'results unchanged') are covered only through the allocator contract: a token handed out stays valid until the outermost drain",
    "trusted_base": ["cbmc/goto-cc/goto-instrument 6.11.0", "CBMC built-in malloc/realloc/free model"],
    "assumptions": ["fewer than 2^29 slabs / stack entries", "fewer than 32767 nested token_pool_init calls (short counter)"],
}


# ---------------------------------------------------------------- stack (shared)
_ST_NATIVE = {"repo": ["stack.c"]}
U("stack_push", ["C18", "C01"], "h_push", ["C18/stack.c"], ["stack.c"], enforce="stack_push", lib=(),
  contracts={"stack_push": "stack_push__contract_frame"}, native=_ST_NATIVE, small=["-DSTACK_CAP_MAX=8"],
  callees={"realloc": "CBMC built-in"}, assumptions=[NOFAIL, "stacks hold fewer than 2^29 entries (capacity is an int that doubles)"])
for _f in ("pop", "peek", "peek_index"):
    U("stack_" + _f, ["C18", "C01"], "h_" + _f, ["C18/stack.c"], ["stack.c"], enforce="stack_" + _f, lib=(),
      native=_ST_NATIVE, small=["-DSTACK_CAP_MAX=8"], callees={"stack_peek": "body"})

# ---------------------------------------------------------------- C18 pool
U("pool_allocate_object", ["C18", "C01"], "h_alloc", ["C18/pool.c"], ["object_pool.c", "stack.c"], enforce="pool_allocate_object", lib=(),
  functions=["pool_allocate_object", "pool_add_slab"], callees={"pool_add_slab": "body", "stack_push": "body", "malloc/realloc": "CBMC built-in"},
  native={"repo": ["object_pool.c", "stack.c"]}, small=["-DSTACK_CAP_MAX=4"], assumptions=[NOFAIL], min_obligations=50)
U("pool_drain_K3", ["C18", "C01"], "h_drain", ["C18/pool.c"], ["object_pool.c", "stack.c"], plain=True, lib=(), kind="bounded",
  bounds={"slabs<=": 3, "unwind": 5}, cbmc_flags=["--unwind", "5", "--unwinding-assertions", "--memory-leak-check"],
  functions=["pool_drain"], callees={"stack_pop": "body", "free": "CBMC built-in"}, native={"repo": ["object_pool.c", "stack.c"]})
U("pool_new_free", ["C18", "C01"], "h_new_free", ["C18/pool.c"], ["object_pool.c", "stack.c"], plain=True, lib=(), kind="bounded",
  bounds={"objects allocated<=": 3, "unwind": 5}, cbmc_flags=["--unwind", "5", "--unwinding-assertions", "--memory-leak-check"],
  functions=["pool_new", "pool_free", "pool_add_slab", "stack_new", "stack_free"], callees={"all": "body"}, native={"repo": ["object_pool.c", "stack.c"]}, assumptions=[NOFAIL])
_TP_NATIVE = {"repo": ["object_pool.c", "stack.c", "char.c"]}
U("token_pool_init", ["C18"], "h_tp_init", ["C18/token_pool.c"], ["object_pool.c", "stack.c", "char.c"], enforce="token_pool_init", replace=["pool_drain", "pool_free"], lib=(),
  callees={"pool_new": "body", "pool_add_slab": "body", "stack_new/stack_push": "body",
           "pool_drain, pool_free": "contracts (not called by the code as it stands: an init that released slabs would have to fit them into token_pool_init's frame, which assigns the pool pointer and the counter only)"}, native=_TP_NATIVE, small=["-DSTACK_CAP_MAX=4"], assumptions=[NOFAIL, "token.c is verified as textually included in the spec TU (its statics are not linkable)"])
U("token_pool_drain", ["C18"], "h_tp_drain", ["C18/token_pool.c"], ["object_pool.c", "stack.c", "char.c"], enforce="token_pool_drain", replace=["pool_drain"], lib=(),
  callees={"pool_drain": "contract (proved bounded in pool_drain_K3)"}, native=_TP_NATIVE, small=["-DSTACK_CAP_MAX=4"])
U("token_pool_free", ["C18"], "h_tp_free", ["C18/token_pool.c"], ["object_pool.c", "stack.c", "char.c"], enforce="token_pool_free", replace=["pool_free"], lib=(),
  callees={"pool_free": "contract (havoc nothing; proved in pool_new_free)"}, nobody_ok=["fprintf"], native=_TP_NATIVE, small=["-DSTACK_CAP_MAX=4"])
for _hl, _tier in ((4, "thorough"),):
  U("token_pool_history%d" % _hl, ["C18"], "h_history", ["C18/token_pool.c"], ["object_pool.c", "stack.c", "char.c"], plain=True, lib=(), kind="bounded", tier=_tier,
  defines=["-DHLEN=%d" % _hl], bounds={"history length<=": _hl, "unwind": _hl + 2}, cbmc_flags=["--unwind", str(_hl + 2), "--unwinding-assertions", "--memory-leak-check"], timeout=900, cost=60,
  functions=["token_pool_init", "token_pool_drain", "token_pool_free", "token_new", "pool_allocate_object", "pool_drain", "pool_free", "pool_new"],
  callees={"all": "body"}, nobody_ok=["fprintf"], native=_TP_NATIVE, assumptions=[NOFAIL])


# ---- with the pool enabled: token_free has an empty frame, token_new returns the pool's object
U("token_free_pool_noop", ["C18"], "h_token_free", ["C18/token_pool.c"], ["object_pool.c", "stack.c", "char.c"], enforce="token_free", lib=(),
  callees={}, native=None, min_obligations=5, assumptions=["token.c is verified as textually included in the spec TU (its statics are not linkable)", "build configuration with kUseObjectPool (the default)"])
U("token_new_from_pool", ["C18"], "h_token_new", ["C18/token_pool.c"], ["object_pool.c", "stack.c", "char.c"], enforce="token_new", replace=["pool_allocate_object"], lib=(),
  callees={"pool_allocate_object": "contract (returns the ghost object; its own contract: unit pool_allocate_object)"}, native=None, min_obligations=5,
  assumptions=["token.c is verified as textually included in the spec TU", "build configuration with kUseObjectPool (the default)"])
