/* contracts of stack.c, enforced on the unmodified functions; ghost index g_i states the frame
 * "every entry below the old top is unchanged" for ALL indices at once */
#include "stack_spec.h"

size_t g_i; void * g_ei;   /* ghost: an arbitrary index below the old size, and the entry stored there */

#undef POST_stack_push
#define POST_stack_push (ST_WF_GROWN(s) && (s)->size == OLD((s)->size) + 1 && (s)->element[(s)->size - 1] == element \
	&& ((s)->capacity == OLD((s)->capacity) || ((s)->capacity == 2 * OLD((s)->capacity) && OLD((s)->size) == (size_t)OLD((s)->capacity))) \
	&& (g_i >= OLD((s)->size) || (s)->element[g_i] == g_ei))
void stack_push__contract_frame(stack * s, void * element) __CPROVER_requires(PRE_stack_push) __CPROVER_ensures(POST_stack_push)
	__CPROVER_assigns(s->size, s->capacity, s->element, __CPROVER_object_whole(s->element)) __CPROVER_frees(s->element);

void h_push(void) {
	MK_STACK(s)
	IN(size_t, gi); g_i = gi;
	if (g_i < s->size) { g_ei = s->element[g_i]; }
	void * element; { IN(size_t, ev); element = (void *)ev; }
	CALLV(stack_push(s, element), PRE_stack_push, POST_stack_push)
	REACH();
}

void h_pop(void) {
	MK_STACK(s)
	CALLR(void *, stack_pop(s), PRE_stack_pop, POST_stack_pop)
	REACH();
}

void h_peek(void) {
	MK_STACK(s)
	CALLR(void *, stack_peek(s), PRE_stack_peek, POST_stack_peek)
	REACH();
}

void h_peek_index(void) {
	MK_STACK(s)
	IN(size_t, index);
	CALLR(void *, stack_peek_index(s, index), PRE_stack_peek_index, POST_stack_peek_index)
	REACH();
}
