/* C18 -- object pool: bump allocation inside fixed slabs.  Pointer arithmetic only; every slab
 * position (offset = j * object_size, 0 <= j <= 1024) is covered at once (symbolic j). */
#include "stack_spec.h"
#include "object_pool.h"
#include "token.h"

#define NOBJ 1024
#define OFF(p) ((size_t)__CPROVER_POINTER_OFFSET(p))

/* ghost: base of the current slab and the high-water offset handed out so far (set by the harness) */
char * g_slab;
size_t g_os;

/* pool invariant.  drained: next == last == NULL.  otherwise next/last point into the slab on top of
 * the slab stack: last = base + os*1024, next = base + os*j */
#define POOL_WF(p) ((p)->object_size > 0 && ST_WF((p)->allocated) \
	&& (((p)->next == NULL && (p)->last == NULL) \
		|| ((p)->allocated->size >= 1 && (p)->allocated->element[(p)->allocated->size - 1] == (void *)g_slab \
			&& (char *)(p)->last == g_slab + (size_t)(p)->object_size * NOBJ \
			&& (char *)(p)->next >= g_slab && (char *)(p)->next <= (char *)(p)->last \
			&& ((size_t)((char *)(p)->next - g_slab)) % (size_t)(p)->object_size == 0)))

/* ---- pool_allocate_object ---- */
#define PRE_pool_allocate_object (POOL_WF(p) && p->object_size == sizeof(token) && g_os == sizeof(token))
/* result: NULL only if a needed slab could not be allocated (state unchanged);
 * otherwise the old bump pointer (same slab) or the base of a fresh slab pushed on the stack; the
 * bump pointer advances by exactly one object; the slot is writable and lies inside [base, last) */
#define POST_pool_allocate_object ( \
	(RET == NULL ? (OLD(p->next) == OLD(p->last) && p->next == OLD(p->next) && p->last == OLD(p->last) && p->allocated->size == OLD(p->allocated->size)) \
	: ( __CPROVER_rw_ok(RET, g_os) \
		&& (char *)p->next == (char *)RET + g_os \
		&& __CPROVER_same_object(RET, p->last) && OFF(p->last) == g_os * NOBJ && OFF(p->next) <= OFF(p->last) && OFF(RET) % g_os == 0 \
		&& (OLD(p->next) != OLD(p->last) \
			? (RET == OLD(p->next) && p->last == OLD(p->last) && p->allocated->size == OLD(p->allocated->size)) \
			: (OFF(RET) == 0 && p->allocated->size == OLD(p->allocated->size) + 1 && p->allocated->element[p->allocated->size - 1] == RET)))) \
	&& p->object_size == OLD(p->object_size))
CONTRACT(void *, pool_allocate_object, (pool * p), PRE_pool_allocate_object, POST_pool_allocate_object,
	__CPROVER_assigns(p->next, p->last, p->allocated->size, p->allocated->capacity, p->allocated->element, __CPROVER_object_whole(p->allocated->element)) __CPROVER_frees(p->allocated->element))

/* ---- pool_drain: every slab on the stack is freed exactly once, stack emptied, pool marked drained ---- */
#define PRE_pool_drain (p == NULL || (ST_WF(p->allocated)))
#define POST_pool_drain (p == NULL || (p->allocated->size == 0 && p->next == NULL && p->last == NULL))

/* harness: pool with a stack of slabs; the top slab is a real object of os*1024 bytes */
#define MK_POOL(p) \
	short os = (short)sizeof(token); g_os = sizeof(token);   /* the only pool in /repo is pool_new(sizeof(token)); symbolic sizes make the % and * circuits intractable */ \
	pool * p = ALLOC(sizeof(pool)); p->object_size = os; \
	MK_STACK(st) p->allocated = st; \
	IN(bool, drained); IN(size_t, j); \
	if (drained) { p->next = NULL; p->last = NULL; g_slab = NULL; } \
	else { ASSUME(j <= NOBJ && st->size >= 1); g_slab = ALLOC(g_os * NOBJ); st->element[st->size - 1] = g_slab; \
		p->next = g_slab + g_os * j; p->last = g_slab + g_os * NOBJ; }

void h_alloc(void) {
	MK_POOL(p)
	CALLR(void *, pool_allocate_object(p), PRE_pool_allocate_object, POST_pool_allocate_object)
	REACH();
}

/* ---- pool_drain / pool_new / pool_free on a pool holding K <= KMAX slabs (bounded: the slabs are K
 * distinct heap objects, which a symbolic-size stack cannot express without quantifiers) ---- */
#ifndef KMAX
#define KMAX 3
#endif
#ifdef VERIF_PLAIN
void h_drain(void) {
	short os = (short)sizeof(token);
	pool * p = ALLOC(sizeof(pool)); p->object_size = os;
	IN(int, st_cap); IN(size_t, k);
	ASSUME(st_cap >= 1 && st_cap <= 8 && k <= KMAX && k <= (size_t)st_cap);
	stack * st = ALLOC(sizeof(stack)); st->element = ALLOC(8 * sizeof(void *)); st->capacity = st_cap; st->size = k;
	p->allocated = st;
	char * slabs[KMAX];
	for (size_t i = 0; i < KMAX; i++) { slabs[i] = NULL; if (i < k) { slabs[i] = ALLOC(64); st->element[i] = slabs[i]; } }
	if (k > 0) { p->next = slabs[k - 1]; p->last = slabs[k - 1] + 64; } else { p->next = NULL; p->last = NULL; }
	pool_drain(p);
	ASSERT(p->allocated->size == 0 && p->next == NULL && p->last == NULL, "postcondition pool_drain: stack empty, pool marked drained");
	/* every slab released exactly once: a double free fails free()'s own precondition; a missing free is
	 * reported by --memory-leak-check once the harness has released everything else */
	free(st->element); free(st); free(p);
	REACH();
}

void h_new_free(void) {
	pool * p = pool_new((short)sizeof(token));
	ASSERT(p != NULL && p->object_size == (short)sizeof(token) && p->allocated != NULL && p->allocated->size == 1
		&& p->next == p->allocated->element[0] && (char *)p->last == (char *)p->next + sizeof(token) * NOBJ, "postcondition pool_new: one slab, bump pointer at its base");
	IN(size_t, m); ASSUME(m <= 3);
	void * first = NULL;
	for (size_t i = 0; i < 3; i++) { if (i < m) { void * o = pool_allocate_object(p); ASSERT(o != NULL && __CPROVER_rw_ok(o, sizeof(token)), "object handed out is writable"); if (i == 0) { first = o; } else { ASSERT(o != first, "distinct from the first object"); } } }
	pool_free(p);
	REACH();
}
#endif
