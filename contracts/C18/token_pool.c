/* C18 -- init/drain/free protocol of the shared token pool.  The state is two file-scope statics of
 * token.c (token_pool, token_pool_count); linking cannot reach them (goto-cc renames statics), so this
 * spec TU INCLUDES the real, unmodified /repo/src/token.c textually -- nothing is dropped or edited. */
#include "stack_spec.h"
#include "object_pool.h"
#include "token.c"

#define NOBJ 1024
/* the pool object is left alone unless the counter reaches zero */
#define PRE_token_pool_init (token_pool_count >= 0 && token_pool_count < SHRT_MAX)
#define POST_token_pool_init (token_pool_count == OLD(token_pool_count) + 1 && token_pool != NULL \
	&& (OLD(token_pool) == NULL || token_pool == OLD(token_pool)))
CONTRACT(void, token_pool_init, (void), PRE_token_pool_init, POST_token_pool_init, __CPROVER_assigns(token_pool, token_pool_count))

/* pool_drain by contract (proved for <= KMAX slabs in unit pool_drain_K) */
void pool_drain__contract(pool * p) __CPROVER_requires(p != NULL && ST_WF(p->allocated))
	__CPROVER_ensures(p->allocated->size == 0 && p->next == NULL && p->last == NULL)
	__CPROVER_assigns(p->next, p->last, p->allocated->size);

#define PRE_token_pool_drain (token_pool_count >= 1 && token_pool != NULL && ST_WF(token_pool->allocated))
#define POST_token_pool_drain (token_pool_count == OLD(token_pool_count) - 1 && token_pool == OLD(token_pool) \
	&& (token_pool_count == 0 ? (token_pool->allocated->size == 0 && token_pool->next == NULL && token_pool->last == NULL) \
		: (token_pool->allocated->size == OLD(token_pool->allocated->size) && token_pool->next == OLD(token_pool->next) && token_pool->last == OLD(token_pool->last))))
CONTRACT(void, token_pool_drain, (void), PRE_token_pool_drain, POST_token_pool_drain,
	__CPROVER_assigns(token_pool_count, token_pool->next, token_pool->last, token_pool->allocated->size))

void pool_free__contract(pool * p) __CPROVER_requires(1) __CPROVER_ensures(1) __CPROVER_assigns();
#define PRE_token_pool_free (token_pool_count >= 0)
#define POST_token_pool_free (token_pool_count == OLD(token_pool_count) && (token_pool_count == 0 ? token_pool == NULL : token_pool == OLD(token_pool)))
CONTRACT(void, token_pool_free, (void), PRE_token_pool_free, POST_token_pool_free, __CPROVER_assigns(token_pool))

/* ---- with the pool enabled a token's storage belongs to the pool until the outermost drain:
 *   token_free is a no-op (empty frame: in particular no file-scope recycling list, which a real drain would leave pointing into
 *   freed slabs); token_new returns exactly the object pool_allocate_object hands out (replaced by a contract returning a ghost) */
static token * g_fresh;
void * pool_allocate_object__contract(pool * p) __CPROVER_requires(p == token_pool) __CPROVER_ensures(__CPROVER_return_value == (void *)g_fresh) __CPROVER_assigns();
#define PRE_token_free (t == NULL || __CPROVER_rw_ok(t, sizeof(token)))
CONTRACT(void, token_free, (token * t), PRE_token_free, 1, __CPROVER_assigns())
#define PRE_token_new (token_pool != NULL && g_fresh != NULL && __CPROVER_rw_ok(g_fresh, sizeof(token)))
#define POST_token_new (RET == g_fresh && RET->type == type && RET->start == start && RET->len == len && RET->next == NULL && RET->prev == NULL && RET->child == NULL && RET->mate == NULL && RET->tail == RET)
CONTRACT(token *, token_new, (unsigned short type, size_t start, size_t len), PRE_token_new, POST_token_new, __CPROVER_assigns(__CPROVER_object_whole(g_fresh)))

static void mk_pool_state(void) {
	IN(short, cnt); IN(bool, has_pool);
	token_pool_count = cnt;
	if (has_pool) {
		pool * p = ALLOC(sizeof(pool)); p->object_size = (short)sizeof(token);
		MK_STACK(st) p->allocated = st;
		IN(bool, drained);
		if (drained) { p->next = NULL; p->last = NULL; }
		else { char * slab = ALLOC(sizeof(token) * NOBJ); IN(size_t, j); ASSUME(j <= NOBJ && st->size >= 1); st->element[st->size - 1] = slab; p->next = slab + sizeof(token) * j; p->last = slab + sizeof(token) * NOBJ; }
		token_pool = p;
	} else {
		token_pool = NULL;
	}
}

void h_tp_init(void) {
	mk_pool_state();
	CALLV(token_pool_init(), PRE_token_pool_init, POST_token_pool_init)
	REACH();
}

void h_token_free(void) {
	mk_pool_state();
	IN(bool, null); token * t = null ? NULL : ALLOC(sizeof(token));
	CALLV(token_free(t), PRE_token_free, 1)
	REACH();
}
void h_token_new(void) {
	mk_pool_state(); ASSUME(token_pool != NULL);
	g_fresh = ALLOC(sizeof(token));
	IN(unsigned short, type); IN(size_t, start); IN(size_t, len);
	CALLR(token *, token_new(type, start, len), PRE_token_new, POST_token_new)
	REACH();
}

void h_tp_drain(void) {
	mk_pool_state();
	CALLV(token_pool_drain(), PRE_token_pool_drain, POST_token_pool_drain)
	REACH();
}

void h_tp_free(void) {
	mk_pool_state();
	CALLV(token_pool_free(), PRE_token_pool_free, POST_token_pool_free)
	REACH();
}

#ifdef VERIF_PLAIN
/* ---- bounded histories: every well-bracketed sequence over {init, new token, drain, free} of length
 * <= HLEN (nested init/drain pairs, re-initialisation after free), real bodies everywhere ---- */
#ifndef HLEN
#define HLEN 6
#endif
void h_history(void) {
	token_pool = NULL; token_pool_count = 0;
	int depth = 0;
	token * live = NULL;       /* a token allocated since the outermost init */
	IN_ARR(unsigned char, op, HLEN);
	for (int i = 0; i < HLEN; i++) {
		unsigned char o = op[i] % 4;
		if (o == 0) { token_pool_init(); depth++; ASSERT(token_pool != NULL && token_pool_count == depth, "init: pool exists, counter == nesting depth"); }
		else if (o == 1) { ASSUME(depth > 0 && live == NULL); live = token_pool->next; /* the slot the next token_new would get (allocation itself: unit pool_allocate_object; handing out 96 KiB slabs repeatedly exhausts the SAT solver) */ ASSUME(live != NULL); }
		else if (o == 2) { ASSUME(depth > 0); token_pool_drain(); depth--; if (depth > 0) { ASSERT(live == NULL || __CPROVER_rw_ok(live, sizeof(token)), "tokens stay valid until the OUTERMOST drain"); } else { live = NULL; ASSERT(token_pool->allocated->size == 0, "outermost drain releases every slab"); } }
		else { ASSUME(depth == 0); token_pool_free(); ASSERT(token_pool == NULL, "free at depth 0 removes the pool"); }
	}
	/* close the brackets and release: afterwards nothing may be left allocated (--memory-leak-check) */
	for (int i = 0; i < HLEN; i++) { if (depth > 0) { token_pool_drain(); depth--; } }
	token_pool_free();
	ASSERT(token_pool == NULL && token_pool_count == 0, "after closing all brackets and free: clean state");
	REACH();
}
#endif
