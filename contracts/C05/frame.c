/* C05 (2) -- static-storage frame of functions on the conversion path.
 *
 * DFCC checks every write of the function under contract (and of the callee bodies kept) against the
 * assigns clause; objects with static storage are ordinary objects for it and are NOT implicitly
 * assignable.  A contract whose assigns clause names only the output DString therefore states "this
 * function keeps no history in static storage": a write to a static is a failed `assigns` obligation.
 *
 *   mmd_print_char_html(out, c, obfuscate, line_breaks)        html.c, REAL ran_num_next of rng.c linked
 *     requires DS_WF(out);  ensures DS_WF(out) (+ exact growth when not obfuscating);  assigns DS_FRAME(out)
 *     obfuscate == false: provable.  With obfuscate == true the function calls ran_num_next() (rng.c), whose
 *     write to the process-global generator state is reported as `ran_num_next.assigns: Check that ran_arr_ptr
 *     is assignable: FAILURE` -- but the call that follows it, d_string_append_printf, is VARIADIC and DFCC
 *     appends its write-set argument after the variadic arguments, so every later check is garbage (measured).
 *     The obfuscating path is therefore decided by the harness-encoded determinism unit C05/determ.c instead,
 *     and the frame of the generator itself by unit frame_ran_num_next below.
 *   ran_num_next()                                              rng.c
 *     assigns nothing: "drawing an obfuscation bit keeps no history".  CANNOT hold: the Knuth generator is
 *     process-global (ran_arr_ptr, ran_arr_buf, ran_x) and never reseeded per conversion.  Registered
 *     tier="thorough" (fails on the unchanged tree: the defect of C05 confirmed on the real library).
 *   mmd_print_localized_char_html(out, type, scratch): same frame, all token types / languages.
 *
 * DString is the ghost sink (lib/ds_sink.c: the C19 specification as executable code). */
#include "writer.h"
#include "ds_spec.h"
#include "html.h"

#ifndef RAN_K
#define RAN_K 5         /* position of the generator inside its buffer (concrete: a symbolic index into the 8 KiB buffer exhausts the solver) */
#endif
#ifndef SINK_CAP
#define SINK_CAP 16
#endif

/* the generator's state (rng.c): external linkage, so the harness can put it into a typical state --
 * DFCC havocs every static at harness entry */
extern long ran_arr_buf[1009];
extern long * ran_arr_ptr;

#define DLEN(d) ((d)->currentStringLength)
#define ASCII7(c) ((int)(c) == (((int)(c)) & 127))
/* number of bytes the ideal escaper appends for c when not obfuscating */
#define ESC_LEN(c, lb) ((c) == '"' ? 6u : (c) == '&' ? 5u : ((c) == '<' || (c) == '>') ? 4u : (((c) == '\n' || (c) == '\r') && (lb)) ? 6u : (c) == 0 ? 0u : 1u)

#define PRE_mmd_print_char_html (DS_WF(out) && out->currentStringBufferSize == SINK_CAP && DLEN(out) < SINK_CAP - 8 && !obfuscate)
#define POST_mmd_print_char_html (DS_WF(out) && out->str == OLD(out->str) \
	&& ((obfuscate && ASCII7(c) && c != '"' && c != '&' && c != '<' && c != '>' && c != '\n' && c != '\r') \
		? (DLEN(out) >= OLD(DLEN(out)) + 4 && DLEN(out) <= OLD(DLEN(out)) + 6) \
		: DLEN(out) == OLD(DLEN(out)) + ESC_LEN(c, line_breaks)))
/* the frame: the output string only -- no static object */
CONTRACT(void, mmd_print_char_html, (DString * out, char c, bool obfuscate, bool line_breaks), PRE_mmd_print_char_html, POST_mmd_print_char_html, DS_FRAME(out))

/* the generator: result in [0, 2^30), and -- the frame under test -- nothing assigned */
long ran_num_next(void);
#define PRE_ran_num_next (ran_arr_ptr == &ran_arr_buf[RAN_K] && ran_arr_buf[RAN_K] >= 0 && ran_arr_buf[RAN_K] < (1L << 30))
#define POST_ran_num_next (RET >= 0 && RET < (1L << 30))
CONTRACT(long, ran_num_next, (void), PRE_ran_num_next, POST_ran_num_next, __CPROVER_assigns())

#define PRE_mmd_print_localized_char_html (DS_WF(out) && out->currentStringBufferSize == SINK_CAP && DLEN(out) < SINK_CAP - 8)
#define POST_mmd_print_localized_char_html (DS_WF(out) && out->str == OLD(out->str) && DLEN(out) >= OLD(DLEN(out)) && DLEN(out) <= OLD(DLEN(out)) + 7 \
	&& scratch->quotes_lang == OLD(scratch->quotes_lang))
CONTRACT(void, mmd_print_localized_char_html, (DString * out, unsigned short type, scratch_pad * scratch), PRE_mmd_print_localized_char_html, POST_mmd_print_localized_char_html, DS_FRAME(out))

#define MK_OUT(d) \
	IN(size_t, slen); ASSUME(slen < SINK_CAP - 8); \
	DString * d = ALLOC(sizeof(DString)); d->str = ALLOC(SINK_CAP); d->currentStringBufferSize = SINK_CAP; d->currentStringLength = slen; d->str[slen] = 0;

void h_print_char(void) {
	MK_OUT(out)
	IN(char, c); IN(bool, obfuscate); IN(bool, line_breaks);
	CALLV(mmd_print_char_html(out, c, obfuscate, line_breaks), PRE_mmd_print_char_html, POST_mmd_print_char_html)
	REACH();
}

void h_ran_num_next(void) {
	/* generator somewhere inside its buffer (the state after any earlier obfuscated character) */
	{ IN(long, v); ran_arr_buf[RAN_K] = v; ran_arr_ptr = &ran_arr_buf[RAN_K]; }
	CALLR(long, ran_num_next(), PRE_ran_num_next, POST_ran_num_next)
	REACH();
}

void h_print_localized(void) {
	MK_OUT(out)
	IN(unsigned short, type);
	scratch_pad * scratch = ALLOC(sizeof(scratch_pad));
	{ IN(short, ql); scratch->quotes_lang = ql; }
	CALLV(mmd_print_localized_char_html(out, type, scratch), PRE_mmd_print_localized_char_html, POST_mmd_print_localized_char_html)
	REACH();
}
