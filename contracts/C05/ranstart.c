/* C05 -- "ran_start(seed) makes the generator state a function of the seed alone" (rng.c, the real code), as a 2-safety
 * obligation: TWO independent copies of the translation unit (the second compiled with renaming defines, so every object of
 * rng.c -- including any function-local or file-scope static it may have -- exists twice), each started in an ARBITRARY state
 * (goto-instrument --nondet-static-matching + explicit havoc of the known globals), are both given ran_start(314159) -- the seed
 * scratch_pad_new passes, proved by c05_export_restarts_prng -- and must then agree on the whole state the draws depend on:
 * every ran_x[k] (ghost index) and the position of ran_arr_ptr (on the "started" sentinel, so that the next draw refills
 * ran_arr_buf from ran_x).  With a concrete seed the preparation buffer of ran_start is concrete, so symbolic execution is
 * constant propagation over Knuth's loops.  This discharges what C05/reseed.c used to list as an assumption. */
#include "verif.h"
#define KK 100
extern long ran_x[KK], ran_x_B[KK];
extern long ran_arr_buf[1009], ran_arr_buf_B[1009];
extern long ran_arr_dummy, ran_arr_started, ran_arr_dummy_B, ran_arr_started_B;
extern long * ran_arr_ptr, * ran_arr_ptr_B;
void ran_start(long seed); void ran_start_B(long seed);

static long * any_ptr(long * dummy, long * started, long * buf) {
	IN(unsigned char, w); IN(unsigned, i);
	if (w == 0) { return dummy; }
	if (w == 1) { return started; }
	ASSUME(i < 1009); return buf + i;
}
void h_ran_start(void) {
	/* arbitrary prior histories: any state of the known globals (everything else in rng.c is nondet through --nondet-static) */
	for (int j = 0; j < KK; j++) { long a, b; ran_x[j] = a; ran_x_B[j] = b; }
	ran_arr_ptr = any_ptr(&ran_arr_dummy, &ran_arr_started, ran_arr_buf);
	ran_arr_ptr_B = any_ptr(&ran_arr_dummy_B, &ran_arr_started_B, ran_arr_buf_B);
	ran_arr_dummy = -1; ran_arr_started = -1; ran_arr_dummy_B = -1; ran_arr_started_B = -1;       /* the two sentinels are never written by rng.c */
	ran_start(314159L);
	ran_start_B(314159L);
	IN(unsigned, k); ASSUME(k < KK);
	ASSERT(ran_x[k] == ran_x_B[k], "after ran_start(seed) every ran_x[k] is the same whatever the generator was doing before (two independent histories)");
	ASSERT(ran_arr_ptr == &ran_arr_started && ran_arr_ptr_B == &ran_arr_started_B, "after ran_start the draw pointer is on the 'started' sentinel: the next draw refills ran_arr_buf from ran_x");
	REACH();
}
