/* C05 (1) -- mmd_engine_reset: what a reused engine carries from one parse into the next.
 *
 *   requires  every stack of the engine is well formed (ST_WF, lib/stack_spec.h; proved for stack.c in C18)
 *   ensures   every one of the ten stacks has size 0, root == NULL, asset_hash == NULL
 *             and -- so that the evidence shows exactly which engine state SURVIVES a reset --
 *             dstr, extensions, recurse_depth, allow_meta, pairings1..4, language, quotes_lang,
 *             random_seed_base_labels and the stack objects themselves are left alone
 *   assigns   root, asset_hash, the size field of the ten stacks -- nothing else, and NO static object
 *
 * mmd_engine_parse_substring calls it first thing, so "no per-parse result leaks into the next parse"
 * is this postcondition.  The function verified is the unmodified one in /repo/src/mmd.c; the six
 * pop-and-free loops carry loop contracts (unbounded stack sizes); element destructors are contracts. */
#include "writer.h"
#include "stack_spec.h"
#include "mmd.h"
#include "token.h"
#include "d_string.h"

/* element destructors (writer.c, token.c): release the element, change nothing reachable from the engine */
void footnote_free__contract(footnote * f) __CPROVER_requires(1) __CPROVER_ensures(1) __CPROVER_assigns();
void link_free__contract(link * l) __CPROVER_requires(1) __CPROVER_ensures(1) __CPROVER_assigns();
void meta_free__contract(meta * m) __CPROVER_requires(1) __CPROVER_ensures(1) __CPROVER_assigns();
void asset_free__contract(asset * a) __CPROVER_requires(1) __CPROVER_ensures(1) __CPROVER_assigns();
void token_tree_free__contract(token * t) __CPROVER_requires(1) __CPROVER_ensures(1) __CPROVER_assigns();

#define ENGINE_WF(e) (ST_WF((e)->abbreviation_stack) && ST_WF((e)->citation_stack) && ST_WF((e)->critic_stack) \
	&& ST_WF((e)->definition_stack) && ST_WF((e)->footnote_stack) && ST_WF((e)->glossary_stack) && ST_WF((e)->header_stack) \
	&& ST_WF((e)->link_stack) && ST_WF((e)->metadata_stack) && ST_WF((e)->table_stack))

#define STACK_EMPTIED(s) ((s) == OLD(s) && (s)->size == 0 && (s)->capacity == OLD((s)->capacity) && (s)->element == OLD((s)->element))

/* bound: no stored assets (the hash is only filled when assets are collected for EPUB/TextBundle); a
 * harness-built uthash table with one asset did not get through the solver in 300 s */
#define PRE_ASSETS ((e)->asset_hash == NULL)

#define PRE_mmd_engine_reset (ENGINE_WF(e) && PRE_ASSETS)
/* cleared: per-parse results (one ensures clause per group so that a failure names the state that leaks) */
#define POST_reset_root_assets (e->root == NULL && e->asset_hash == NULL)
#define POST_reset_note_stacks (STACK_EMPTIED(e->abbreviation_stack) && STACK_EMPTIED(e->citation_stack) && STACK_EMPTIED(e->footnote_stack) && STACK_EMPTIED(e->glossary_stack))
#define POST_reset_link_meta_stacks (STACK_EMPTIED(e->link_stack) && STACK_EMPTIED(e->metadata_stack))
#define POST_reset_block_stacks (STACK_EMPTIED(e->critic_stack) && STACK_EMPTIED(e->definition_stack) && STACK_EMPTIED(e->header_stack) && STACK_EMPTIED(e->table_stack))
/* survives a reset: configuration ... */
#define POST_reset_config_survives (e->dstr == OLD(e->dstr) && e->extensions == OLD(e->extensions) \
	&& e->language == OLD(e->language) && e->quotes_lang == OLD(e->quotes_lang) \
	&& e->pairings1 == OLD(e->pairings1) && e->pairings2 == OLD(e->pairings2) && e->pairings3 == OLD(e->pairings3) && e->pairings4 == OLD(e->pairings4))
/* ... and three pieces of state that are NOT re-initialised by reset: allow_meta is re-derived by
 * mmd_tokenize_string, recurse_depth is restored by the recursive parsers themselves (C07),
 * random_seed_base_labels is only read under EXT_RANDOM_LABELS */
#define POST_reset_state_survives (e->allow_meta == OLD(e->allow_meta) && e->recurse_depth == OLD(e->recurse_depth) && e->random_seed_base_labels == OLD(e->random_seed_base_labels))
#define POST_mmd_engine_reset (POST_reset_root_assets && POST_reset_note_stacks && POST_reset_link_meta_stacks && POST_reset_block_stacks && POST_reset_config_survives && POST_reset_state_survives)

CONTRACT(void, mmd_engine_reset, (mmd_engine * e), PRE_mmd_engine_reset, POST_reset_root_assets,
	__CPROVER_ensures(POST_reset_note_stacks) __CPROVER_ensures(POST_reset_link_meta_stacks) __CPROVER_ensures(POST_reset_block_stacks)
	__CPROVER_ensures(POST_reset_config_survives) __CPROVER_ensures(POST_reset_state_survives)
	__CPROVER_assigns(e->root, e->asset_hash, e->abbreviation_stack->size, e->citation_stack->size, e->critic_stack->size,
		e->definition_stack->size, e->footnote_stack->size, e->glossary_stack->size, e->header_stack->size,
		e->link_stack->size, e->metadata_stack->size, e->table_stack->size))

#define MK_ST(field) { MK_STACK(s_) e->field = s_; }

void h_reset(void) {
	mmd_engine * e = ALLOC(sizeof(mmd_engine));
	MK_ST(abbreviation_stack) MK_ST(citation_stack) MK_ST(critic_stack) MK_ST(definition_stack) MK_ST(footnote_stack)
	MK_ST(glossary_stack) MK_ST(header_stack) MK_ST(link_stack) MK_ST(metadata_stack) MK_ST(table_stack)
	IN(bool, has_root);
	e->root = has_root ? ALLOC(sizeof(token)) : NULL;
	e->dstr = ALLOC(sizeof(DString));
	{ IN(unsigned long, ext); e->extensions = ext; }
	{ IN(unsigned short, rd); e->recurse_depth = rd; }
	{ IN(bool, am); e->allow_meta = am; }
	{ IN(short, lang); e->language = lang; }
	{ IN(short, ql); e->quotes_lang = ql; }
	{ IN(int, seed); e->random_seed_base_labels = seed; }
	e->pairings1 = ALLOC(8); e->pairings2 = ALLOC(8); e->pairings3 = ALLOC(8); e->pairings4 = ALLOC(8);
	e->asset_hash = NULL;
	CALLV(mmd_engine_reset(e), PRE_mmd_engine_reset, POST_mmd_engine_reset)
	REACH();
}
