/* C05 / C11 -- "no hidden history inside an engine", the metadata switch: mmd_tokenize_string (mmd.c, the real function) sets
 * e->allow_meta from the engine's EXTENSIONS ALONE before the first line is classified -- whatever value an earlier parse left in it
 * (every parse clears the flag at the first blank line, and mmd_engine_reset does not restore it: postcondition of unit engine_reset).
 *   requires any engine extensions, e->allow_meta true or false at entry, a range of <= LN bytes
 *   ensures  at the FIRST call of mmd_assign_line_type (the place that types a line LINE_META only while allow_meta is set)
 *            e->allow_meta == !(extensions & EXT_COMPATIBILITY) && !(extensions & EXT_NO_METADATA)
 * The lexer (re2c scan()) is a contract stub: it walks the range one byte per token and returns any token type, 0 at the end;
 * mmd_assign_line_type is a stub that records the flag it sees (its own contract: c11_line_type_total_any, c11_blank_line_ends_meta);
 * token_new / token_append_child are minimal stubs. */
#include "verif.h"
#include "d_string.h"
#include "libMultiMarkdown.h"
#include "token.h"
#include "mmd.h"
#include "lexer.h"
#ifndef LN
#define LN 2
#endif
static int g_calls; static bool g_first_am;
void mmd_assign_line_type(mmd_engine * e, token * line) { if (g_calls == 0) { g_first_am = e->allow_meta ? 1 : 0; } g_calls++; { IN(unsigned short, ty); ASSUME(ty != 0); line->type = ty; } { IN(bool, off); if (off) { e->allow_meta = false; } } }
int scan(Scanner * s, const char * stop) {
	if (s->cur >= stop) { return 0; }
	IN(int, ty); ASSUME(ty > 0 && ty < 400);
	s->start = s->cur; s->cur = s->cur + 1;
	return ty;
}
token * token_new(unsigned short type, size_t start, size_t len) {
	token * t = ALLOC(sizeof(token));
	t->type = type; t->start = start; t->len = len; t->next = NULL; t->prev = NULL; t->child = NULL; t->tail = t; t->mate = NULL;
	return t;
}
void token_append_child(token * parent, token * t) { if (parent && t) { if (!parent->child) { parent->child = t; } else { parent->child->tail->next = t; t->prev = parent->child->tail; } parent->child->tail = t; } }
token * mmd_tokenize_string(mmd_engine * e, size_t start, size_t len, bool stop_on_empty_line);
void h_tokenize_meta(void) {
	mmd_engine * e = ALLOC(sizeof(mmd_engine));
	DString * d = ALLOC(sizeof(DString)); d->str = ALLOC(LN + 1); d->str[LN] = 0; d->currentStringLength = LN; d->currentStringBufferSize = LN + 1; e->dstr = d;
	IN(unsigned long, ext); e->extensions = ext;
	IN(bool, am); e->allow_meta = am;                      /* whatever an earlier parse on this engine left behind */
	IN(size_t, len); ASSUME(len <= LN); IN(bool, stop_empty);
	token * root = mmd_tokenize_string(e, 0, len, stop_empty);
	ASSERT(root != NULL, "a root token is returned");
	ASSERT(g_calls >= 1, "at least one line is classified (the last line, at the end of the range)");
	bool expect = !(ext & EXT_COMPATIBILITY) && !(ext & EXT_NO_METADATA);
	ASSERT((g_first_am ? 1 : 0) == (expect ? 1 : 0), "C05/C11: when the first line is classified, metadata recognition is on iff the extensions allow it -- independent of what an earlier parse left in e->allow_meta");
	REACH();
}
