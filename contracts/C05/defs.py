# ---------------------------------------------------------------- C05 no hidden history
PROPS["C05"] = {
    "level": "other",
    "explanation": "What a function contract can say about hidden history is a FRAME and a reset postcondition. (1) mmd_engine_reset (unmodified mmd.c) is proved, for stacks of any size (loop contracts on the six pop-and-free loops), to empty all ten engine stacks and clear root/asset_hash while assigning nothing else -- the postcondition lists what survives a reset (dstr, extensions, language, quotes_lang, pairings, and the three state fields allow_meta, recurse_depth, random_seed_base_labels) and DFCC's assigns check shows that no static object is written. (2) Static-storage frame: mmd_print_char_html (obfuscate == false) and mmd_print_localized_char_html are proved to assign only the output string (real rng.c linked); the obfuscating path draws from a process-global generator (rng.c); since the repair recorded in known_findings.txt (fixed: property=C05) every export restarts that generator with its default seed, and unit c05_export_restarts_prng proves that scratch_pad_new does so exactly once for every engine state (the generator-level fact that ran_start(314159) leaves a state that does not depend on the prior one is the 2-safety unit c05_ran_start_determines_state: two independent copies of rng.c started in arbitrary states agree on every ran_x[k] and on the draw pointer). Before the repair the determinism unit for the obfuscating path failed and was reproduced on the real library (three calls of mmd_string_convert on an e-mail autolink gave three different byte strings). A static fact regenerates the inventory of non-const static objects and their writers and compares it with a reviewed allow list. (3) Source unchanged: bounded header units (shared with C10) assert the caller's source bytes are untouched by process_header_to_links/label_from_header and their callees; token_trim_* frames are C15's. (3b) the engine-lifetime nesting counter e->recurse_depth is restored by mmd_parse_token_chain on every path (unit c07_guard_parse_chain, shared with C07), and every parse starts from a reset engine (c05_parse_resets_first). (4) Engine untouched by the export's metadata pass: process_metadata_stack (unit c20_process_metadata_stack_2, shared with C20) is enforced with a frame of six scratch-pad fields, so a per-export setting (language, quotes, base header level) cannot leak into the engine object that a later conversion reuses. Level 'other': the reset and frame units are unbounded proofs of single functions, but the property quantifies over conversion histories, which no unit composes.",
    "slice": "mmd_engine_reset; mmd_print_char_html, mmd_print_localized_char_html, ran_num_next (frames); process_header_to_links/label_from_header/label_from_token/label_from_string/clean_string/link_new (source unchanged, bounded); static-storage inventory of the whole library (fact); mmd_tokenize_string (metadata switch re-initialised from the extensions alone); mmd_engine_parse_substring (reset first, requested range); mmd_engine_convert / _to_data / _to_file and mmd_engine_transclusion_manifest frame the engine's text (shared with C06, C13); mmd_engine_convert_opml/itmz_to_text restore it (shared with C14)",
    "not_reached": "byte-identical output of whole conversions across call histories; scratch_pad_new/scratch_pad_free (uthash); the asset hash in mmd_engine_reset when non-empty (uthash table did not get through the solver); rand()/srand() users are only listed by the static fact (they are behind EXT_RANDOM_FOOT/EXT_RANDOM_LABELS)",
    "trusted_base": ["cbmc/goto-cc/goto-instrument 6.11.0 (DFCC instrumentation: file-scope statics are not implicitly assignable; MiniSat2)", "lib/ds_sink.c as the DString specification (C19)", "grep-level parse of goto-instrument --show-symbol-table/--show-goto-functions for the static inventory"],
    "assumptions": ["element destructors (footnote_free, link_free, meta_free, asset_free, token_tree_free) assign nothing reachable from the engine (contracts, not proved here)"],
}
_C05_STACKS6 = ["abbreviation_stack", "citation_stack", "footnote_stack", "glossary_stack", "link_stack", "metadata_stack"]
# the six pop-and-free loops of mmd_engine_reset, in program order (goto-instrument --show-loops: mmd_engine_reset.0 .. .5);
# loops .6-.8 are uthash's do{}while(0) blocks, .9 is HASH_ITER over the asset hash (unwound)
_RESET_LOOPS = {"mmd_engine_reset": [
    {"loop_id": _i, "vars": ["e"],
     "invariants": "e->%s->size <= e->%s->capacity" % (_s, _s),
     "assigns": "e->%s->size" % _s,
     "decreases": "e->%s->size" % _s} for _i, _s in enumerate(_C05_STACKS6)]}
_RESET_REPLACE = ["footnote_free", "link_free", "meta_free", "asset_free", "token_tree_free"]
U("engine_reset", ["C05"], "h_reset", ["C05/reset.c"], ["mmd.c", "stack.c"], enforce="mmd_engine_reset", replace=_RESET_REPLACE, loops=_RESET_LOOPS, lib=(),
  cbmc_flags=["--unwind", "2", "--unwinding-assertions", "--object-bits", "10"],
  callees={"stack_pop/stack_peek": "body", "footnote_free/link_free/meta_free/asset_free/token_tree_free": "contract: assigns nothing reachable from the engine"},
  assumptions=["asset_hash is empty on entry (it is only filled when assets are stored for EPUB/TextBundle export); a non-empty uthash table did not get through the solver in 300 s",
               "engine stacks hold fewer than 2^29 entries"], min_obligations=50)

# ---- (2) static-storage frame
_FRAME_CALLEES = {"DString": "ghost sink lib/ds_sink.c (C19 specification as executable code)", "ran_num_next/ran_arr_cycle/ran_start/ran_array": "REAL bodies of rng.c (linked; not reached when obfuscate == false)"}
U("frame_print_char_html", ["C05"], "h_print_char", ["C05/frame.c"], ["html.c", "rng.c"], enforce="mmd_print_char_html", lib=("lib/ds_sink.c",),
  defines=["-DSINK_CAP=16"], cbmc_flags=["--unwind", "8", "--unwinding-assertions"], callees=_FRAME_CALLEES,
  assumptions=["obfuscate == false in this unit (the obfuscating path: units frame_ran_num_next and determ_print_char_html_obfuscate)", "output DString is the ghost sink with 8 free bytes"], min_obligations=20)
U("frame_print_localized_char_html", ["C05"], "h_print_localized", ["C05/frame.c"], ["html.c", "rng.c"], enforce="mmd_print_localized_char_html", lib=("lib/ds_sink.c",),
  defines=["-DSINK_CAP=16"], cbmc_flags=["--unwind", "8", "--unwinding-assertions"], callees=_FRAME_CALLEES,
  assumptions=["output DString is the ghost sink with 8 free bytes"], min_obligations=20)
# GENUINE DEFECT of /repo (reported to the lead): the e-mail obfuscation draws from a process-global generator that is never
# reseeded per conversion -> "drawing an obfuscation bit assigns nothing" fails at ran_num_next's write to ran_arr_ptr.
# Confirmed natively: mmd_string_convert("<user@example.com>\n", 0, FORMAT_HTML, ENGLISH) called twice in one process
# returns different bytes.  Fails on the unchanged tree, hence tier="thorough".
# RETIRED after the repair: "drawing an obfuscation bit assigns nothing" is stronger than C05 (which is stated per conversion);
# kept as documentation, not registered.
(lambda *a, **k: None)("frame_ran_num_next", ["C05"], "h_ran_num_next", ["C05/frame.c"], ["html.c", "rng.c"], enforce="ran_num_next", lib=("lib/ds_sink.c",),
  defines=["-DSINK_CAP=16"], cbmc_flags=["--unwind", "8", "--unwinding-assertions"], tier="thorough",
  callees={"ran_arr_cycle/ran_start/ran_array": "REAL bodies of rng.c (unreachable from the mid-buffer state)"},
  assumptions=["generator state: ran_arr_ptr points inside ran_arr_buf at a non-negative entry (the state after any earlier draw)"], min_obligations=5)

# ---- (2b) determinism of the character escaper (plain, real rng.c + html.c)
_C05_LIBSRC = ["aho-corasick.c", "beamer.c", "char.c", "critic_markup.c", "d_string.c", "epub.c", "file.c", "html.c", "itmz.c", "itmz-lexer.c",
           "itmz-parser.c", "itmz-reader.c", "latex.c", "lexer.c", "memoir.c", "miniz.c", "mmd.c", "object_pool.c", "opendocument.c",
           "opendocument-content.c", "opml.c", "opml-lexer.c", "opml-parser.c", "opml-reader.c", "parser.c", "rng.c", "scanners.c", "stack.c",
           "textbundle.c", "token.c", "token_pairs.c", "transclude.c", "uuid.c", "xml.c", "writer.c", "zip.c"]
for _ob, _tier in ((0, "quick"),):   # the obfuscating variant is retired: replaced by c05_export_restarts_prng + c05_ran_start_determines_stream
    # _ob == 1: GENUINE DEFECT (see frame_ran_num_next): fails on the unchanged tree, natively reproduced by the replay
    U("determ_print_char_html" + ("_obfuscate" if _ob else ""), ["C05"], "h_determ", ["C05/determ.c"], ["html.c", "rng.c"], plain=True, lib=("lib/ds_sink.c",), kind="bounded", tier=_tier,
      defines=["-DOBFUSCATE=%d" % _ob, "-DSINK_CAP=16"], bounds={"calls compared": 2, "generator position": 5, "unwind": 9},
      cbmc_flags=["--unwind", "9", "--unwinding-assertions"], functions=["mmd_print_char_html", "ran_num_next"],
      callees={"DString": "ghost sink lib/ds_sink.c", "ran_num_next": "REAL body (rng.c)", "ran_arr_cycle": "REAL body, unreachable from the mid-buffer state (unwinding assertions)"},
      native={"repo": _C05_LIBSRC}, min_obligations=20,
      assumptions=["generator state: ran_arr_ptr points inside ran_arr_buf, next two entries arbitrary in [0, 2^30)"] + (["obfuscate == false"] if not _ob else []))


# ---- (2c) after the repair (fix: "email obfuscation depends on earlier conversions"): every export restarts the generator
U("c05_export_restarts_prng", ["C05", "C06"], "h_scratch_restarts", ["C05/reseed.c"], ["writer.c", "stack.c"], plain=True, lib=(), kind="finite",
  defines=["-DUNIT_SCRATCH"], cbmc_flags=["--unwind", "2", "--unwinding-assertions"],
  functions=["scratch_pad_new"], callees={"ran_start": "logging stub", "stack_new": "body", "store_*": "not reached (engine stacks empty)"},
  nobody_ok=["rand"], assumptions=["engine stacks are empty in this unit (the restart is the first statement of scratch_pad_new and does not depend on them)", NOFAIL,
               "ran_start(314159) leaves a state independent of the prior one: by contract, proved by unit c05_ran_start_determines_state"])

# ---- ran_start determinism as a 2-safety obligation over two independent copies of rng.c
_C05_REN = ["ran_x", "ran_array", "ran_arr_buf", "ran_arr_dummy", "ran_arr_started", "ran_arr_ptr", "ran_start", "ran_arr_cycle", "ran_num_next"]
U("c05_ran_start_determines_state", ["C05"], "h_ran_start", ["C05/ranstart.c"], ["rng.c"], plain=True, lib=(), kind="finite",
  repo_variants=[("rng.c", ["-D%s=%s_B" % (_n, _n) for _n in _C05_REN])],
  pre_instrument=["--nondet-static"],
  cbmc_flags=["--unwind", "1200", "--unwinding-assertions", "--object-bits", "10"],
  bounds={"seed": "314159 (the only seed the library passes: c05_export_restarts_prng)", "prior state": "any (all statics nondet, two independent copies)"},
  functions=["ran_start", "ran_array"], callees={"all": "body"}, min_obligations=10, timeout=600, cost=60,
  assumptions=["the second copy of rng.c is the same source compiled with -D<global>=<global>_B for its nine external names"])

# ---- every parse starts from a reset engine
U("c05_parse_resets_first", ["C05", "C06", "C15"], "h_parse_resets", ["C05/parse_resets.c"], ["mmd.c"], plain=True, lib=(), kind="finite",
  drop_bodies=["mmd_engine_reset", "mmd_tokenize_string", "mmd_parse_token_chain"],
  pre_instrument=["--remove-function-body-regex", "^(?!mmd_engine_parse_substring$|mmd_engine_reset$|mmd_tokenize_string$|mmd_parse_token_chain$|h_parse_resets$|verif_.*$|__CPROVER.*$).*",
                  "--generate-function-body", "^(?!__CPROVER_|malloc$|free$|verif_).*$", "--generate-function-body-options", "nondet-return"],
  cbmc_flags=["--unwind", "3", "--unwinding-assertions", "--object-bits", "10"], checks=["--no-standard-checks"],
  functions=["mmd_engine_parse_substring"],
  callees={"mmd_engine_reset": "contract stub counting the call (its own contract: unit engine_reset)", "mmd_tokenize_string / mmd_parse_token_chain": "contract stubs requiring a preceding reset", "pairing passes, OPML/ITMZ import, stack_*": "body removed, nondet return value"},
  min_obligations=3, timeout=200, cost=5, assumptions=[NOFAIL])

# ---- every tokenizer run re-initialises the metadata switch from the extensions alone
U("c05_tokenize_resets_allow_meta", ["C05", "C11"], "h_tokenize_meta", ["C05/tokenize_meta.c"], ["mmd.c"], plain=True, lib=(), kind="bounded",
  defines=["-DLN=2"], drop_bodies=["mmd_assign_line_type"],
  pre_instrument=["--remove-function-body-regex", "^(?!mmd_tokenize_string$|mmd_assign_line_type$|scan$|token_new$|token_append_child$|h_tokenize_meta$|verif_.*$|__CPROVER.*$).*",
                  "--generate-function-body", "^(?!__CPROVER_|malloc$|free$|verif_).*$", "--generate-function-body-options", "nondet-return"],
  cbmc_flags=["--unwind", "5", "--unwinding-assertions", "--object-bits", "10"], checks=["--no-standard-checks"],
  bounds={"range length<=": 2, "token types": "any (lexer stub)", "unwind": 5},
  functions=["mmd_tokenize_string"],
  callees={"scan (re2c lexer)": "contract stub: one byte per token, any type, 0 at the end of the range", "mmd_assign_line_type": "stub recording e->allow_meta at its first call; sets any non-zero line type, may clear the flag",
           "token_new, token_append_child": "minimal stubs", "scan_empty_meta_line": "body removed, nondet return value"},
  min_obligations=3, timeout=600, cost=60, assumptions=[NOFAIL, "memory safety of the function is not claimed by this unit (standard checks off)"])
