"""C05 supporting static fact (not an obligation): inventory of the objects with static storage duration
that are not const-qualified in the library's goto binary, and of the functions that write them (direct
ASSIGN to the object, or taking its address -- through which a callee may write it).  Regenerated on every
check from the sources under test and compared with the reviewed list contracts/C05/statics.allow.

  * object and writers as reviewed                      -> ok
  * a NEW non-const static, or a NEW writer/address-taker of a reviewed one
                                                       -> inconclusive (needs review; never a violation)
  * a reviewed entry that disappeared                   -> ok (noted)

Hidden history can only live in these objects (or in the heap reachable from them), which is why the
DFCC frame units of C05 have assigns clauses with no static in them.
"""
import os, re, subprocess, concurrent.futures as cf

LIBSRC = ["aho-corasick.c", "beamer.c", "char.c", "critic_markup.c", "d_string.c", "epub.c", "file.c", "html.c", "itmz.c", "itmz-lexer.c",
          "itmz-parser.c", "itmz-reader.c", "latex.c", "lexer.c", "memoir.c", "miniz.c", "mmd.c", "object_pool.c", "opendocument.c",
          "opendocument-content.c", "opml.c", "opml-lexer.c", "opml-parser.c", "opml-reader.c", "parser.c", "rng.c", "scanners.c", "stack.c",
          "textbundle.c", "token.c", "token_pairs.c", "transclude.c", "uuid.c", "xml.c", "writer.c", "zip.c"]
def _here():
    # vp.py exec()s this file without __file__; it puts /verif/contracts first on sys.path
    import sys
    if "__file__" in globals():
        return os.path.dirname(os.path.abspath(__file__))
    for d in list(sys.path) + [os.path.join(os.getcwd(), "contracts")]:
        if d and os.path.exists(os.path.join(d, "C05", "statics.allow")):
            return os.path.join(os.path.abspath(d), "C05")
    raise RuntimeError("cannot locate contracts/C05")


HERE = _here()


def _run(cmd, out=None, timeout=300):
    if out:
        with open(out, "wb") as f:
            p = subprocess.run(cmd, stdout=f, stderr=subprocess.PIPE, timeout=timeout)
        return p.returncode, p.stderr.decode("utf-8", "replace")
    p = subprocess.run(cmd, stdout=subprocess.PIPE, stderr=subprocess.STDOUT, timeout=timeout)
    return p.returncode, p.stdout.decode("utf-8", "replace")


def _key(name, loc):
    m = re.search(r"file (\S+)", loc)
    f = os.path.basename(m.group(1)) if m else "?"
    return "%s@%s" % (re.sub(r"\$link\d+$", "", name), f)


def inventory(work, repo):
    src = os.path.join(repo, "src")
    inc = ["-I" + src]
    for b in (os.path.join(repo, "_build"), "/repo/_build", os.path.join(HERE, "..", "lib", "fallback_build")):
        if os.path.exists(os.path.join(b, "version.h")):
            inc.append("-I" + b)
            break
    wd = os.path.join(work, "c05_statics")
    os.makedirs(wd, exist_ok=True)
    files = [f for f in LIBSRC if os.path.exists(os.path.join(src, f))]
    extra = sorted(f for f in os.listdir(src) if f.endswith(".c") and f not in LIBSRC and f not in ("main.c", "argtable3.c", "char_lookup.c"))
    files += extra

    def cc(f):
        o = os.path.join(wd, f.replace(".", "_") + ".o")
        rc, txt = _run(["goto-cc", "-c", "--export-file-local-symbols"] + inc + [os.path.join(src, f), "-o", o])
        return (o if rc == 0 else None), f, txt

    objs = []
    with cf.ThreadPoolExecutor(max_workers=4) as ex:
        for o, f, txt in ex.map(cc, files):
            if o is None:
                raise RuntimeError("goto-cc failed on %s: %s" % (f, txt[-400:]))
            objs.append(o)
    gb = os.path.join(wd, "lib.gb")
    rc, txt = _run(["goto-cc"] + objs + ["-o", gb])
    if rc != 0:
        raise RuntimeError("link failed: " + txt[-400:])
    st, gf = os.path.join(wd, "symtab.txt"), os.path.join(wd, "gf.txt")
    _run(["goto-instrument", "--show-symbol-table", gb], out=st)
    _run(["goto-instrument", "--show-goto-functions", gb], out=gf)
    statics = {}     # symbol -> (key, type)
    for ent in open(st, errors="replace").read().split("\n\n"):
        d = {}
        for l in ent.splitlines():
            m = re.match(r"^(\w[\w ]*?)\.*: ?(.*)$", l)
            if m:
                d[m.group(1).strip()] = m.group(2)
        name, loc, ty = d.get("Symbol", ""), d.get("Location", ""), d.get("Type", "")
        if "static_lifetime" not in d.get("Flags", "") or "/src/" not in loc or "$object" in name:
            continue
        if ty.startswith("const ") or "string_constant" in name:
            continue    # const-qualified objects and literals are not carriers of history
        if re.match(r"^[^()]*\((?!\*)", ty):
            continue    # a function (function POINTER objects are kept)
        statics[name] = (_key(name, loc), ty)
    writers = {k: set() for k, _ in statics.values()}
    taken = {k: set() for k, _ in statics.values()}
    if statics:
        pat = re.compile(r"(?<![\w:$])(" + "|".join(re.escape(n) for n in sorted(statics, key=len, reverse=True)) + r")(?![\w$])")
        cur = None
        for line in open(gf, errors="replace"):
            m = re.match(r"^(\S+) /\* \S+ \*/\s*$", line)
            if m:
                cur = m.group(1)
                continue
            s = line.strip()
            if not cur or cur.startswith("__CPROVER") or not s:
                continue
            if (s.startswith("ASSIGN ") or s.startswith("CALL ")) and " := " in s:
                lhs, rhs = s.split(" ", 1)[1].split(" := ", 1)
                for n in pat.findall(lhs):
                    # `*p` / p[i] with a static pointer p on the left writes the pointee, p itself is only read
                    if re.match(r"^\*?\(?\*", lhs) or (statics[n][1].endswith("*") and re.match(r"^\*", lhs)):
                        continue
                    if re.match(r"^" + re.escape(n) + r"(\[|\.|$| )", lhs):
                        writers[statics[n][0]].add(cur)
            for m2 in re.finditer(r"address_of\(([^()\[\]]+)", s):
                n = m2.group(1).strip()
                if n in statics:
                    taken[statics[n][0]].add(cur)
    # the C library's own hidden state: rand()/srand() both advance/replace the process-global libc generator
    libc = set()
    cur = None
    for line in open(gf, errors="replace"):
        m = re.match(r"^(\S+) /\* \S+ \*/\s*$", line)
        if m:
            cur = m.group(1)
        elif cur and not cur.startswith("__CPROVER") and re.search(r"CALL (.* := )?s?rand\(", line):
            libc.add(cur)
    inv = {"rand_state@libc": {"type": "libc generator state (rand/srand)", "writers": sorted(libc), "address_taken_in": []}}
    for n, (k, ty) in statics.items():
        inv[k] = {"type": ty, "writers": sorted(writers[k] - {"__CPROVER_initialize"}), "address_taken_in": sorted(taken[k] - {"__CPROVER_initialize"})}
    return inv


def load_allow():
    allow = {}
    p = os.path.join(HERE, "statics.allow")
    for line in open(p):
        line = line.strip()
        if not line or line.startswith("#"):
            continue
        parts = [x.strip() for x in line.split("|")]
        parts += [""] * (4 - len(parts))
        allow[parts[0]] = {"writers": set(x for x in parts[1].split(",") if x), "address_taken_in": set(x for x in parts[2].split(",") if x), "note": parts[3]}
    return allow


def run(work, repo):
    inv = inventory(work, repo)
    allow = load_allow()
    new, changed, lines = [], [], []
    for k in sorted(inv):
        e = inv[k]
        lines.append("%s | writers: %s | address taken in: %s | %s" % (k, ",".join(e["writers"]) or "-", ",".join(e["address_taken_in"]) or "-", allow.get(k, {}).get("note", "NOT REVIEWED")))
        if k not in allow:
            new.append("%s (%s) writers=%s address_taken_in=%s" % (k, e["type"], e["writers"], e["address_taken_in"]))
            continue
        nw = set(e["writers"]) - allow[k]["writers"]
        na = set(e["address_taken_in"]) - allow[k]["address_taken_in"]
        if nw or na:
            changed.append("%s: new writers %s, address newly taken in %s" % (k, sorted(nw), sorted(na)))
    gone = sorted(set(allow) - set(inv))
    detail = "%d non-const objects with static storage in the library; %d reviewed in statics.allow" % (len(inv), len(allow))
    if gone:
        detail += "; reviewed entries no longer present: " + ", ".join(gone)
    out = [{"name": "static_storage_inventory", "status": "ok" if not (new or changed) else "inconclusive",
            "detail": detail + ("" if not (new or changed) else "; NEEDS REVIEW -- " + "; ".join(new + changed)), "inventory": lines}]
    if new or changed:
        out[0]["diag"] = "static-storage inventory differs from contracts/C05/statics.allow (needs review, not a violation): " + "; ".join(new + changed)[:500]
    return out


if __name__ == "__main__":
    import sys, json, tempfile
    w = tempfile.mkdtemp(prefix="c05facts_", dir=os.path.join(HERE, "..", "..", ".work") if os.path.isdir(os.path.join(HERE, "..", "..", ".work")) else None)
    repo = sys.argv[1] if len(sys.argv) > 1 else "/repo"
    if "--emit" in sys.argv:
        for k, e in sorted(inventory(w, repo).items()):
            print("%s | %s | %s | " % (k, ",".join(e["writers"]), ",".join(e["address_taken_in"])))
    else:
        print(json.dumps(run(w, repo), indent=1))
    import shutil
    shutil.rmtree(w, ignore_errors=True)
