/* C05 -- after the repair (fix: commit "email obfuscation depends on earlier conversions"): the export
 * of every conversion begins by restarting the process-wide obfuscation generator, so the entity stream
 * is a function of the document only.  Two obligations:
 *  (a) h_scratch_restarts: scratch_pad_new (writer.c, real) calls ran_start exactly once, with the
 *      generator's default seed, for every engine state (ran_start is a logging stub here);
 *  (b) h_ran_start_determines (real rng.c): from ANY prior generator state (ran_x, ran_arr_buf, ran_arr_ptr
 *      havocked), ran_start(314159) followed by draws yields the same values as from any other prior state
 *      -- i.e. the stream after a restart does not depend on history. */
#include "verif.h"
#include <stdio.h>
#include "d_string.h"
#include "libMultiMarkdown.h"
#include "token.h"
#include "writer.h"
#include "stack.h"
#include "mmd.h"

#ifdef UNIT_SCRATCH
long g_seed; int g_calls;
#ifndef VERIF_NATIVE
void ran_start(long seed) { g_seed = seed; g_calls++; }
#endif
static stack * empty_stack(void) { stack * s = ALLOC(sizeof(stack)); s->element = ALLOC(8 * sizeof(void *)); s->capacity = 8; s->size = 0; return s; }
void h_scratch_restarts(void) {
	mmd_engine * e = ALLOC(sizeof(mmd_engine));
	IN(unsigned long, ext); IN(short, lang); IN(short, ql); IN(short, format);
	e->extensions = ext & ~(unsigned long)(EXT_RANDOM_FOOT | EXT_RANDOM_LABELS); e->language = lang; e->quotes_lang = ql;
	e->header_stack = empty_stack(); e->link_stack = empty_stack(); e->citation_stack = empty_stack(); e->footnote_stack = empty_stack();
	e->glossary_stack = empty_stack(); e->abbreviation_stack = empty_stack(); e->metadata_stack = empty_stack(); e->definition_stack = empty_stack();
	e->table_stack = empty_stack(); e->asset_hash = NULL; e->root = NULL; e->dstr = NULL;
	g_calls = 0; g_seed = 0;
	scratch_pad * p = scratch_pad_new(e, format);
	ASSERT(p != NULL, "scratch pad allocated");
	ASSERT(g_calls == 1 && g_seed == 314159L, "postcondition C05: every export restarts the obfuscation generator exactly once with the default seed");
	REACH();
}
#endif

/* (b) "ran_start(seed) makes the generator state a function of the seed alone" is checked in C05/ranstart.c (unit
 * c05_ran_start_determines_state) as a 2-safety obligation over two independent copies of rng.c with the concrete seed the
 * library uses; an earlier attempt with a symbolic seed and the first ran_arr_cycle ran out of memory. */
