/* C05 (2b) -- determinism of the character escaper, harness-encoded (plain CBMC, real rng.c linked).
 *
 * "Output is a function of (source, options) only", at the granularity of one character:
 *
 *     for all c, obfuscate, line_breaks, and every state of the process-global generator:
 *     two successive calls mmd_print_char_html(out_i, c, obfuscate, line_breaks) on empty strings
 *     produce byte-identical output
 *
 * (the first call stands for "whatever was converted earlier in the same process").  This is the unit that
 * decides the obfuscating path, which the DFCC frame unit cannot (variadic d_string_append_printf, see
 * frame.c).  -DOBFUSCATE=0: obfuscate == false -- holds.  -DOBFUSCATE=1: obfuscate symbolic -- FAILS on the
 * unchanged tree: ran_num_next() draws one number per obfuscated character from a generator that is never
 * reseeded per conversion, so the SAME character is rendered "&#97;" or "&#x61;" depending on history.
 * NOTE for whoever repairs /repo: the statement is per CALL because on the current tree nothing ever resets the generator
 * (ran_start is not called outside rng.c), so "earlier call" includes "earlier conversion".  A repair that reseeds at the
 * start of every conversion makes the stream a function of the source position; this unit must then be restated per
 * conversion (generator state at export entry == the state after ran_start(fixed seed)), not kept as is.
 * DString is the ghost sink (lib/ds_sink.c) under CBMC, the real d_string.c in the native replay. */
#include "writer.h"
#include "ds_spec.h"
#include "html.h"

#ifndef OBFUSCATE
#define OBFUSCATE 0
#endif
#ifndef RAN_K
#define RAN_K 5         /* position of the generator inside its buffer (concrete: a symbolic index into the 8 KiB buffer exhausts the solver) */
#endif

extern long ran_arr_buf[1009];
extern long * ran_arr_ptr;

void h_determ(void) {
	IN(char, c); IN(bool, obfuscate); IN(bool, line_breaks);
	ASSUME(c != 0);            /* a character of a C-string source */
	if (!OBFUSCATE) { obfuscate = false; }
	/* the generator somewhere inside its buffer, next two numbers arbitrary (what an earlier conversion left behind) */
	{ IN(long, v0); IN(long, v1); ASSUME(v0 >= 0 && v0 < (1L << 30) && v1 >= 0 && v1 < (1L << 30));
	  ran_arr_buf[RAN_K] = v0; ran_arr_buf[RAN_K + 1] = v1; ran_arr_buf[RAN_K + 2] = 0; ran_arr_ptr = &ran_arr_buf[RAN_K]; }
	DString * a = d_string_new("");
	DString * b = d_string_new("");
	mmd_print_char_html(a, c, obfuscate, line_breaks);
	mmd_print_char_html(b, c, obfuscate, line_breaks);
	ASSERT(DS_WF(a) && DS_WF(b), "both outputs well formed");
	ASSERT(a->currentStringLength <= 6 && b->currentStringLength <= 6, "an escaped character is at most 6 bytes");
	bool same = a->currentStringLength == b->currentStringLength;
	for (size_t i = 0; i < 6; i++) { if (i < a->currentStringLength && i < b->currentStringLength && a->str[i] != b->str[i]) { same = false; } }
	ASSERT(same, "postcondition C05: the same character with the same options is rendered byte-identically regardless of earlier calls (no hidden history)");
	REACH();
}
