/* C05 -- "no hidden history inside an engine": mmd_engine_parse_substring (mmd.c, the real function) starts EVERY parse from a reset
 * engine, whatever the engine holds (root NULL or not, any stacks, any extensions): mmd_engine_reset -- whose own contract (all ten
 * stacks emptied, root cleared; unit engine_reset) is what makes a parse independent of earlier ones -- is called exactly once, before
 * the tokenizer, the block parser and the pairing passes (all of them contract stubs here); and the engine's extensions are
 * the same after the call as before.  (C15) the range given to the tokenizer is the requested one, inside the text. */
#include "verif.h"
#include "d_string.h"
#include "token.h"
#include "mmd.h"
static unsigned g_resets, g_tok; static mmd_engine * g_e; static size_t g_ts, g_tl; static unsigned long g_text;
void mmd_engine_reset(mmd_engine * e) { ASSERT(e == g_e, "the engine being parsed is the one reset"); g_resets++; }
token * mmd_tokenize_string(mmd_engine * e, size_t start, size_t len, bool stop_on_empty_line) {
	ASSERT(g_resets == 1, "C05: the tokenizer runs on an engine that has just been reset (every parse starts from a clean engine, whatever it held before)");
	g_tok++; g_ts = start; g_tl = len; g_text = e->extensions;
	bool none; return none ? NULL : (token *)ALLOC(sizeof(token));
}
void mmd_parse_token_chain(mmd_engine * e, token * chain) { ASSERT(g_resets == 1 && g_tok == 1, "block parsing follows reset and tokenizing"); }
token * mmd_engine_parse_substring(mmd_engine * e, size_t byte_start, size_t byte_len);
void h_parse_resets(void) {
	mmd_engine * e = ALLOC(sizeof(mmd_engine)); g_e = e;
	DString * d = ALLOC(sizeof(DString)); d->str = ALLOC(8); d->str[7] = 0; d->currentStringLength = 7; d->currentStringBufferSize = 8; e->dstr = d;
	{ IN(unsigned long, ext); e->extensions = ext; IN(token *, root); e->root = root; }       /* any previous state, including 'no tree but non-empty stacks' */
	unsigned long ext0 = e->extensions;
	IN(size_t, start); IN(size_t, len);
	ASSUME(start <= 7 && (len == (size_t) -1 || len <= 7 - start));        /* the caller's side: a range inside the text, or 'to the end' */
	g_resets = 0; g_tok = 0;
	token * doc = mmd_engine_parse_substring(e, start, len);
	ASSERT(g_resets == 1 && g_tok == 1, "C05: exactly one reset and one tokenizer run per parse");
	ASSERT(e->extensions == ext0, "the engine's extensions are restored");
	/* (C15) the range handed to the tokenizer -- every token it makes lies in that range -- is the requested one, inside the text */
	if (ext0 & (EXT_PARSE_OPML | EXT_PARSE_ITMZ)) {
		ASSERT(g_ts == 0 && g_tl == d->currentStringLength, "C15: after an outline import the whole (converted) text is tokenized");
	} else {
		ASSERT(g_ts == start, "C15: tokenizing starts at the requested offset");
		ASSERT(g_tl == (len == (size_t) -1 ? 7 - start : len), "C15: the tokenized range is the requested one; -1 means 'from byte_start to the end of the text' (never past it)");
		ASSERT(g_ts + g_tl <= d->currentStringLength, "C15: the tokenized range lies inside the text");
	}
	ASSERT(start == 0 || (g_text & EXT_NO_METADATA), "C11: a parse that does not start at the beginning of the text does not look for metadata");
	REACH();
}
