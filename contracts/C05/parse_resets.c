/* C05 -- "no hidden history inside an engine": mmd_engine_parse_substring (mmd.c, the real function) starts EVERY parse from a reset
 * engine, whatever the engine holds (root NULL or not, any stacks, any extensions): mmd_engine_reset -- whose own contract (all ten
 * stacks emptied, root cleared; unit engine_reset) is what makes a parse independent of earlier ones -- is called exactly once, before
 * the tokenizer, the block parser and the pairing passes (all of them contract stubs here); and the engine's extensions are
 * the same after the call as before. */
#include "verif.h"
#include "d_string.h"
#include "token.h"
#include "mmd.h"
static unsigned g_resets, g_tok; static mmd_engine * g_e;
void mmd_engine_reset(mmd_engine * e) { ASSERT(e == g_e, "the engine being parsed is the one reset"); g_resets++; }
token * mmd_tokenize_string(mmd_engine * e, size_t start, size_t len, bool stop_on_empty_line) {
	ASSERT(g_resets == 1, "C05: the tokenizer runs on an engine that has just been reset (every parse starts from a clean engine, whatever it held before)");
	g_tok++;
	bool none; return none ? NULL : (token *)ALLOC(sizeof(token));
}
void mmd_parse_token_chain(mmd_engine * e, token * chain) { ASSERT(g_resets == 1 && g_tok == 1, "block parsing follows reset and tokenizing"); }
token * mmd_engine_parse_substring(mmd_engine * e, size_t byte_start, size_t byte_len);
void h_parse_resets(void) {
	mmd_engine * e = ALLOC(sizeof(mmd_engine)); g_e = e;
	DString * d = ALLOC(sizeof(DString)); d->str = ALLOC(8); d->str[7] = 0; d->currentStringLength = 7; d->currentStringBufferSize = 8; e->dstr = d;
	{ IN(unsigned long, ext); e->extensions = ext; IN(token *, root); e->root = root; }       /* any previous state, including 'no tree but non-empty stacks' */
	unsigned long ext0 = e->extensions;
	IN(size_t, start); IN(size_t, len);
	g_resets = 0; g_tok = 0;
	token * doc = mmd_engine_parse_substring(e, start, len);
	ASSERT(g_resets == 1 && g_tok == 1, "C05: exactly one reset and one tokenizer run per parse");
	ASSERT(e->extensions == ext0, "the engine's extensions are restored");
	REACH();
}
