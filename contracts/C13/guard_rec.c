/* C13 -- "transclusion terminates on any include graph": the RECURSION CONTRACT of mmd_transclude_source
 * (transclude.c, the real unmodified function), enforced with --enforce-contract-rec (the recursive call is
 * replaced by the contract being proved, so its requires clause is CHECKED at the recursive call site) and
 * with loop contracts (invariant + decreases) on its three loops: no unwinding bound anywhere.
 *
 * String CONTENT is abstracted (every callee that looks at bytes is a contract stub whose result is
 * unconstrained: strstr may or may not find a marker anywhere, strcmp may return anything, scan_file may or
 * may not find a file), so one run covers every document, every file system and hence every include graph.
 * What stays real is what the property is anchored in: the stack of files being expanded, the guard loop,
 * push / recursion / pop, the manifest loop, the search-position arithmetic (last_match) and the string
 * LENGTHS (the DString stubs restate the length arithmetic of the C19 contracts).
 *
 * Obligations that decide the property's first sentence:
 *  (G) guard: a file is opened / expanded (scan_file, recursive call) only after its path was compared with EVERY
 *      path on the stack of files being expanded and found different from each (ghost index g_k: universally
 *      quantified).  Together with (S) the stack entries are pairwise different paths of existing files, so the
 *      recursion depth is bounded by the number of files: self-inclusion and cycles of every length are cut.
 *  (S) stack protocol: on return the stack has its entry size and the entries below are untouched.
 *  (T) per-document termination: the marker loop has a variant -- the number of bytes after the search position
 *      strictly decreases in every iteration (marker skipped, "TOC" skipped, marker replaced by a file of any
 *      length): inserted text is never rescanned.  The two inner loops have the obvious variants.
 *  (P) the search position handed to strstr is always inside the string being searched.
 *  (C) a marker whose path was resolved and differs from every file being expanded is looked up in the file system.
 *  (X) the metadata block the engine reports for an included file is erased, in full, before the file is inserted.
 *  (M) manifest: a path is appended to the manifest only after it was compared with EVERY manifest entry and
 *      found different from each (ghost index g_mk); existing manifest entries are never removed or changed.
 * Found with it (see known_findings.txt): with no search folder the function jumps over the initialisation of
 * parse_stack/stack_depth and then frees / writes through the uninitialised pointer. */
#include "verif.h"
#include "d_string.h"
#include "stack.h"
#include "file.h"
#include "libMultiMarkdown.h"
#include "transclude.h"

#ifndef CAPMAX
#define CAPMAX (1UL << 20)            /* stack / manifest entries (the loop counters are int) */
#endif
#ifndef DSMAX
#define DSMAX  (1UL << 32)            /* bytes per string buffer */
#endif

/* ------------------------------------------------------------------ ghost state */
stack * g_stackp;        /* the stack of files being expanded */
stack * g_manifest;      /* the manifest (may be NULL) */
stack g_nostack; void * g_noelement[1]; stack * g_st[2];     /* see the contract: selector for entry values of a nullable stack */
size_t g_k, g_mk;        /* ghost indices: "for every entry of the stack / of the manifest" */
bool g_hit, g_eq;        /* the current candidate path was compared with stack entry g_k: found different / found equal */
bool g_mhit, g_meq;      /* same for manifest entry g_mk */
DString * g_src;         /* the document the call under verification expands */
char * g_last;           /* where the last "{{" was found */

/* ------------------------------------------------------------------ content-free DStrings and engines: per-activation scratch objects
 * CBMC 6.11 DFCC does not allow malloc/free inside a loop that carries a loop contract ("dynamic allocation is allowed" fails), so the
 * objects the real function creates per marker (file_path, buffer, the engine; each is released before the next marker) are the three
 * members of a scratch pool built by the harness.  Frames by identity of the `source` argument: the call under verification
 * (source == the harness document g_S) may write its pool g_p0; a nested call gets our buffer as ITS source (source == &g_p0->buf.d)
 * and may write only that buffer's length and its own pool g_p1 -- so the caller's live objects are outside the frame of the
 * (contract-replaced) recursive call, exactly as with real allocation.
 * A string has no bytes here: str is the address of the object's tag byte (identity only), lengths are the DString fields; "inside the
 * string" is therefore stated over offsets (obligation (P)), not over memory. */
typedef struct { size_t open_off, stop_off, ins_len; bool opened, ins, toc, cand, any_eq, scanned; bool live; DString * eng_d; DString d; char tag; } dsobj;     /* open_off..toc: ghost of obligation (R); cand..scanned: of (C); per document */
typedef struct pool { dsobj fp, eng, buf; size_t meta_off; bool strip_needed, strip_done; } pool;      /* meta_off..: ghost of obligation (X) */
dsobj * g_S;             /* the document of the call under verification */
pool * g_p0, * g_p1;     /* its scratch pool, and the (opaque) pool of a nested call */
static void obj_init(dsobj * o, size_t extra) {
	ASSERT(!o->live, "model capacity: one candidate path, one buffer and one engine alive at a time per activation");
	o->live = true; o->d.str = &o->tag; o->eng_d = NULL; o->opened = false; o->ins = false; o->toc = false; o->cand = false; o->any_eq = false; o->scanned = false;
	size_t cap, l; ASSUME(cap >= 1 && cap <= DSMAX && l < cap && cap <= extra + 1);
	o->d.currentStringBufferSize = cap; o->d.currentStringLength = l;
}
static void obj_release(dsobj * o) { ASSERT(o != NULL && o->live, "an object is released once"); o->live = false; }
static dsobj * obj_of(DString * d) { return d == &g_p0->fp.d ? &g_p0->fp : (d == &g_p0->buf.d ? &g_p0->buf : NULL); }
#define MINE(src)   ((src) == &g_S->d)
#define THEIRS(src) ((src) == &g_p0->buf.d)
#define DS_OK(ds_) ((MINE(ds_) ? ((ds_)->str == &g_S->tag && g_S->live) : (THEIRS(ds_) && (ds_)->str == &g_p0->buf.tag && g_p0->buf.live)) \
	&& (ds_)->currentStringLength < (ds_)->currentStringBufferSize && (ds_)->currentStringBufferSize <= DSMAX)
/* the candidate path was edited: whatever it was compared with before no longer counts */
static void path_changed(DString * d) { if (d == &g_p0->fp.d) { g_hit = false; g_eq = false; g_mhit = false; g_meq = false; } }
static void ds_relen(DString * d) { size_t l; ASSUME(l < d->currentStringBufferSize); d->currentStringLength = l; path_changed(d); }

DString * d_string_new(const char * s) { g_hit = false; g_eq = false; g_mhit = false; g_meq = false; obj_init(&g_p0->fp, DSMAX); g_S->cand = true; g_S->any_eq = false; g_S->scanned = false; return &g_p0->fp.d; }  /* a new candidate path: nothing compared yet */
char * d_string_free(DString * d, bool freeCharacterData) {
	ASSERT(d != g_src, "the document being expanded is not freed");
	char * r = freeCharacterData ? NULL : d->str;
	obj_release(obj_of(d));
	return r;
}
void d_string_append(DString * d, const char * s) { ds_relen(d); }
void d_string_append_c(DString * d, char c) { ds_relen(d); }
void add_trailing_sep(DString * d) { ds_relen(d); }
/* lengths as in the C19 contracts of d_string_erase / d_string_insert (content not tracked; the buffer is as large as needed:
 * capacity is symbolic and unbounded, executions that would outgrow it are left to a larger capacity) */
void d_string_erase(DString * d, size_t pos, size_t len) {
	size_t L = d->currentStringLength;
	if (d == &g_p0->buf.d && pos == 0 && len == g_p0->meta_off) { g_p0->strip_done = true; }
	if (d == &g_p0->buf.d) { ASSERT(len == 0 || (g_p0->strip_needed && pos == 0 && len == g_p0->meta_off), "(X) nothing but its metadata block -- when the engine reports one -- is erased from the included text (a file without metadata is inserted whole)"); }
	if (pos > L || len == 0) { return; }
	path_changed(d);
	if (len >= L - pos) { d->currentStringLength = pos; } else { d->currentStringLength = L - len; }
}
void d_string_insert(DString * d, size_t pos, const char * s) {
	ASSERT(s == g_p0->buf.d.str && g_p0->buf.live, "d_string_insert: the inserted text is the buffer read from the file");
	ASSERT(!g_p0->strip_needed || g_p0->strip_done, "(X) the metadata block of the included file (its whole extent as reported by the engine) is erased before the file is inserted");
	size_t n = g_p0->buf.d.currentStringLength;                       /* strlen(s): DS_WF of the owner (C19) */
	ASSUME(d->currentStringLength + n < d->currentStringBufferSize);
	d->currentStringLength += n;
	if (d == &g_S->d) { g_S->ins = true; g_S->ins_len = n; }
}

stack * g_peek_stack; size_t g_peek_idx;      /* provenance of the last entry read: which stack, which index */
/* ------------------------------------------------------------------ stack.c by contract (C18): push/pop/peek_index/new/free */
static stack * st_fresh(void) {
	stack * s = malloc(sizeof(stack)); size_t cap; ASSUME(cap >= 1 && cap <= CAPMAX);
	s->element = malloc(cap * sizeof(void *)); s->capacity = cap; s->size = 0; return s;
}
#define ST_OK(s) ((s)->capacity >= 1 && (s)->capacity <= CAPMAX && (s)->size <= (size_t)(s)->capacity \
	&& __CPROVER_POINTER_OFFSET((s)->element) == 0 && __CPROVER_rw_ok((s)->element, (s)->capacity * sizeof(void *)))
stack * stack_new(int startingSize) { stack * s = st_fresh(); if (g_stackp == NULL) { g_stackp = s; g_st[1] = s; } return s; }
void stack_free(stack * s) { free(s->element); free(s); }
void stack_push(stack * s, void * element) {
	if (s == g_manifest) {
		ASSERT(!(g_mk < s->size) || (g_mhit && !g_meq), "(M) a path is added to the manifest only after it was compared with every entry (ghost index) and differs: each file listed once");
	}
	ASSUME(s->size < (size_t)s->capacity);      /* growth by realloc is stack_push's contract (C18); capacity is symbolic */
	s->element[s->size++] = element;
}
void * stack_peek(stack * s) { g_peek_stack = s; g_peek_idx = s->size - 1; return s->size == 0 ? NULL : s->element[s->size - 1]; }
void * stack_pop(stack * s) { if (s->size == 0) { return NULL; } return s->element[--s->size]; }
void * stack_peek_index(stack * s, size_t index) { g_peek_stack = s; g_peek_idx = index; return index >= s->size ? NULL : s->element[index]; }

/* ------------------------------------------------------------------ my_strdup (static in transclude.c: strlen + malloc + strcpy) by contract:
 * a fresh string, different from every other object.  Its malloc would sit inside the marker loop, which CBMC 6.11 DFCC cannot handle
 * under a loop contract; the copies come from a harness array of symbolic size instead (identity only, never written). */
char * g_copies; size_t g_ncopies, g_copy_next;
char * __CPROVER_file_local_transclude_c_my_strdup(const char * source) {
	ASSERT(source == g_p0->fp.d.str && g_p0->fp.live, "my_strdup: the string copied into the manifest is the candidate path");
	ASSUME(g_copy_next < g_ncopies);
	return g_copies + g_copy_next++;
}

/* ------------------------------------------------------------------ path helpers (file.c): opaque strings */
static char * str_fresh(void) { size_t n; ASSUME(n >= 1 && n <= DSMAX); char * s = malloc(n); s[n - 1] = 0; return s; }
char * path_from_dir_base(const char * dir, const char * base) { if (!dir && !base) { return NULL; } return str_fresh(); }
void split_path_file(char ** dir, char ** file, const char * path) { *dir = str_fresh(); *file = str_fresh(); }
bool is_separator(char c) { bool r; return r; }

/* ------------------------------------------------------------------ engine: by contract (metadata end offset inside the string) */
mmd_engine * mmd_engine_create_with_dstring(DString * d, unsigned long extensions) { dsobj * e = &g_p0->eng; obj_init(e, 0); e->eng_d = d; return (mmd_engine *)e; }
bool mmd_engine_has_metadata(mmd_engine * e, size_t * end) {
	/* as the real function: *end is the end of the metadata block when there is one; when there is none it is set to 0 or LEFT AS IT WAS
	 * (read from mmd_engine_has_metadata: only the quick-reject path stores 0) */
	bool r; size_t off; ASSUME(off <= g_p0->eng.eng_d->currentStringLength); bool stores; if (r) { *end = off; } else { off = 0; if (stores) { *end = 0; } }
	if (g_p0->eng.eng_d == &g_p0->buf.d) { g_p0->strip_needed = r && off > 0; g_p0->meta_off = off; g_p0->strip_done = false; }      /* asked about the file just read */
	return r;
}
char * mmd_engine_metavalue_for_key(mmd_engine * e, const char * key) { bool has; return has ? str_fresh() : NULL; }
void mmd_engine_free(mmd_engine * e, bool freeDString) { ASSERT((dsobj *)e == &g_p0->eng, "the engine freed is the one created"); obj_release(&g_p0->eng); }

/* ------------------------------------------------------------------ libc string functions: content-free contracts */
char * strstr(const char * h, const char * nd) {
	ASSERT(__CPROVER_same_object(h, g_src->str), "(P) the search starts inside the document being expanded");
	size_t L = g_src->currentStringLength;
	ASSERT((size_t)h >= (size_t)g_src->str && (size_t)h - (size_t)g_src->str <= L, "(P) the search position is inside the string (0 <= position <= length)");
	size_t off = (size_t)h - (size_t)g_src->str;
	bool closer = nd[0] == '}';
	if (closer) {
		ASSERT(h == g_last, "the closing braces are searched from the opening braces");
	} else if (g_S->opened) {
		/* (R) where the search for the next marker resumes, given what happened to the previous one */
		size_t expect = g_S->ins ? g_S->open_off + g_S->ins_len : (g_S->toc ? g_S->stop_off : g_S->open_off + 2);
		ASSERT(!g_S->cand || g_S->any_eq || g_S->scanned, "(C) a marker whose path was resolved and is not one of the files being expanded is looked up in the file system (no reference is silently left unexpanded)");
		ASSERT(off == expect, "(R) the search resumes right after the inserted text (substituted marker), at the closing braces of {{TOC}}, or right after the opening braces of a marker left in place: no marker is skipped, no inserted text is rescanned");
	}
	bool found; size_t k;
	if (!found) { return NULL; }
	ASSUME(k <= L && (!closer || k >= 2) && off + k + 2 <= L);       /* a match lies inside the string; "}}" cannot overlap the "{{" it is searched from */
	if (!closer) {
		g_last = (char *)h + k;
		g_S->opened = true; g_S->open_off = off + k; g_S->ins = false; g_S->toc = false; g_S->cand = false;
	} else {
		g_S->stop_off = off + k;
	}
	return (char *)h + k;
}
char * strncpy(char * dst, const char * src, size_t n) {
	ASSERT(__CPROVER_w_ok(dst, n), "strncpy: destination has room");
	ASSERT(__CPROVER_same_object(src, g_src->str) && (size_t)src >= (size_t)g_src->str && (size_t)src - (size_t)g_src->str + n <= g_src->currentStringLength, "strncpy: the copied range lies inside the document");
	return dst;
}
int strncmp(const char * a, const char * b, size_t n) { int r; return r; }
int strcmp(const char * a, const char * b) {
	int r;
	if (!__CPROVER_same_object(a, g_p0) && a[0] == 'T' && a[1] == 'O' && a[2] == 'C' && a[3] == 0) { g_S->toc = (r == 0); }        /* strcmp("TOC", text): the literal is the first argument */
	if (g_stackp && g_peek_stack == g_stackp && r == 0) { g_S->any_eq = true; }        /* the candidate equals SOME file being expanded */
	/* which entry is b?  decided by where it was read from (the last stack_peek_index), not by its address */
	if (g_stackp && g_peek_stack == g_stackp && g_peek_idx == g_k && g_k < g_stackp->size && b == (const char *)g_stackp->element[g_k]) { if (r != 0) { g_hit = true; } else { g_eq = true; } }
	if (g_manifest && g_peek_stack == g_manifest && g_peek_idx == g_mk && g_mk < g_manifest->size && b == (const char *)g_manifest->element[g_mk]) { if (r != 0) { g_mhit = true; } else { g_meq = true; } }
	return r;
}
size_t strlen(const char * s) { ASSERT(s == g_p0->fp.d.str, "strlen of the candidate path"); return g_p0->fp.d.currentStringLength; }
char * strcpy(char * dst, const char * src) { ASSERT(src == g_p0->fp.d.str && __CPROVER_w_ok(dst, g_p0->fp.d.currentStringLength + 1), "strcpy: destination has room"); return dst; }

/* ------------------------------------------------------------------ the file system: the checkpoint */
DString * scan_file(const char * fname) {
	ASSERT(g_stackp->size >= 1 && (const char *)g_stackp->element[g_stackp->size - 1] == fname, "(G) the file about to be opened is the entry just pushed on the stack of files being expanded");
	ASSERT(!(g_k + 1 < g_stackp->size) || (g_hit && !g_eq), "(G) recursion guard: the path was compared with EVERY path already on the stack (ghost index) and differs from each -- a file is never expanded inside itself");
	g_S->scanned = true;
	bool exists;
	if (!exists) { return NULL; }
	obj_init(&g_p0->buf, DSMAX); g_p0->strip_needed = false; g_p0->strip_done = false;
	return &g_p0->buf.d;
}

/* ------------------------------------------------------------------ the contract
 * CBMC cannot take the history (__CPROVER_old) of a conditional expression, so the nullable arguments are split by configuration:
 *   -DWITH_MANIFEST : manifest != NULL (mmd_*_transclusion_manifest)      otherwise manifest == NULL (CLI)
 * The ghost indices are taken below the capacities (an index at or above the size makes the statement vacuous anyway). */
void mmd_transclude_source(DString * source, const char * search_path, const char * source_path, short format, stack * parsed, stack * manifest);
#ifdef WITH_MANIFEST
/* the manifest owns its strings: every entry is a private copy made by my_strdup (ghost: a pointer into g_copies) */
#define MAN_OWNS (g_mk >= manifest->size || __CPROVER_same_object(manifest->element[g_mk], g_copies))
#define PRE_MAN (manifest != NULL && manifest == g_manifest && ST_OK(manifest) && manifest != parsed && g_mk < (size_t)manifest->capacity \
	&& (parsed == NULL || manifest->element != parsed->element) && g_copy_next <= g_ncopies && MAN_OWNS)
#define POST_MAN (ST_OK(manifest) && manifest->size >= OLD(manifest->size) && manifest->capacity == OLD(manifest->capacity) && manifest->element == OLD(manifest->element) \
	&& (g_mk >= OLD(manifest->size) || manifest->element[g_mk] == OLD(manifest->element[g_mk])) && g_copy_next <= g_ncopies && MAN_OWNS)
#define FRAME_MAN , manifest->size, __CPROVER_object_whole(manifest->element), g_copy_next
#else
#define PRE_MAN (manifest == NULL && g_manifest == NULL)
#define POST_MAN 1
#define FRAME_MAN
#endif
#define PRE_COMMON (source != NULL && DS_OK(source) && POOL_OK(source) && source_path != NULL && __CPROVER_r_ok(source_path, 1) \
	&& (search_path == NULL || __CPROVER_r_ok(search_path, 1)) && PRE_MAN)
#define POST_COMMON (DS_OK(source) && source->str == OLD(source->str) && source->currentStringBufferSize == OLD(source->currentStringBufferSize) \
	&& POOL_OK(source)                          /* every object the call created was released */ \
	&& POST_MAN)
#define FRAME_T_MINE , g_S->open_off, g_S->stop_off, g_S->ins_len, g_S->opened, g_S->ins, g_S->toc, g_S->cand, g_S->any_eq, g_S->scanned
#define FRAME_T_THEIRS
#define POOL_OK(src) (!MINE(src) || (!g_p0->fp.live && !g_p0->buf.live && !g_p0->eng.live))
/* own pool + the pool of nested calls for the call under verification; only its own (opaque) pool for a nested call */
#define FRAME_POOLS __CPROVER_assigns(MINE(source): __CPROVER_object_whole(g_p0), __CPROVER_object_whole(g_p1) FRAME_T_MINE) \
	__CPROVER_assigns(THEIRS(source): __CPROVER_object_whole(g_p1) FRAME_T_THEIRS)
#define FRAME_COMMON source->currentStringLength, g_hit, g_eq, g_mhit, g_meq, g_last, g_peek_stack, g_peek_idx FRAME_MAN

/* one contract for both kinds of call.  parsed == NULL (the public entries: the function makes its own stack) or parsed == the stack of
 * files being expanded (what every recursive call passes).  __CPROVER_old cannot take a conditional expression and must not read
 * through NULL, so entry values of the stack are taken through the ghost selector g_st[parsed != NULL]: g_st[1] is the stack of files
 * being expanded (kept equal to g_stackp), g_st[0] an empty dummy stack. */
#define PST (g_st[parsed != NULL])
#define PRE_transclude (PRE_COMMON && g_st[0] == &g_nostack && g_st[1] == g_stackp \
	&& (parsed == NULL ? (g_stackp == NULL && g_k == 0) \
		: (parsed == g_stackp && ST_OK(parsed) && g_k < (size_t)parsed->capacity \
			&& (!(g_k + 1 < parsed->size) || (g_hit && !g_eq)))))                             /* (G) as a precondition of every nested expansion */
#define POST_transclude (POST_COMMON && (parsed == NULL || (ST_OK(parsed) && g_stackp == parsed && g_st[1] == parsed \
	&& parsed->size == OLD(PST->size) && parsed->capacity == OLD(PST->capacity) && parsed->element == OLD(PST->element) \
	&& (g_k >= parsed->size || parsed->element[g_k] == OLD(PST->element[g_k])))))           /* (S) */
CONTRACT(void, mmd_transclude_source, (DString * source, const char * search_path, const char * source_path, short format, stack * parsed, stack * manifest),
	PRE_transclude, POST_transclude,
	__CPROVER_assigns(FRAME_COMMON) __CPROVER_assigns(parsed != NULL: parsed->size, __CPROVER_object_whole(parsed->element)) __CPROVER_assigns(parsed == NULL: g_stackp, g_st[1]) FRAME_POOLS)

static stack * st_in(void) {
	stack * s = st_fresh(); size_t n; ASSUME(n <= (size_t)s->capacity); s->size = n; return s;
}
static DString * g_source; static const char * g_search_path, * g_source_path; static short g_format; static stack * g_man;
static void setup(stack * parsed) {
	/* the document of the call under verification has addressable bytes (the real code does pointer arithmetic on source->str; CBMC checks
	 * it against the object bounds); the nested precondition does not carry them -- strings have no bytes in this unit */
	IN(size_t, xs); ASSUME(xs <= DSMAX);
	dsobj * S = ALLOC(sizeof(dsobj) + xs); g_p0 = ALLOC(sizeof(pool)); g_p1 = ALLOC(sizeof(pool));
	g_S = S; S->live = false; obj_init(S, xs);
	g_p0->fp.live = false; g_p0->buf.live = false; g_p0->eng.live = false;
	g_source = &S->d;
#ifdef WITH_MANIFEST
	g_man = st_in();
	{ IN(size_t, nc); ASSUME(nc >= 1 && nc <= CAPMAX); g_ncopies = nc; g_copies = ALLOC(nc); IN(size_t, cn); ASSUME(cn <= nc); g_copy_next = cn; }
	{ IN(size_t, mk); IN(size_t, c); ASSUME(mk < (size_t)g_man->capacity && c < g_ncopies); g_mk = mk; g_man->element[mk] = g_copies + c; }     /* the entry the ghost index looks at is an owned copy */
#else
	g_man = NULL;
#endif
	g_peek_stack = NULL; g_peek_idx = 0;
	g_src = g_source; g_stackp = parsed; g_manifest = g_man; g_last = NULL;
	g_nostack.size = 0; g_nostack.capacity = 1; g_nostack.element = g_noelement; g_st[0] = &g_nostack; g_st[1] = parsed;
	{ IN(size_t, k); g_k = parsed ? k : 0; }
	if (parsed) { ASSUME(g_k < (size_t)parsed->capacity); parsed->element[g_k] = str_fresh(); }     /* the path of an enclosing file: some other string object */
	{ IN(bool, hit); g_hit = hit; } g_eq = false; g_mhit = false; g_meq = false;
	{ IN(short, fmt); g_format = fmt; } IN(bool, nosearch);
	g_search_path = nosearch ? NULL : str_fresh();
	g_source_path = str_fresh();
}
/* nested call (what the recursion passes) */
void h_nested(void) {
	stack * parsed = st_in(); setup(parsed);
	DString * source = g_source; const char * search_path = g_search_path, * source_path = g_source_path; short format = g_format; stack * manifest = g_man;
	CALLV(mmd_transclude_source(source, search_path, source_path, format, parsed, manifest), PRE_transclude, POST_transclude)
	REACH();
}
/* the public entries: (NULL, NULL) from the CLI, (NULL, manifest) from mmd_*_transclusion_manifest */
void h_top(void) {
	stack * parsed = NULL; setup(parsed);
	DString * source = g_source; const char * search_path = g_search_path, * source_path = g_source_path; short format = g_format; stack * manifest = g_man;
	CALLV(mmd_transclude_source(source, search_path, source_path, format, parsed, manifest), PRE_transclude, POST_transclude)
	REACH();
}
