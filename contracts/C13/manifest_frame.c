/* C13 / C05 -- the manifest QUERY does not touch the document: mmd_engine_transclusion_manifest (mmd.c, the real function; the real
 * d_string_new / d_string_free / stack_new) with mmd_transclude_source USED BY CONTRACT (its own contract is enforced in the
 * c13_rec_* units: it rewrites, erases from and inserts into the DString it is given, and pushes on the manifest it is given).
 *   ensures  mmd_transclude_source is called exactly once, with the manifest stack that is returned, no parse stack, and a source
 *            that is a COPY of the engine's text (a different DString object, a different buffer, the same bytes)
 *   ensures  e->dstr is the same object with the same buffer, the same length and the same bytes afterwards (frame: the query lists
 *            files, it does not expand the caller's document in place)
 * Bounded: source of at most SN symbolic bytes. */
#include "verif.h"
#include "d_string.h"
#include "libMultiMarkdown.h"
#include "stack.h"
#include "mmd.h"
#include "transclude.h"
#ifndef SN
#define SN 4
#endif
static mmd_engine * g_e; static int g_calls; static stack * g_manifest; static stack * g_parsed; static DString * g_given; static bool g_same_bytes; static size_t g_k;
static char g_copy[SN + 1];
void mmd_transclude_source(DString * source, const char * search_path, const char * source_path, short format, stack * parsed, stack * manifest) {
	g_calls++; g_given = source; g_manifest = manifest; g_parsed = parsed;
	ASSERT(source != NULL && source->str != NULL, "C13: the walk is given a source");
	ASSERT(source != g_e->dstr && source->str != g_e->dstr->str, "C13/C05: the manifest query walks a COPY of the document, never the engine's own text");
	g_same_bytes = true;
	for (size_t i = 0; i <= SN; i++) { if (i <= g_k && source->str[i] != g_copy[i]) { g_same_bytes = false; } }
	/* what the callee may do to its argument (contract: rewrites the buffer it is given) */
	for (size_t i = 0; i < SN; i++) { if (i < source->currentStringLength) { char c; source->str[i] = c; } }
}
void h_manifest_frame(void) {
	mmd_engine * e = ALLOC(sizeof(mmd_engine)); g_e = e;
	DString * ds = ALLOC(sizeof(DString)); char * src = ALLOC(SN + 1);
	IN(size_t, n); ASSUME(n <= SN);
	for (size_t i = 0; i < SN; i++) { char c; ASSUME(c != 0 || i >= n); src[i] = (i < n) ? c : 0; g_copy[i] = src[i]; }
	src[SN] = 0; g_copy[SN] = 0;
	ds->str = src; ds->currentStringLength = n; ds->currentStringBufferSize = SN + 1; e->dstr = ds;
	{ IN(size_t, k); ASSUME(k <= n); g_k = k; }
	char sp[2] = "d", fp[2] = "f";
	stack * m = mmd_engine_transclusion_manifest(e, sp, fp);
	ASSERT(m != NULL, "C13: a manifest stack is returned");
	ASSERT(g_calls == 1 && g_manifest == m && g_parsed == NULL, "C13: one walk, collecting into the returned manifest, with a fresh history");
	ASSERT(g_same_bytes, "C13: the copy that is walked has the document's bytes (ghost index: every prefix)");
	ASSERT(e->dstr == ds && ds->str == src && ds->currentStringLength == n && ds->currentStringBufferSize == SN + 1, "C05: the engine's DString object is untouched by the query");
	ASSERT(src[g_k] == g_copy[g_k], "C05: the engine's text is byte-for-byte unchanged by the query (ghost index)");
	stack_free(m);
	REACH();
}
