# ---------------------------------------------------------------- C13 transclusion
_C13_STUBS = ["scan_file is a ghost file system stub (C13/tr.c): NFILES files with symbolic path and content, any other path is missing",
              "mmd_engine_create_with_dstring/_has_metadata/_metavalue_for_key/_free are contract stubs: metadata end offset <= string length; no 'transclude base' override",
              NOFAIL]
_C13_REPO = ["transclude.c", "stack.c"]
U("c13_marker_buffer", ["C13", "C01"], "h_marker_buffer", ["C13/tr.c", "C13/file_tu.c"], _C13_REPO, plain=True, lib=("lib/libc_models.c",),
  defines=["-DDS_HAVOC", "-DKMARK=2"], kind="bounded",
  bounds={"markers per source<=": 2, "marker length and position": "any (source <= 2^20 bytes, symbolic)", "unwind": 8},
  cbmc_flags=["--unwind", "8", "--unwindset", "mmd_transclude_source:1,mmd_transclude_source.2:4", "--unwinding-assertions"], functions=["mmd_transclude_source"],
  callees={"strstr/strncpy": "contract models (C13/tr.c)", "d_string_*": "havoc stubs (DString by contract, C19)", "scan_file": "always missing", "path helpers (file.c), stack.c": "body",
           "strcmp/strncmp/strcpy/strpbrk": "CBMC built-in"},
  min_obligations=50, timeout=600, cost=30, assumptions=_C13_STUBS + ["every transcluded file is missing (no substitution) in this unit"])
_C13_SINK = ("lib/ds_sink.c", "lib/libc_models.c")
U("c13_wildcard", ["C13"], "h_wildcard", ["C13/tr.c", "C13/file_tu.c"], _C13_REPO, plain=True, lib=_C13_SINK,
  defines=["-DSINK_CAP=12", "-DRECORD_PATH"], kind="bounded", bounds={"source": "{{a.*}} (concrete)", "formats": "all 13 enumerators (symbolic)", "unwind": 12},
  cbmc_flags=["--unwind", "12", "--unwindset", "mmd_transclude_source:1,mmd_transclude_source.2:3", "--unwinding-assertions"], functions=["mmd_transclude_source"],
  callees={"d_string_*": "ghost sink", "scan_file": "ghost file system (records the requested path)", "path helpers (file.c), stack.c": "body", "libc": "byte-loop models / CBMC built-in"},
  min_obligations=50, timeout=600, cost=30, assumptions=_C13_STUBS)

PROPS["C13"] = {
    "level": "other",
    "explanation": "The first sentence of the property (termination on any include graph) is decided by the RECURSION CONTRACT of the real mmd_transclude_source (c13_rec_*: goto-instrument --dfcc --enforce-contract-rec, "
                   "loop contracts with variants on its three loops, no unwinding anywhere; string CONTENT abstracted so that one run covers every document, file system and include graph): "
                   "(G) a file is opened / expanded only after its path was compared with EVERY path on the stack of files being expanded and found different (ghost index; also the precondition of every nested call), "
                   "(S) the stack is restored on return, (T) the marker loop has a variant: the bytes after the search position strictly decrease, (R) the search resumes exactly after the inserted text / the opening braces of a marker left in place "
                   "(nothing skipped, nothing rescanned), (P) the search position stays inside the string, (M) a path enters the manifest only after it differed from EVERY manifest entry and existing entries are never changed, (C) a resolved marker that is not a file being expanded is looked up in the file system, (X) the metadata extent the engine reports for an included file is erased in full before the file is inserted, "
                   "every object created is released.  Four configurations (parsed NULL / non-NULL x manifest NULL / non-NULL), each in a quick variant (string lengths < 4096: labelled bounded) and a thorough variant (lengths < 2^32: proof). "
                   "Two bounded units on the real function with real path helpers complete it: c13_marker_buffer (text[1100] accesses for every marker position and length, >= 1000-byte marker skipped) and "
                   "c13_wildcard (for every output format {{a.*}} requests /a.html | /a.tex | /a.fodt | /a.* | /a.txt, a missing file leaves its marker).",
    "slice": "mmd_transclude_source (transclude.c); path_from_dir_base/split_path_file/is_separator/add_trailing_sep (file.c) and stack.c bodies in the two bounded units; mmd_engine_transclusion_manifest (walks a copy of the document)",
    "not_reached": "the substitution RESULT as bytes (content abstracted in the contract units; the second sentence of the property is reached only for the wildcard table, the marker cap and 'missing files leave their marker'); "
                   "metadata stripping content and 'transclude base' resolution (engine and path helpers are contract stubs); real file-system semantics; pointer staleness of start/stop after the DString grows (buffers do not move in the stubs)",
    "trusted_base": ["cbmc/goto-cc/goto-instrument 6.11.0 (DFCC, MiniSat2)", "content-free contract stubs of strstr/strcmp/strncmp/strncpy/strlen/strcpy, DString (lengths as in the C19 contracts), stack (C18 contracts), scan_file, mmd_engine_*, path helpers, my_strdup in C13/guard_rec.c",
                     "contract models of strstr/strncpy/strpbrk in C13/tr.c", "lib/ds_sink.c / havoc DString stubs (DString by contract, C19)"],
    "assumptions": _C13_STUBS,
}

# ---- recursion contract + loop contracts, content-free: guard, stack protocol, per-document termination, manifest
def _c13_loops(nested, man):
    inv0 = ("parse_stack == g_stackp && parse_stack != 0 && parse_stack->capacity >= 1 && parse_stack->capacity <= 1048576 && parse_stack->size <= (unsigned long)parse_stack->capacity"
            " && parse_stack->element == __CPROVER_loop_entry(parse_stack->element) && parse_stack->capacity == __CPROVER_loop_entry(parse_stack->capacity)"
            " && parse_stack->size == stack_depth"
            " && g_k < (unsigned long)parse_stack->capacity && (g_k >= stack_depth || parse_stack->element[g_k] == __CPROVER_loop_entry(parse_stack->element[g_k]))"
            " && !g_p0->fp.live && !g_p0->buf.live && !g_p0->eng.live"
            " && source->currentStringLength < source->currentStringBufferSize"
            " && (start == 0 || (__CPROVER_same_object(start, source->str) && start == g_last && (unsigned long)start >= (unsigned long)source->str"
            "     && (unsigned long)start - (unsigned long)source->str + 2 <= source->currentStringLength"
            "     && g_S->opened && !g_S->ins && !g_S->toc && !g_S->cand && g_S->open_off == (unsigned long)start - (unsigned long)source->str))")
    guard = {"match": r"for \(.*<\s*stack_depth", "vars": ["i@loop", "stack_depth", "temp"],
             "invariants": "i >= 0 && (unsigned long)i <= stack_depth && !g_eq && (!(g_k < (unsigned long)i) || g_hit) && g_mhit == __CPROVER_loop_entry(g_mhit) && g_meq == __CPROVER_loop_entry(g_meq)",
             "assigns": "i, temp, g_hit, g_eq, g_mhit, g_meq, g_peek_stack, g_peek_idx, g_S->any_eq", "decreases": "stack_depth - (unsigned long)i"}
    mani = {"match": r"for \(.*<\s*manifest->size", "vars": ["i@loop", "manifest", "temp", "add"],
            "invariants": "i >= 0 && (unsigned long)i <= manifest->size && (!add || !g_meq) && (!(add && g_mk < (unsigned long)i) || g_mhit) && g_hit == __CPROVER_loop_entry(g_hit) && g_eq == __CPROVER_loop_entry(g_eq)",
            "assigns": "i, temp, add, g_hit, g_eq, g_mhit, g_meq, g_peek_stack, g_peek_idx", "decreases": "manifest->size - (unsigned long)i"}
    marker = {"match": r"while \(start", "vars": ["source", "parse_stack", "stack_depth", "start", "stop", "last_match", "text", "file_path", "buffer", "temp", "e", "offset"],
              "invariants": inv0,
              "assigns": "start, stop, last_match, __CPROVER_object_whole(text), file_path, buffer, temp, e, offset, source->currentStringLength, __CPROVER_object_whole(g_p0), __CPROVER_object_whole(g_p1), g_S->open_off, g_S->stop_off, g_S->ins_len, g_S->opened, g_S->ins, g_S->toc, g_S->cand, g_S->any_eq, g_S->scanned, "
                         "g_hit, g_eq, g_mhit, g_meq, g_last, g_peek_stack, g_peek_idx, parse_stack->size, __CPROVER_object_whole(parse_stack->element)",
              "decreases": "start == 0 ? 0 : 1 + source->currentStringLength - ((unsigned long)start - (unsigned long)source->str)"}
    if man:
        marker["vars"].append("manifest")
        marker["invariants"] += (" && manifest->capacity == __CPROVER_loop_entry(manifest->capacity) && manifest->element == __CPROVER_loop_entry(manifest->element)"
                                 " && manifest->size <= (unsigned long)manifest->capacity && manifest->size >= __CPROVER_loop_entry(manifest->size)"
                                 " && g_mk < (unsigned long)manifest->capacity"
                                 " && (g_mk >= __CPROVER_loop_entry(manifest->size) || manifest->element[g_mk] == __CPROVER_loop_entry(manifest->element[g_mk]))"
                                 " && g_copy_next <= g_ncopies"
                                 " && (g_mk >= manifest->size || __CPROVER_same_object(manifest->element[g_mk], g_copies))")
        marker["assigns"] += ", manifest->size, __CPROVER_object_whole(manifest->element), g_copy_next"
    return {"mmd_transclude_source": [guard, mani, marker]}
_C13_KM = 2
for _n, _h, _nested, _m, _full in [(n, h, ne, m, f) for (n, h, ne) in (("nested", "h_nested", True), ("top", "h_top", False)) for m in (False, True) for f in (False, True)]:
    if True:
        U("c13_rec_" + _n + ("_manifest" if _m else "") + ("_full" if _full else ""), ["C13"], _h, ["C13/guard_rec.c"], ["transclude.c"], enforce="mmd_transclude_source", rec=True,
          loops=_c13_loops(_nested, _m), lib=(), kind=("proof" if _full else "bounded"), tier=("thorough" if _full else "quick"),
          defines=(["-DWITH_MANIFEST"] if _m else []) + ([] if _full else ["-DDSMAX=4096"]),
          bounds=({} if _full else {"string lengths <": 4096, "loops, recursion, stack depth, manifest size, number of markers": "unbounded (loop contracts with variants, recursion contract)"}), drop_bodies=["__CPROVER_file_local_transclude_c_my_strdup"],
          functions=["mmd_transclude_source"],
          callees={"recursive call": "its own contract (--enforce-contract-rec): requires checked at the call site",
                   "strstr/strcmp/strncmp/strncpy/strlen/strcpy": "content-free contract stubs (any result; strcmp records which stack / manifest entry it was given and what it answered)",
                   "d_string_*": "length-only contract stubs restating the C19 length arithmetic (erase, insert exact; append any length); objects come from a ghost arena",
                   "stack_new/push/pop/peek_index/free": "contract stubs (C18 contracts; capacity symbolic, growth abstracted)",
                   "my_strdup": "contract stub (fresh string); body removed from the compiled transclude.c object", "path_from_dir_base, split_path_file, is_separator, add_trailing_sep, scan_file, mmd_engine_*": "contract stubs (opaque objects; scan_file is the guard checkpoint)"},
          small=["-DDSMAX=40", "-DCAPMAX=3"], min_obligations=100, timeout=(2400 if _full else 600), cost=(400 if _full else 70),
          assumptions=["string contents abstracted: every comparison / search result is possible, so every document, file system and include graph is covered",
                       "stack and manifest hold at most 2^20 entries (int loop counters), string lengths at most 2^32, one candidate path, one file buffer and one engine alive at a time per activation (model capacity, asserted)",
                       "buffer growth (realloc inside d_string_insert / stack_push) is not modelled here: capacities are symbolic and executions that outgrow them are covered by a larger capacity; "
                       "strings have no bytes in this unit (safety of byte accesses is the marker-buffer unit's subject; here 'inside the string' is obligation (P) over offsets)", NOFAIL]
                      + ["my_strdup (static, strlen+malloc+strcpy) is replaced by a contract stub returning a fresh string: CBMC 6.11 DFCC forbids allocation inside a loop that carries a loop contract"])

# ---- path resolution (file.c): absolute base unchanged, relative base appended to the directory with exactly one separator
U("c13_path_from_dir_base", ["C13"], "h_path", ["C13/path.c"], ["file.c"], plain=True, lib=("lib/ds_sink.c", "lib/libc_models.c"), kind="bounded",
  defines=["-DSINK_CAP=12", "-DPN=3"], cbmc_flags=["--unwind", "14", "--unwinding-assertions"], bounds={"dir, base length<=": 3, "bytes": "full domain", "unwind": 14},
  functions=["path_from_dir_base", "add_trailing_sep", "is_separator", "my_strdup (file.c)"], callees={"d_string_*": "ghost sink", "strlen/strcpy": "byte-loop models"},
  min_obligations=10, timeout=300, cost=15, assumptions=[NOFAIL, "POSIX separator (the build's configuration)"])
U("c13_path_from_dir_base_null", ["C13"], "h_path_null", ["C13/path.c"], ["file.c"], plain=True, lib=("lib/ds_sink.c", "lib/libc_models.c"), kind="finite",
  defines=["-DSINK_CAP=12"], cbmc_flags=["--unwind", "14", "--unwinding-assertions"], functions=["path_from_dir_base"], min_obligations=1, timeout=120, cost=2)

# ---- the manifest query walks a copy: the engine's document is framed out
U("c13_manifest_query_frame", ["C13", "C05"], "h_manifest_frame", ["C13/manifest_frame.c"], ["mmd.c", "d_string.c", "stack.c"], plain=True, lib=(), kind="bounded",
  defines=["-DSN=4"], drop_bodies=[], cbmc_flags=["--unwind", "8", "--unwinding-assertions"], bounds={"source length<=": 4, "unwind": 8},
  pre_instrument=["--remove-function-body-regex", "^(?!mmd_engine_transclusion_manifest$|d_string_.*$|stack_.*$|ensureStringBufferCanHold$|h_manifest_frame$|mmd_transclude_source$|verif_.*$|__CPROVER.*$).*"],
  functions=["mmd_engine_transclusion_manifest", "d_string_new", "d_string_free", "stack_new", "stack_free"],
  callees={"mmd_transclude_source": "by contract (enforced in c13_rec_*): may rewrite the DString it is given, pushes on the manifest it is given"},
  min_obligations=10, timeout=300, cost=10, assumptions=[NOFAIL])

# ---- scan_file: a file that exists is read whole; empty != missing
U("c13_scan_file_reads_whole", ["C13", "C06"], "h_scan_file", ["C13/scan_file.c"], ["file.c"], plain=True, lib=("lib/ds_sink.c",), kind="bounded",
  defines=["-DFLMAX=5", "-DSINK_CAP=12"], cbmc_flags=["--unwind", "14", "--unwinding-assertions"], bounds={"file length<=": 5, "chunking": "any", "unwind": 14},
  functions=["scan_file"],
  callees={"fopen, fread, fclose": "contract stubs over a ghost file (any chunking)", "d_string_*": "executable specification lib/ds_sink.c (C19; the real d_string_append_c_array under a symbolic length from a 4096-byte chunk ran out of memory)", "strncmp": "CBMC built-in"},
  min_obligations=10, timeout=300, cost=20, assumptions=[NOFAIL, "POSIX branch of scan_file (the build's configuration)"])

# ---- stdin_buffer: the same contract as scan_file ("cat f | multimarkdown" sees what "multimarkdown f" sees; finding 37, fixed in /repo 69682d3)
U("c06_stdin_buffer_reads_whole", ["C06"], "h_scan_file", ["C13/scan_file.c"], ["file.c"], plain=True, lib=("lib/ds_sink.c",), kind="bounded",
  defines=["-DFLMAX=5", "-DSINK_CAP=12", "-DSTDIN"], cbmc_flags=["--unwind", "14", "--unwinding-assertions"], bounds={"input length<=": 5, "chunking": "any", "unwind": 14},
  functions=["stdin_buffer"],
  callees={"fread, fclose": "contract stubs over a ghost stream (any chunking)", "d_string_*": "executable specification lib/ds_sink.c (C19)", "strncmp": "CBMC built-in"},
  min_obligations=10, timeout=300, cost=20, assumptions=[NOFAIL])
