# ---------------------------------------------------------------- C13 transclusion
_C13_STUBS = ["scan_file is a ghost file system stub (C13/tr.c): NFILES files with symbolic path and content, any other path is missing",
              "mmd_engine_create_with_dstring/_has_metadata/_metavalue_for_key/_free are contract stubs: metadata end offset <= string length; no 'transclude base' override",
              NOFAIL]
_C13_REPO = ["transclude.c", "stack.c"]
U("c13_marker_buffer", ["C13", "C01"], "h_marker_buffer", ["C13/tr.c", "C13/file_tu.c"], _C13_REPO, plain=True, lib=("lib/libc_models.c",),
  defines=["-DDS_HAVOC", "-DKMARK=2"], kind="bounded",
  bounds={"markers per source<=": 2, "marker length and position": "any (source <= 2^20 bytes, symbolic)", "unwind": 8},
  cbmc_flags=["--unwind", "8", "--unwindset", "mmd_transclude_source:1,mmd_transclude_source.2:4", "--unwinding-assertions"], functions=["mmd_transclude_source"],
  callees={"strstr/strncpy": "contract models (C13/tr.c)", "d_string_*": "havoc stubs (DString by contract, C19)", "scan_file": "always missing", "path helpers (file.c), stack.c": "body",
           "strcmp/strncmp/strcpy/strpbrk": "CBMC built-in"},
  min_obligations=50, timeout=600, cost=30, assumptions=_C13_STUBS + ["every transcluded file is missing (no substitution) in this unit"])
_C13_SINK = ("lib/ds_sink.c", "lib/libc_models.c")
U("c13_wildcard", ["C13"], "h_wildcard", ["C13/tr.c", "C13/file_tu.c"], _C13_REPO, plain=True, lib=_C13_SINK,
  defines=["-DSINK_CAP=12", "-DRECORD_PATH"], kind="bounded", bounds={"source": "{{a.*}} (concrete)", "formats": "all 13 enumerators (symbolic)", "unwind": 12},
  cbmc_flags=["--unwind", "12", "--unwindset", "mmd_transclude_source:1,mmd_transclude_source.2:3", "--unwinding-assertions"], functions=["mmd_transclude_source"],
  callees={"d_string_*": "ghost sink", "scan_file": "ghost file system (records the requested path)", "path helpers (file.c), stack.c": "body", "libc": "byte-loop models / CBMC built-in"},
  min_obligations=50, timeout=600, cost=30, assumptions=_C13_STUBS)

PROPS["C13"] = {
    "level": "other",
    "explanation": "Two bounded units on the REAL mmd_transclude_source with the file system (scan_file) and the MMD engine stubbed: (1) c13_marker_buffer -- for every marker position and EVERY marker length (source up to 2^20 bytes, strstr/strncpy as contract models, <= 2 markers per source, every file missing) all accesses to text[1100] are in bounds, the >=1000-byte marker is skipped, the source is left untouched, the caller's parse stack is restored and no recursion happens; (2) c13_wildcard -- for every output format the marker {{a.*}} requests exactly /a.html (HTML, HTML+assets, EPUB), /a.tex (LaTeX, Beamer, Memoir), /a.fodt (ODT, FODT), /a.* (MMD), /a.txt (all others) and a missing file leaves its marker in place.",
    "slice": "mmd_transclude_source (transclude.c) with path_from_dir_base/split_path_file/is_separator/add_trailing_sep (file.c) and stack.c bodies",
    "not_reached": "recursion guard / termination on include graphs and the substitution result (a unit over a ghost file system with symbolic 1-marker documents was built, C13/tr.c h_graph, but CBMC runs out of 14 GB in propositional reduction even for one file; not registered); manifest de-duplication (symbolic choice between stacks makes CBMC's realloc model in stack_push intractable); metadata stripping and 'transclude base' (engine stubbed)",
    "trusted_base": ["cbmc/goto-cc 6.11.0 (MiniSat2)", "contract models of strstr/strncpy/strpbrk in C13/tr.c", "lib/ds_sink.c / havoc DString stubs (DString by contract, C19)"],
    "assumptions": _C13_STUBS,
}

# ---- recursion contract + loop contracts, content-free: guard, stack protocol, per-document termination, manifest
def _c13_loops(nested, man):
    inv0 = ("parse_stack == g_stackp && parse_stack != 0 && parse_stack->capacity >= 1 && parse_stack->capacity <= 1048576 && parse_stack->size <= (unsigned long)parse_stack->capacity"
            " && parse_stack->element == __CPROVER_loop_entry(parse_stack->element) && parse_stack->capacity == __CPROVER_loop_entry(parse_stack->capacity)"
            " && parse_stack->size == stack_depth"
            " && g_k < (unsigned long)parse_stack->capacity && (g_k >= stack_depth || parse_stack->element[g_k] == __CPROVER_loop_entry(parse_stack->element[g_k]))"
            " && !g_p0->fp.live && !g_p0->buf.live && !g_p0->eng.live"
            " && source->currentStringLength < source->currentStringBufferSize"
            " && (start == 0 || (__CPROVER_same_object(start, source->str) && start == g_last && (unsigned long)start >= (unsigned long)source->str"
            "     && (unsigned long)start - (unsigned long)source->str + 2 <= source->currentStringLength"
            "     && g_S->opened && !g_S->ins && !g_S->toc && g_S->open_off == (unsigned long)start - (unsigned long)source->str))")
    guard = {"match": r"for \(.*<\s*stack_depth", "vars": ["i@loop", "stack_depth", "temp"],
             "invariants": "i >= 0 && (unsigned long)i <= stack_depth && !g_eq && (!(g_k < (unsigned long)i) || g_hit) && g_mhit == __CPROVER_loop_entry(g_mhit) && g_meq == __CPROVER_loop_entry(g_meq)",
             "assigns": "i, temp, g_hit, g_eq, g_mhit, g_meq, g_peek_stack, g_peek_idx", "decreases": "stack_depth - (unsigned long)i"}
    mani = {"match": r"for \(.*<\s*manifest->size", "vars": ["i@loop", "manifest", "temp", "add"],
            "invariants": "i >= 0 && (unsigned long)i <= manifest->size && (!add || !g_meq) && (!(add && g_mk < (unsigned long)i) || g_mhit) && g_hit == __CPROVER_loop_entry(g_hit) && g_eq == __CPROVER_loop_entry(g_eq)",
            "assigns": "i, temp, add, g_hit, g_eq, g_mhit, g_meq, g_peek_stack, g_peek_idx", "decreases": "manifest->size - (unsigned long)i"}
    marker = {"match": r"while \(start", "vars": ["source", "parse_stack", "stack_depth", "start", "stop", "last_match", "text", "file_path", "buffer", "temp", "e", "offset"],
              "invariants": inv0,
              "assigns": "start, stop, last_match, __CPROVER_object_whole(text), file_path, buffer, temp, e, offset, source->currentStringLength, __CPROVER_object_whole(g_p0), __CPROVER_object_whole(g_p1), g_S->open_off, g_S->stop_off, g_S->ins_len, g_S->opened, g_S->ins, g_S->toc, "
                         "g_hit, g_eq, g_mhit, g_meq, g_last, g_peek_stack, g_peek_idx, parse_stack->size, __CPROVER_object_whole(parse_stack->element)",
              "decreases": "start == 0 ? 0 : 1 + source->currentStringLength - ((unsigned long)start - (unsigned long)source->str)"}
    if man:
        marker["vars"].append("manifest")
        marker["invariants"] += (" && manifest->capacity == __CPROVER_loop_entry(manifest->capacity) && manifest->element == __CPROVER_loop_entry(manifest->element)"
                                 " && manifest->size <= (unsigned long)manifest->capacity && manifest->size >= __CPROVER_loop_entry(manifest->size)"
                                 " && g_mk < (unsigned long)manifest->capacity"
                                 " && (g_mk >= __CPROVER_loop_entry(manifest->size) || manifest->element[g_mk] == __CPROVER_loop_entry(manifest->element[g_mk]))"
                                 " && g_copy_next <= g_ncopies"
                                 " && (g_mk >= manifest->size || __CPROVER_same_object(manifest->element[g_mk], g_copies))")
        marker["assigns"] += ", manifest->size, __CPROVER_object_whole(manifest->element), g_copy_next"
    return {"mmd_transclude_source": [guard, mani, marker]}
_C13_DBG = ["-DDSMAX=40", "-DCAPMAX=3"]
_C13_KM = 2
for _n, _h, _nested in (("nested", "h_nested", True), ("top", "h_top", False)):
    for _m in (False, True):
        U("c13_rec_" + _n + ("_manifest" if _m else ""), ["C13"], _h, ["C13/guard_rec.c"], ["transclude.c"], enforce="mmd_transclude_source", rec=True,
          loops=_c13_loops(_nested, _m), lib=(), kind="proof", defines=(["-DWITH_MANIFEST"] if _m else []) + _C13_DBG, drop_bodies=["__CPROVER_file_local_transclude_c_my_strdup"],
          functions=["mmd_transclude_source"],
          callees={"recursive call": "its own contract (--enforce-contract-rec): requires checked at the call site",
                   "strstr/strcmp/strncmp/strncpy/strlen/strcpy": "content-free contract stubs (any result; strcmp records which stack / manifest entry it was given and what it answered)",
                   "d_string_*": "length-only contract stubs restating the C19 length arithmetic (erase, insert exact; append any length); objects come from a ghost arena",
                   "stack_new/push/pop/peek_index/free": "contract stubs (C18 contracts; capacity symbolic, growth abstracted)",
                   "my_strdup": "contract stub (fresh string); body removed from the compiled transclude.c object", "path_from_dir_base, split_path_file, is_separator, add_trailing_sep, scan_file, mmd_engine_*": "contract stubs (opaque objects; scan_file is the guard checkpoint)"},
          small=["-DDSMAX=40", "-DCAPMAX=3"], min_obligations=100, timeout=900, cost=60,
          assumptions=["string contents abstracted: every comparison / search result is possible, so every document, file system and include graph is covered",
                       "stack and manifest hold at most 2^20 entries (int loop counters), string lengths at most 2^32, one candidate path, one file buffer and one engine alive at a time per activation (model capacity, asserted)",
                       "buffer growth (realloc inside d_string_insert / stack_push) is not modelled here: capacities are symbolic and executions that outgrow them are covered by a larger capacity; "
                       "strings have no bytes in this unit (safety of byte accesses is the marker-buffer unit's subject; here 'inside the string' is obligation (P) over offsets)", NOFAIL]
                      + ["my_strdup (static, strlen+malloc+strcpy) is replaced by a contract stub returning a fresh string: CBMC 6.11 DFCC forbids allocation inside a loop that carries a loop contract"])
