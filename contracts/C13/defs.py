# ---------------------------------------------------------------- C13 transclusion
_C13_STUBS = ["scan_file is a ghost file system stub (C13/tr.c): NFILES files with symbolic path and content, any other path is missing",
              "mmd_engine_create_with_dstring/_has_metadata/_metavalue_for_key/_free are contract stubs: metadata end offset <= string length; no 'transclude base' override",
              NOFAIL]
_C13_REPO = ["transclude.c", "stack.c"]
U("c13_marker_buffer", ["C13", "C01"], "h_marker_buffer", ["C13/tr.c", "C13/file_tu.c"], _C13_REPO, plain=True, lib=("lib/libc_models.c",),
  defines=["-DDS_HAVOC", "-DKMARK=3"], kind="bounded",
  bounds={"markers per source<=": 3, "marker length and position": "any (source <= 2^20 bytes, symbolic)", "unwind": 8},
  cbmc_flags=["--unwind", "8", "--unwindset", "mmd_transclude_source:1,mmd_transclude_source.2:5", "--unwinding-assertions"], functions=["mmd_transclude_source"],
  callees={"strstr/strncpy": "contract models (C13/tr.c)", "d_string_*": "havoc stubs (DString by contract, C19)", "scan_file": "always missing", "path helpers (file.c), stack.c": "body",
           "strcmp/strncmp/strcpy/strpbrk": "CBMC built-in"},
  min_obligations=50, timeout=600, cost=30, assumptions=_C13_STUBS + ["every transcluded file is missing (no substitution) in this unit"])
_C13_SINK = ("lib/ds_sink.c", "lib/libc_models.c")
U("c13_wildcard", ["C13"], "h_wildcard", ["C13/tr.c", "C13/file_tu.c"], _C13_REPO, plain=True, lib=_C13_SINK,
  defines=["-DSINK_CAP=12", "-DRECORD_PATH"], kind="bounded", bounds={"source": "{{a.*}} (concrete)", "formats": "all 13 enumerators (symbolic)", "unwind": 12},
  cbmc_flags=["--unwind", "12", "--unwindset", "mmd_transclude_source:1,mmd_transclude_source.2:3", "--unwinding-assertions"], functions=["mmd_transclude_source"],
  callees={"d_string_*": "ghost sink", "scan_file": "ghost file system (records the requested path)", "path helpers (file.c), stack.c": "body", "libc": "byte-loop models / CBMC built-in"},
  min_obligations=50, timeout=600, cost=30, assumptions=_C13_STUBS)
for _nf, _tier, _to in ((1, "quick", 600),):
    U("c13_graph_F%d" % _nf, ["C13", "C01"], "h_graph", ["C13/tr.c", "C13/file_tu.c"], _C13_REPO, plain=True, lib=_C13_SINK,
      defines=["-DSINK_CAP=9", "-DTRACK_ADVANCE", "-DSHAPED", "-DCONCRETE_GRAPH", "-DNFILES=%d" % _nf], kind="bounded", tier=_tier,
      bounds={"files": _nf, "file content": "{{x}} with x a symbolic byte (one marker per file)", "file path": "/p with p a symbolic byte",
              "top-level source": "c0{{x}}c1, three symbolic bytes", "recursion depth<=": "number of files (recursion unwinding assertion)", "unwind": 10},
      cbmc_flags=["--unwind", "10", "--unwindset", "mmd_transclude_source:%d,mmd_transclude_source.2:2,mmd_transclude_source.0:%d" % (_nf, _nf + 3), "--unwinding-assertions"], functions=["mmd_transclude_source"],
      callees={"d_string_*": "ghost sink", "scan_file": "ghost file system; asserts the recursion guard", "strstr": "byte-loop model + ghost variant check", "path helpers (file.c), stack.c": "body"},
      min_obligations=50, timeout=_to, cost=60, assumptions=_C13_STUBS + ["documents have no metadata block in this unit (engine stub answers 'no metadata')"])
