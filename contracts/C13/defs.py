# ---------------------------------------------------------------- C13 transclusion
_C13_STUBS = ["scan_file is a ghost file system stub (C13/tr.c): NFILES files with symbolic path and content, any other path is missing",
              "mmd_engine_create_with_dstring/_has_metadata/_metavalue_for_key/_free are contract stubs: metadata end offset <= string length; no 'transclude base' override",
              NOFAIL]
_C13_REPO = ["transclude.c", "stack.c"]
U("c13_marker_buffer", ["C13", "C01"], "h_marker_buffer", ["C13/tr.c", "C13/file_tu.c"], _C13_REPO, plain=True, lib=("lib/libc_models.c",),
  defines=["-DDS_HAVOC", "-DKMARK=2"], kind="bounded",
  bounds={"markers per source<=": 2, "marker length and position": "any (source <= 2^20 bytes, symbolic)", "unwind": 8},
  cbmc_flags=["--unwind", "8", "--unwindset", "mmd_transclude_source:1,mmd_transclude_source.2:4", "--unwinding-assertions"], functions=["mmd_transclude_source"],
  callees={"strstr/strncpy": "contract models (C13/tr.c)", "d_string_*": "havoc stubs (DString by contract, C19)", "scan_file": "always missing", "path helpers (file.c), stack.c": "body",
           "strcmp/strncmp/strcpy/strpbrk": "CBMC built-in"},
  min_obligations=50, timeout=600, cost=30, assumptions=_C13_STUBS + ["every transcluded file is missing (no substitution) in this unit"])
_C13_SINK = ("lib/ds_sink.c", "lib/libc_models.c")
U("c13_wildcard", ["C13"], "h_wildcard", ["C13/tr.c", "C13/file_tu.c"], _C13_REPO, plain=True, lib=_C13_SINK,
  defines=["-DSINK_CAP=12", "-DRECORD_PATH"], kind="bounded", bounds={"source": "{{a.*}} (concrete)", "formats": "all 13 enumerators (symbolic)", "unwind": 12},
  cbmc_flags=["--unwind", "12", "--unwindset", "mmd_transclude_source:1,mmd_transclude_source.2:3", "--unwinding-assertions"], functions=["mmd_transclude_source"],
  callees={"d_string_*": "ghost sink", "scan_file": "ghost file system (records the requested path)", "path helpers (file.c), stack.c": "body", "libc": "byte-loop models / CBMC built-in"},
  min_obligations=50, timeout=600, cost=30, assumptions=_C13_STUBS)

PROPS["C13"] = {
    "level": "other",
    "explanation": "Two bounded units on the REAL mmd_transclude_source with the file system (scan_file) and the MMD engine stubbed: (1) c13_marker_buffer -- for every marker position and EVERY marker length (source up to 2^20 bytes, strstr/strncpy as contract models, <= 2 markers per source, every file missing) all accesses to text[1100] are in bounds, the >=1000-byte marker is skipped, the source is left untouched, the caller's parse stack is restored and no recursion happens; (2) c13_wildcard -- for every output format the marker {{a.*}} requests exactly /a.html (HTML, HTML+assets, EPUB), /a.tex (LaTeX, Beamer, Memoir), /a.fodt (ODT, FODT), /a.* (MMD), /a.txt (all others) and a missing file leaves its marker in place.",
    "slice": "mmd_transclude_source (transclude.c) with path_from_dir_base/split_path_file/is_separator/add_trailing_sep (file.c) and stack.c bodies",
    "not_reached": "recursion guard / termination on include graphs and the substitution result (a unit over a ghost file system with symbolic 1-marker documents was built, C13/tr.c h_graph, but CBMC runs out of 14 GB in propositional reduction even for one file; not registered); manifest de-duplication (symbolic choice between stacks makes CBMC's realloc model in stack_push intractable); metadata stripping and 'transclude base' (engine stubbed)",
    "trusted_base": ["cbmc/goto-cc 6.11.0 (MiniSat2)", "contract models of strstr/strncpy/strpbrk in C13/tr.c", "lib/ds_sink.c / havoc DString stubs (DString by contract, C19)"],
    "assumptions": _C13_STUBS,
}
