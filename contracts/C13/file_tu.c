/* the real, unmodified /repo/src/file.c as its own translation unit (path_from_dir_base, split_path_file,
 * is_separator, add_trailing_sep keep their bodies).  Linked AFTER tr.c: tr.c's ghost-file-system stub of
 * scan_file is the callee (first definition wins at link time; the real scan_file does fopen/fread). */
#include "file.c"
