/* C13 -- path resolution: path_from_dir_base (file.c, the real function with the real add_trailing_sep / is_separator / my_strdup)
 * against the statement "resolved against the search path or the including file's 'transclude base'":
 *   base absolute (begins with a separator)            -> a copy of base, whatever dir is
 *   otherwise                                          -> dir, one separator unless dir already ends in one, then base
 *   dir == NULL and base == NULL                       -> NULL
 * for every dir / base of <= PN bytes (full byte domain).  DString by its specification (ghost sink). */
#include "verif.h"
#include "d_string.h"
#include "file.h"
#ifndef PN
#define PN 3
#endif
void h_path(void) {
	IN_ARR(char, dir, PN + 1); IN_ARR(char, base, PN + 1); IN(size_t, dl); IN(size_t, bl); IN(bool, has_base);
	ASSUME(dl <= PN && bl <= PN);
	for (size_t i = 0; i < PN + 1; i++) { if (i < dl) { ASSUME(dir[i] != 0); } if (i < bl) { ASSUME(base[i] != 0); } }
	dir[dl] = 0; base[bl] = 0;
	char * r = path_from_dir_base(dir, has_base ? base : NULL);
	ASSERT(r != NULL, "a directory is given: a path is returned");
	bool absolute = has_base && bl > 0 && base[0] == '/';
	size_t k; { IN(size_t, kk); k = kk; }                  /* ghost index: every byte of the result */
	if (absolute) {
		ASSERT(k > bl || r[k] == base[k], "an absolute base is returned unchanged (whatever the directory is)");
	} else {
		bool need_sep = (dl == 0) || dir[dl - 1] != '/';
		size_t pre = dl + (need_sep ? 1 : 0);
		size_t total = pre + (has_base ? bl : 0);
		if (k < dl) { ASSERT(r[k] == dir[k], "relative: the result starts with the directory"); }
		else if (k < pre) { ASSERT(r[k] == '/', "relative: exactly one separator is added when the directory does not end in one"); }
		else if (k < total) { ASSERT(r[k] == base[k - pre], "relative: then the base name"); }
		else if (k == total) { ASSERT(r[k] == 0, "relative: nothing else"); }
	}
	REACH();
}
void h_path_null(void) {
	ASSERT(path_from_dir_base(NULL, NULL) == NULL, "no directory and no base: NULL");
	REACH();
}
