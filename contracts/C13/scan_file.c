/* C13 / C06 -- scan_file (file.c, the real function; real d_string_new / d_string_append_c_array / d_string_erase): "a file that
 * exists is read whole" -- the transclusion step (and the CLI) substitute exactly what this function returns.
 * The C library's stream functions are used BY CONTRACT (stubs over a ghost file of FL <= FLMAX symbolic bytes): fopen fails or
 * yields the stream; fread delivers the next bytes (any chunking >= 1 byte while bytes remain, 0 at end of file); fclose counts.
 *   ensures  NULL iff the file cannot be opened -- an EMPTY file that exists yields an empty string, not NULL (a missing file and an
 *            empty file are different answers: `{{empty.txt}}` is replaced by nothing, `{{missing.txt}}` is left in place)
 *   ensures  the stream that was opened is closed exactly once
 *   ensures  the string returned is the file's bytes without its leading byte-order mark(s) (EF BB BF, then EF FF, then FF FE, each taken off once in that order), byte for byte
 *            (ghost index), with its length
 * Bounded: files of at most FLMAX bytes (full byte domain except NUL: the string model of C19). */
#include "verif.h"
#include <stdio.h>
#include "d_string.h"
#include "file.h"
#ifndef FLMAX
#define FLMAX 5
#endif
static char g_file[FLMAX + 1]; static size_t g_fl, g_pos; static FILE * g_stream; static bool g_open_fails; static unsigned g_opened, g_closed;
FILE * fopen(const char * name, const char * mode) { if (g_open_fails) { return NULL; } g_opened++; g_pos = 0; return g_stream; }
#ifdef STDIN      /* the same contract for stdin_buffer(): standard input is the stream, already open; "cat f | mmd" must see what "mmd f" sees (C06) */
#define READ() stdin_buffer()
#else
#define READ() scan_file(name)
#endif
size_t fread(void * ptr, size_t size, size_t nmemb, FILE * stream) {
	ASSERT(stream == g_stream && g_opened == 1 && g_closed == 0, "fread: on the open stream");
	ASSERT(size == 1 && __CPROVER_w_ok(ptr, nmemb), "fread: the chunk buffer has room for the bytes asked for");
	size_t rem = g_fl - g_pos; if (rem == 0) { return 0; }
	size_t k; ASSUME(k >= 1 && k <= rem && k <= nmemb);                      /* any chunking */
	for (size_t i = 0; i < FLMAX; i++) { if (i < k) { ((char *)ptr)[i] = g_file[g_pos + i]; } }
	g_pos += k;
	return k;
}
int fclose(FILE * stream) { ASSERT(stream == g_stream, "fclose: the stream that was opened"); g_closed++; return 0; }
int ferror(FILE * stream) { return 0; }
void h_scan_file(void) {
	g_stream = (FILE *)ALLOC(8);
	IN(size_t, fl); ASSUME(fl <= FLMAX); g_fl = fl;
	for (size_t i = 0; i < FLMAX; i++) { char c; ASSUME(c != 0); g_file[i] = (i < fl) ? c : 0; }
	g_file[FLMAX] = 0;
	{ IN(bool, f); g_open_fails = f; }
	char name[2] = "f";
#ifdef STDIN
	g_open_fails = false; stdin = g_stream; g_opened = 1;
#endif
	DString * r = READ(); (void)name;
	if (g_open_fails) {
		ASSERT(r == NULL && g_closed == 0, "C13: a file that cannot be opened yields NULL");
	} else {
		ASSERT(r != NULL, "C13: a file that exists yields a string -- also when it is empty");
		ASSERT(g_opened == 1 && g_closed == 1, "the stream is closed exactly once");
		/* byte-order marks are taken off the front one after the other, in the order UTF-8 (EF BB BF), then EF FF, then FF FE */
		size_t bom = 0;
		if (fl - bom >= 3 && (unsigned char)g_file[bom] == 0xef && (unsigned char)g_file[bom + 1] == 0xbb && (unsigned char)g_file[bom + 2] == 0xbf) { bom += 3; }
		if (fl - bom >= 2 && (unsigned char)g_file[bom] == 0xef && (unsigned char)g_file[bom + 1] == 0xff) { bom += 2; }
		if (fl - bom >= 2 && (unsigned char)g_file[bom] == 0xff && (unsigned char)g_file[bom + 1] == 0xfe) { bom += 2; }
		ASSERT(r->currentStringLength == fl - bom, "C13: the whole file is read (minus a leading byte-order mark)");
		IN(size_t, k); ASSUME(k <= fl - bom);
		ASSERT(r->str[k] == g_file[bom + k], "C13: byte for byte, terminator included (ghost index)");
	}
	REACH();
}
