/* C13 -- mmd_transclude_source (transclude.c), the REAL function, with the file system and the MMD engine
 * replaced by stubs:
 *   scan_file(path)            ghost file system: NFILES files (path string + content); returns a fresh
 *                              DString with the content, or NULL for any other path ("missing file")
 *   mmd_engine_create_with_dstring / _has_metadata / _metavalue_for_key / _free
 *                              contract stubs: metadata end offset is any offset <= the string's length;
 *                              "transclude base" is absent (unit-specific)
 *   path_from_dir_base, split_path_file, is_separator, add_trailing_sep   REAL bodies (file.c)
 *   stack_*                    REAL bodies (stack.c)
 *   DString                    ghost sink (lib/ds_sink.c) -- or, in the marker-buffer unit (-DDS_HAVOC),
 *                              length-free havoc stubs, because there the marker is up to 2^20 bytes long
 *   strstr/strncpy (marker-buffer unit): contract models (below); elsewhere byte-loop models.
 *
 * Units (see defs.py):
 *  h_marker_buffer  C01: the marker buffer text[1100] is never overrun, for EVERY marker length and position.
 *  h_graph          recursion guard, stack restored, search position advances, over every include graph on
 *                   NFILES files with symbolic contents (self-inclusion, cycles, missing files).
 *  h_wildcard       `.*` -> documented extension for every output format.                               */
#include "verif.h"
#include "d_string.h"
#include "stack.h"
#include "file.h"
#include "libMultiMarkdown.h"
#include "transclude.h"

/* ------------------------------------------------------------------ engine stubs (contract) */
struct mmd_engine_stub { DString * d; };
static bool g_meta_any;          /* unit switch: may documents have metadata? */
mmd_engine * mmd_engine_create_with_dstring(DString * d, unsigned long extensions) {
	struct mmd_engine_stub * e = malloc(sizeof(struct mmd_engine_stub));
	e->d = d;
	return (mmd_engine *) e;
}
bool mmd_engine_has_metadata(mmd_engine * e, size_t * end) {
	struct mmd_engine_stub * s = (struct mmd_engine_stub *) e;
	bool has; size_t off;     /* nondet */
	if (!g_meta_any || !has) { return false; }
	ASSUME(off <= s->d->currentStringLength);
	*end = off;
	return true;
}
char * mmd_engine_metavalue_for_key(mmd_engine * e, const char * key) { return NULL; }   /* no "transclude base" override */
void mmd_engine_free(mmd_engine * e, bool freeDString) { free(e); }

/* ------------------------------------------------------------------ ghost file system */
#ifndef NFILES
#define NFILES 2
#endif
#ifndef FB
#define FB 5               /* content bytes per file */
#endif
#ifndef PB
#define PB 3               /* path bytes, e.g. "/a" */
#endif
static char g_fpath[NFILES][PB + 1];
static char g_fdata[NFILES][FB + 1];
static stack * g_parsed;          /* ghost: the parse stack handed to the top-level call */
static size_t g_scan_calls;
static char g_last_path[10];      /* ghost: the path of the last scan_file request */
static size_t g_i, g_j;           /* ghost index pair */

/* strpbrk: byte-loop reference model (CBMC has no built-in body for it; split_path_file uses it) */
char * strpbrk(const char * s, const char * accept) {
	for (size_t i = 0; s[i] != 0; i++) {
		for (size_t j = 0; accept[j] != 0; j++) {
			if (s[i] == accept[j]) { return (char *) (s + i); }
		}
	}
	return NULL;
}

static bool s_eq(const char * a, const char * b) {
	size_t i = 0;
	while (a[i] != 0 && a[i] == b[i]) { i++; }
	return a[i] == b[i];
}

#ifndef DS_HAVOC
DString * scan_file(const char * fname) {
	g_scan_calls++;
#ifdef RECORD_PATH
	for (size_t i = 0; i < sizeof(g_last_path); i++) { g_last_path[i] = 0; }
	for (size_t i = 0; i + 1 < sizeof(g_last_path) && fname[i] != 0; i++) { g_last_path[i] = fname[i]; }
#endif
	if (g_parsed) {
		/* RECURSION GUARD (property: "a marker naming a file on the stack is skipped"): when a file is opened
		 * for expansion its path is on the parse stack exactly once -- the push just made -- and the stack
		 * entries are pairwise distinct, so the depth is bounded by the number of distinct paths. */
		size_t hits = 0;
		for (size_t i = 0; i < g_parsed->size; i++) { if (s_eq((const char *) g_parsed->element[i], fname)) { hits++; } }
		ASSERT(hits == 1, "recursion guard: the file being expanded is on the parse stack exactly once");
		ASSERT(g_i >= g_j || g_j >= g_parsed->size || !s_eq((const char *) g_parsed->element[g_i], (const char *) g_parsed->element[g_j]), "parse stack entries are pairwise distinct");
	}
	for (size_t f = 0; f < NFILES; f++) {
		if (s_eq(g_fpath[f], fname)) {
			ASSERT(g_parsed == NULL || g_parsed->size <= NFILES + 1, "expansion depth <= number of existing files (+1 for the top-level document)");
			return d_string_new(g_fdata[f]);
		}
	}
	return NULL;
}
#endif

/* ------------------------------------------------------------------ unit 1: marker buffer */
#ifdef DS_HAVOC
/* DString by contract, contents and lengths havocked: a fresh object of DSB bytes, NUL-terminated.  (What the
 * DString operations do is C19; this unit is about text[1100].) */
#define DSB 6
static DString * ds_fresh(void) {
	DString * d = malloc(sizeof(DString));
	d->str = malloc(DSB); d->currentStringBufferSize = DSB;
	size_t l; ASSUME(l < DSB); d->currentStringLength = l; d->str[l] = 0;
	return d;
}
static void ds_havoc(DString * d) { size_t l; ASSUME(l < DSB); d->currentStringLength = l; for (size_t i = 0; i < DSB; i++) { char v; d->str[i] = v; } d->str[l] = 0; }
static DString * g_src;    /* the source: never modified when every file is missing */
static bool g_src_touched;
DString * d_string_new(const char * s) { ASSERT(s == NULL || __CPROVER_r_ok(s, 1), "d_string_new: readable argument"); return ds_fresh(); }
char * d_string_free(DString * d, bool freeCharacterData) { char * r = d->str; if (freeCharacterData) { free(d->str); r = NULL; } free(d); return r; }
void d_string_append(DString * d, const char * s) { ASSERT(__CPROVER_r_ok(s, 1), "d_string_append: readable argument"); if (d == g_src) { g_src_touched = true; } else { ds_havoc(d); } }
void d_string_append_c(DString * d, char c) { if (d == g_src) { g_src_touched = true; } else { ds_havoc(d); } }
void d_string_erase(DString * d, size_t pos, size_t len) { if (d == g_src) { g_src_touched = true; } else { ds_havoc(d); } }
void d_string_insert(DString * d, size_t pos, const char * s) { if (d == g_src) { g_src_touched = true; } else { ds_havoc(d); } }
DString * scan_file(const char * fname) { ASSERT(__CPROVER_r_ok(fname, 1), "scan_file: readable path"); g_scan_calls++; return NULL; }   /* every file is missing */

/* strstr by contract, for the two 2-byte needles searched in the source: NULL, or a pointer to an occurrence
 * that lies inside the haystack's object before the source's terminating NUL.  At most KMARK non-NULL answers
 * (bounds the number of loop iterations of this unit). */
#ifndef KMARK
#define KMARK 3
#endif
static size_t g_strstr_hits;
char * strstr(const char * h, const char * nd) {
	ASSERT(__CPROVER_same_object(h, g_src->str) && __CPROVER_POINTER_OFFSET(h) <= g_src->currentStringLength, "strstr: haystack starts inside the source string");
	size_t rem = g_src->currentStringLength - __CPROVER_POINTER_OFFSET(h);
	bool found; size_t k;
	if (!found || g_strstr_hits >= 2 * KMARK || rem < 2) { return NULL; }
	g_strstr_hits++;
	ASSUME(k <= rem - 2);
	ASSUME(h[k] == nd[0] && h[k + 1] == nd[1]);
	if (nd[0] == '}') { ASSUME(k >= 2 || h[0] != '{' || h[1] != '{'); }   /* "}}" cannot begin inside the "{{" the search starts at */
	return (char *) h + k;
}
/* strncpy by contract: destination writable for n bytes, source readable; contents havocked */
char * strncpy(char * dst, const char * src, size_t n) {
	ASSERT(__CPROVER_w_ok(dst, n), "strncpy: destination has room for n bytes");
	ASSERT(__CPROVER_r_ok(src, n), "strncpy: n source bytes readable");
	if (n > 0) { __CPROVER_havoc_object(dst); }     /* over-approximation: the whole destination object is havocked */
	return dst;
}

#ifndef SRC_MAX
#define SRC_MAX (1UL << 20)
#endif
void h_marker_buffer(void) {
	IN(size_t, n); ASSUME(n <= SRC_MAX);
	DString * source = ALLOC(sizeof(DString));
	source->str = ALLOC(n + 1); source->currentStringBufferSize = n + 1; source->currentStringLength = n; source->str[n] = 0;
	g_src = source; g_src_touched = false; g_strstr_hits = 0; g_scan_calls = 0; g_meta_any = true; g_parsed = NULL;
	IN(short, format);
	/* caller-supplied parse stack (the CLI and the recursion pass one); manifest not requested.  (A symbolic choice between
	 * stacks of different capacity makes CBMC's realloc model in stack_push blow up: > 12 GB.) */
#ifdef NO_PARSED
	stack * parsed = NULL;
#else
	stack * parsed = stack_new(8);
#endif
	stack * manifest = NULL;
	size_t old = parsed ? parsed->size : 0;
	mmd_transclude_source(source, "/", "/m", format, parsed, manifest);
	ASSERT(!g_src_touched && source->currentStringLength == n, "missing files leave their marker in place (source untouched)");
	ASSERT(parsed == NULL || parsed->size == old, "parse stack restored");
	REACH();
}
#endif

/* ------------------------------------------------------------------ unit 2/3: include graphs */
#ifndef DS_HAVOC
#ifndef SRCB
#define SRCB 5
#endif
static DString * g_top;           /* ghost: the top-level source */
static size_t g_lastV; static bool g_haveV;
#ifdef TRACK_ADVANCE
/* strstr: byte-loop model + ghost check of the loop variant on the TOP-LEVEL source:
 * V = strlen(source) - search position decreases by >= 2 from one "{{" search to the next */
char * strstr(const char * h, const char * nd) {
	if (nd[0] == '{' && g_top != NULL && __CPROVER_same_object(h, g_top->str)) {
		size_t V = g_top->currentStringLength - __CPROVER_POINTER_OFFSET(h);
		ASSERT(__CPROVER_POINTER_OFFSET(h) <= g_top->currentStringLength, "search position stays inside the source");
		ASSERT(!g_haveV || V + 2 <= g_lastV, "search position strictly advances: strlen(source) - position shrinks by >= 2 per loop iteration");
		g_lastV = V; g_haveV = true;
	}
	if (nd[0] == 0) { return (char *) h; }
	for (size_t i = 0; h[i] != 0; i++) {
		size_t j = 0;
		while (nd[j] != 0 && h[i + j] == nd[j]) { j++; }
		if (nd[j] == 0) { return (char *) (h + i); }
	}
	return 0;
}
#endif

static void mk_fs(void) {
#ifdef SHAPED
	/* shaped documents: every file is "/<p>" with content "{{<x>}}", p and x symbolic bytes: every include graph with one
	 * marker per file (self-inclusion x==p, cycles, chains, missing targets).  Brace positions are concrete, which keeps
	 * CBMC's symbolic execution of the byte loops linear. */
	IN_ARR(char, fp, NFILES); IN_ARR(char, fx, NFILES);
	for (size_t f = 0; f < NFILES; f++) {
		ASSUME(fp[f] != 0 && fp[f] != '/' && fx[f] != 0 && fx[f] != '}' && fx[f] != '{');
#ifdef CONCRETE_GRAPH   /* file f is "/a"+f and includes file (f+1) mod NFILES: self-inclusion for NFILES==1, an NFILES-cycle otherwise */
		ASSUME(fp[f] == 'a' + (char) f && fx[f] == 'a' + (char) ((f + 1) % NFILES));
#endif
		g_fpath[f][0] = '/'; g_fpath[f][1] = fp[f]; g_fpath[f][2] = 0;
		g_fdata[f][0] = '{'; g_fdata[f][1] = '{'; g_fdata[f][2] = fx[f]; g_fdata[f][3] = '}'; g_fdata[f][4] = '}'; g_fdata[f][5] = 0;
	}
#else
	IN_ARR(char, fp, NFILES * (PB + 1)); IN_ARR(char, fd, NFILES * (FB + 1));
	for (size_t f = 0; f < NFILES; f++) {
		for (size_t i = 0; i <= PB; i++) { g_fpath[f][i] = (i < PB) ? fp[f * (PB + 1) + i] : 0; }
		for (size_t i = 0; i <= FB; i++) { g_fdata[f][i] = (i < FB) ? fd[f * (FB + 1) + i] : 0; }
	}
#endif
}

void h_graph(void) {
	mk_fs();
#ifdef SHAPED
	/* top-level source: <c0>{{<x>}}<c1> with three symbolic bytes (text before and after the marker) */
	IN(char, x0); IN(char, c0); IN(char, c1);
	ASSUME(x0 != 0 && x0 != '}' && x0 != '{' && c0 != 0 && c0 != '{' && c1 != 0 && c1 != '{');
#ifdef CONCRETE_GRAPH
	ASSUME(x0 == 'a' && c0 == '<' && c1 == '>');
#endif
	char src0[8] = { c0, '{', '{', x0, '}', '}', c1, 0 };
#else
	IN_ARR(char, sfill, SRCB);
	char src0[SRCB + 1];
	for (size_t i = 0; i < SRCB; i++) { src0[i] = sfill[i]; }
	src0[SRCB] = 0;
#endif
	DString * source = d_string_new(src0);
	{ IN(size_t, gi); IN(size_t, gj); g_i = gi; g_j = gj; }
	g_meta_any = false; g_scan_calls = 0; g_top = source; g_haveV = false;
	IN(short, format); ASSUME(format == FORMAT_MMD || format == FORMAT_HTML);
	stack * parsed = stack_new(8);   /* capacity never reached: CBMC's realloc model in stack_push is intractable */
	IN(bool, top_on_stack);
	char top_path[] = "/m";
	if (top_on_stack) { stack_push(parsed, top_path); }
	size_t old = parsed->size;
	void * old0 = parsed->element[0];
	g_parsed = parsed;
	mmd_transclude_source(source, "/", "/m", format, parsed, NULL);
	ASSERT(parsed->size == old, "parse stack restored on return (size)");
	ASSERT(old == 0 || parsed->element[0] == old0, "parse stack restored on return (entries below the old top unchanged)");
	ASSERT(source->str[source->currentStringLength] == 0, "result is a C string");
	REACH();
}

/* ------------------------------------------------------------------ unit 4: wildcard */
void h_wildcard(void) {
	for (size_t f = 0; f < NFILES; f++) { g_fpath[f][0] = 0; g_fdata[f][0] = 0; }    /* every file missing: only the request is observed */
	DString * source = d_string_new("{{a.*}}");
	g_meta_any = false; g_scan_calls = 0; g_parsed = NULL; g_top = NULL;
	IN(short, format); ASSUME(format >= FORMAT_HTML && format <= FORMAT_HTML_WITH_ASSETS);
	mmd_transclude_source(source, "/", "/m", format, NULL, NULL);
	const char * want =
		(format == FORMAT_MMD) ? "/a.*" :
		(format == FORMAT_HTML || format == FORMAT_HTML_WITH_ASSETS || format == FORMAT_EPUB) ? "/a.html" :
		(format == FORMAT_LATEX || format == FORMAT_BEAMER || format == FORMAT_MEMOIR) ? "/a.tex" :
		(format == FORMAT_FODT || format == FORMAT_ODT) ? "/a.fodt" : "/a.txt";
	ASSERT(g_scan_calls == 1, "exactly one file requested");
	ASSERT(s_eq(g_last_path, want), "wildcard .* mapped to the documented extension of the requested format");
	ASSERT(s_eq(source->str, "{{a.*}}"), "missing file leaves its marker in place");
	REACH();
}
#endif
