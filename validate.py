#!/opt/veriftools/pyvenv/bin/python
"""validates MANIFEST.json and every evidence/*.json against the schemas in /root/.vp (maintainer aid)"""
import json, glob, sys, jsonschema
ok = True
jsonschema.validate(json.load(open('/verif/MANIFEST.json')), json.load(open('/root/.vp/MANIFEST.schema.json')))
es = json.load(open('/root/.vp/EVIDENCE.schema.json'))
man = json.load(open('/verif/MANIFEST.json'))
claimed = {c['property_id'] for c in man['checks']}
for f in sorted(f for f in glob.glob('/verif/evidence/*.json') if not f.endswith('.partial.json')):
    ev = json.load(open(f))
    try:
        jsonschema.validate(ev, es)
        c = ev['coverage']
        flag = '' if ev['property_id'] in claimed else '  (NOT CLAIMED)'
        print('%-28s ok  level=%-6s obligations=%s discharged=%s units=%s+%s wall=%ss%s' % (f.split('/')[-1], ev['level'], c.get('obligations'), c.get('discharged'), c.get('units_proof'), c.get('units_bounded'), ev['wall_s'], flag))
        if ev['level'] == 'proof' and c.get('obligations') != c.get('discharged'):
            print('   !! proof level with undischarged obligations'); ok = False
    except Exception as e:
        print(f, 'INVALID', str(e)[:200]); ok = False
for p in claimed:
    if not glob.glob('/verif/evidence/%s.json' % p):
        print('missing evidence for', p); ok = False
sys.exit(0 if ok else 1)
